#!/usr/bin/env python3
"""run the repository's own test-suite, unedited, with a seeded patch applied, in a scratch worktree under /tmp
(never in /repo); prints and returns the pytest summary line.
usage: confirm_tests.py PATCH [PATCH...]   -> JSON {patch: summary}"""
import json, os, shutil, subprocess, sys, tempfile


def run(patch):
    patch = os.path.abspath(patch)
    wt = tempfile.mkdtemp(prefix="tjd_ts_", dir="/tmp")
    os.rmdir(wt)
    subprocess.run(["git", "-C", "/repo", "worktree", "add", "--detach", wt], check=True, capture_output=True)
    try:
        a = subprocess.run(["git", "-C", wt, "apply", patch], capture_output=True, text=True)
        if a.returncode != 0:
            return "patch does not apply: " + a.stderr[:200]
        r = subprocess.run(["/venv/bin/python", "-m", "pytest", "-q", "-p", "no:cacheprovider", "--timeout=900"],
                           cwd=wt, env={**os.environ, "PYTHONPATH": f"{wt}/src"}, capture_output=True, text=True)
        lines = [l for l in r.stdout.strip().splitlines() if l.strip()]
        return lines[-1] if lines else "no output"
    finally:
        subprocess.run(["git", "-C", "/repo", "worktree", "remove", "--force", wt], capture_output=True)
        shutil.rmtree(wt, ignore_errors=True)
        subprocess.run(["git", "-C", "/repo", "worktree", "prune"], capture_output=True)


if __name__ == "__main__":
    from concurrent.futures import ThreadPoolExecutor
    with ThreadPoolExecutor(6) as ex:
        out = dict(zip(sys.argv[1:], ex.map(run, sys.argv[1:])))
    print(json.dumps(out, indent=1))
