#!/usr/bin/env python3
"""keep a confirmed seeded change under /verif/seeded/<name>/ : patch.diff, demo.py, notes.md, meta.json
usage: keep_seeded.py NAME PROPERTY SRC_DIR SUFFIX "description" "needs" CHECK[,CHECK] [--missed "what was strengthened"]"""
import json, os, shutil, subprocess, sys
name, prop, src, suffix, desc, needs, checks = sys.argv[1:8]
missed = None
if len(sys.argv) > 8 and sys.argv[8] == "--missed":
    missed = sys.argv[9]
dst = f"/verif/seeded/{name}"
os.makedirs(dst, exist_ok=True)
shutil.copy(f"{src}/patch{suffix}.diff", f"{dst}/patch.diff")
shutil.copy(f"{src}/demo{suffix}.py", f"{dst}/demo.py")
if os.path.exists(f"{src}/notes.md"):
    shutil.copy(f"{src}/notes.md", f"{dst}/notes.md")
r = subprocess.run(["/verif/tools/seeded.py", f"{dst}/patch.diff", "--demo", f"{dst}/demo.py", *checks.split(",")],
                   capture_output=True, text=True)
res = json.loads(r.stdout)
sys.path.insert(0, "/verif/tools")
from confirm_tests import run as run_tests
tests = run_tests(f"{dst}/patch.diff")
meta = {"breaks_property": prop, "description": desc, "needs_to_manifest": needs,
        "origin": "independent sub-agent given only the property text and a scratch worktree of /repo",
        "confirmed": {"tests_pass_with_patch": tests + " (own run: tools/confirm_tests.py, scratch worktree under /tmp)",
                      "demo_exit_with_patch": res.get("demo_exit_with_patch"),
                      "demo_exit_clean_tree": res.get("demo_exit_clean")},
        "ran": f"tools/seeded.py seeded/{name}/patch.diff --demo seeded/{name}/demo.py {checks.replace(',', ' ')}",
        "checks": {c: {"exit": res[c]["exit"], "first_violation": res[c]["what"]} for c in checks.split(",")},
        "caught_by": [c for c in checks.split(",") if res[c]["exit"] == 1],
        "initially_missed": missed is not None}
if missed:
    meta["strengthening"] = missed
json.dump(meta, open(f"{dst}/meta.json", "w"), indent=1)
print(name, tests.split(" in ")[0], "caught_by", meta["caught_by"], "demo", res.get("demo_exit_with_patch"), res.get("demo_exit_clean"))
