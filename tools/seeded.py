#!/usr/bin/env python3
"""Run registered checks against a seeded change.
usage: seeded.py PATCH [--demo DEMO] CHECK [CHECK...]
Applies PATCH to /repo (git apply), runs each `./check C --tier quick` (real quick command, Lean gate on),
optionally runs the demonstration script, then restores /repo (git checkout -- .)."""
import json, os, subprocess, sys, time
args = sys.argv[1:]
patch = args.pop(0)
demo = None
if args and args[0] == "--demo":
    args.pop(0)
    demo = args.pop(0)
checks = args
assert subprocess.run(["git", "-C", "/repo", "status", "--porcelain"], capture_output=True, text=True).stdout.strip() == "", "/repo not clean"
r = subprocess.run(["git", "-C", "/repo", "apply", patch], capture_output=True, text=True)
if r.returncode != 0:
    print("PATCH DOES NOT APPLY:", r.stderr[:500]); sys.exit(2)
out = {}
try:
    if demo:
        d = subprocess.run(["/venv/bin/python", demo], capture_output=True, text=True, timeout=600)
        out["demo_exit_with_patch"] = d.returncode
    for c in checks:
        t0 = time.time()
        r = subprocess.run(["/verif/check", c, "--tier", "quick"], capture_output=True, text=True,
                           env=dict(os.environ, VERIF_SEED=os.environ.get("VERIF_SEED", "0")))
        lines = [l for l in r.stdout.splitlines() if l.startswith(("VIOLATION", "KNOWN"))]
        first_what = ""
        sl = r.stdout.splitlines()
        for i, l in enumerate(sl):
            if l.startswith("VIOLATION") and i + 1 < len(sl):
                first_what = sl[i + 1].strip()[:260]
                break
        out[c] = {"exit": r.returncode, "violations": len(lines), "first": (lines[0] if lines else ""), "what": first_what,
                  "wall_s": round(time.time() - t0, 1)}
finally:
    subprocess.run(["git", "-C", "/repo", "checkout", "--", "."])
if demo:
    d = subprocess.run(["/venv/bin/python", demo], capture_output=True, text=True, timeout=600)
    out["demo_exit_clean"] = d.returncode
print(json.dumps(out, indent=1))
