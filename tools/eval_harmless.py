#!/usr/bin/env python3
"""Behaviour-preserving rewrites must raise NO alarm.
usage: eval_harmless.py DIR   (DIR/hNN.diff)  -> applies each to /repo, runs ALL registered quick commands under several seeds, restores"""
import glob, json, os, subprocess, sys
from concurrent.futures import ThreadPoolExecutor
d = sys.argv[1]
seeds = [int(s) for s in os.environ.get("SEEDS", "0,1").split(",")]
ALL = [f"C{i:02d}" for i in range(1, 21)]


def sh(*a, **k):
    return subprocess.run(list(a), capture_output=True, text=True, **k)


def check(cs):
    c, s = cs
    r = sh("/verif/check", c, "--tier", "quick", env=dict(os.environ, VERIF_SEED=str(s)))
    what = ""
    sl = r.stdout.splitlines()
    for i, l in enumerate(sl):
        if l.startswith("VIOLATION") and i + 1 < len(sl):
            what = sl[i + 1].strip()[:400]
            break
    return (c, s), r.returncode, what


for patch in sorted(glob.glob(f"{d}/h*.diff")):
    assert sh("git", "-C", "/repo", "status", "--porcelain").stdout.strip() == "", "/repo not clean"
    a = sh("git", "-C", "/repo", "apply", patch)
    if a.returncode != 0:
        print(json.dumps({"patch": patch, "apply": a.stderr[:300]}), flush=True)
        continue
    try:
        with ThreadPoolExecutor(20) as ex:
            rs = list(ex.map(check, [(c, s) for s in seeds for c in ALL]))
    finally:
        sh("git", "-C", "/repo", "checkout", "--", ".")
        sh("git", "-C", "/repo", "clean", "-fdq", "src")
    alarms = {f"{c}@{s}": w for (c, s), rc, w in rs if rc == 1}
    infra = [f"{c}@{s}" for (c, s), rc, w in rs if rc == 2]
    print(json.dumps({"patch": os.path.basename(patch), "alarms": alarms, "infra": infra}), flush=True)
