#!/usr/bin/env python3
"""apply a textual mutation to /repo, run checks, revert.  usage: mut.py FILE 'old' 'new' CHECK [CHECK...]"""
import os, subprocess, sys
env = dict(os.environ, VERIF_DEV_SKIP_LEAN="1")
f, old, new, *checks = sys.argv[1:]
p = "/repo/" + f
s = open(p).read()
assert s.count(old) >= 1, "pattern not found"
open(p, "w").write(s.replace(old, new, 1))
try:
    for c in checks:
        r = subprocess.run(["/verif/check", c], capture_output=True, text=True, env=env)
        lines = [l for l in r.stdout.splitlines() if l.startswith(("VIOLATION", "[", "KNOWN"))]
        print(c, "exit", r.returncode, "|", " ; ".join(l[:150] for l in lines[:2] + lines[-1:]))
finally:
    subprocess.run(["git", "-C", "/repo", "checkout", "--", "."])
