#!/usr/bin/env python3
"""Evaluate seeded changes produced by a round of sub-agents.
usage: eval_round.py OUTDIR ID [ID...]      e.g. eval_round.py /tmp/s3out C07 C09
For each OUTDIR/ID/{patch.diff,patch2.diff} (+demo.py/demo2.py): demo on the clean tree, apply to /repo, demo, run ALL
registered quick checks in parallel (real commands, Lean gate on), restore /repo.  Prints one JSON line per patch and
appends it to OUTDIR/results.jsonl.  /repo must be clean; nothing else should use /repo meanwhile."""
import json, os, subprocess, sys, time
from concurrent.futures import ThreadPoolExecutor
out, ids = sys.argv[1], sys.argv[2:]
ALL = [f"C{i:02d}" for i in range(1, 21)]
PY = "/venv/bin/python"


def sh(*a, **k):
    return subprocess.run(list(a), capture_output=True, text=True, **k)


def check(c):
    t0 = time.time()
    r = sh("/verif/check", c, "--tier", "quick", env=dict(os.environ, VERIF_SEED=os.environ.get("VERIF_SEED", "0")))
    sl = r.stdout.splitlines()
    what = ""
    for i, l in enumerate(sl):
        if l.startswith("VIOLATION") and i + 1 < len(sl):
            what = sl[i + 1].strip()[:300]
            break
    return c, {"exit": r.returncode, "what": what, "wall": round(time.time() - t0, 1),
               "err": (r.stderr[-300:] if r.returncode == 2 else "")}


for pid in ids:
    for suf in ("", "2"):
        patch, demo = f"{out}/{pid}/patch{suf}.diff", f"{out}/{pid}/demo{suf}.py"
        if not os.path.exists(patch):
            continue
        assert sh("git", "-C", "/repo", "status", "--porcelain").stdout.strip() == "", "/repo not clean"
        res = {"id": f"{pid}{suf and '-2'}", "patch": patch}
        d0 = sh(PY, demo, timeout=900)
        res["demo_clean"] = d0.returncode
        a = sh("git", "-C", "/repo", "apply", patch)
        if a.returncode != 0:
            res["apply"] = a.stderr[:300]
            print(json.dumps(res), flush=True)
            continue
        try:
            d1 = sh(PY, demo, timeout=900)
            res["demo_patched"] = d1.returncode
            with ThreadPoolExecutor(20) as ex:
                rs = dict(ex.map(check, ALL))
        finally:
            sh("git", "-C", "/repo", "checkout", "--", ".")
            sh("git", "-C", "/repo", "clean", "-fdq", "src")
        res["caught_by"] = [c for c in ALL if rs[c]["exit"] == 1]
        res["infra"] = {c: rs[c]["err"] for c in ALL if rs[c]["exit"] == 2}
        res["own"] = rs[pid]
        res["what"] = {c: rs[c]["what"] for c in res["caught_by"]}
        print(json.dumps(res), flush=True)
        open(f"{out}/results.jsonl", "a").write(json.dumps(res) + "\n")
