#!/usr/bin/env python3
"""keep the seeded changes of a round under /verif/seeded/<ID>-<suffix>/ from the results of tools/eval_round.py
usage: keep_round.py OUTDIR RESULTS.jsonl SUFFIX1 SUFFIX2 FIRST_RESULTS.jsonl
  patch.diff -> <ID>-SUFFIX1, patch2.diff -> <ID>-SUFFIX2 ; runs the repository's test-suite on every patch (scratch worktrees)"""
import json, os, shutil, sys
sys.path.insert(0, "/verif/tools")
from confirm_tests import run as run_tests
from concurrent.futures import ThreadPoolExecutor
out, results, s1, s2, first = sys.argv[1:6]
res = [json.loads(l) for l in open(results)]
firstres = {}
if os.path.exists(first):
    for l in open(first):
        d = json.loads(l)
        firstres[d["id"]] = d
jobs = []
for d in res:
    pid = d["id"].split("-")[0]
    two = d["id"].endswith("-2")
    name = f"{pid}-{s2 if two else s1}"
    dst = f"/verif/seeded/{name}"
    os.makedirs(dst, exist_ok=True)
    shutil.copy(d["patch"], f"{dst}/patch.diff")
    shutil.copy(f"{out}/{pid}/demo{'2' if two else ''}.py", f"{dst}/demo.py")
    if os.path.exists(f"{out}/{pid}/notes.md"):
        shutil.copy(f"{out}/{pid}/notes.md", f"{dst}/notes.md")
    jobs.append((name, dst, d, pid))
with ThreadPoolExecutor(6) as ex:
    tests = list(ex.map(lambda j: run_tests(f"{j[1]}/patch.diff"), jobs))
for (name, dst, d, pid), t in zip(jobs, tests):
    f0 = firstres.get(d["id"], {})
    meta = {"breaks_property": pid, "round": 3,
            "origin": "independent sub-agent given only the property text and a scratch worktree of /repo",
            "description_and_needs": "see notes.md (the sub-agent's own description of the change and of what it needs to manifest)",
            "confirmed": {"tests_pass_with_patch": t + " (own run: tools/confirm_tests.py, scratch worktree under /tmp)",
                          "demo_exit_with_patch": d.get("demo_patched"), "demo_exit_clean_tree": d.get("demo_clean")},
            "ran": "tools/eval_round.py: patch applied to /repo, demo, ALL 20 registered quick commands (Lean gate on), /repo restored",
            "caught_by": d.get("caught_by"), "first_violation": d.get("what"),
            "caught_by_before_strengthening": f0.get("caught_by"),
            "initially_missed_by_own_check": (pid not in (f0.get("caught_by") or [])) if f0 else None}
    json.dump(meta, open(f"{dst}/meta.json", "w"), indent=1)
    print(name, t.split(" in ")[0], "caught_by", d.get("caught_by"), "before", f0.get("caught_by"))
