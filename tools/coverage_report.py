#!/venv/bin/python
"""Which lines and branches of /repo/src/torchjd are executed by the checks' correspondence runs?
usage: tools/coverage_report.py [--tier quick|thorough] [--run] [IDs...]
  --run   first runs `VERIF_COVERAGE=1 ./check Cxx --tier T` for the given (default: all) properties
Prints per-file coverage and every line / branch no check executes; writes out/cov/summary.json."""
import glob, json, os, subprocess, sys
from concurrent.futures import ThreadPoolExecutor
import coverage

VERIF = os.path.dirname(os.path.dirname(os.path.abspath(__file__)))
args = sys.argv[1:]
tier = "quick"
if "--tier" in args:
    i = args.index("--tier"); tier = args[i + 1]; del args[i:i + 2]
do_run = "--run" in args
args = [a for a in args if a != "--run"]
ids = args or [f"C{i:02d}" for i in range(1, 21)]
os.makedirs(f"{VERIF}/out/cov", exist_ok=True)
if do_run:
    def one(c):
        r = subprocess.run([f"{VERIF}/check", c, "--tier", tier], capture_output=True, text=True,
                           env=dict(os.environ, VERIF_COVERAGE="1"))
        return c, r.returncode
    with ThreadPoolExecutor(8) as ex:
        for c, rc in ex.map(one, ids):
            print(c, "exit", rc, flush=True)
files = [f for c in ids for f in glob.glob(f"{VERIF}/out/cov/.coverage.{c}.{tier}")]
comb = coverage.Coverage(data_file=f"{VERIF}/out/cov/.coverage.combined.{tier}", branch=True)
comb.combine(files, keep=True)
comb.save()
data = comb.get_data()
summary = {}
tot_s = tot_m = tot_b = tot_bm = 0
for f in sorted(data.measured_files()):
    an = comb._analyze(f)
    nums = an.numbers
    miss = sorted(an.missing)
    mb = an.missing_branch_arcs()
    rel = f.split("/src/")[-1]
    summary[rel] = {"statements": nums.n_statements, "missing_lines": miss, "branches": nums.n_branches,
                    "missing_branches": {str(k): v for k, v in sorted(mb.items())}}
    tot_s += nums.n_statements; tot_m += len(miss); tot_b += nums.n_branches; tot_bm += nums.n_missing_branches
    if miss or mb:
        print(f"{rel}: missing lines {miss} ; missing branches {dict(sorted(mb.items()))}")
# files never imported at all
import pathlib
src = pathlib.Path("/repo/src/torchjd")
seen = {f.split("/src/")[-1] for f in data.measured_files()}
for p in sorted(src.rglob("*.py")):
    rel = str(p).split("/src/")[-1]
    if rel not in seen:
        print(f"{rel}: NEVER IMPORTED")
print(f"TOTAL statements {tot_s} missing {tot_m} ({100*(tot_s-tot_m)/max(tot_s,1):.1f}% lines) ; branches {tot_b} missing {tot_bm}")
json.dump({"tier": tier, "checks": ids, "files": summary,
           "total": {"statements": tot_s, "missing": tot_m, "branches": tot_b, "missing_branches": tot_bm}},
          open(f"{VERIF}/out/cov/summary.{tier}.json", "w"), indent=1)
