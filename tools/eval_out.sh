#!/bin/bash
# usage: eval_out.sh DIR CHECK [CHECK...]  — evaluates patch.diff / patch2.diff of a mutation agent's output dir
d=$1; shift
for k in "" 2; do
  if [ -f $d/patch$k.diff ]; then
    /verif/tools/seeded.py $d/patch$k.diff --demo $d/demo$k.py "$@" 2>&1 | python3 -c "
import json,sys
try:
    d=json.load(sys.stdin); print('$(basename $d) patch$k', {k:(v if not isinstance(v,dict) else (v['exit'],v['what'][:90])) for k,v in d.items()})
except Exception as e: print('$(basename $d) patch$k ERROR', e)"
  fi
done
