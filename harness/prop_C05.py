"""C05 — with linear aggregators, Jacobian descent coincides with PyTorch autograd (twin graphs)."""
from __future__ import annotations

from fractions import Fraction

import torch

from autojac_common import fmt_grads, grads_of, make_agg, model_backward, rand_pre, real_backward, real_mtl, set_pre
from common import Ctx, sx
from progs import differentiable_nonleaves, numel, random_mtl, random_program
from prop_C01 import TRUSTED

from torchjd import backward, mtl_backward
from torchjd.aggregation import Constant, Mean, Sum


def canon(g, P):
    """None and all-zero are the same deposit (torchjd materialises zeros for unreachable inputs)"""
    return {k: ([Fraction(0)] * numel(P.nodes[k].shape) if v is None else v) for k, v in g.items()}


def split_w(P, tensors, w, dtype):
    out, off = [], 0
    for t in tensors:
        n = numel(P.nodes[t].shape)
        out.append(torch.tensor([float(x) for x in w[off:off + n]], dtype=dtype).reshape(P.nodes[t].shape))
        off += n
    return out


def weights_for(rng, m):
    r = rng.random()
    if r < 0.08:
        # tiny but non-zero weights (a loss on a 1e12 scale compensated by a 1e-12 weight): binary fractions, exact
        e = rng.choice([34, 40, 47])           # one common exponent: everything stays exact (a scaling by a power of two)
        return ("const", [Fraction(rng.choice([-3, -1, 1, 2, 5]), 2 ** e) for _ in range(m)])
    if r < 0.5:
        return ("const", [rng.randint(-6, 6) for _ in range(m)])      # negative and zero weights included
    if r < 0.8 or m not in (1, 2, 4, 8, 16):
        return ("sum",)
    return ("mean",)


def as_w(agg, m):
    if agg[0] == "const":
        return list(agg[1])
    if agg[0] == "sum":
        return [1] * m
    return [Fraction(1, m)] * m


def check_backward(ctx: Ctx):
    rng = ctx.rng
    P = random_program(rng)
    cands = differentiable_nonleaves(P)
    tensors = rng.sample(cands, min(len(cands), rng.choice([1, 2, 3])))
    m = sum(numel(P.nodes[t].shape) for t in tensors)
    good = [i for i in P.leaves() if P.nodes[i].rg]
    inputs = [i for i in good if rng.random() < 0.7] or good[:1]
    rng.shuffle(inputs)
    if rng.random() < 0.15:
        inputs = inputs + [rng.choice(inputs)]      # a tensor listed twice (tied weights collected module by module)
    agg = weights_for(rng, m)
    chunk = rng.choice([None, 1, 2, m + 1])
    pre = rand_pre(rng, P, P.leaves())
    if agg[0] == "const" and any(isinstance(x, Fraction) for x in agg[1]):
        pre = {k: None for k in P.leaves()}         # (tiny weights: a pre-existing .grad of size 1 would absorb them in float32)
    report = P.leaves()
    for dtype in ((torch.float64,) if P.big else (torch.float64, torch.float32)):
        kind = rng.choice(["list", "tuple", "gen", "iter"])      # `inputs: Iterable[Tensor]` (one-shot ones included)
        ctx.count("inputs_passed_as", kind)
        rerr, rg, _ = real_backward(P, dtype, tensors, inputs, agg, chunk, False, pre, report, inputs_kind=kind)
        # twin graph driven by torch.autograd
        ts = P.build(dtype)
        set_pre(P, ts, pre, dtype)
        torch.autograd.backward([ts[t] for t in tensors], grad_tensors=split_w(P, tensors, as_w(agg, m), dtype),
                                inputs=[ts[i] for i in inputs])
        tg = grads_of(ts, report)
        merr, mg, _ = model_backward(ctx.driver, P, tensors, list(dict.fromkeys(inputs)), agg, chunk, False, pre, report)
        ctx.case(("bw", tuple(P.describe()), sx([tensors, inputs, list(agg), chunk or "None"]), str(dtype)),
                 nontrivial=rerr is None,
                 sample={"program": P.describe(), "tensors": tensors, "inputs": inputs, "agg": str(agg),
                         "chunk": chunk, "dtype": str(dtype), "grads": fmt_grads(rg)})
        ctx.count("backward_agg", agg[0])
        rp = {"api": "backward", "program": P.describe(), "prog_sx": sx(P.to_sx()), "tensors": tensors,
              "inputs": inputs, "agg": str(agg), "chunk": chunk, "dtype": str(dtype), "pre": fmt_grads(pre),
              "torchjd": fmt_grads(rg), "torch_autograd": fmt_grads(tg), "model": fmt_grads(mg)}
        if rerr is not None or canon(rg, P) != canon(tg, P):
            ctx.violation(f"backward with {agg} leaves {fmt_grads(rg)} (err={rerr}) but torch.autograd.backward on "
                          f"a twin graph leaves {fmt_grads(tg)}", rp)
            return
        if merr is not None or canon(mg, P) != canon(tg, P):
            ctx.violation(f"Lean model disagrees with torch.autograd on a linear aggregator: {fmt_grads(mg)} vs "
                          f"{fmt_grads(tg)} — engine contract / model broken", rp, no_input=True)
            return


def check_mtl(ctx: Ctx):
    rng = ctx.rng
    M = random_mtl(rng)
    while M.nested_features():      # `features` must be a cut of the graph for the torch.autograd comparison
        M = random_mtl(rng)
    P = M.P
    T = len(M.losses)
    shared = sorted(P.reach_leaves(M.features))
    tasks = [list(tl) for tl in M.task_leaves]
    if rng.random() < 0.15:
        shared = []                  # frozen trunk: heads only
    agg = weights_for(rng, T)
    chunk = rng.choice([None, 1, 2])
    pre = rand_pre(rng, P, P.leaves())
    if agg[0] == "const" and any(isinstance(x, Fraction) for x in agg[1]):
        pre = {k: None for k in P.leaves()}
    report = P.leaves()
    dtype = torch.float64
    real_tasks = tasks
    if shared and len(shared) >= 2 and rng.random() < 0.25 and not M.multi_output_features():
        # Jacobian descent on a STRICT subset of the trunk's parameters (the weights but not the biases), the task
        # parameters left to their default: the un-listed trunk parameters belong to nobody and must be left alone
        shared = rng.sample(shared, rng.randint(1, len(shared) - 1))
        real_tasks = None
        ctx.count("mtl_partial_shared_default_tasks")
    rerr, rg, _ = real_mtl(P, dtype, M.losses, M.features, real_tasks, shared, agg, chunk, True, pre, report)
    ts = P.build(dtype)
    set_pre(P, ts, pre, dtype)
    w = as_w(agg, T)
    for i, l in enumerate(M.losses):
        if tasks[i]:
            ts[l].backward(inputs=[ts[p] for p in tasks[i]], retain_graph=True)
    if shared:
        torch.autograd.backward([ts[l] for l in M.losses],
                                grad_tensors=[torch.tensor(float(x), dtype=dtype) for x in w],
                                inputs=[ts[p] for p in shared], retain_graph=True)
    tg = grads_of(ts, report)
    ctx.case(("mtl", tuple(P.describe()), str(agg), chunk), nontrivial=rerr is None)
    ctx.count("mtl_agg", agg[0])
    if rerr is not None or canon(rg, P) != canon(tg, P):
        ctx.violation(f"mtl_backward with {agg} leaves {fmt_grads(rg)} (err={rerr}); loss_i.backward(inputs=task "
                      f"params) + torch.autograd.backward(losses, w, inputs=shared) leave {fmt_grads(tg)}",
                      {"api": "mtl_backward", "program": P.describe(), "prog_sx": sx(P.to_sx()), "losses": M.losses,
                       "features": M.features, "tasks": tasks, "shared": shared, "agg": str(agg), "chunk": chunk,
                       "pre": fmt_grads(pre), "torchjd": fmt_grads(rg), "torch_autograd": fmt_grads(tg)})


def check_mean_any_m(ctx: Ctx):
    """Mean() with a number of rows that is not a power of two: 1/m is not a binary fraction, so the comparison is no
    longer exact; the allowance is the rounding of the m-term sums in the working precision (nothing coarser)"""
    rng = ctx.rng
    for _ in range(8):
        P = random_program(rng)
        cands = differentiable_nonleaves(P)
        tensors = rng.sample(cands, min(len(cands), rng.choice([1, 2, 3])))
        m = sum(numel(P.nodes[t].shape) for t in tensors)
        if m not in (1, 2, 4, 8, 16, 32) and m <= 24 and not P.casts and not P.big:
            break       # (with a cast on the way the twin's cotangent 1/m would itself pass through single precision;
            #            with the 2^25+1 factor, paths of size 3e7 cancel INSIDE a Jacobian entry: the allowance below, built from
            #            the entries, would not cover the rounding of those paths)
    else:
        return
    good = [i for i in P.leaves() if P.nodes[i].rg]
    inputs = list(good)
    chunk = rng.choice([None, 1, 2, m + 1])
    pre = rand_pre(rng, P, P.leaves())
    report = P.leaves()
    none_pre = {k: None for k in report}
    merr, mg, _ = model_backward(ctx.driver, P, tensors, inputs, ("mean",), chunk, False, pre, report)
    if merr is not None:
        return
    absJ = {k: [Fraction(0)] * numel(P.nodes[k].shape) for k in report}
    for i in range(m):
        _, row, _ = model_backward(ctx.driver, P, tensors, inputs, ("const", [int(j == i) for j in range(m)]), None, False,
                                   none_pre, report)
        for k, v in canon(row, P).items():
            absJ[k] = [a + abs(b) for a, b in zip(absJ[k], v)]
    mg = canon(mg, P)
    for dtype in ((torch.float64,) if P.big else (torch.float64, torch.float32)):
        uu = Fraction(float(torch.finfo(dtype).eps))
        rerr, rg, _ = real_backward(P, dtype, tensors, inputs, ("mean",), chunk, False, pre, report)
        ts = P.build(dtype)
        set_pre(P, ts, pre, dtype)
        torch.autograd.backward([ts[t] for t in tensors], grad_tensors=split_w(P, tensors, [1.0 / m] * m, dtype),
                                inputs=[ts[i] for i in inputs])
        tg = canon(grads_of(ts, report), P)
        ctx.case(("bw-mean", tuple(P.describe()), sx([tensors, chunk or "None"]), str(dtype)), nontrivial=rerr is None)
        ctx.count("mean_rows_not_power_of_two", m)
        rp = {"api": "backward", "program": P.describe(), "prog_sx": sx(P.to_sx()), "tensors": tensors, "inputs": inputs,
              "agg": "Mean()", "rows": m, "chunk": chunk, "dtype": str(dtype), "pre": fmt_grads(pre)}
        if rerr is not None:
            ctx.violation(f"backward with Mean() over {m} rows raised {rerr}", rp)
            return
        rgc = canon(rg, P)
        for k in report:
            for j, (a, b, c) in enumerate(zip(rgc[k], mg[k], tg[k])):
                tol = 8 * uu * (absJ[k][j] / m * (m + 2) + abs(Fraction(pre[k][j]) if pre.get(k) is not None else 0))
                if abs(a - c) > 2 * tol and abs(a - b) <= tol:
                    # torchjd equals the exact gradient and torch.autograd on the twin does not: paths that cancel INSIDE a
                    # Jacobian entry (two leaves over one memory, a factor used twice) round differently under the 1/m
                    # cotangents of the twin — the allowance is built from the entries and cannot see them.  The exact
                    # model is the oracle; the twin's own rounding is not a finding.
                    ctx.count("twin_rounding_differs_from_exact")
                    continue
                if abs(a - b) > tol or abs(a - c) > 2 * tol:
                    ctx.violation(f"backward with Mean() over {m} rows leaves {float(a)!r} in leaf {k}[{j}]; the gradient of the "
                                  f"mean of the outputs is {float(b)!r} (torch.autograd on the twin: {float(c)!r}); allowance "
                                  f"{float(tol):.3e}", {**rp, "torchjd": fmt_grads(rg)})
                    return


def smooth_graph(rng, dtype=torch.float64):
    """P-float: a small smooth network built twice from the same values (twin graphs)"""
    shapes = [(3,), (2, 3), (), (2,)]
    vals = [torch.tensor([rng.uniform(-1.5, 1.5) for _ in range(max(1, numel(s)))], dtype=dtype).reshape(s)
            for s in shapes]
    plan = [rng.choice(["tanh", "exp", "softplus", "norm", "div", "sigmoid"]) for _ in range(3)]

    def build():
        x, W, b, v = [t.clone().requires_grad_(True) for t in vals]
        hcur = W @ x + b
        for op in plan:
            if op == "tanh":
                hcur = torch.tanh(hcur) * v
            elif op == "exp":
                hcur = torch.exp(hcur * 0.3) + x[:2]
            elif op == "softplus":
                hcur = torch.nn.functional.softplus(hcur) * b
            elif op == "norm":
                hcur = hcur / (1 + hcur.norm())
            elif op == "div":
                hcur = hcur / (2 + x.pow(2).sum())
            else:
                hcur = torch.sigmoid(hcur @ W) [:2] + hcur
        outs = [hcur, (hcur * v).sum(), x.pow(2).sum() * b]
        return [x, W, b, v], outs
    return build, plan


def check_smooth(ctx: Ctx):
    rng = ctx.rng
    build, plan = smooth_graph(rng)
    leaves, outs = build()
    m = sum(o.numel() for o in outs)
    w = [rng.uniform(-2, 2) for _ in range(m)]
    chunk = rng.choice([None, 1, 2, 3])
    hooked = rng.randrange(len(leaves)) if rng.random() < 0.4 else None
    if hooked is not None:
        leaves[hooked].register_hook(lambda g: g * 0.5)     # a gradient hook on a leaf acts once, as under torch.autograd
    try:
        backward(outs, Constant(torch.tensor(w, dtype=torch.float64)), inputs=leaves, parallel_chunk_size=chunk)
    except Exception as e:  # noqa: BLE001
        ctx.violation(f"smooth program {plan}: backward with Constant ({m} weights for {m} output scalars, chunk {chunk}) raised "
                      f"{type(e).__name__}: {str(e)[:200]}", {"api": "backward-smooth", "plan": plan, "weights": w, "chunk": chunk})
        return
    l2, o2 = build()
    if hooked is not None:
        l2[hooked].register_hook(lambda g: g * 0.5)
    gts, off = [], 0
    for o in o2:
        gts.append(torch.tensor(w[off:off + o.numel()], dtype=torch.float64).reshape(o.shape))
        off += o.numel()
    torch.autograd.backward(o2, grad_tensors=gts, inputs=l2)
    ctx.case(("smooth", tuple(plan), tuple(round(x, 6) for x in w[:3]), chunk), nontrivial=True)
    ctx.count("smooth_programs")
    for a, b in zip(leaves, l2):
        ga, gb = a.grad, (b.grad if b.grad is not None else torch.zeros_like(b))
        err = float((ga - gb).abs().max())
        scale = float(gb.abs().max()) + 1e-30
        if err > 1e-10 * max(1.0, scale):
            ctx.violation(f"smooth program {plan}: torchjd Constant deposit differs from torch.autograd by {err:.3e} "
                          f"(scale {scale:.3e})", {"api": "backward-smooth", "plan": plan, "weights": w,
                                                   "chunk": chunk, "torchjd": ga.tolist(), "torch": gb.tolist()})
            return


def check_top_of_range(ctx: Ctx):
    """finite derivatives near the top of the dtype's range (each gradient entry finite, their SUM over the Jacobian
    not): the linear aggregators must still leave exactly what torch.autograd leaves"""
    from torchjd import backward, mtl_backward
    from torchjd.aggregation import Constant, Mean, Sum
    rng = ctx.rng
    dtype = rng.choice([torch.float32, torch.float64])
    top = float(torch.finfo(dtype).max)
    k = rng.choice([2, 3, 4, 6])
    c = [top * rng.choice([0.3, 0.45, 0.6]) * rng.choice([1, 1, 1, -1]) for _ in range(k)]
    name, mk, w = rng.choice([("Sum", lambda: Sum(), [1.0] * k), ("Mean", lambda: Mean(), [1.0 / k] * k),
                              ("Constant", lambda: Constant(torch.tensor([1.0] + [0.5] * (k - 1), dtype=dtype)),
                               [1.0] + [0.5] * (k - 1))])
    api = rng.choice(["backward", "mtl_backward"])

    def build():
        x = torch.ones(k, dtype=dtype, requires_grad=True)
        cs = torch.tensor(c, dtype=dtype)
        return x, x * cs
    x, y = build()
    err = None
    try:
        if api == "backward":
            backward([y], mk(), parallel_chunk_size=rng.choice([None, 1, 2]))
        else:
            p = torch.ones(1, dtype=dtype, requires_grad=True)
            losses = [(y[i] * 1.0 + p.sum() * 0.0) for i in range(k)]
            mtl_backward(losses, [y], mk(), tasks_params=[[p]] * 1 + [[] for _ in range(k - 1)], shared_params=[x])
    except Exception as e:  # noqa: BLE001
        err = f"{type(e).__name__}: {e}"
    x2, y2 = build()
    torch.autograd.backward([y2], grad_tensors=[torch.tensor(w, dtype=dtype)])
    ctx.case(("top", api, name, k, str(dtype)), nontrivial=True)
    ctx.count("top_of_range", f"{api}/{name}")
    rp = {"api": api, "family": "top-of-range", "aggregator": name, "dtype": str(dtype), "diag_of_jacobian": c}
    if err is not None or x.grad is None or not torch.equal(x.grad, x2.grad):
        ctx.violation(f"{api} with {name} on a Jacobian diag({c}) of finite entries near the top of {dtype}: torchjd "
                      f"{'raised ' + err if err else 'left ' + str(None if x.grad is None else x.grad.tolist())}; "
                      f"torch.autograd leaves {x2.grad.tolist()}", rp)


def main(ctx: Ctx):
    ctx.lean_gate()
    n = 150 if ctx.tier == "quick" else 25000
    for i in range(n):
        check_backward(ctx)
        if i % 2 == 0:
            check_mtl(ctx)
        if i % 3 == 0:
            check_smooth(ctx)
            check_mean_any_m(ctx)
            check_top_of_range(ctx)
    return ctx.finish(
        rule="twin graphs: every P-int program is built twice from the same leaf values; one copy is driven by "
             "torchjd backward/mtl_backward with Constant(w) (negative and zero weights) / Sum / Mean, the twin by "
             "torch.autograd.backward(tensors, grad_tensors=w split per tensor, inputs=...) resp. "
             "loss_i.backward(inputs=task_params_i); .grad compared exactly (None == zeros) and with the Lean model; "
             "plus smooth P-float programs (tanh/exp/softplus/norm/div) compared to 1e-10 relative; inputs passed as list / "
             "tuple / generator / iterator; diagonal Jacobians with finite entries near the top of the dtype's range",
        trusted=TRUSTED + ["torch.autograd.backward is the oracle the property names"])
