"""C12 — default parameter discovery finds exactly the leaves that matter."""
from __future__ import annotations

import torch

from autojac_common import fmt_grads, grads_of, jac_dtype, make_agg, rand_pre, set_pre
from common import Ctx, classify_exc, field, sx
from progs import differentiable_nonleaves, numel, random_mtl, random_program, sibling_mtl
from prop_C01 import TRUSTED

from torchjd import backward, mtl_backward
try:      # private helper: used for a diagnostic tie only, the check must survive its renaming
    from torchjd.autojac._utils import _get_leaf_tensors
except ImportError:  # pragma: no cover
    _get_leaf_tensors = None


def extract_graph(ts):
    """the autograd graph as torchjd sees it: nodes, next_functions with output numbers, AccumulateGrad -> leaf"""
    ids, nodes, order = {}, [], []
    stack = [t.grad_fn for t in ts if t.grad_fn is not None]
    while stack:
        n = stack.pop()
        if n in ids:
            continue
        ids[n] = len(order)
        order.append(n)
        for c, _ in n.next_functions:
            if c is not None:
                stack.append(c)
    leaf_of = {}
    for n, i in ids.items():
        if type(n).__name__ == "AccumulateGrad":
            for k, t in enumerate(ts):
                if t is n.variable:
                    leaf_of[i] = k
    gsx = []
    for n in order:
        gsx.append([type(n).__name__ == "AccumulateGrad",
                    [("none" if c is None else [ids[c], nr]) for c, nr in n.next_functions]])
    return ids, leaf_of, gsx


def tensor_pair(ids, t):
    return [ids[t.grad_fn], t.output_nr]


def lean_sets(ctx, ids, leaf_of, gsx, ts, roots, excluded):
    rep = ctx.driver.ask(["leaves", ["graph", *gsx], ["roots", *[tensor_pair(ids, ts[r]) for r in roots]],
                          ["excluded", *[tensor_pair(ids, ts[e]) for e in excluded]]])
    bfs = sorted(leaf_of[int(x)] for x in field(rep, "bfs")[0])
    tl = sorted(leaf_of[int(x)] for x in field(rep, "tensorlevel")[0])
    return bfs, tl


def check_backward(ctx: Ctx, P):
    rng = ctx.rng
    cands = differentiable_nonleaves(P)
    tensors = rng.sample(cands, min(len(cands), rng.choice([1, 2, 3])))
    m = sum(numel(P.nodes[t].shape) for t in tensors)
    agg = ("const", [rng.randint(-5, 7) for _ in range(m)])
    pre = rand_pre(rng, P, P.leaves())
    report = P.leaves()
    ts = P.build(torch.float64)
    ids, leaf_of, gsx = extract_graph(ts)
    bfs, expected = lean_sets(ctx, ids, leaf_of, gsx, ts, tensors, [])
    impl = bfs if _get_leaf_tensors is None else sorted(
        k for k, t in enumerate(ts) if any(t is x for x in _get_leaf_tensors([ts[i] for i in tensors], set())))
    prog_level = sorted(P.reach_leaves(tensors))
    ctx.case(("bw", tuple(P.describe()), tuple(tensors)), nontrivial=len(expected) > 0,
             sample={"program": P.describe(), "tensors": tensors, "default_inputs": expected})
    ctx.count("backward_default_size", len(expected))
    rp = {"api": "backward", "program": P.describe(), "prog_sx": sx(P.to_sx()), "tensors": tensors,
          "expected_default_inputs": expected, "traversal_result": impl, "bfs_model": bfs}
    if expected != prog_level:
        ctx.violation(f"tensor-level reachability on the extracted torch graph {expected} differs from the program-"
                      f"level one {prog_level}: harness/model inconsistency", rp, no_input=True)
        return
    # property level: defaulted call == explicit call with the leaves the tensors were computed from
    set_pre(P, ts, pre, torch.float64)
    # the ways `tensors` may be handed over: a list, or one bare tensor (0-d included); and the ambient grad mode must
    # not matter (the graph already exists: torch.autograd differentiates it inside torch.no_grad() just the same)
    bare = len(tensors) == 1 and rng.random() < 0.5
    nograd = rng.random() < 0.2
    ctx.count("tensors_passed_as", "bare tensor" if bare else "list")
    ctx.count("inside_no_grad", nograd)
    rp.update({"tensors_passed_bare": bare, "inside_torch_no_grad": nograd})
    import contextlib
    mode = torch.no_grad if nograd else contextlib.nullcontext
    e1 = None
    try:
        with mode():
            backward(ts[tensors[0]] if bare else [ts[i] for i in tensors], make_agg(agg, jac_dtype(ts, expected, torch.float64)))
    except Exception as e:  # noqa: BLE001
        e1 = classify_exc(e)
    g1 = grads_of(ts, report)
    ts2 = P.build(torch.float64)
    set_pre(P, ts2, pre, torch.float64)
    e2 = None
    try:
        with mode():
            backward(ts2[tensors[0]] if bare else [ts2[i] for i in tensors], make_agg(agg, jac_dtype(ts2, expected, torch.float64)),
                     inputs=[ts2[i] for i in expected])
    except Exception as e:  # noqa: BLE001
        e2 = classify_exc(e)
    g2 = grads_of(ts2, report)
    if e1 != e2 or g1 != g2:
        ctx.violation(f"backward without inputs gives {fmt_grads(g1)} (err={e1}) but with inputs = the leaves "
                      f"requiring grad the tensors were computed from ({expected}) gives {fmt_grads(g2)} (err={e2})",
                      {**rp, "default": fmt_grads(g1), "explicit": fmt_grads(g2)})
        return
    if impl != bfs:
        ctx.violation(f"_get_leaf_tensors returns {impl}, BFS model returns {bfs}", rp, no_input=True)


def check_inplace_history(ctx: Ctx, P):
    """the graph under a tensor OBJECT is not immutable: after `y.mul_(q)` / `y.add_(q)` the same Python object has a
    new grad_fn and depends on one more leaf.  History: defaulted backward on y (retained graph), in-place edit of y
    by a fresh leaf q, defaulted backward on y again; a twin graph gets the same history with explicit inputs."""
    rng = ctx.rng
    cands = differentiable_nonleaves(P)
    y = rng.choice(cands)
    shape = P.nodes[y].shape
    m = numel(shape)
    agg1 = ("const", [rng.randint(-5, 7) for _ in range(m)])
    agg2 = ("const", [rng.randint(-5, 7) for _ in range(m)])
    qv = [float(rng.randint(-3, 4)) for _ in range(m)]
    kind = rng.choice(["mul_", "add_", "sub_"])
    q_rg = rng.random() < 0.8
    report = P.leaves()
    pre = rand_pre(rng, P, P.leaves())
    base = sorted(P.reach_leaves([y]))

    def run(explicit):
        ts = P.build(torch.float64)
        set_pre(P, ts, pre, torch.float64)
        q = torch.tensor(qv, dtype=torch.float64).reshape(shape).requires_grad_(q_rg)
        errs = []
        try:
            backward([ts[y]], make_agg(agg1, jac_dtype(ts, base, torch.float64)), retain_graph=True,
                     **({"inputs": [ts[i] for i in base]} if explicit else {}))
            errs.append(None)
        except Exception as e:  # noqa: BLE001
            errs.append(classify_exc(e))
        try:
            getattr(ts[y], kind)(q)
        except Exception as e:  # noqa: BLE001   (e.g. an in-place edit of a view autograd forbids: same on both twins)
            return ("inplace-refused", classify_exc(e)), None, None
        try:
            backward([ts[y]], make_agg(agg2, jac_dtype(ts, base, torch.float64)),
                     **({"inputs": [ts[i] for i in base] + ([q] if q_rg else [])} if explicit else {}))
            errs.append(None)
        except Exception as e:  # noqa: BLE001
            errs.append(classify_exc(e))
        qg = None if q.grad is None else [float(x) for x in q.grad.reshape(-1).tolist()]
        return errs, grads_of(ts, report), qg

    e1, g1, q1 = run(False)
    e2, g2, q2 = run(True)
    ctx.count("inplace_history", kind if g1 is not None else "refused by autograd")
    if g1 is None or g2 is None:
        return
    ctx.case(("inplace", tuple(P.describe()), y, kind, q_rg), nontrivial=True)
    if e1 != e2 or g1 != g2 or q1 != q2:
        ctx.violation(f"history backward(y) ; y.{kind}(q) ; backward(y) with defaulted inputs leaves {fmt_grads(g1)}, q.grad={q1} "
                      f"(errors {e1}); with inputs = the leaves y is computed from at each call ({base}, then + q) it leaves "
                      f"{fmt_grads(g2)}, q.grad={q2} (errors {e2})",
                      {"api": "backward", "history": f"backward(n{y}) ; n{y}.{kind}(q) ; backward(n{y})", "program": P.describe(),
                       "prog_sx": sx(P.to_sx()), "q": qv, "q_requires_grad": q_rg, "default": fmt_grads(g1), "explicit": fmt_grads(g2),
                       "q_grad_default": q1, "q_grad_explicit": q2})


def _gsig(ts):
    return [None if t.grad is None else (tuple(t.grad.shape), [float(v) for v in t.grad.reshape(-1).tolist()]) for t in ts]


def check_empty_leaf(ctx: Ctx):
    """a leaf with ZERO elements (shape (0,), (0,3), (2,0)) that requires grad is a leaf the tensors were computed from
    like any other: the defaulted call must treat it as the explicit one does (it receives an empty .grad; reached both
    through and around the features it makes the default sets overlap)"""
    from torchjd.aggregation import Constant
    rng = ctx.rng
    zshape = rng.choice([(0,), (0, 3), (2, 0)])
    k = rng.choice([2, 3])
    xv = [float(rng.randint(-3, 4)) for _ in range(k)]
    pv = [float(rng.randint(1, 4))]
    w = [float(rng.randint(-3, 5)) for _ in range(2)]
    api = rng.choice(["backward", "mtl-shared", "mtl-task", "mtl-overlap"])

    def build():
        x = torch.tensor(xv, dtype=torch.float64, requires_grad=True)
        z = torch.zeros(zshape, dtype=torch.float64, requires_grad=True)
        p = torch.tensor(pv, dtype=torch.float64, requires_grad=True)
        return x, z, p

    def run(explicit):
        x, z, p = build()
        A = Constant(torch.tensor(w, dtype=torch.float64))
        err = None
        try:
            if api == "backward":
                y = torch.stack([(x * x).sum() + z.sum(), x.sum() * 3 + (z * 2).sum()])
                backward([y], A, **({"inputs": [x, z]} if explicit else {}))
            else:
                f = x * 2 + (z.sum() if api in ("mtl-shared", "mtl-overlap") else 0.0)
                l1 = (f * p).sum() + (z.sum() * 5 if api in ("mtl-task", "mtl-overlap") else 0.0)
                l2 = f.sum()
                if explicit:
                    tp = [[p] + ([z] if api in ("mtl-task", "mtl-overlap") else []), []]
                    sp = [x] + ([z] if api in ("mtl-shared", "mtl-overlap") else [])
                    mtl_backward([l1, l2], [f], A, tasks_params=tp, shared_params=sp)
                else:
                    mtl_backward([l1, l2], [f], A)
        except Exception as e:  # noqa: BLE001
            err = classify_exc(e)
        return err, _gsig([x, z, p])

    e1, g1 = run(False)
    e2, g2 = run(True)
    ctx.case(("empty-leaf", api, zshape, tuple(xv), tuple(w)), nontrivial=True)
    ctx.count("empty_leaf", api)
    rp = {"api": api, "family": "zero-element leaf", "zero_element_leaf_shape": list(zshape), "x": xv, "p": pv, "weights": w,
          "default": [e1, str(g1)], "explicit": [e2, str(g2)]}
    if api == "mtl-overlap" and e1 is None:
        ctx.violation(f"a zero-element leaf of shape {zshape} is reached both through and around the features, but the "
                      f"defaulted mtl_backward call was accepted (the default parameter sets overlap)", rp)
        return
    if e1 != e2 or (e1 is None and g1 != g2):
        ctx.violation(f"{api}: with a zero-element leaf of shape {zshape} the defaulted call leaves (x, z, p).grad = {g1} "
                      f"(err={e1}); the explicit call with the leaves the tensors were computed from leaves {g2} (err={e2})", rp)


class _Tempered(torch.autograd.Function):
    """y = x * 2, keeping on its context an attribute called `variable` (a temperature leaf handed over in an options
    dict: NOT an input of the autograd node).  A custom Function's grad_fn is the context object itself."""

    @staticmethod
    def forward(ctx, x, opts):
        ctx.variable = opts["temperature"]
        return x * 2

    @staticmethod
    def backward(ctx, g):
        return g * 2, None


def check_custom_function(ctx: Ctx):
    """the leaves of a graph are the variables of its AccumulateGrad nodes — nothing else: a user-defined Function may keep
    anything on its context"""
    from torchjd.aggregation import Constant
    rng = ctx.rng
    xv = [float(rng.randint(-3, 4)) for _ in range(3)]
    w = [float(rng.randint(-3, 5)) for _ in range(2)]
    api = rng.choice(["backward", "mtl_backward"])

    def run(explicit):
        x = torch.tensor(xv, dtype=torch.float64, requires_grad=True)
        temp = torch.tensor(2.0, dtype=torch.float64, requires_grad=True)
        p = torch.tensor([1.5], dtype=torch.float64, requires_grad=True)
        f = _Tempered.apply(x * x, {"temperature": temp})
        A = Constant(torch.tensor(w, dtype=torch.float64))
        err = None
        try:
            if api == "backward":
                y = torch.stack([f.sum(), (f * f).sum()])
                backward([y], A, **({"inputs": [x]} if explicit else {}))
            else:
                l1, l2 = (f * p).sum(), f.sum()
                mtl_backward([l1, l2], [f], A, **({"tasks_params": [[p], []], "shared_params": [x]} if explicit else {}))
        except Exception as e:  # noqa: BLE001
            err = classify_exc(e)
        return err, _gsig([x, temp, p])

    e1, g1 = run(False)
    e2, g2 = run(True)
    ctx.case(("custom-fn", api, tuple(xv), tuple(w)), nontrivial=True)
    ctx.count("custom_function", api)
    if e1 != e2 or g1 != g2:
        ctx.violation(f"{api} on a graph with a user-defined autograd.Function that keeps a tensor on its context as `ctx.variable`: "
                      f"the defaulted call leaves (x, temperature, p).grad = {g1} (err={e1}); the explicit call with the leaves the "
                      f"tensors were computed from leaves {g2} (err={e2})",
                      {"api": api, "family": "custom Function with ctx.variable", "x": xv, "weights": w,
                       "default": [e1, str(g1)], "explicit": [e2, str(g2)]})


def check_mixed_history(ctx: Ctx, M):
    """two DEFAULTED calls on one retained graph, one through backward (nothing excluded) and one through mtl_backward
    (features excluded), in either order; the twin graph gets the same two calls with explicit parameter lists"""
    rng, P = ctx.rng, M.P
    T = len(M.losses)
    agg1 = ("const", [rng.randint(-5, 7) for _ in range(T)])
    agg2 = ("const", [rng.randint(-5, 7) for _ in range(T)])
    pre = rand_pre(rng, P, P.leaves())
    report = P.leaves()
    ts = P.build(torch.float64)
    ids, leaf_of, gsx = extract_graph(ts)
    _, shared = lean_sets(ctx, ids, leaf_of, gsx, ts, M.features, [])
    tasks = [lean_sets(ctx, ids, leaf_of, gsx, ts, [l], M.features)[1] for l in M.losses]
    _, all_leaves = lean_sets(ctx, ids, leaf_of, gsx, ts, list(dict.fromkeys(M.losses)), [])
    if set(shared) & {p for tp in tasks for p in tp} or len(set(M.losses)) < T:
        return
    order = rng.choice(["backward-then-mtl", "mtl-then-backward"])

    def run(tsx, explicit):
        set_pre(P, tsx, pre, torch.float64)
        errs = []
        for step in (order.split("-then-")):
            try:
                if step == "backward":
                    backward([tsx[i] for i in M.losses], make_agg(agg1, jac_dtype(tsx, all_leaves, torch.float64)), retain_graph=True,
                             **({"inputs": [tsx[i] for i in all_leaves]} if explicit else {}))
                else:
                    mtl_backward([tsx[i] for i in M.losses], [tsx[i] for i in M.features], make_agg(agg2, jac_dtype(tsx, shared, torch.float64)),
                                 retain_graph=True,
                                 **({"tasks_params": [[tsx[i] for i in t] for t in tasks],
                                     "shared_params": [tsx[i] for i in shared]} if explicit else {}))
                errs.append(None)
            except Exception as e:  # noqa: BLE001
                errs.append(classify_exc(e))
        return errs, grads_of(tsx, report)

    e1, g1 = run(ts, False)
    e2, g2 = run(P.build(torch.float64), True)
    ctx.case(("mixed", tuple(P.describe()), order), nontrivial=True)
    ctx.count("mixed_history", order)
    if e1 != e2 or g1 != g2:
        ctx.violation(f"history {order} on one retained graph with defaulted parameters leaves {fmt_grads(g1)} (errors {e1}); "
                      f"with the explicit lists (all leaves {all_leaves}; shared {shared}, tasks {tasks}) it leaves "
                      f"{fmt_grads(g2)} (errors {e2})",
                      {"api": "history", "order": order, "program": P.describe(), "prog_sx": sx(P.to_sx()), "features": M.features,
                       "losses": M.losses, "default": fmt_grads(g1), "explicit": fmt_grads(g2)})


def check_mtl(ctx: Ctx, M):
    rng, P = ctx.rng, M.P
    if rng.random() < 0.15:
        # the same loss tensor listed twice (two objectives that happen to coincide): two rows, two task groups
        M.losses = list(M.losses) + [rng.choice(M.losses)]
        ctx.count("mtl_duplicate_loss")
    T = len(M.losses)
    agg = ("const", [rng.randint(-5, 7) for _ in range(T)])
    pre = rand_pre(rng, P, P.leaves())
    report = P.leaves()
    ts = P.build(torch.float64)
    ids, leaf_of, gsx = extract_graph(ts)
    _, shared = lean_sets(ctx, ids, leaf_of, gsx, ts, M.features, [])
    tasks, tasks_bfs = [], []
    for l in M.losses:
        b, tl = lean_sets(ctx, ids, leaf_of, gsx, ts, [l], M.features)
        tasks.append(tl)
        tasks_bfs.append(b)
    overlap = bool(set(shared) & {p for tp in tasks for p in tp})
    which = rng.choice(["both", "shared", "tasks"])
    ctx.case(("mtl", tuple(P.describe()), which), nontrivial=True,
             sample={"program": P.describe(), "features": M.features, "losses": M.losses,
                     "default_shared": shared, "default_tasks": tasks, "overlap": overlap})
    ctx.count("mtl_default_overlap", overlap)
    ctx.count("mtl_defaulted", which)
    multi = any(tasks[i] != tasks_bfs[i] for i in range(T))
    ctx.count("node_vs_tensor_exclusion_differs", multi)
    rp = {"api": "mtl_backward", "program": P.describe(), "prog_sx": sx(P.to_sx()), "features": M.features,
          "losses": M.losses, "defaulted": which, "expected_shared": shared, "expected_tasks": tasks,
          "node_level_tasks": tasks_bfs}
    retain = True

    def call(tsx, tp, sp):
        set_pre(P, tsx, pre, torch.float64)
        try:
            mtl_backward([tsx[i] for i in M.losses], [tsx[i] for i in M.features], make_agg(agg, jac_dtype(tsx, shared, torch.float64)),
                         tasks_params=None if tp is None else [[tsx[i] for i in t] for t in tp],
                         shared_params=None if sp is None else [tsx[i] for i in sp], retain_graph=retain)
            return None, grads_of(tsx, report)
        except Exception as e:  # noqa: BLE001
            return classify_exc(e), grads_of(tsx, report)

    d_tp = None if which in ("both", "tasks") else tasks
    d_sp = None if which in ("both", "shared") else shared
    e1, g1 = call(ts, d_tp, d_sp)
    e2, g2 = call(P.build(torch.float64), tasks, shared)
    tag = "F4-multi-output-sibling" if multi else None
    if overlap and e1 is None:
        ctx.violation("the default parameter sets overlap (a leaf is reached both through and around the features) "
                      "but the defaulted mtl_backward call was accepted", {**rp, "default": fmt_grads(g1)}, tag=tag)
        return
    if (e1 is None) != (e2 is None) or (e1 is None and g1 != g2):
        ctx.violation(f"defaulted mtl_backward ({which}) gives {fmt_grads(g1)} (err={e1}); the explicit call with "
                      f"shared={shared}, tasks={tasks} gives {fmt_grads(g2)} (err={e2})",
                      {**rp, "default": fmt_grads(g1), "explicit": fmt_grads(g2)}, tag=tag)


def main(ctx: Ctx):
    ctx.lean_gate()
    n = 250 if ctx.tier == "quick" else 25000
    for i in range(n):
        check_backward(ctx, random_program(ctx.rng, p_norg=0.25))
        check_mtl(ctx, random_mtl(ctx.rng, heads_disjoint=(i % 2 == 0)))
        if i % 3 == 0:
            check_inplace_history(ctx, random_program(ctx.rng, p_norg=0.25))
            check_mixed_history(ctx, random_mtl(ctx.rng, heads_disjoint=True))
        if i % 4 == 0:
            check_empty_leaf(ctx)
        if i % 10 == 0:
            check_custom_function(ctx)
        if i % 5 == 0:
            check_mtl(ctx, sibling_mtl(ctx.rng))
    return ctx.finish(
        rule="random P-int programs / trunk-heads programs (diamonds, reuse, leaves not requiring grad, detach(), "
             "multi-output split/unbind, leaves reached both through and around the features); the real autograd graph "
             "is extracted (nodes, next_functions with output numbers) and handed to the Lean BFS / tensor-level "
             "reachability; defaulted call vs explicit call with the predicted sets on a twin graph: .grad of all "
             "leaves equal / both rejected; histories with an in-place edit of the differentiated tensor by a fresh leaf "
             "between two defaulted calls; backward and mtl_backward defaulted on one retained graph in either order; leaves "
             "with zero elements; _get_leaf_tensors vs Lean BFS model as diagnostic tie",
        trusted=TRUSTED)
