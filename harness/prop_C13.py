"""C13 — retain_graph means what it means in torch.autograd (liveness of the graph's saved buffers)."""
from __future__ import annotations

import torch

from autojac_common import as_count
from common import Ctx, classify_exc, field, sx
from progs import differentiable_nonleaves, numel, random_mtl, random_program
from prop_C01 import TRUSTED

from torchjd import backward, mtl_backward
from torchjd.aggregation import Sum

DT = torch.float64


def node_has_saved(fn):
    for a in dir(fn):
        if a.startswith("_saved_"):
            try:
                v = getattr(fn, a)
            except Exception:  # noqa: BLE001
                return True
            if isinstance(v, torch.Tensor):
                return True
            if isinstance(v, (list, tuple)) and any(isinstance(x, torch.Tensor) for x in v):
                return True
    return False


def extract(ts):
    ids, order = {}, []
    stack = [t.grad_fn for t in ts if t.grad_fn is not None]
    while stack:
        n = stack.pop()
        if n in ids:
            continue
        ids[n] = len(order)
        order.append(n)
        for c, _ in n.next_functions:
            if c is not None:
                stack.append(c)
    acc_of = {}
    for n, i in ids.items():
        if type(n).__name__ == "AccumulateGrad":
            for k, t in enumerate(ts):
                if t is n.variable:
                    acc_of[k] = i
    gsx = [[node_has_saved(n), [("none" if c is None else [ids[c], nr]) for c, nr in n.next_functions]]
           for n in order]
    return ids, acc_of, gsx


def target(ids, acc_of, ts, k):
    t = ts[k]
    if t.grad_fn is None:
        return [acc_of[k], 0] if k in acc_of else None
    return [ids[t.grad_fn], t.output_nr]


def targets(ids, acc_of, ts, ks):
    """graph edges at which the gradients w.r.t. the tensors `ks` are captured (a leaf that is not in the
    graph at all has none)"""
    return [t for t in (target(ids, acc_of, ts, k) for k in ks) if t is not None]


def attempt(fn):
    try:
        fn()
        return "ok"
    except Exception as e:  # noqa: BLE001
        return classify_exc(e)


def gen_history(ctx: Ctx, P, M):
    rng = ctx.rng
    rg_leaves = [i for i in P.leaves() if P.nodes[i].rg]
    nonleaf = differentiable_nonleaves(P)
    ops = []
    if M is not None and rng.random() < 0.35:
        # directed history: one mtl_backward that must free the trunk (for every chunk size), then a probe through the trunk
        shared = sorted(P.reach_leaves(M.features))
        if shared:
            ops.append(("mtl", False, rng.choice([1, 2, len(M.losses), None])))
            ops.append(("grad", rng.choice(M.features), rng.choice(shared), False))
            return ops
    for _ in range(rng.choice([2, 3, 3])):
        r = rng.random()
        if M is not None and r < 0.45:
            ops.append(("mtl", rng.random() < 0.5, rng.choice([None, 1, 2, len(M.losses)])))
        elif r < 0.75:
            cands = nonleaf if M is None else list(dict.fromkeys(M.losses + M.features))
            tensors = rng.sample(cands, min(len(cands), rng.choice([1, 2])))
            ins = [i for i in rg_leaves if rng.random() < 0.7] or rg_leaves[:1]
            m = sum(numel(P.nodes[t].shape) for t in tensors)
            ops.append(("backward", tensors, ins, rng.random() < 0.5, rng.choice([None, 1, 2, m + 1])))
        else:
            o = rng.choice(nonleaf)
            cand_in = [i for i in range(len(P.nodes)) if P.requires_grad(i) and i != o]
            i = rng.choice(cand_in)
            ops.append(("grad", o, i, rng.random() < 0.5))
    return ops


def run(ctx: Ctx, P, M):
    ops = gen_history(ctx, P, M)
    A = P.build(DT)
    B = P.build(DT)
    ids, acc_of, gsx = extract(A)
    if M is not None:
        shared = sorted(P.reach_leaves(M.features))
        tasks = [list(tl) for tl in M.task_leaves]
    mops = []
    for op in ops:
        if op[0] == "backward":
            _, tensors, ins, retain, chunk = op
            m = sum(numel(P.nodes[t].shape) for t in tensors)
            mops.append(["backward", [ids[A[t].grad_fn] for t in tensors], targets(ids, acc_of, A, ins), m,
                         "none" if chunk is None else chunk, retain])
        elif op[0] == "mtl":
            _, retain, chunk = op
            mops.append(["mtl", [[ids[A[l].grad_fn], targets(ids, acc_of, A, tp)]
                                 for l, tp in zip(M.losses, tasks)],
                         targets(ids, acc_of, A, M.features), targets(ids, acc_of, A, shared),
                         "none" if chunk is None else chunk, retain])
        else:
            _, o, i, retain = op
            mops.append(["grad", [ids[A[o].grad_fn]], targets(ids, acc_of, A, [i]), retain])
    mrep = ctx.driver.ask(["liveness", ["graph", *gsx], ["ops", *mops]])
    for step, (op, mr) in enumerate(zip(ops, mrep)):
        if op[0] == "backward":
            _, tensors, ins, retain, chunk = op
            ra = attempt(lambda: backward([A[t] for t in tensors], Sum(), inputs=[A[i] for i in ins],
                                          retain_graph=retain, parallel_chunk_size=as_count(chunk)))
            rb = attempt(lambda: torch.autograd.backward([B[t] for t in tensors],
                                                         grad_tensors=[torch.ones_like(B[t]) for t in tensors],
                                                         inputs=[B[i] for i in ins], retain_graph=retain))
        elif op[0] == "mtl":
            _, retain, chunk = op
            ra = attempt(lambda: mtl_backward([A[l] for l in M.losses], [A[f] for f in M.features], Sum(),
                                              tasks_params=[[A[p] for p in tp] for tp in tasks],
                                              shared_params=[A[s] for s in shared], retain_graph=retain,
                                              parallel_chunk_size=as_count(chunk)))
            allp = list(dict.fromkeys(shared + [p for tp in tasks for p in tp]))
            rb = attempt(lambda: torch.autograd.backward([B[l] for l in M.losses], inputs=[B[p] for p in allp],
                                                         retain_graph=retain)) if allp else "ok"
        else:
            _, o, i, retain = op
            ra = attempt(lambda: torch.autograd.grad(A[o], A[i], grad_outputs=torch.ones_like(A[o]),
                                                     retain_graph=retain, allow_unused=True))
            rb = attempt(lambda: torch.autograd.grad(B[o], B[i], grad_outputs=torch.ones_like(B[o]),
                                                     retain_graph=retain, allow_unused=True))
        mm = "ok" if (isinstance(mr, list) and mr[0] == "ok") else ("RuntimeError" if mr == "err" else mr)
        ctx.count("op", f"{op[0]}:{'retain' if op[-2 if op[0] != 'grad' else -1] else 'free'}")
        ctx.count("outcome", f"{op[0]}:{ra}")
        rp = {"program": P.describe(), "prog_sx": sx(P.to_sx()), "history": [str(o) for o in ops], "step": step,
              "torchjd_graph": ra, "torch_twin": rb, "model": mm,
              "mtl": None if M is None else {"losses": M.losses, "features": M.features, "tasks": tasks, "shared": shared}}
        if ra != rb:
            ctx.violation(f"step {step} {op}: on the torchjd-driven graph the call gives {ra}, on the twin graph driven "
                          f"by torch.autograd.backward(..., retain_graph, inputs) it gives {rb}", rp)
            return ops
        if mm != ra:
            ctx.violation(f"step {step} {op}: implementation {ra}, liveness model {mm}", rp,
                          no_input=False)
            return ops
        if ra != "ok":
            break
    return ops


def many_rows(ctx: Ctx):
    """retain_graph means the same whatever the number of rows: a graph with saved tensors, m in {65, 100, 130, 200}
    rows, one call with retain_graph=False (must succeed, like torch.autograd.backward on the twin), then a probe through
    the graph (must fail on both), resp. retain_graph=True then a second identical call (must succeed on both)"""
    rng = ctx.rng
    m = rng.choice([65, 100, 130, 200])
    chunk = rng.choice([None, None, 64, 128, m])
    retain = rng.random() < 0.4
    api = rng.choice(["backward", "mtl_backward"])
    xv = [float(rng.randint(1, 3)) for _ in range(4)]

    def build():
        x = torch.tensor(xv, dtype=torch.float64, requires_grad=True)
        h = (x * x).repeat((m + 3) // 4)[:m]                 # MulBackward saves x
        if api == "backward":
            return x, None, h * h, None
        f = x * x
        losses = [(f * f).sum() * float(i + 1) for i in range(m)]
        return x, f, None, losses
    xa, fa, ya, la = build()
    xb, fb, yb, lb = build()
    if api == "backward":
        ra = attempt(lambda: backward([ya], Sum(), inputs=[xa], retain_graph=retain, parallel_chunk_size=as_count(chunk)))
        rb = attempt(lambda: torch.autograd.backward([yb], grad_tensors=[torch.ones_like(yb)], inputs=[xb], retain_graph=retain))
        pa = attempt(lambda: torch.autograd.grad(ya.sum(), xa, retain_graph=True))
        pb = attempt(lambda: torch.autograd.grad(yb.sum(), xb, retain_graph=True))
    else:
        ra = attempt(lambda: mtl_backward(la, [fa], Sum(), tasks_params=[[] for _ in la], shared_params=[xa],
                                          retain_graph=retain, parallel_chunk_size=as_count(chunk)))
        rb = attempt(lambda: torch.autograd.backward(lb, inputs=[xb], retain_graph=retain))
        pa = attempt(lambda: torch.autograd.grad(la[0], xa, retain_graph=True))
        pb = attempt(lambda: torch.autograd.grad(lb[0], xb, retain_graph=True))
    ctx.case(("many-rows", api, m, chunk, retain), nontrivial=True)
    ctx.count("many_rows", f"{api}:{'retain' if retain else 'free'}")
    rp = {"family": "many rows", "api": api, "rows": m, "chunk": chunk, "retain_graph": retain, "torchjd_graph": [ra, pa],
          "torch_twin": [rb, pb]}
    if ra != rb or pa != pb:
        ctx.violation(f"{api} on {m} rows (chunk {chunk}, retain_graph={retain}): call / follow-up probe give {ra} / {pa} on the "
                      f"torchjd-driven graph and {rb} / {pb} on the twin driven by torch.autograd.backward", rp)


def head_local(ctx: Ctx):
    """heads with a sub-expression that depends on a task parameter ONLY and saves tensors (uncertainty weighting:
    exp(-s_i) * loss_i + s_i): after mtl_backward(retain_graph=False) every node of every head is released — also those
    that lead to a task parameter but not to the features, and those of the first tasks as much as those of the last —
    exactly as after torch.autograd.backward(losses) on the twin; follow-up probes stay inside the heads"""
    rng = ctx.rng
    T = rng.choice([2, 3])
    retain = rng.random() < 0.3
    chunk = rng.choice([None, 1, 2])
    xv = [float(rng.randint(1, 3)) for _ in range(3)]
    sv = [float(rng.randint(-1, 1)) for _ in range(T)]
    wv = [[float(rng.randint(1, 3)) for _ in range(3)] for _ in range(T)]

    def build():
        x = torch.tensor(xv, dtype=torch.float64, requires_grad=True)
        f = x * x
        ss = [torch.tensor([v], dtype=torch.float64, requires_grad=True) for v in sv]
        ws = [torch.tensor(v, dtype=torch.float64, requires_grad=True) for v in wv]
        precs = [torch.exp(-s) for s in ss]                        # parameter-only, saves its output
        raws = [((f * w) ** 2).sum() for w in ws]
        losses = [(p * r + s).sum() for p, r, s in zip(precs, raws, ss)]
        return x, f, ss, ws, precs, raws, losses
    A = build()
    B = build()
    ra = attempt(lambda: mtl_backward(A[6], [A[1]], Sum(), tasks_params=[[s, w] for s, w in zip(A[2], A[3])],
                                      shared_params=[A[0]], retain_graph=retain, parallel_chunk_size=as_count(chunk)))
    rb = attempt(lambda: torch.autograd.backward(B[6], inputs=[B[0]] + B[2] + B[3], retain_graph=retain))
    t = rng.randrange(T)
    probes = {
        "grad(exp(-s_t), s_t)": lambda G: torch.autograd.grad(G[4][t].sum(), G[2][t], retain_graph=True),
        "grad(loss_t, w_t)": lambda G: torch.autograd.grad(G[6][t], G[3][t], retain_graph=True),
        "grad(loss_t, features)": lambda G: torch.autograd.grad(G[6][t], G[1], retain_graph=True),
    }
    name = rng.choice(sorted(probes))
    pa = attempt(lambda: probes[name](A))
    pb = attempt(lambda: probes[name](B))
    ctx.case(("head-local", T, t, retain, chunk, name), nontrivial=True)
    ctx.count("head_local", f"{name}:{'retain' if retain else 'free'}")
    if ra != rb or pa != pb:
        ctx.violation(f"mtl_backward(retain_graph={retain}, chunk {chunk}) on {T} uncertainty-weighted heads, then {name} for task {t}: "
                      f"{ra} / {pa} on the torchjd-driven graph, {rb} / {pb} on the twin driven by torch.autograd.backward",
                      {"family": "head-local probes", "tasks": T, "probe": name, "task": t, "retain_graph": retain, "chunk": chunk,
                       "torchjd_graph": [ra, pa], "torch_twin": [rb, pb]})


def empty_parameter(ctx: Ctx, api, retain, name):
    """a parameter with NO element (an optional block of width 0) is a requested input like any other: the nodes that lead to
    it alone are executed — and, with retain_graph=False, released — exactly as torch.autograd.backward does on the twin; the
    follow-up probe goes through that block only"""
    rng = ctx.rng
    chunk = rng.choice([None, 1, 2, 3])
    k = rng.choice([2, 3, 4])
    xv = [float(rng.randint(1, 3)) for _ in range(3)]
    wv = [[float(rng.randint(-2, 2)) for _ in range(3)] for _ in range(k)]

    def build():
        W = torch.tensor(wv, dtype=torch.float64, requires_grad=True)
        x = torch.tensor(xv, dtype=torch.float64)
        E = torch.zeros(k, 0, dtype=torch.float64, requires_grad=True)          # weights of the empty block
        z = torch.zeros(0, dtype=torch.float64)
        u = torch.tanh(E @ z)                                                   # saves E, z and its own result
        h = torch.tanh(W @ x) + u
        if api == "backward":
            return W, E, u, h, h * h, None
        losses = [(h * float(i + 1)).sum() ** 2 for i in range(2)]
        return W, E, u, h, None, losses
    A = build()
    B = build()
    if api == "backward":
        ra = attempt(lambda: backward([A[4]], Sum(), inputs=[A[0], A[1]], retain_graph=retain, parallel_chunk_size=as_count(chunk)))
        rb = attempt(lambda: torch.autograd.backward([B[4]], grad_tensors=[torch.ones_like(B[4])], inputs=[B[0], B[1]], retain_graph=retain))
    else:
        ra = attempt(lambda: mtl_backward(A[5], [A[3]], Sum(), tasks_params=[[], []], shared_params=[A[0], A[1]],
                                          retain_graph=retain, parallel_chunk_size=as_count(chunk)))
        rb = attempt(lambda: torch.autograd.backward(B[5], inputs=[B[0], B[1]], retain_graph=retain))
    probe = (lambda G: torch.autograd.grad(G[2].sum(), G[1], retain_graph=True)) if name == "grad(u, E)" else \
            (lambda G: torch.autograd.grad(G[3].sum(), G[0], retain_graph=True))
    pa = attempt(lambda: probe(A))
    pb = attempt(lambda: probe(B))
    ga = None if A[1].grad is None else tuple(A[1].grad.shape)
    gb = None if B[1].grad is None else tuple(B[1].grad.shape)
    ctx.case(("empty-parameter", api, k, retain, chunk, name), nontrivial=True)
    ctx.count("empty_parameter", f"{api}:{name}:{'retain' if retain else 'free'}")
    if ra != rb or pa != pb or ga != gb:
        ctx.violation(f"{api}(retain_graph={retain}, chunk {chunk}) with a zero-element parameter among the inputs, then {name}: "
                      f"{ra} / {pa} (its .grad: {ga}) on the torchjd-driven graph, {rb} / {pb} (its .grad: {gb}) on the twin driven by "
                      "torch.autograd.backward",
                      {"family": "zero-element parameter", "api": api, "rows": k, "probe": name, "retain_graph": retain, "chunk": chunk,
                       "torchjd_graph": [ra, pa, ga], "torch_twin": [rb, pb, gb]})


def main(ctx: Ctx):
    ctx.lean_gate()
    for _ in range(6 if ctx.tier == "quick" else 300):
        many_rows(ctx)
    for _ in range(12 if ctx.tier == "quick" else 600):
        head_local(ctx)
    for _ in range(2 if ctx.tier == "quick" else 80):
        for api in ("backward", "mtl_backward"):
            for retain in (False, True):
                for name in ("grad(u, E)", "grad(h, W)"):
                    empty_parameter(ctx, api, retain, name)
    n = 250 if ctx.tier == "quick" else 40000
    for i in range(n):
        if i % 2:
            M = random_mtl(ctx.rng, heads_disjoint=True)
            while M.nested_features() or M.unused_features() or M.multi_output_features():
                M = random_mtl(ctx.rng, heads_disjoint=True)
            P = M.P
        else:
            M, P = None, random_program(ctx.rng)
        ops = run(ctx, P, M)
        ctx.case((tuple(P.describe()), tuple(str(o) for o in ops)), nontrivial=True,
                 sample={"program": P.describe(), "history": [str(o) for o in ops]})
    return ctx.finish(
        rule="histories of 2-3 calls from {backward, mtl_backward, torch.autograd.grad probes towards leaves and "
             "intermediate tensors} on one graph (programs with and without saved tensors; mtl programs with node-"
             "disjoint heads), both retain_graph values, chunk sizes None,1,2,m+1; success / RuntimeError of every call "
             "compared with a twin graph driven by torch.autograd.backward(..., retain_graph, inputs) and with the Lean "
             "liveness model run on the extracted autograd graph",
        trusted=TRUSTED + ["liveness contract of the torch engine (which nodes a call executes and releases); "
                           "validated by the twin-graph comparison itself"])
