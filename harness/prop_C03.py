"""C03 — UPGrad / DualProj return the exact (regularised) dual-cone projection."""
from __future__ import annotations

from fractions import Fraction as Fr

import mpmath
import torch

from agg_common import ask_agg, fr_list, maxabs, maxdiff, refill_history, run_agg, tensor_to_fr
from common import Ctx, TRUSTED_COMMON, sx
from matrices import gram, m_int, m_svd, to_tensor, transpose, ulp

from torchjd.aggregation import DualProj, UPGrad

TRUSTED = TRUSTED_COMMON + [
    "kernels (contracts assumed, DESIGN §3): torch.linalg.svd gives the largest singular value; quadprog returns the "
    "minimiser of the strictly convex QP it is given. The USE made of them (which Gramian, which scaling/thresholds, "
    "which vectors are projected, how weights are combined) is modelled and proved.",
    "floating point is not modelled: implementation == exact model is checked up to tau = C*u(dtype)*kappa*scale with "
    "kappa = (1+reg_eps)/reg_eps derived from the problem; decisions closer than 100*tau to a threshold are skipped and counted",
]
EPS_GRID = [1e-6, 1e-4, 1e-2, 1e-1]
C_TOL = 16


def top_singular_sq(J):
    """lambda_max(J J^T) to ~55 significant digits (relative), for matrices whose spectrum is irrational"""
    mpmath.mp.dps = 60
    G = gram(J)
    M = mpmath.matrix([[mpmath.mpf(x.numerator) / mpmath.mpf(x.denominator) for x in r] for r in G])
    ev = mpmath.eigsy(M, eigvals_only=True)
    lam = max(ev)
    if lam <= 0:
        return Fr(0)
    return Fr(int(lam.man)) * (Fr(2) ** int(lam.exp))


def sqrt_fr(q):
    """sqrt of a positive rational to ~55 significant digits, as a rational (the SVD kernel's value handed to the model)"""
    mpmath.mp.dps = 60
    r = mpmath.sqrt(mpmath.mpf(q.numerator) / mpmath.mpf(q.denominator))
    return Fr(int(r.man)) * (Fr(2) ** int(r.exp))


def pref_vectors(rng, m):
    out = [None]
    out.append([Fr(rng.randint(0, 16), 8) for _ in range(m)])
    oh = [Fr(0)] * m
    oh[rng.randrange(m)] = Fr(rng.choice([1, 2, 3]), 2)
    out.append(oh)
    z = [Fr(rng.randint(1, 9), 4) for _ in range(m)]
    z[rng.randrange(m)] = Fr(0)
    out.append(z)
    out.append([Fr(rng.randint(0, 5)) for _ in range(m)])       # integers: may be handed over as an integer tensor
    # the projection is positively homogeneous in u: a preference vector of magnitude 1e-12 .. 1e-8 is as legal as one of
    # magnitude 1 (binary fractions: exact in every dtype used)
    k = rng.choice([27, 33, 40])
    out.append([Fr(rng.randint(1, 9), 2 ** k) for _ in range(m)])
    return out


def pref_tensor(rng, u, dtype):
    """the preference vector as the user may hand it over: in the matrix's dtype, or in another one (integer tensor,
    half / single / double precision) — all values used here are exactly representable in each"""
    kinds = [dtype, dtype, torch.float16, torch.float32, torch.float64]
    if any(0 < v < Fr(1, 2 ** 14) for v in u):
        kinds = [dtype, dtype, torch.float32, torch.float64]          # (below half precision's normal range)
    if all(v.denominator == 1 for v in u):
        kinds += [torch.int64, torch.int64]
    pd = rng.choice(kinds)
    return torch.tensor([float(x) for x in u], dtype=torch.float64).to(pd)


def exact_G(J, s2, norm_eps, reg_eps, below):
    m = len(J)
    G = gram(J)
    return [[(Fr(0) if below else G[i][j] / s2) + (reg_eps if i == j else 0) for j in range(m)] for i in range(m)]


def kkt_slack(G, u, w):
    """(primal, dual, complementarity) violations of the KKT system, exactly"""
    gw = [sum(a * b for a, b in zip(row, w)) for row in G]
    primal = max([ui - wi for ui, wi in zip(u, w)] + [Fr(0)])
    dual = max([-x for x in gw] + [Fr(0)])
    comp = abs(sum((wi - ui) * g for wi, ui, g in zip(w, u, gw)))
    return primal, dual, comp


def one_case(ctx: Ctx, J, s, s2, dtype, exact_model: bool):
    rng = ctx.rng
    m, n = len(J), len(J[0])
    norm_eps, reg_eps = rng.sample(EPS_GRID, 2)
    ne, re_ = Fr(norm_eps), Fr(reg_eps)
    u_list = rng.choice(pref_vectors(rng, m))
    u = u_list if u_list is not None else [Fr(1, m)] * m
    Jt = to_tensor(J, dtype)
    uu = ulp(dtype)
    kappa = float((1 + re_) / re_)
    below = (s is not None and s < ne) or (s is None and s2 < ne * ne)
    # margin on the normalisation threshold
    ratio = float(s2) / float(ne * ne) if ne != 0 else 1e9
    G = exact_G(J, s2, ne, re_, below)
    for name, cls in (("upgrad", UPGrad), ("dualproj", DualProj)):
        pt = None if u_list is None else pref_tensor(rng, u, dtype)
        pt0 = None if pt is None else pt.clone()
        A = cls(pref_vector=pt, norm_eps=norm_eps, reg_eps=reg_eps)
        st, x = run_agg(A, Jt)
        ctx.count("pref_dtype", "none" if pt is None else str(pt.dtype))
        if pt is not None and not torch.equal(pt, pt0):
            ctx.violation(f"{name} modified the preference vector it was given: {pt0.tolist()} became {pt.tolist()}",
                          {"aggregator": name, "J": [[str(v) for v in r] for r in J], "pref_vector": [str(v) for v in u],
                           "pref_dtype": str(pt.dtype), "dtype": str(dtype)})
            continue
        ctx.case((name, sx(J), str(u_list), norm_eps, reg_eps, str(dtype)), nontrivial=True,
                 sample={"aggregator": name, "J": [[str(v) for v in r] for r in J], "pref": str(u_list),
                         "norm_eps": norm_eps, "reg_eps": reg_eps, "dtype": str(dtype)})
        ctx.count("agg", name)
        ctx.count("branch", "below_norm_eps" if below else "normalised")
        ctx.count("pref", "default" if u_list is None else "given")
        rp = {"aggregator": name, "J": [[str(v) for v in r] for r in J], "pref_vector": None if u_list is None else [str(v) for v in u],
              "pref_dtype": None if pt is None else str(pt.dtype),
              "norm_eps": norm_eps, "reg_eps": reg_eps, "dtype": str(dtype), "s2": str(s2)}
        if st != "ok":
            ctx.violation(f"{name} raised {x} on a finite matrix", rp)
            continue
        if rng.random() < 0.25 and m >= 2:
            # the value must be a function of the CONTENTS of the matrix: same tensor object, contents replaced
            Jt2 = Jt[torch.tensor(rng.sample(range(m), m))] * torch.tensor([rng.choice([-1.0, 1.0, 2.0]) for _ in range(m)], dtype=dtype)[:, None]
            how = rng.choice(["numpy", "data"])
            msg = refill_history(lambda: cls(pref_vector=None if pt0 is None else pt0.clone(), norm_eps=norm_eps, reg_eps=reg_eps),
                                 Jt, Jt2, 0, how)
            ctx.count("refill_history", how)
            if msg is not None:
                ctx.violation(f"{name}: {msg}", {**rp, "check": "refill history", "second_contents": Jt2.tolist(), "how": how})
                continue
        w_impl = tensor_to_fr(A.weighting(Jt))
        x_impl = tensor_to_fr(x)
        if 0.25 < ratio < 4:
            ctx.count("skipped_threshold_margin")
            continue
        tol_rel = C_TOL * uu * kappa * m
        if tol_rel > 1e-2:
            ctx.count("skipped_ill_conditioned")
            continue
        wscale = max(maxabs(u), maxabs(w_impl), Fr(1, 10 ** 30))
        # + the QP solver's ABSOLUTE feasibility tolerance (a kernel; the Gramian it sees is normalised, so ~1e-15 whatever the
        #   magnitude of the preference vector: observed up to 1.4e-15 with preferences of 1e-8 … 1e-12; allowance 2e-14)
        tau_w = Fr(tol_rel) * wscale + Fr(2, 10 ** 14)
        rowsum = max(sum(abs(v) for v in r) for r in J)
        tau_x = tau_w * rowsum * m + Fr(8 * uu) * maxabs(x_impl)
        # (a) x = J^T w
        xw = [sum(w_impl[i] * J[i][c] for i in range(m)) for c in range(n)]
        if maxdiff(xw, x_impl) > tau_x + Fr(64 * uu) * rowsum * wscale:
            ctx.violation(f"{name}: A(J) is not J^T weighting(J)", {**rp, "x": [str(float(v)) for v in x_impl]})
            continue
        # (b) defining characterisation, evaluated exactly on the implementation's weights
        if name == "dualproj":
            pr, du, co = kkt_slack(G, u, w_impl)
            gscale = 1 + float(re_)
            if pr > tau_w or du > tau_w * Fr(gscale) * m or co > tau_w * wscale * Fr(gscale) * m * m:
                ctx.violation(f"dualproj weights violate the KKT system of min v^T G v, v >= u: primal {float(pr):.3e}, "
                              f"dual {float(du):.3e}, complementarity {float(co):.3e} (tolerance {float(tau_w):.3e})",
                              {**rp, "weights": [str(float(v)) for v in w_impl]})
                continue
        else:
            pass   # UPGrad's rows are checked through the model below (its weights are sums of m projections)
        # (c) consequences
        Gram = gram(J)
        if all(v >= 0 for r in Gram for v in r) or below:
            ju = [sum(u[i] * J[i][c] for i in range(m)) for c in range(n)]
            if maxdiff(ju, x_impl) > tau_x * 4:
                ctx.violation(f"{name}: no conflict / s < norm_eps but output differs from J^T u by "
                              f"{float(maxdiff(ju, x_impl)):.3e}", {**rp, "x": [str(float(v)) for v in x_impl]})
                continue
            ctx.count("identity_clause_checked")
        # (d) equality with the exact model
        if exact_model:
            rep = ask_agg(ctx.driver, name, J, s=s, normeps=ne, regeps=re_, u=u)
            if rep is None:
                ctx.count("model_no_certificate")
                ctx.violation(f"{name}: the model found no KKT certificate on a valid input", rp, no_input=True)
                continue
            w_mod, x_mod, margin = fr_list(rep[1]), fr_list(rep[2]), fr_list([rep[3]])[0]
            # no margin rule here: the minimiser of a strictly convex QP is Lipschitz in (G, u) whatever the
            # active set, so degenerate (zero strict-complementarity) cases are compared too
            ctx.count("degenerate_active_set" if margin == 0 else "strict_complementarity")
            ctx.count("compared_with_model")
            ew, ex = maxdiff(w_mod, w_impl), maxdiff(x_mod, x_impl)
            ctx.cov["worst_tol_ratio"] = max(ctx.cov.get("worst_tol_ratio", 0.0), float(ew / tau_w))
            if ew > tau_w or ex > tau_x:
                ctx.violation(
                    f"{name}(pref={u_list}, norm_eps={norm_eps}, reg_eps={reg_eps}) weights differ from the exact "
                    f"regularised dual-cone projection by {float(ew):.3e} (tolerance {float(tau_w):.3e}); vector by "
                    f"{float(ex):.3e} (tolerance {float(tau_x):.3e})",
                    {**rp, "weights_impl": [str(float(v)) for v in w_impl], "weights_model": [str(float(v)) for v in w_mod]})


def norm_eps_boundary(ctx: Ctx, dtype):
    """"for all matrices with s >= norm_eps": equality included.  With norm_eps set to the largest singular value AS THE
    LIBRARY'S OWN ROUTINE COMPUTES IT (torch.linalg.svd in the matrix's dtype) the projection is still required — the result must
    be the one obtained with norm_eps one unit in the last place lower, not the unprojected Jᵀu"""
    import math
    rng = ctx.rng
    m = rng.choice([2, 3])
    n = rng.choice([2, 3, 4])
    J = m_int(rng, m, n, kind="plain")
    Jt = to_tensor(J, dtype)
    if float(Jt.abs().max()) == 0:
        return
    G = Jt.double() @ Jt.double().T
    if float(G.min()) >= 0:
        return                                   # no conflict: projected and unprojected coincide
    s = float(torch.linalg.svd(Jt, full_matrices=False).S.max())
    below = float(torch.nextafter(torch.tensor(s, dtype=dtype), torch.tensor(0.0, dtype=dtype)))
    name, cls = rng.choice([("UPGrad", UPGrad), ("DualProj", DualProj)])
    st1, x1 = run_agg(cls(norm_eps=s), Jt)
    st0, x0 = run_agg(cls(norm_eps=below), Jt)
    ctx.case(("norm-eps-boundary", name, sx(J), str(dtype)), nontrivial=True)
    ctx.count("norm_eps_boundary", name)
    if st1 != st0 or (st1 == "ok" and not torch.allclose(x1, x0, rtol=1e-5, atol=0)):
        ctx.violation(f"{name} with norm_eps EQUAL to the largest singular value ({s!r}, as torch.linalg.svd computes it in {dtype}) returns "
                      f"{x1.tolist() if st1 == 'ok' else x1}; with norm_eps one ulp lower it returns {x0.tolist() if st0 == 'ok' else x0} (the "
                      "projection is required for s >= norm_eps)", {"aggregator": name, "J": [[str(v) for v in r] for r in J], "dtype": str(dtype),
                                                                "norm_eps": repr(s)})


def main(ctx: Ctx):
    ctx.lean_gate()
    rng = ctx.rng
    n_cases = 250 if ctx.tier == "quick" else 40000
    for i in range(n_cases):
        m = rng.choice([1, 2, 2, 3, 3, 4, 5])
        n = rng.choice([1, 2, 3, 4, 6])
        dtype = torch.float64 if i % 3 else torch.float32
        if i % 5 == 0:
            norm_eps_boundary(ctx, dtype)
        if i % 8 == 5:
            # wide Jacobian of small gradients: every entry below norm_eps but s above it (s^2 via mpmath)
            mm, nn = rng.choice([2, 3]), rng.randint(60, 200)
            J = [[Fr(rng.choice([-1, 1]) * rng.randint(2, 9), 100000) for _ in range(nn)] for _ in range(mm)]
            J[1] = [-a * Fr(4, 5) + b * Fr(3, 10) for a, b in zip(J[0], J[1])]
            ctx.count("family", "wide-small-entries")
            s2 = top_singular_sq(J)
            one_case(ctx, J, sqrt_fr(s2), s2, torch.float64, exact_model=True)
        elif i % 8 == 1:
            # a tiny objective that conflicts with a large one (norm ratio 1e-3..1e-6), the large ones not conflicting with each
            # other: its conflict is NOT rounding noise, the projection must still move the large row's weight
            mm = rng.choice([2, 3])
            nn = rng.choice([2, 3, 4])
            big = [[Fr(rng.randint(1, 9)) for _ in range(nn)] for _ in range(mm)]
            t = Fr(1, 10 ** rng.choice([3, 4, 5, 6]))
            k = rng.randrange(mm)
            tiny = [-t * v + t * Fr(rng.randint(-2, 2), 4) for v in big[k]]
            J = big + [tiny]
            rng.shuffle(J)
            ctx.count("family", "tiny-conflicting-row")
            s2 = top_singular_sq(J)
            one_case(ctx, J, sqrt_fr(s2), s2, torch.float64, exact_model=True)
        elif i % 4 == 3:
            J = m_int(rng, m, n)
            if all(v == 0 for r in J for v in r):
                continue
            s2 = top_singular_sq(J)
            one_case(ctx, J, sqrt_fr(s2), s2, dtype, exact_model=True)
        else:
            # s far above / below norm_eps as well: the definition is scale-free above the threshold (2^±70 is within the
            # range of both dtypes; the squared singular values are not, in single precision)
            scale = rng.choice([Fr(1), Fr(1), Fr(1, 1000), Fr(1000), Fr(1, 10 ** 7), Fr(2) ** 70, Fr(2) ** 45, Fr(1, 2 ** 70)])
            ctx.count("scale", str(float(scale)))
            J, V, sig, W = m_svd(rng, m, n, scale=scale)
            one_case(ctx, J, sig[0], sig[0] * sig[0], dtype, exact_model=True)
    return ctx.finish(
        rule="M-svd matrices (rational SVD via Cayley transforms: exact rational largest singular value, prescribed "
             "rank, scales 1e-7..1e3 so that s falls on both sides of norm_eps) and integer matrices (dup/zero/low-rank "
             "rows, s^2 to 55 digits) x {UPGrad, DualProj} x preference vectors {default, random, one-hot, with zeros} x "
             "DISTINCT (norm_eps, reg_eps) from {1e-6,1e-4,1e-2,1e-1}^2 x float32/float64; A(J) and weighting(J) vs the "
             "exact rational model, KKT system evaluated exactly on the implementation's weights, identity clauses",
        trusted=TRUSTED)
