"""C11 — aggregators are total, pure, stateless and positively homogeneous."""
from __future__ import annotations

import math
from fractions import Fraction as Fr

import torch

from agg_common import refill_history
from aggs import catalogue, vec
from common import Ctx, classify_exc, field
from matrices import m_adv, ulp
from prop_C03 import TRUSTED

from torchjd.aggregation import (CAGrad, ConFIG, Constant, DualProj, GradDrop, IMTLG, AlignedMTL, Krum, Mean, MGDA,
                                 PCGrad, Random, Sum, TrimmedMean, UPGrad)


def attempt(A, J):
    try:
        return "ok", A(J)
    except Exception as e:  # noqa: BLE001
        return "err", classify_exc(e)


# ------------------------------------------------------------------------------ validation table
def validation(ctx: Ctx):
    rng = ctx.rng
    kinds = []
    for name, mk in (("Mean", lambda: Mean()), ("Sum", lambda: Sum()), ("UPGrad", lambda: UPGrad()), ("DualProj", lambda: DualProj()),
                     ("MGDA", lambda: MGDA()), ("PCGrad", lambda: PCGrad()), ("CAGrad", lambda: CAGrad(c=0.5)),
                     ("IMTLG", lambda: IMTLG()), ("AlignedMTL", lambda: AlignedMTL()), ("ConFIG", lambda: ConFIG()),
                     ("Random", lambda: Random())):
        kinds.append((name, mk, ["weighted", "none"]))
    for r in (1, 2, 3):
        kinds.append((f"Constant[{r}]", lambda r=r: Constant(torch.ones(r)), ["weighted", r]))
        kinds.append((f"UPGrad(pref[{r}])", lambda r=r: UPGrad(pref_vector=torch.ones(r)), ["weighted", r]))
        kinds.append((f"DualProj(pref[{r}])", lambda r=r: DualProj(pref_vector=torch.ones(r)), ["weighted", r]))
        kinds.append((f"AlignedMTL(pref[{r}])", lambda r=r: AlignedMTL(pref_vector=torch.ones(r)), ["weighted", r]))
        kinds.append((f"ConFIG(pref[{r}])", lambda r=r: ConFIG(pref_vector=torch.ones(r)), ["weighted", r]))
        kinds.append((f"GradDrop(leak[{r}])", lambda r=r: GradDrop(leak=torch.full((r,), 0.5)), ["graddrop", r]))
    kinds.append(("GradDrop", lambda: GradDrop(), ["graddrop", "none"]))
    for b in (0, 1, 2):
        kinds.append((f"TrimmedMean({b})", lambda b=b: TrimmedMean(trim_number=b), ["trimmed", b]))
    for f, k in ((0, 1), (1, 1), (1, 2), (0, 5)):
        kinds.append((f"Krum({f},{k})", lambda f=f, k=k: Krum(n_byzantine=f, n_selected=k), ["krum", f, k]))
    shapes = [(), (3,), (2, 2, 2), (1, 1), (1, 3), (2, 3), (3, 2), (4, 2), (5, 3), (3, 1), (2, 1, 3)]
    for name, mk, kind in kinds:
        for shape in shapes:
            for bad in (None, "nan", "inf", "-inf"):
                t = torch.randn(shape, generator=torch.Generator().manual_seed(rng.randrange(10 ** 6)), dtype=torch.float32)
                if bad is not None and t.numel() > 0:
                    t.reshape(-1)[rng.randrange(t.numel())] = float(bad)
                finite = bad is None
                expect = ctx.driver.ask(["rejects", ["kind", *kind], ["shape", list(shape)], ["finite", finite]]) == "true"
                st, out = attempt(mk(), t)
                ctx.case(("val", name, shape, bad), nontrivial=True)
                ctx.count("validation_expected", "reject" if expect else "accept")
                rp = {"check": "validation", "aggregator": name, "shape": list(shape), "non_finite": bad,
                      "implementation": [st, str(out) if st == "err" else "tensor"], "model_rejects": expect}
                if expect:
                    if not (st == "err" and out == "ValueError"):
                        ctx.violation(f"{name} must reject a tensor of shape {list(shape)}"
                                      + (f" containing {bad}" if bad else "") + f" with ValueError; got {st}"
                                      + (f" {out}" if st == "err" else " (accepted)"), rp, tag="F5-config-validation" if name.startswith("ConFIG") else None)
                else:
                    if st != "ok":
                        ctx.violation(f"{name} rejected ({out}) a finite {list(shape)} matrix that meets its row-count "
                                      f"requirement", rp)
                    elif tuple(out.shape) != (shape[1],) or out.dtype != t.dtype or not bool(torch.isfinite(out).all()):
                        ctx.violation(f"{name} maps a finite {list(shape)} matrix that meets its row-count requirement to "
                                      f"{out.tolist()} (shape {tuple(out.shape)}, {out.dtype}): not a finite vector with one "
                                      f"entry per column in the dtype of the input", rp)


def ctor_validation(ctx: Ctx):
    """configurations refused when the aggregator is BUILT (model: `ctorRejects`, theorem `ctor_rejects_iff`)"""
    def tens(ndim):
        return torch.ones([2] * ndim) if ndim else torch.tensor(1.0)
    cases = []
    for ndim in (None, 0, 1, 2, 3):
        spec = ["pref", "none" if ndim is None else ndim]
        for name, cls in (("UPGrad", UPGrad), ("DualProj", DualProj), ("AlignedMTL", AlignedMTL), ("ConFIG", ConFIG)):
            cases.append((f"{name}(pref_vector ndim={ndim})", spec,
                          lambda cls=cls, ndim=ndim: cls(pref_vector=None if ndim is None else tens(ndim))))
        cases.append((f"GradDrop(leak ndim={ndim})", ["graddrop", "none" if ndim is None else ndim],
                      lambda ndim=ndim: GradDrop(leak=None if ndim is None else tens(ndim) * 0.5)))
        if ndim is not None:
            cases.append((f"Constant(weights ndim={ndim})", ["constant", ndim], lambda ndim=ndim: Constant(tens(ndim))))
    for c in (-1.0, -1e-9, 0.0, 0.5, 3.0):
        cases.append((f"CAGrad(c={c})", ["cagrad", c < 0], lambda c=c: CAGrad(c=c)))
    for f in (-2, -1, 0, 1, 3):
        for k in (-1, 0, 1, 2):
            cases.append((f"Krum({f},{k})", ["krum", f, k], lambda f=f, k=k: Krum(n_byzantine=f, n_selected=k)))
    for b in (-3, -1, 0, 1, 4):
        cases.append((f"TrimmedMean({b})", ["trimmed", b], lambda b=b: TrimmedMean(trim_number=b)))
    for name, spec, mk in cases:
        expect = ctx.driver.ask(["ctor", ["spec", *spec]]) == "true"
        try:
            mk()
            st, out = "ok", None
        except Exception as e:  # noqa: BLE001
            st, out = "err", classify_exc(e)
        ctx.case(("ctor", name), nontrivial=True)
        ctx.count("ctor_expected", "reject" if expect else "accept")
        rp = {"check": "constructor validation", "configuration": name, "implementation": [st, out], "model_rejects": expect}
        if expect and not (st == "err" and out == "ValueError"):
            ctx.violation(f"{name} must be refused with ValueError at construction; got "
                          + (f"{out}" if st == "err" else "an aggregator"), rp)
        if not expect and st != "ok":
            ctx.violation(f"{name} is a legal configuration but the constructor raised {out}", rp)


# ------------------------------------------------------------------------------ totality / purity / homogeneity
def prefs_for(spec, m):
    if spec.pref is None:
        return None
    if spec.pref == "weights":
        return [(-1) ** i * (i + 1) for i in range(m)]
    if spec.pref == "leak":
        return [Fr(i % 3, 2) / 1 if False else (i % 3) / 2 for i in range(m)]
    return [1 + (i % 3) for i in range(m)]


def totality(ctx: Ctx, spec, dtype):
    rng = ctx.rng
    m = rng.choice([1, 2, 3, 4, 5])
    n = rng.choice([1, 2, 3, 7])
    if m < spec.min_rows:
        m = spec.min_rows + rng.choice([0, 1])
    kind = rng.choice(["gauss", "rankdef", "zero_row", "dup", "scaled", "scaled", "zero", "pairs"])
    g = torch.Generator().manual_seed(rng.randrange(2 ** 31))
    J = torch.randn(m, n, generator=g, dtype=torch.float64)
    if kind == "rankdef" and m > 1:
        J[-1] = 2 * J[0]
    if kind == "zero_row":
        J[rng.randrange(m)] = 0
    if kind == "dup" and m > 1:
        J[-1] = J[0]
    if kind == "pairs" and m >= 4:
        # a, a, b, b, (c …): DIFFERENT rows with exactly equal scores / norms — whatever breaks the tie must be a function of J
        J[1] = J[0]
        J[3] = J[2]
    if kind == "zero":
        J = J * 0
    ex = 0.0
    if kind == "scaled":
        ex = rng.uniform(-12, 15) if dtype == torch.float32 else rng.uniform(-100, 100)
        J = J * (10.0 ** ex)
    J = J.to(dtype)
    if not torch.isfinite(J).all():
        return
    pv = prefs_for(spec, m) if rng.random() < 0.5 or spec.pref == "weights" else None
    A = spec.make(m, dtype, pv)
    if spec.name == "GradDrop" and pv is not None and rng.random() < 0.5:
        # the leak vector handed over in the OTHER floating precision than the matrix (values i/2: exact in both)
        od = torch.float64 if dtype == torch.float32 else torch.float32
        A = GradDrop(leak=torch.tensor([float(v) for v in pv], dtype=od))
        ctx.count("graddrop_leak_other_dtype")
    if spec.pref == "pref" and pv is not None and rng.random() < 0.3:
        # a preference vector that is itself being learned (a leaf requiring grad, or computed from one): still a tensor
        cls = {"UPGrad": UPGrad, "DualProj": DualProj, "AlignedMTL": AlignedMTL, "ConFIG": ConFIG}[spec.name]
        base = torch.tensor([float(v) for v in pv], dtype=dtype, requires_grad=True)
        A = cls(pref_vector=base if rng.random() < 0.5 else base * 1.0)
        ctx.count("pref_vector_requires_grad", spec.name)
    before = J.clone()
    seed = rng.randrange(10 ** 6)
    torch.manual_seed(seed)
    st, x = attempt(A, J)
    ctx.case(("tot", spec.name, kind, round(ex), m, n, str(dtype)), nontrivial=True,
             sample={"aggregator": spec.name, "kind": kind, "log10_scale": round(ex, 1), "shape": [m, n], "dtype": str(dtype)})
    ctx.count("totality", spec.name)
    rp = {"check": "totality", "aggregator": spec.name, "pref": str(pv), "kind": kind, "log10_scale": ex, "shape": [m, n],
          "dtype": str(dtype), "J": J.tolist(), "torch_seed": seed}
    if st != "ok":
        ctx.violation(f"{spec.name} raised {x} on a finite {m}x{n} matrix (kind {kind}, scale 1e{ex:.0f})", rp)
        return False
    if tuple(x.shape) != (n,) or x.dtype != dtype or not bool(torch.isfinite(x).all()):
        ctx.violation(f"{spec.name}: output shape {tuple(x.shape)} dtype {x.dtype} finite={bool(torch.isfinite(x).all())} "
                      f"for a finite {m}x{n} {dtype} matrix (kind {kind}, scale 1e{ex:.0f})", rp)
        return False
    if not torch.equal(J, before):
        ctx.violation(f"{spec.name} modified its input matrix", rp)
        return False
    # history independence / seeded reproducibility
    other_dtype = torch.float64 if dtype == torch.float32 else torch.float32
    others = [torch.randn(m, rng.choice([1, 3, 5]), generator=g, dtype=dtype),
              torch.randn(m, rng.choice([2, n]), generator=g, dtype=torch.float64).to(other_dtype),   # same rows, OTHER dtype
              J.to(other_dtype)]
    for O in others:
        amax = float(O.abs().max()) if O.numel() else 0.0
        if not torch.isfinite(O).all() or (O.dtype == torch.float32 and amax != 0 and not (1e-12 <= amax <= 1e15)):
            continue          # outside the documented scale range of that dtype
        torch.manual_seed(seed)
        so, xo = attempt(A, O)
        torch.manual_seed(seed)
        sf, xf = attempt(spec.make(m, dtype, pv), O)      # a fresh instance with the SAME configuration
        same = (so == sf) and (so != "ok" or (xo.dtype == xf.dtype and torch.equal(xo.isnan(), xf.isnan())
                                          and torch.equal(xo.nan_to_num(), xf.nan_to_num())))
        if not same:
            ctx.violation(f"{spec.name}: an instance that was first called on a {dtype} matrix gives "
                          f"{'error ' + str(xo) if so != 'ok' else 'a different result'} on a {O.dtype} matrix with the same "
                          f"number of rows, unlike a fresh instance (result depends on earlier calls)", rp)
            return False
    if m >= 2 and not spec.solver:
        J2 = (J.flip(0) * 1.5).contiguous()
        how = rng.choice(["numpy", "data"])
        msg = refill_history(lambda: spec.make(m, dtype, pv), J, J2, seed, how)
        ctx.count("refill_history", how)
        if msg is not None:
            ctx.violation(f"{spec.name}: {msg} (the result depends on an earlier call)", {**rp, "check": "refill history", "how": how})
            return False
    if not spec.random and spec.name != "GradDrop":
        # a deterministic aggregator is a function of the matrix: the state of the global random generator must not matter
        torch.manual_seed(seed + 12345)
        st4, x4 = attempt(A, J)
        ctx.count("generator_independence_checked", spec.name)
        if st4 != "ok" or not torch.equal(x, x4):
            ctx.violation(f"{spec.name} is deterministic, but its result on the same matrix changes with the state of torch's global "
                          f"random generator: {x.tolist()} under seed {seed}, {x4.tolist() if st4 == 'ok' else x4} under seed {seed + 12345}", rp)
            return False
    torch.manual_seed(seed)
    st2, x2 = attempt(A, J)
    B = spec.make(m, dtype, pv)
    torch.manual_seed(seed)
    st3, x3 = attempt(B, J)
    if st2 != "ok" or st3 != "ok" or not torch.equal(x, x2) or not torch.equal(x, x3):
        ctx.violation(f"{spec.name}: the result for the same matrix (and seed) depends on earlier calls / on the instance",
                      rp)
        return False
    return True


def homogeneity(ctx: Ctx, spec, dtype):
    rng = ctx.rng
    m = max(spec.min_rows, rng.choice([2, 3, 4]))
    n = rng.choice([m, m + 1, m + 3])
    g = torch.Generator().manual_seed(rng.randrange(2 ** 31))
    J = torch.randn(m, n, generator=g, dtype=torch.float64)
    # comfortable conditioning for the pinv/solver/tie based ones
    if spec.pinv or spec.solver or spec.ties:
        q, _ = torch.linalg.qr(torch.randn(n, n, generator=g, dtype=torch.float64))
        sv = torch.tensor([1.0 + 0.7 * i for i in range(m)], dtype=torch.float64)
        p, _ = torch.linalg.qr(torch.randn(m, m, generator=g, dtype=torch.float64))
        J = p @ torch.diag(sv) @ q[:m]
    base = 10.0 ** (rng.uniform(-3, 3))
    J = (J * base).to(dtype)
    kmax = 40 if dtype == torch.float32 else 300
    k = rng.choice([-1, 1]) * rng.randint(1, kmax)
    if spec.name == "IMTLG":
        k = rng.choice([k, rng.randint(44, 50), -rng.randint(30, 44)])       # scales 1e13..1e15 are in range
    t = 2.0 ** k
    if spec.name == "Krum" and rng.random() < 0.5:
        # many rows sharing a large common component (distances << norms) and a scale factor that is NOT a power of two:
        # the selected row must not depend on the scale (it does when distances are computed through |a|²+|b|²-2ab)
        m, n = rng.randint(27, 40), rng.choice([8, 16, 32])
        J = (1000.0 + torch.randn(m, n, generator=g, dtype=torch.float64)).to(dtype)
        t = rng.choice([3.0, 0.7, 1e-6, 12345.678, 1e10])
        k = f"(t={t})"
        D = torch.cdist(J.double(), J.double(), compute_mode="donot_use_mm_for_euclid_dist")
        sc = D.topk(k=m - 1 - 2 + 1, largest=False).values[:, 1:].sum(dim=1).sort().values
        if float(sc[1] - sc[0]) < 1e-3 * float(sc[0]):
            ctx.count("krum_many_rows_skipped_near_tie")
            return
        ctx.count("krum_many_rows")
    if spec.threshold:
        s = float(torch.linalg.svdvals(J.double())[0])
        if min(s, s * t) < 1e-3:          # both sides must stay >= norm_eps (1e-4) with a margin
            t = 2.0 ** abs(k)
    tJ = J * t
    if not torch.isfinite(tJ).all() or float(tJ.abs().max()) > (1e30 if dtype == torch.float32 else 1e250) or \
            float(tJ.abs()[tJ != 0].min()) < (1e-30 if dtype == torch.float32 else 1e-250):
        return
    pv = prefs_for(spec, m)
    A = spec.make(m, dtype, pv)
    seed = rng.randrange(10 ** 6)
    torch.manual_seed(seed)
    st1, x1 = attempt(A, J)
    torch.manual_seed(seed)
    st2, x2 = attempt(A, tJ)
    ctx.case(("hom", spec.name, k, str(dtype), m, n), nontrivial=True)
    ctx.count("homogeneity", spec.name)
    rp = {"check": "homogeneity", "aggregator": spec.name, "pref": str(pv), "t": f"2^{k}", "dtype": str(dtype),
          "J": J.tolist(), "torch_seed": seed}
    if st1 != "ok" or st2 != "ok":
        ctx.violation(f"{spec.name} raised on J or t·J (t=2^{k}): {x1 if st1 != 'ok' else x2}", rp)
        return
    if isinstance(k, str):
        # Krum(f, 1) returns one row of its input: the SAME row must be selected at both scales
        i1 = [i for i in range(J.shape[0]) if torch.equal(J[i], x1)]
        i2 = [i for i in range(J.shape[0]) if torch.equal(tJ[i], x2)]
        if not i1 or not i2 or not (set(i1) & set(i2)):
            ctx.violation(f"Krum on {J.shape[0]} rows selects row {i1} of J but row {i2} of t·J (t = {t}): the selection "
                          f"depends on the scale of the matrix", rp)
        return
    lhs, rhs = x2.double(), x1.double() * t
    scale = float(rhs.abs().max())
    err = float((lhs - rhs).abs().max())
    rel = (5e-3 if dtype == torch.float32 else 1e-7) * (50 if (spec.solver or spec.pinv) else 1)
    tag = None
    if spec.name == "IMTLG" and scale > 0 and float(lhs.abs().max()) == 0:
        tag = "F3-imtlg-absolute-guard"
    if err > rel * max(scale, 1e-300):
        ctx.violation(f"{spec.name}: A(t·J) differs from t·A(J) for t = 2^{k}: max |A(tJ) - t A(J)| = {err:.3e}, "
                      f"|t A(J)| = {scale:.3e}" + (" (A(tJ) is exactly zero)" if float(lhs.abs().max()) == 0 else ""),
                      {**rp, "A(tJ)": x2.tolist(), "t*A(J)": rhs.tolist()}, tag=tag)


def main(ctx: Ctx):
    ctx.lean_gate()
    validation(ctx)
    ctor_validation(ctx)
    cat = catalogue()
    n = 25 if ctx.tier == "quick" else 3000
    for i in range(n):
        for spec in cat:
            if spec.solver and i % 3:
                continue
            dtype = torch.float32 if i % 2 else torch.float64
            totality(ctx, spec, dtype)
            homogeneity(ctx, spec, dtype)
    ctx.assumptions.append("finiteness over the scale range, dtype preservation, history independence and seeded "
                           "reproducibility are runtime/floating-point facts: OBSERVED on the implementation, not proved")
    return ctx.finish(
        rule="(a) validation decision table: every aggregator configuration x shapes (0-d,1-d,3-d, m=1, n=1, m>n) x "
             "{finite, nan, inf, -inf} compared with the Lean table `rejects`, and every constructor argument check compared "
             "with `ctorRejects`; (b) totality: 15 aggregators x matrix kinds "
             "(gauss, rank-deficient, zero/duplicate rows, zero, scales 1e-12..1e15 f32 / 1e-100..1e100 f64): finite "
             "output of shape (n,), same dtype, input unchanged, same result after unrelated calls / on a fresh instance "
             "/ with the same seed; (c) homogeneity A(tJ) = tA(J) for t = 2^k (exact scaling), |k| up to 40 (f32) / 300 (f64)",
        trusted=TRUSTED)
