"""C17 — impartial aggregators (IMTL-G, ConFIG, Aligned-MTL) treat every objective alike."""
from __future__ import annotations

from fractions import Fraction as Fr

import numpy as np
import torch

from agg_common import ask_agg, fr_list, maxabs, maxdiff, run_agg, tensor_to_fr
from common import Ctx, sx
from matrices import gram, m_svd, m_unit, to_tensor, transpose, ulp
from prop_C03 import TRUSTED

from torchjd.aggregation import IMTLG, AlignedMTL, ConFIG

C_TOL = 256


def cond(M):
    return float(np.linalg.cond(np.array([[float(v) for v in r] for r in M], dtype=np.float64)))


def dotf(a, b):
    return sum(x * y for x, y in zip(a, b))


def check_imtlg(ctx: Ctx, dtype):
    rng = ctx.rng
    m = rng.choice([1, 2, 2, 3, 4])
    n = rng.randint(m, m + 3)
    # all scales: the three aggregators are positively homogeneous (degree 1; IMTL-G's weights are scale-free)
    scale = rng.choice([Fr(1), Fr(1, 1000), Fr(1000), Fr(1), Fr(1, 10 ** 6), Fr(1, 10 ** 9), Fr(10 ** 6)])
    J, d = m_unit(rng, m, n, scale=scale)
    rep = ask_agg(ctx.driver, "imtlg", J, d=d, guard=Fr(1e-12))
    ctx.case(("imtlg", sx(J), str(dtype)), nontrivial=rep is not None,
             sample={"aggregator": "IMTLG", "J": [[str(v) for v in r] for r in J], "row_norms": [str(v) for v in d]})
    if rep is None:
        ctx.count("imtlg_dependent_rows")
        return
    kappa = cond(gram(J))
    uu = ulp(dtype)
    if C_TOL * uu * kappa * m > 1e-2:
        ctx.count("imtlg_skipped_ill_conditioned")
        return
    Jt = to_tensor(J, dtype)
    A = IMTLG()
    st, x = run_agg(A, Jt)
    rp = {"aggregator": "IMTLG", "J": [[str(v) for v in r] for r in J], "dtype": str(dtype)}
    if st != "ok":
        ctx.violation(f"IMTLG raised {x}", rp)
        return
    w, xs = tensor_to_fr(A.weighting(Jt)), tensor_to_fr(x)
    wm, xm = fr_list(rep[1]), fr_list(rep[2])
    if all(v == 0 for v in wm):
        ctx.count("imtlg_guard_branch")
    tol_w = Fr(C_TOL * uu * kappa * m) * max(maxabs(wm), Fr(1))
    tol_x = tol_w * max(sum(abs(v) for v in r) for r in J) * m
    ctx.count("imtlg_compared")
    if maxdiff(w, wm) > tol_w or maxdiff(xs, xm) > tol_x:
        ctx.violation(f"IMTLG weights {[float(v) for v in w]} differ from G^-1 d normalised to sum one "
                      f"{[float(v) for v in wm]} (tolerance {float(tol_w):.3e})", rp)
        return
    # defining conditions on the implementation's output
    if any(v != 0 for v in wm):
        if abs(sum(w) - 1) > tol_w * m:
            ctx.violation(f"IMTLG weights sum to {float(sum(w))}, not one", rp)
            return
        proj = [dotf(J[i], xs) / d[i] for i in range(m)]
        pscale = max(maxabs(proj), Fr(1, 10 ** 30))
        if max(proj) - min(proj) > Fr(C_TOL * uu * kappa * m * 4) * pscale + tol_x:
            ctx.violation(f"IMTLG: projections of A(J) on the row directions differ: {[float(p) for p in proj]}", rp)


def check_config(ctx: Ctx, dtype):
    rng = ctx.rng
    m = rng.choice([1, 2, 2, 3, 4])
    n = rng.randint(m, m + 3)
    scale = rng.choice([Fr(1), Fr(1, 1000), Fr(1000), Fr(1, 10 ** 6), Fr(1, 10 ** 9), Fr(10 ** 6)])
    tiny = [i for i in range(m) if rng.random() < 0.15]
    if tiny and dtype == torch.float32 and (scale < Fr(1, 1000)):
        scale = Fr(1, 1000)          # (squares of entries below ~1e-19 leave single precision's normal range: runtime, not logic)
    J, d = m_unit(rng, m, n, scale=scale)
    if m >= 2 and n >= 2 and not tiny and rng.random() < 0.25:
        # two NEARLY PARALLEL rows (angle 1e-2 … 1e-4, exact rational unit vectors by stereographic projection of two close
        # points): the unit rows have condition number up to 1e4 — pinv(U) loses cond(U) digits, anything that forms U Uᵀ
        # loses cond(U)² of them
        t = [Fr(rng.randint(-4, 4), rng.choice([1, 2, 3])) for _ in range(n - 1)]
        t2 = list(t)
        t2[0] += Fr(1, 10 ** rng.choice([2, 3, 4]))
        for idx, tt in ((0, t), (1, t2)):
            s_ = sum(x * x for x in tt)
            u_ = [2 * x / (1 + s_) for x in tt] + [(s_ - 1) / (1 + s_)]
            J[idx] = [d[idx] * x for x in u_]
        ctx.count("config_nearly_parallel_rows")
    for i in tiny:
        # a gradient of norm ~1e-13..1e-17 is still a direction: its cosine must come out like the others'
        k = rng.choice([40, 50, 60]) if dtype == torch.float64 else rng.choice([40, 50])
        J[i], d[i] = [v / 2 ** k for v in J[i]], d[i] / 2 ** k
    ctx.count("config_tiny_rows", len(tiny))
    pref = rng.choice([None, [Fr(rng.randint(1, 8), 4) for _ in range(m)]])
    w = pref if pref is not None else [Fr(1)] * m
    rep = ask_agg(ctx.driver, "config", J, d=d, w=w)
    ctx.case(("config", sx(J), str(pref), str(dtype)), nontrivial=rep is not None,
             sample={"aggregator": "ConFIG", "J": [[str(v) for v in r] for r in J], "pref": str(pref)})
    if rep is None:
        ctx.count("config_dependent_rows")
        return
    U = [[v / d[i] for v in J[i]] for i in range(m)]
    kappa = cond(gram(U))
    uu = ulp(dtype)
    # the pseudo-inverse of the UNIT rows loses cond(U) = sqrt(kappa) digits (measured on the unchanged tree: error <= 2.4 ulp
    # sqrt(kappa) m n over 6 seeds): allowance 64 ulp sqrt(kappa) m n
    rk = kappa ** 0.5
    if 64 * uu * rk * m * n > 1e-2:
        ctx.count("config_skipped_ill_conditioned")
        return
    Jt = to_tensor(J, dtype)
    pt = None if pref is None else torch.tensor([float(v) for v in pref], dtype=dtype)
    A = ConFIG(pref_vector=pt)
    warm = rng.random() < 0.3
    if warm:
        # the instance has been used before (on a matrix with all-zero rows): the statement is about every call
        Z = Jt.clone()
        Z[rng.randrange(m):] = 0
        run_agg(A, Z)
        ctx.count("config_reused_instance")
    st, x = run_agg(A, Jt)
    rp = {"aggregator": "ConFIG", "instance_called_before_on_zero_rows": warm, "J": [[str(v) for v in r] for r in J], "pref": None if pref is None else [str(v) for v in pref],
          "dtype": str(dtype)}
    if st != "ok":
        ctx.violation(f"ConFIG raised {x}", rp)
        return
    xs, xm = tensor_to_fr(x), fr_list(rep[1])
    tol = Fr(64 * uu * rk * m * n) * max(maxabs(xm), Fr(1, 10 ** 30))
    ctx.count("config_compared")
    ctx.count("config_pref", "default" if pref is None else "given")
    if pt is not None and not torch.equal(pt, torch.tensor([float(v) for v in pref], dtype=dtype)):
        ctx.violation(f"ConFIG modified the preference vector it was given: {pref} became {pt.tolist()}", rp)
        return
    _k = "config_worst_error_over_ulp_sqrtkappa_mn:" + str(dtype)[6:]
    ctx.cov[_k] = max(ctx.cov.get(_k, 0.0), float(maxdiff(xs, xm) / (Fr(uu * kappa ** 0.5 * m * n) * max(maxabs(xm), Fr(1, 10 ** 30)))))
    ctx.cov["config_max_sqrt_kappa:" + str(dtype)[6:]] = max(ctx.cov.get("config_max_sqrt_kappa:" + str(dtype)[6:], 0.0), kappa ** 0.5)
    if maxdiff(xs, xm) > tol:
        ctx.violation(f"ConFIG(pref={pref}) = {[float(v) for v in xs]} differs from the exact conflict-free vector "
                      f"{[float(v) for v in xm]} (tolerance {float(tol):.3e})", rp)
        return
    # cosines proportional to the weights, all positive
    nx2 = dotf(xs, xs)
    if nx2 > 0:
        cos_over_w = [dotf(U[i], xs) / w[i] for i in range(m)]       # = |x| * cos_i / w_i : must be constant
        sc = max(maxabs(cos_over_w), Fr(1, 10 ** 30))
        if max(cos_over_w) - min(cos_over_w) > Fr(C_TOL * uu * rk * m * 8) * sc or min(cos_over_w) <= 0:
            ctx.violation(f"ConFIG: cosines to the rows are not positive and proportional to the preference weights: "
                          f"{[float(v) for v in cos_over_w]}", rp)


def check_aligned(ctx: Ctx, dtype, cond=None):
    rng = ctx.rng
    m = rng.choice([1, 2, 2, 3, 4])
    n = rng.randint(m, m + 3)
    sig = sorted([Fr(rng.randint(2, 24), rng.choice([1, 2, 4])) for _ in range(m)], reverse=True)
    if cond is not None:
        m = rng.choice([2, 3])
        n = rng.randint(m, m + 2)
        sig = sorted([Fr(1)] + [Fr(1, rng.randint(2, cond // 2)) for _ in range(m - 2)] + [Fr(1, cond)], reverse=True)
    # (up to 1e10: the Gramian, of magnitude 1e20, is still far inside single precision's range — its SQUARES are not)
    scale = rng.choice([Fr(1), Fr(1, 100), Fr(100), Fr(1, 10 ** 6), Fr(10 ** 5), Fr(10 ** 10)])
    J, V, sigma, W = m_svd(rng, m, n, sigmas=sig, scale=scale)
    vecs = transpose(V)            # eigenvectors of J J^T = columns of V
    pref = rng.choice([None, [Fr(rng.randint(1, 8), 4) for _ in range(m)], "onehot"])
    kappa = float(sigma[0] / sigma[-1]) ** 2
    uu = ulp(dtype)
    ctx.case(("aligned", sx(J), str(pref), str(dtype)), nontrivial=True,
             sample={"aggregator": "AlignedMTL", "J": [[str(v) for v in r] for r in J], "sigma": [str(s) for s in sigma]})
    if C_TOL * uu * kappa * m > 1e-2:
        ctx.count("aligned_skipped_ill_conditioned")
        return
    Jt = to_tensor(J, dtype)
    rp = {"aggregator": "AlignedMTL", "J": [[str(v) for v in r] for r in J], "sigma": [str(s) for s in sigma], "dtype": str(dtype)}
    prefs = [[Fr(int(i == k)) for i in range(m)] for k in range(m)] if pref == "onehot" else [pref]
    B_impl = []
    for pv in prefs:
        w = pv if pv is not None else [Fr(1, m)] * m
        A = AlignedMTL(pref_vector=None if pv is None else torch.tensor([float(v) for v in pv], dtype=dtype))
        st, x = run_agg(A, Jt)
        if st != "ok":
            ctx.violation(f"AlignedMTL raised {x}", rp)
            return
        al, xs = tensor_to_fr(A.weighting(Jt)), tensor_to_fr(x)
        rep = ask_agg(ctx.driver, "aligned", J, vecs=vecs, sigma=sigma, w=w)
        if rep is None:
            ctx.violation("model rejected its own eigen-decomposition certificate", rp, no_input=True)
            return
        am, xm = fr_list(rep[1]), fr_list(rep[2])
        tol_a = Fr(C_TOL * uu * kappa * m) * max(maxabs(am), Fr(1, 10 ** 30))
        tol_x = tol_a * max(sum(abs(v) for v in r) for r in J) * m
        ctx.count("aligned_compared")
        if maxdiff(al, am) > tol_a or maxdiff(xs, xm) > tol_x:
            ctx.violation(f"AlignedMTL(pref={pv}) weights {[float(v) for v in al]} differ from sigma_min V Sigma^-1 V^T w = "
                          f"{[float(v) for v in am]} (tolerance {float(tol_a):.3e})", {**rp, "pref": str(pv)})
            return
        B_impl.append(al)
    if pref == "onehot":
        # B (columns recovered with one-hot preference vectors): re-balanced rows B J are mutually orthogonal and all
        # as long as the smallest singular value
        B = transpose(B_impl)
        BJ = [[sum(B[i][k] * J[k][c] for k in range(m)) for c in range(n)] for i in range(m)]
        smin2 = sigma[-1] ** 2
        for a in range(m):
            for b in range(m):
                v = dotf(BJ[a], BJ[b])
                target = smin2 if a == b else Fr(0)
                if abs(v - target) > Fr(C_TOL * uu * kappa * m * 8) * smin2:
                    ctx.violation(f"AlignedMTL: re-balanced rows are not orthogonal with squared length sigma_min²: "
                                  f"<r{a}, r{b}> = {float(v)} (expected {float(target)})", rp)
                    return
        ctx.count("aligned_balance_checked")


def check_zero(ctx: Ctx, dtype):
    rng = ctx.rng
    m, n = rng.randint(1, 5), rng.randint(1, 6)
    Z = torch.zeros(m, n, dtype=dtype)
    for name, A in (("IMTLG", IMTLG()), ("ConFIG", ConFIG()), ("AlignedMTL", AlignedMTL())):
        st, x = run_agg(A, Z)
        ctx.count("zero_matrix", name)
        if st != "ok" or not bool((x == 0).all()) or tuple(x.shape) != (n,):
            ctx.violation(f"{name} on the all-zero {m}x{n} matrix returned {x if st == 'ok' else st}",
                          {"aggregator": name, "shape": [m, n], "dtype": str(dtype)})
    ctx.case(("zero", m, n, str(dtype)), nontrivial=False)


def check_wide(ctx: Ctx):
    """the defining conditions do not depend on the number of columns: few objectives over thousands of parameters
    (float64 Gaussian rows of very different norms), conditions evaluated on the implementation's output"""
    rng = ctx.rng
    m = rng.choice([2, 3, 4])
    n = rng.choice([1024, 1500, 2048, 4100])
    g = torch.Generator().manual_seed(rng.randrange(2 ** 31))
    J = torch.randn(m, n, generator=g, dtype=torch.float64)
    J = J * torch.tensor([10.0 ** rng.uniform(-2, 2) for _ in range(m)], dtype=torch.float64)[:, None]
    norms = J.norm(dim=1)
    U = J / norms[:, None]
    pref = rng.choice([None, [float(rng.randint(1, 6)) for _ in range(m)]])
    w = torch.ones(m, dtype=torch.float64) if pref is None else torch.tensor(pref, dtype=torch.float64)
    rp = {"family": "wide", "shape": [m, n], "row_norms": norms.tolist(), "pref": pref, "generator_seed": "see replay seed"}
    ctx.case(("wide", m, n, str(pref), float(norms[0])), nontrivial=True)
    # ConFIG: cosines proportional to the preference, length = sum of the projections of the rows
    st, x = run_agg(ConFIG(pref_vector=None if pref is None else torch.tensor(pref, dtype=torch.float64)), J)
    ctx.count("wide", "ConFIG")
    if st != "ok":
        ctx.violation(f"ConFIG raised {x} on a {m}x{n} matrix", {**rp, "aggregator": "ConFIG"})
        return
    cw = (U @ x) / w
    length = float(x.norm())
    proj = float((J @ x).sum() / max(length, 1e-300))
    if float(cw.max() - cw.min()) > 1e-7 * float(cw.abs().max()) or float(cw.min()) <= 0 or abs(length - proj) > 1e-7 * length:
        ctx.violation(f"ConFIG on a {m}x{n} matrix with row norms {[f'{v:.3g}' for v in norms.tolist()]}: cosines/preference = "
                      f"{[f'{v:.6g}' for v in cw.tolist()]} (must be equal and positive); |A(J)| = {length:.6g}, sum of the "
                      f"projections of the rows = {proj:.6g}", {**rp, "aggregator": "ConFIG"})
        return
    # IMTL-G: weights sum to one, equal projections onto the unit rows
    A = IMTLG()
    st, x = run_agg(A, J)
    ctx.count("wide", "IMTLG")
    if st != "ok":
        ctx.violation(f"IMTLG raised {x} on a {m}x{n} matrix", {**rp, "aggregator": "IMTLG"})
        return
    pr = U @ x
    ws = float(A.weighting(J).sum())
    if float(pr.max() - pr.min()) > 1e-7 * float(pr.abs().max()) or abs(ws - 1) > 1e-9:
        ctx.violation(f"IMTLG on a {m}x{n} matrix: projections onto the unit rows {[f'{v:.6g}' for v in pr.tolist()]} (must be "
                      f"equal), weights sum to {ws}", {**rp, "aggregator": "IMTLG"})


def aligned_many_columns(ctx: Ctx):
    """the re-balanced rows are orthogonal and as long as the smallest singular value whatever the number of COLUMNS: a
    float32 matrix of condition number 10..25 with 60 000 - 200 000 columns has an unambiguous full row rank (the rank decision
    concerns the m x m Gramian)"""
    rng = ctx.rng
    m = rng.choice([2, 3])
    n = rng.choice([60000, 120000, 200000])
    g = torch.Generator().manual_seed(rng.randrange(2 ** 31))
    Q, _ = torch.linalg.qr(torch.randn(n, m, generator=g, dtype=torch.float64))      # n x m, orthonormal columns
    P_, _ = torch.linalg.qr(torch.randn(m, m, generator=g, dtype=torch.float64))
    cond = rng.choice([10.0, 25.0])
    sv = torch.tensor([cond ** (1 - i / (m - 1)) for i in range(m)], dtype=torch.float64)
    J64 = P_ @ torch.diag(sv) @ Q.T
    J = J64.to(torch.float32)
    ctx.case(("aligned-many-columns", m, n, cond), nontrivial=True)
    ctx.count("aligned_many_columns", n)
    rows = []
    for k in range(m):
        e = torch.zeros(m, dtype=torch.float32)
        e[k] = 1.0
        st, x = run_agg(AlignedMTL(pref_vector=e), J)
        if st != "ok":
            ctx.violation(f"AlignedMTL raised {x} on a {m}x{n} float32 matrix", {"aggregator": "AlignedMTL", "shape": [m, n]})
            return
        rows.append(x.double())
    R = torch.stack(rows)
    G = R @ R.T
    smin2 = float(sv[-1]) ** 2
    err = float((G - smin2 * torch.eye(m, dtype=torch.float64)).abs().max()) / smin2
    if err > 5e-3:
        ctx.violation(f"AlignedMTL on a {m}x{n} float32 matrix of condition number {cond}: the re-balanced rows (one-hot preferences) "
                      f"have Gramian {G.tolist()} instead of sigma_min^2 I = {smin2} I (relative deviation {err:.2e})",
                      {"aggregator": "AlignedMTL", "family": "many columns", "shape": [m, n], "cond": cond})


def cast_roundtrip(ctx: Ctx):
    """aggregators are nn.Modules: moving one through a low-precision dtype and back (`.half().float()`, `.bfloat16().double()`,
    as happens to every sub-module of a model that is cast) must not change the preference vector it was configured with"""
    rng = ctx.rng
    m = rng.choice([2, 3])
    n = m + rng.choice([0, 1, 2])
    dtype = rng.choice([torch.float32, torch.float64])
    g = torch.Generator().manual_seed(rng.randrange(2 ** 31))
    q, _ = torch.linalg.qr(torch.randn(n, n, generator=g, dtype=torch.float64))
    J = (torch.diag(torch.tensor([1.0 + 0.5 * i for i in range(m)], dtype=torch.float64)) @ q[:m]).to(dtype)
    pref = [rng.choice([0.1, 0.23, 0.67, 1.3, 2.9]) for _ in range(m)]          # not representable in half / bfloat16
    low = rng.choice([torch.float16, torch.bfloat16])
    for name, cls in (("ConFIG", ConFIG), ("AlignedMTL", AlignedMTL), ("UPGrad", None), ("DualProj", None)):
        if cls is None:
            from torchjd.aggregation import DualProj, UPGrad
            cls = {"UPGrad": UPGrad, "DualProj": DualProj}[name]
        mk = lambda: cls(pref_vector=torch.tensor(pref, dtype=dtype))      # noqa: E731
        st0, ref = run_agg(mk(), J)
        if st0 != "ok":
            ctx.violation(f"{name}(pref_vector={pref}) raised {ref} on a well-conditioned {dtype} matrix",
                          {"aggregator": name, "pref": pref, "dtype": str(dtype), "J": J.tolist()})
            return
        A = mk().to(low).to(dtype)
        st, x = run_agg(A, J)
        ctx.count("cast_roundtrip", name)
        ctx.case(("cast", name, str(low), str(dtype), tuple(pref)), nontrivial=True)
        if st != "ok" or not torch.equal(x, ref):
            ctx.violation(f"{name}(pref_vector={pref}) moved to {low} and back to {dtype} returns "
                          f"{x.tolist() if st == 'ok' else x} instead of {ref.tolist()}: the configured preference was altered by "
                          f"casting the module", {"aggregator": name, "pref": pref, "through": str(low), "dtype": str(dtype), "J": J.tolist()})
            return


def default_dtype_float64(ctx: Ctx):
    """torch.set_default_dtype(torch.float64) (after the library was imported): double-precision matrices of condition number
    1e3..1e4 are of unambiguous full rank there and the Aligned-MTL conditions must hold"""
    old = torch.get_default_dtype()
    torch.set_default_dtype(torch.float64)
    try:
        check_aligned(ctx, torch.float64, cond=ctx.rng.choice([2000, 5000, 10000]))
        ctx.count("default_dtype_float64")
    finally:
        torch.set_default_dtype(old)


def main(ctx: Ctx):
    ctx.lean_gate()
    for _ in range(8 if ctx.tier == "quick" else 400):
        check_wide(ctx)
        cast_roundtrip(ctx)
        default_dtype_float64(ctx)
    for _ in range(2 if ctx.tier == "quick" else 40):
        aligned_many_columns(ctx)
    n = 250 if ctx.tier == "quick" else 40000
    for i in range(n):
        dtype = torch.float64 if i % 3 else torch.float32
        check_imtlg(ctx, dtype)
        check_config(ctx, dtype)
        check_aligned(ctx, dtype)
        if i % 5 == 0:
            check_zero(ctx, dtype)
    return ctx.finish(
        rule="M-unit matrices (rows = rational norm x rational unit vector: exact row norms) for IMTL-G / ConFIG, M-svd "
             "matrices (rational spectrum, full row rank) for Aligned-MTL, m <= n <= m+3, scales 1e-3..1e3, positive "
             "preference vectors incl. one-hot; implementation vs exact rational model (tolerance C·u·cond) + the "
             "defining conditions evaluated on the implementation's output (weights sum to one and equal projections; "
             "cosines proportional to the preference; re-balanced rows orthonormal up to sigma_min); zero matrices; wide "
             "float64 matrices (2-4 rows of very different norms over 1024-4100 columns) with the conditions evaluated on the output",
        trusted=TRUSTED + ["kernels: torch.linalg.pinv / eigh (certificate-checked in the model: G v = d, V^T V = I and "
                           "M = V Sigma² V^T); row norms / singular values are exact by construction of the inputs"])
