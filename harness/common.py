"""Shared machinery for the /verif checks: Lean gate (build + audit), model driver, evidence,
violation / known-finding reporting.  Run with /venv/bin/python (the interpreter that has torch and
resolves `torchjd` to /repo/src, i.e. the *current working tree*)."""
from __future__ import annotations

import hashlib
import json
import os
import random
import subprocess
import sys
import time
from fractions import Fraction
from pathlib import Path

VERIF = Path(__file__).resolve().parent.parent
LEAN = VERIF / "lean"
EVIDENCE = VERIF / "evidence"
REPLAY = EVIDENCE / "replay"
DRIVER_EXE = LEAN / ".lake" / "build" / "bin" / "tjd_driver"
KNOWN = VERIF / "known_findings.json"
ALLOWED_AXIOMS = {"propext", "Classical.choice", "Quot.sound"}
FORBIDDEN_SRC = ["sorry", "admit", "native_decide", "bv_decide", "implemented_by", "unsafe ",
                 "maxHeartbeats 0"]


class InfraError(Exception):
    """Infrastructure failure: exit code 2, never a VIOLATION line."""


# ----------------------------------------------------------------------------- S-expressions
def sx(o) -> str:
    if isinstance(o, bool):
        return "true" if o else "false"
    if isinstance(o, int):
        return str(o)
    if isinstance(o, Fraction):
        return str(o.numerator) if o.denominator == 1 else f"{o.numerator}/{o.denominator}"
    if isinstance(o, float):
        return sx(Fraction(o))
    if isinstance(o, str):
        return o
    if isinstance(o, (list, tuple)):
        return "(" + " ".join(sx(x) for x in o) + ")"
    if o is None:
        return "none"
    raise TypeError(f"cannot encode {type(o)}")


def parse_sx(s: str):
    toks = s.replace("(", " ( ").replace(")", " ) ").split()
    pos = 0

    def rd():
        nonlocal pos
        t = toks[pos]
        pos += 1
        if t == "(":
            out = []
            while toks[pos] != ")":
                out.append(rd())
            pos += 1
            return out
        return t

    v = rd()
    if pos != len(toks):
        raise ValueError("trailing tokens in reply: " + s[:200])
    return v


def to_frac(a) -> Fraction:
    if "/" in a:
        p, q = a.split("/")
        return Fraction(int(p), int(q))
    return Fraction(int(a))


def field(reply, key):
    for x in reply:
        if isinstance(x, list) and x and x[0] == key:
            return x[1:]
    return None


# ----------------------------------------------------------------------------- Lean side
def run(cmd, cwd=None, timeout=3600, env=None):
    return subprocess.run(cmd, cwd=cwd, capture_output=True, text=True, timeout=timeout, env=env)


_gate_cache: dict = {}


def lean_build():
    """(Re)build model, lemmas, property theorems and the compiled driver. No-op when up to date."""
    t0 = time.time()
    r = run(["lake", "build"], cwd=LEAN, timeout=3000)
    ok = r.returncode == 0
    return ok, (r.stdout + r.stderr)[-4000:], time.time() - t0


def module_closure(modules):
    """project files transitively imported by the given modules (plus Main/Driver for the model)"""
    seen, stack = set(), list(modules) + ["Main"]
    while stack:
        m = stack.pop()
        f = LEAN / (m.replace(".", "/") + ".lean")
        if m in seen or not f.exists():
            continue
        seen.add(m)
        for ln in f.read_text().splitlines():
            ln = ln.strip()
            if ln.startswith("import "):
                stack.extend(ln.split()[1:])
    return sorted(LEAN / (m.replace(".", "/") + ".lean") for m in seen)


def lean_source_grep(modules):
    """forbidden constructs in the Lean sources the property depends on (comments stripped)"""
    hits = []
    for p in module_closure(modules):
        txt = p.read_text()
        # strip block comments then line comments
        out, depth, i = [], 0, 0
        while i < len(txt):
            if txt.startswith("/-", i):
                depth += 1
                i += 2
            elif txt.startswith("-/", i) and depth > 0:
                depth -= 1
                i += 2
            else:
                if depth == 0:
                    out.append(txt[i])
                i += 1
        code = "".join(out)
        for ln in code.splitlines():
            ln = ln.split("--")[0]
            for f in FORBIDDEN_SRC:
                if f in ln:
                    hits.append(f"{p.relative_to(LEAN)}: {ln.strip()[:120]}")
            if ln.startswith("axiom "):
                hits.append(f"{p.relative_to(LEAN)}: {ln.strip()[:120]}")
    return hits


def lean_audit():
    """list of {module, name, axioms} for every theorem of TjdProps.*; cached on the .olean hashes"""
    key = hashlib.sha256()
    key.update((LEAN / "Audit.lean").read_bytes())
    for p in sorted((LEAN / ".lake" / "build" / "lib" / "lean").rglob("*.olean")):
        st = p.stat()
        key.update(f"{p.name}:{st.st_size}:{st.st_mtime_ns}".encode())
    cache = LEAN / ".lake" / "audit_cache.json"
    k = key.hexdigest()
    if cache.exists():
        try:
            c = json.loads(cache.read_text())
            if c.get("key") == k:
                return c["items"]
        except Exception:
            pass
    r = run(["lake", "env", "lean", "Audit.lean"], cwd=LEAN, timeout=1800)
    if r.returncode != 0:
        raise InfraError("Audit.lean failed:\n" + (r.stdout + r.stderr)[-3000:])
    items = []
    for ln in r.stdout.splitlines():
        if ln.startswith("AUDIT "):
            items.append(json.loads(ln[6:]))
    cache.write_text(json.dumps({"key": k, "items": items}))
    return items


class Driver:
    """the compiled Lean model behind a one-line-in / one-line-out protocol"""

    def __init__(self):
        if not DRIVER_EXE.exists():
            raise InfraError(f"model driver not built: {DRIVER_EXE}")
        self.p = subprocess.Popen([str(DRIVER_EXE)], stdin=subprocess.PIPE, stdout=subprocess.PIPE,
                                  text=True, bufsize=1)
        self.n = 0

    def ask_raw(self, line: str) -> str:
        self.p.stdin.write(line + "\n")
        self.p.stdin.flush()
        # watchdog: a request the model cannot answer in reasonable time must end the run (exit 2), not hang it
        import select
        limit = float(os.environ.get("VERIF_DRIVER_TIMEOUT", "900"))
        ready, _, _ = select.select([self.p.stdout], [], [], limit)
        if not ready:
            self.p.kill()
            raise InfraError(f"model driver did not answer within {limit:.0f} s on request: " + line[:300])
        out = self.p.stdout.readline()
        if out == "":
            raise InfraError("model driver died on request: " + line[:300])
        self.n += 1
        return out.strip()

    def ask(self, req):
        line = sx(req)
        out = self.ask_raw(line)
        if out.startswith("(bad-request"):
            raise InfraError(f"model driver rejected request: {out}\n  request: {line[:500]}")
        return parse_sx(out)

    def close(self):
        try:
            self.p.stdin.close()
            self.p.wait(timeout=5)
        except Exception:
            self.p.kill()


# ----------------------------------------------------------------------------- check context
class Ctx:
    def __init__(self, pid: str, modules: list[str], tier: str, seed: int):
        self.pid, self.modules, self.tier, self.seed = pid, modules, tier, seed
        self.t0 = time.time()
        self.rng = random.Random(f"{pid}:{seed}")
        self.cov: dict = {"evaluations": 0, "distinct_nontrivial": 0, "samples": []}
        self.hist: dict = {}
        self.distinct: set = set()
        self.violations = 0
        self.known_hits: dict = {}
        self.notes: list[str] = []
        self.assumptions: list[str] = []
        self.proof_broken: list[str] = []
        self.obligations: list[dict] = []
        self._known = json.loads(KNOWN.read_text()) if KNOWN.exists() else {"findings": []}
        self._driver = None
        self.budget_s = None

    # -- lean gate ---------------------------------------------------------------------------
    def lean_gate(self):
        try:
            self._lean_gate()
        finally:
            # from here on only the implementation under test and the model driver run: cap the address space so that a
            # change which makes the implementation allocate without bound ends as a (reported) RuntimeError / MemoryError of
            # that call instead of exhausting the machine
            try:
                import resource
                cap = int(os.environ.get("VERIF_MEM_GB", "40")) << 30
                resource.setrlimit(resource.RLIMIT_AS, (cap, cap))
            except Exception:  # noqa: BLE001
                pass

    def _lean_gate(self):
        if os.environ.get("VERIF_DEV_SKIP_LEAN") == "1":
            # development aid only (mutation testing of the correspondence); never set by MANIFEST commands
            self.notes.append("LEAN GATE SKIPPED (VERIF_DEV_SKIP_LEAN=1): this run proves nothing")
            self.obligations = []
            self.proof_skipped = True
            return
        ok, log, dt = lean_build()
        self.cov["lean_build_s"] = round(dt, 2)
        if not ok:
            self.proof_broken.append("lake build failed: " + log[-1500:])
            return
        hits = lean_source_grep(self.modules)
        if hits:
            self.proof_broken.append("forbidden construct in Lean sources: " + "; ".join(hits[:5]))
        items = [it for it in lean_audit() if it["module"] in self.modules]
        self.obligations = items
        for it in items:
            bad = [a for a in it["axioms"] if a not in ALLOWED_AXIOMS]
            if bad:
                self.proof_broken.append(f"theorem {it['name']} depends on axioms {bad}")
        if not items:
            self.proof_broken.append(f"no theorem found in {self.modules}")
        if self.tier == "thorough" and not self.proof_broken:
            # independent re-check of the compiled proofs: the property modules AND every project module they
            # import (the property theorems are mostly one-line applications of lemmas proved in TjdLemmas)
            closure = []
            for f in module_closure(self.modules):
                rel = f.relative_to(LEAN).with_suffix("")
                if rel.parts[0] in ("TjdProps", "TjdLemmas", "TjdModel"):
                    closure.append(".".join(rel.parts))
            self.cov["leanchecker_modules"] = len(closure)
            r = run(["lake", "env", "leanchecker"] + closure, cwd=LEAN, timeout=3000)
            if r.returncode in (137, 143, -9, -15) and not (r.stdout + r.stderr).strip():
                # killed from outside (observed: out of memory with four thorough commands at once, each re-checker holding
                # several GB): that is not a rejection — try once more, then give up as an infrastructure failure
                time.sleep(20)
                r = run(["lake", "env", "leanchecker"] + closure, cwd=LEAN, timeout=3000)
                if r.returncode in (137, 143, -9, -15) and not (r.stdout + r.stderr).strip():
                    raise InfraError(f"leanchecker was killed twice (exit {r.returncode}, no output): not enough memory for the re-check")
            self.cov["leanchecker_exit"] = r.returncode
            if r.returncode != 0:
                self.proof_broken.append("leanchecker rejected: " + (r.stdout + r.stderr)[-800:])

    @property
    def driver(self) -> Driver:
        if self._driver is None:
            self._driver = Driver()
        return self._driver

    # -- bookkeeping -------------------------------------------------------------------------
    _NOKEY = object()

    def count(self, name: str, key=_NOKEY, n: int = 1):
        if key is Ctx._NOKEY:
            self.hist[name] = self.hist.get(name, 0) + n
        else:
            d = self.hist.setdefault(name, {})
            d[str(key)] = d.get(str(key), 0) + n

    def case(self, sig, nontrivial: bool = True, sample=None):
        """register one evaluated case; sig identifies it for distinctness"""
        self.cov["evaluations"] += 1
        if nontrivial:
            h = hashlib.sha1(repr(sig).encode()).hexdigest()[:16]
            if h not in self.distinct:
                self.distinct.add(h)
        self.last_case = {"sig": repr(sig)[:4000], "sample": sample}
        if sample is not None and len(self.cov["samples"]) < 6:
            self.cov["samples"].append(sample)

    def out_of_time(self) -> bool:
        return self.budget_s is not None and time.time() - self.t0 > self.budget_s

    # -- findings ----------------------------------------------------------------------------
    def known_match(self, tag: str):
        """a finding recorded (not repaired) in known_findings.json under this property & tag"""
        for f in self._known.get("findings", []):
            if f.get("property") == self.pid and f.get("status") == "known" and f.get("tag") == tag:
                return f
        return None

    def violation(self, what: str, replay: dict, tag: str | None = None, no_input: bool = False):
        """report a violation (or a KNOWN-FINDING when `tag` is listed as known)"""
        if tag is not None:
            f = self.known_match(tag)
            if f is not None:
                if tag not in self.known_hits:
                    self.known_hits[tag] = 0
                    print(f"KNOWN-FINDING: property={self.pid} {f['what']}", flush=True)
                self.known_hits[tag] += 1
                return
        self.violations += 1
        REPLAY.mkdir(parents=True, exist_ok=True)
        body = {"property": self.pid, "what": what, "tier": self.tier, "seed": self.seed,
                "replay_cmd": f"./check {self.pid} --replay <this file>", **replay}
        h = hashlib.sha1(json.dumps(body, sort_keys=True, default=str).encode()).hexdigest()[:10]
        path = REPLAY / f"{self.pid}-{h}.json"
        path.write_text(json.dumps(body, indent=1, default=str))
        rel = path.relative_to(VERIF)
        tail = " no-failing-input-found" if no_input else ""
        if self.violations <= 5:
            print(f"VIOLATION property={self.pid} replay={rel}{tail}", flush=True)
            print(f"  {what[:600]}", flush=True)

    # -- end ---------------------------------------------------------------------------------
    def finish(self, rule: str, trusted: list[str], checker_cmd: str | None = None) -> int:
        if self._driver is not None:
            self._driver.close()
        if getattr(self, "proof_skipped", False):
            print(f"[{self.pid}] WARNING: Lean gate skipped (development mode)", flush=True)
        if self.proof_broken and self.violations == 0:
            # proof obligation no longer checks and the searches above found no failing input
            self.violation("proof obligation no longer checks: " + " | ".join(self.proof_broken)[:1500],
                           {"broken": self.proof_broken}, no_input=True)
        n_obl = len(self.obligations)
        n_dis = sum(1 for it in self.obligations
                    if all(a in ALLOWED_AXIOMS for a in it["axioms"])) if not any(
                        "lake build failed" in b for b in self.proof_broken) else 0
        self.cov["distinct_nontrivial"] = len(self.distinct)
        self.cov["rule"] = rule
        self.cov["obligations"] = n_obl
        self.cov["discharged"] = n_dis
        self.cov["theorems"] = [it["name"] for it in self.obligations]
        self.cov["axioms_used"] = sorted({a for it in self.obligations for a in it["axioms"]})
        self.cov["checker_cmd"] = checker_cmd or (
            "cd lean && lake build && lake env lean Audit.lean"
            + (" && lake env leanchecker <property modules and every project module they import>"
               if self.tier == "thorough" else ""))
        self.cov["trusted_base"] = trusted
        # which tree was checked: the model is validated against /repo's CURRENT working tree on every run
        try:
            head = run(["git", "-C", "/repo", "rev-parse", "--short", "HEAD"]).stdout.strip()
            dirty = [l[3:] for l in run(["git", "-C", "/repo", "status", "--porcelain"]).stdout.splitlines()]
            self.cov["repo_state"] = {"head": head, "modified_files": dirty[:20]}
        except Exception:  # noqa: BLE001
            pass
        self.cov["histograms"] = self.hist
        self.cov["known_findings_hit"] = self.known_hits
        if self.notes:
            self.cov["notes"] = self.notes
        if not self.cov["samples"]:
            self.cov["samples"] = ["(no case sampled)"]
        ev = {"property_id": self.pid, "tier": self.tier, "seed": self.seed, "level": "proof",
              "coverage": self.cov, "assumptions": self.assumptions,
              "wall_s": round(time.time() - self.t0, 2), "violations": self.violations}
        # a gate-skipped development run is not evidence: it is written aside, never to evidence/
        evdir = (VERIF / "out" / "dev-evidence") if getattr(self, "proof_skipped", False) else EVIDENCE
        evdir.mkdir(parents=True, exist_ok=True)
        (evdir / f"{self.pid}.json").write_text(json.dumps(ev, indent=1, default=str))
        status = "OK" if self.violations == 0 else "FAIL"
        print(f"[{self.pid}] {status} tier={self.tier} seed={self.seed} evaluations="
              f"{self.cov['evaluations']} distinct={len(self.distinct)} theorems={n_dis}/{n_obl} "
              f"known={sum(self.known_hits.values())} wall={ev['wall_s']}s", flush=True)
        return 0 if self.violations == 0 else 1


TRUSTED_COMMON = [
    "Lean 4.33 kernel (+ leanchecker in the thorough tier); axioms propext, Classical.choice, Quot.sound only",
    "Lean compiler and Rat runtime (the driver executes compiled model definitions)",
    "this Python harness: generators, float->rational encoding, comparison code",
]


def classify_exc(e: BaseException) -> str:
    if isinstance(e, ValueError):
        return "ValueError"
    if isinstance(e, TypeError):
        return "TypeError"
    if isinstance(e, RuntimeError):
        return "RuntimeError"
    return "Other"
