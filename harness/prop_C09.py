"""C09 — linear under scaling: c -> A(diag(c) J) is linear on positive vectors c."""
from __future__ import annotations

import math
from fractions import Fraction as Fr

import torch

from aggs import catalogue
from common import Ctx, classify_exc
from matrices import m_int, m_svd, m_unit, to_tensor, ulp
from prop_C03 import TRUSTED
from prop_C08 import attempt, relerr, well_conditioned

from torchjd.aggregation import UPGrad

LINEAR = {"Mean", "Sum", "Constant", "ConFIG", "PCGrad", "Random"}
UPGRAD_CONST = 50.0         # defect <= UPGRAD_CONST * sqrt(reg_eps) * s * |w|_1   (calibrated, see evidence: worst observed)


def scalings(rng, m):
    if rng.random() < 0.3:
        # the two ends of the six orders of magnitude: an objective 1e6 times larger than a conflicting one is still
        # projected off it (the correction has the size of the LARGE row)
        ext = lambda: (1e3 if rng.random() < 0.5 else 1e-3) * rng.uniform(0.3, 1.0)          # noqa: E731
        c1 = torch.tensor([ext() for _ in range(m)], dtype=torch.float64)
        c2 = torch.tensor([ext() for _ in range(m)], dtype=torch.float64)
        a, b = 10.0 ** rng.uniform(-1, 1), 10.0 ** rng.uniform(-1, 1)
        return c1, c2, a, b
    c1 = torch.tensor([10.0 ** rng.uniform(-3, 3) for _ in range(m)], dtype=torch.float64)
    c2 = torch.tensor([10.0 ** rng.uniform(-3, 3) for _ in range(m)], dtype=torch.float64)
    a, b = 10.0 ** rng.uniform(-1, 1), 10.0 ** rng.uniform(-1, 1)
    return c1, c2, a, b


def one_linear(ctx: Ctx, spec, dtype):
    rng = ctx.rng
    m = rng.choice([2, 3, 4])
    if spec.name == "ConFIG" and rng.random() < 0.4:
        # more objectives than parameters (or dependent rows): the common direction then has a NEGATIVE inner product
        # with some rows, and the total length sum_i c_i <j_i, u> changes sign with c — still linear in c
        m = rng.choice([3, 4, 5])
        n = rng.choice([2, m - 1])
        J = m_int(rng, m, n, kind="plain")
        ctx.count("family", "ConFIG:more-rows-than-columns")
    elif spec.name == "ConFIG":
        n = rng.choice([m, m + 1, m + 2])
        J = well_conditioned(rng, m, n)
    else:
        n = rng.choice([2, 3, 5])
        J = m_int(rng, m, n, kind="plain")
    if spec.name == "PCGrad" and rng.random() < 0.35:
        # a row orthogonal to all the others in non-trivial coordinates (0.1*0.3 - 0.3*0.1: the COMPUTED inner products are
        # rounding noise whose sign changes with the scaling), listed before >= 3 mutually conflicting rows: the number of
        # random draws must not depend on such signs, or equal seeds stop meaning equal projection orders
        m = rng.choice([4, 5])
        n = 4
        J = [[Fr(1, 10), Fr(3, 10), Fr(0), Fr(0)]]
        for i in range(m - 1):
            a = Fr(rng.randint(1, 9), 10)
            J.append([Fr(3, 10) * a, -Fr(1, 10) * a, Fr(rng.choice([-1, 1]) * rng.randint(1, 9), 7), Fr(rng.randint(-9, 9), 7)])
        if rng.random() < 0.5:
            J[0], J[1] = J[1], J[0]
        ctx.count("family", "PCGrad:orthogonal-up-to-noise")
    if any(all(v == 0 for v in r) for r in J):
        return
    Jt = to_tensor(J, torch.float64)
    # overall scale of the matrix: tiny gradients must weigh in proportionally too
    expo = rng.choice([0, 0, -6, 6, -10]) if dtype == torch.float64 else rng.choice([0, 0, -4, 4])
    Jt = Jt * (10.0 ** expo)
    ctx.count("matrix_scale_exponent", expo)
    pv = None
    if spec.pref == "weights":
        pv = [rng.choice([-2, -1, 1, 2, 3]) for _ in range(m)]
    elif spec.pref == "pref" and rng.random() < 0.6:
        pv = [rng.randint(1, 5) for _ in range(m)]
    A = spec.make(m, dtype, pv)
    c1, c2, a, b = scalings(rng, m)
    seed = rng.randrange(10 ** 6)
    if spec.name == "ConFIG" and len(J) > len(J[0]):
        # steer the scalings: c1 stresses the rows the common direction agrees with, c2 the rows it opposes, so that the
        # total length sum_i c_i <j_i, u> is positive for one and negative for the other
        st0, x0 = attempt(A, Jt.to(dtype), seed)
        if st0 == "ok" and float(x0.abs().max()) > 0:
            pr = Jt @ x0.double()
            if float(pr.min()) < 0 < float(pr.max()):
                hi = lambda: 10.0 ** rng.uniform(0.5, 2)          # noqa: E731
                lo = lambda: 10.0 ** rng.uniform(-3, -1.5)        # noqa: E731
                c1 = torch.tensor([hi() if float(v) > 0 else lo() for v in pr], dtype=torch.float64)
                c2 = torch.tensor([lo() if float(v) > 0 else hi() for v in pr], dtype=torch.float64)
                ctx.count("family", "ConFIG:sign-changing-total")
    if spec.name == "ConFIG":
        # decision margin (§4.2): ConFIG normalises `pinv(unit rows) @ weights` and tests that vector for EXACT zero; when
        # it vanishes in exact arithmetic (rows that cancel pairwise under the weights) the computed one is rounding noise
        # with an arbitrary direction — the definition is discontinuous there and nothing is concluded
        Un = Jt / Jt.norm(dim=1, keepdim=True)
        wv = torch.tensor([float(v) for v in pv], dtype=torch.float64) if pv is not None else torch.ones(len(J), dtype=torch.float64)
        bd = torch.linalg.pinv(Un) @ wv
        if float(bd.norm()) < 1e-4 * float(wv.norm()):
            ctx.count("skipped_low_margin", "ConFIG: best direction vanishes")
            return
    outs = []
    for c in (c1, c2, a * c1 + b * c2):
        st, x = attempt(A, (c[:, None] * Jt).to(dtype), seed)
        if st != "ok":
            ctx.violation(f"{spec.name} raised {x}", {"aggregator": spec.name, "J": [[str(v) for v in r] for r in J]})
            return
        outs.append(x.double())
    lhs, rhs = outs[2], a * outs[0] + b * outs[1]
    # relative to the magnitude of the terms; measured on the unchanged tree (evidence: worst_linearity_defect): <= 3 ulp,
    # ConFIG (a pseudo-inverse in between) <= 7 ulp — the allowance is 2048 ulp (ConFIG: 32768 ulp)
    tol = ulp(dtype) * (32768 if spec.name == "ConFIG" else 2048)
    ctx.case((spec.name, str(J), str(pv), str(dtype), seed), nontrivial=True,
             sample={"aggregator": spec.name, "J": [[str(v) for v in r] for r in J], "c1": c1.tolist(), "c2": c2.tolist(), "a": a, "b": b})
    ctx.count("linear_checked", spec.name)
    e = relerr(lhs, rhs)
    # cancellation-aware scale: compare with the magnitude of the two terms
    # natural magnitude: the terms, and the scaled rows themselves (the exact result may be 0 by cancellation)
    sc = max(float((a * outs[0]).abs().max()), float((b * outs[1]).abs().max()),
             float(((a * c1 + b * c2)[:, None] * Jt).abs().max()), 1e-300)
    e2 = float((lhs - rhs).abs().max()) / sc
    _k = f"worst_linearity_defect:{spec.name}:{str(dtype)[6:]}"
    ctx.cov[_k] = max(ctx.cov.get(_k, 0.0), e2)
    if e2 > tol:
        ctx.violation(f"{spec.name}: A(diag(a c1 + b c2) J) differs from a A(diag(c1) J) + b A(diag(c2) J) by {e2:.3e} "
                      f"(relative to the terms)",
                      {"aggregator": spec.name, "pref": str(pv), "J": [[str(v) for v in r] for r in J], "c1": c1.tolist(),
                       "c2": c2.tolist(), "a": a, "b": b, "dtype": str(dtype), "torch_seed": seed})


def mean_top_of_range(ctx: Ctx, dtype):
    """Mean near the top of the dtype's range: when every entry of diag(c) J is finite and of one sign the column SUMS overflow
    while the averages do not — the linear answer `sum_i (c_i / m) j_i` is finite, and linearity in c holds for it"""
    from torchjd.aggregation import Mean
    rng = ctx.rng
    m = 3
    n = rng.choice([1, 2, 4])
    top = float(torch.finfo(dtype).max)
    J = torch.tensor([[rng.uniform(0.7, 1.0) for _ in range(n)] for _ in range(m)], dtype=torch.float64)
    sgn = rng.choice([-1.0, 1.0])
    c1 = torch.tensor([rng.uniform(0.5, 0.9) for _ in range(m)], dtype=torch.float64) * top * sgn
    c2 = torch.tensor([10.0 ** rng.uniform(-6, -1) for _ in range(m)], dtype=torch.float64) * top * sgn
    a, b = 1.0, 1.0
    mats = [(c[:, None] * J).to(dtype) for c in (c1, c2, a * c1 + b * c2)]
    if not all(bool(torch.isfinite(M).all()) for M in mats):
        return
    A = Mean()
    outs = []
    for M in mats:
        try:
            x = A(M)
        except Exception as e:  # noqa: BLE001
            ctx.violation(f"Mean raised {type(e).__name__} on a finite {m}x{n} {dtype} matrix with entries up to {float(M.abs().max()):.3e}",
                          {"aggregator": "Mean", "family": "top-of-range", "dtype": str(dtype), "J": M.tolist()})
            return
        ref = (M.double() / m).sum(dim=0)
        ctx.count("mean_top_of_range", str(dtype))
        if not bool(torch.isfinite(x).all()) or float(((x.double() - ref).abs() / ref.abs()).max()) > 8 * ulp(dtype):
            ctx.violation(f"Mean on a finite {m}x{n} {dtype} matrix with entries up to {float(M.abs().max()):.3e} returns {x.tolist()}; the "
                          f"average of the rows is {ref.tolist()} (finite)", {"aggregator": "Mean", "family": "top-of-range", "dtype": str(dtype),
                                                                             "J": M.tolist()})
            return
        outs.append(x.double())
    ctx.case(("mean-top", str(dtype), n, str(c1.tolist())), nontrivial=True)


def one_upgrad(ctx: Ctx):
    rng = ctx.rng
    m = rng.choice([2, 3, 4])
    n = rng.choice([2, 3, 5])
    J = m_int(rng, m, n, kind="plain")
    if any(all(v == 0 for v in r) for r in J):
        return
    Jt = to_tensor(J, torch.float64)
    c1 = torch.tensor([10.0 ** rng.uniform(-1, 1) for _ in range(m)], dtype=torch.float64)
    c2 = torch.tensor([10.0 ** rng.uniform(-1, 1) for _ in range(m)], dtype=torch.float64)
    a, b = 10.0 ** rng.uniform(-0.5, 0.5), 10.0 ** rng.uniform(-0.5, 0.5)
    pv = rng.choice([None, [rng.randint(1, 4) for _ in range(m)]])
    if rng.random() < 0.4:
        # small gradients: the three largest singular values sit between norm_eps (1e-3 below) and a few hundred times
        # it — all ABOVE the normalisation threshold, so the Gramian must be used in all three calls
        smin = min(float(torch.linalg.svdvals(c[:, None] * Jt)[0]) for c in (c1, c2, a * c1 + b * c2))
        Jt = Jt * (10.0 ** rng.uniform(-2.7, -1.7) / smin)
        ctx.count("upgrad_small_gradients")
    ladder = [1e-2, 1e-4, 1e-6, 1e-8]
    ratios = []
    pd = rng.choice([torch.float64, torch.int64, torch.int64, torch.float32, torch.float16])   # small integers: exact in each
    ctx.count("upgrad_pref_dtype", "none" if pv is None else str(pd))
    for reg in ladder:
        A = UPGrad(pref_vector=None if pv is None else torch.tensor([float(v) for v in pv], dtype=torch.float64).to(pd),
                   norm_eps=1e-3, reg_eps=reg)    # a visible norm_eps: mixing it up with reg_eps changes the ladder
        try:
            xs = [A((c[:, None] * Jt)) for c in (c1, c2, a * c1 + b * c2)]
        except Exception as e:  # noqa: BLE001
            ctx.violation(f"UPGrad(reg_eps={reg}) raised {type(e).__name__}: {str(e)[:150]} on a finite scaled matrix",
                          {"aggregator": "UPGrad", "pref": str(pv), "J": [[str(v) for v in r] for r in J], "c1": c1.tolist(),
                           "c2": c2.tolist(), "a": a, "b": b, "reg_eps": reg})
            return
        Jc = (a * c1 + b * c2)[:, None] * Jt
        s = float(torch.linalg.svdvals(Jc)[0])
        w = A.weighting(Jc)
        defect = float((xs[2] - (a * xs[0] + b * xs[1])).norm())
        bound = math.sqrt(reg) * s * float(w.abs().sum())
        ratios.append(defect / bound if bound > 0 else 0.0)
    ctx.case(("upgrad", str(J), str(pv)), nontrivial=True)
    ctx.count("upgrad_ladders")
    # the PROVED bound (TjdProps/C09b.lean `upgrad_defect_bound_computed`), evaluated exactly by the model:
    #   |A(diag(c)J) - a A(diag(c1)J) - b A(diag(c2)J)|^2 <= 3 m reg_eps (s^2 S(c) + a^2 s1^2 S(c1) + b^2 s2^2 S(c2))
    # with S(cc) = sum_i |w0_i(cc)|^2 from the un-regularised minimisers (certified search on J J^T)
    from fractions import Fraction as Fr
    from agg_common import ask_agg, fr_list
    fa, fb = Fr(a), Fr(b)
    e1, e2 = [Fr(float(x)) for x in c1], [Fr(float(x)) for x in c2]
    ec = [fa * x + fb * y for x, y in zip(e1, e2)]
    uvec = [Fr(v) for v in pv] if pv is not None else [Fr(1, m)] * m
    rep = ask_agg(ctx.driver, "upgradunreg", J, u=uvec, c=ec, c1=e1, c2=e2)
    if rep is None:
        ctx.count("upgrad_theorem_bound_skipped_no_certificate")
    else:
        S, S1, S2 = [float(v) for v in fr_list(rep[1])]
        svs = [float(torch.linalg.svdvals(c[:, None] * Jt)[0]) * (1 + 1e-9) for c in (a * c1 + b * c2, c1, c2)]
        worst = 0.0
        for reg in ladder:
            A = UPGrad(pref_vector=None if pv is None else torch.tensor([float(v) for v in pv], dtype=torch.float64),
                       norm_eps=1e-3, reg_eps=reg)
            try:
                x0, x1, x2 = [A((c[:, None] * Jt)) for c in (c1, c2, a * c1 + b * c2)]
            except Exception as e:  # noqa: BLE001
                ctx.violation(f"UPGrad(reg_eps={reg}) raised {type(e).__name__}: {str(e)[:150]} on a finite scaled matrix",
                              {"aggregator": "UPGrad", "pref": str(pv), "J": [[str(v) for v in r] for r in J], "c1": c1.tolist(),
                               "c2": c2.tolist(), "a": a, "b": b, "reg_eps": reg})
                return
            d2 = float(((x2 - (a * x0 + b * x1)) ** 2).sum())
            bound = 3 * m * reg * (svs[0] ** 2 * S + a * a * svs[1] ** 2 * S1 + b * b * svs[2] ** 2 * S2)
            floor = (1e-6 * max(float(x2.abs().max()), 1e-300)) ** 2
            worst = max(worst, d2 / (bound + floor))
            ctx.count("upgrad_theorem_bound_checked")
            if d2 > bound * (1 + 1e-6) + floor:
                ctx.violation(f"UPGrad(reg_eps={reg}): squared linearity defect {d2:.6e} exceeds the proved bound "
                              f"3 m reg_eps (s² S(c) + a² s1² S(c1) + b² s2² S(c2)) = {bound:.6e} "
                              f"(theorem upgrad_defect_bound_computed)",
                              {"aggregator": "UPGrad", "pref": str(pv), "J": [[str(v) for v in r] for r in J],
                               "c1": c1.tolist(), "c2": c2.tolist(), "a": a, "b": b, "reg_eps": reg,
                               "S": [S, S1, S2], "s": svs})
                return
        ctx.cov["upgrad_worst_defect2_over_proved_bound"] = max(ctx.cov.get("upgrad_worst_defect2_over_proved_bound", 0.0), worst)
    ctx.cov["upgrad_worst_defect_ratio"] = max(ctx.cov.get("upgrad_worst_defect_ratio", 0.0), max(ratios))
    rp = {"aggregator": "UPGrad", "pref": str(pv), "pref_dtype": str(pd), "J": [[str(v) for v in r] for r in J], "c1": c1.tolist(), "c2": c2.tolist(),
          "a": a, "b": b, "ladder": ladder, "defect/(sqrt(reg_eps) s |w|)": ratios}
    if max(ratios) > UPGRAD_CONST:
        ctx.violation(f"UPGrad: linearity defect exceeds {UPGRAD_CONST}·sqrt(reg_eps)·s·|w|: ratios along the reg_eps "
                      f"ladder {ladder}: {[f'{r:.3e}' for r in ratios]}", rp)
        return
    # absolute defect must vanish with reg_eps (separates UPGrad from a non-linear look-alike)
    A_small = ratios[-1] * math.sqrt(ladder[-1])
    A_big = ratios[0] * math.sqrt(ladder[0])
    # 2e-4: float noise of the QP at reg_eps = 1e-8 (kappa = 1e8) — observed up to 3.2e-5 on the unchanged tree (once in 86 000
    # thorough evaluations; the allowance was 1e-5)
    if A_big > 1e-9 and A_small > 0.05 * A_big + 2e-4:
        ctx.violation(f"UPGrad: linearity defect does not vanish as reg_eps -> 0: relative defects {A_big:.3e} (reg 1e-2) "
                      f"-> {A_small:.3e} (reg 1e-8)", rp)


def main(ctx: Ctx):
    ctx.lean_gate()
    cat = [s for s in catalogue() if s.name in LINEAR]
    n = 40 if ctx.tier == "quick" else 12000
    for i in range(n):
        for spec in cat:
            one_linear(ctx, spec, torch.float64 if i % 3 else torch.float32)
        one_upgrad(ctx)
        if i % 4 == 0:
            mean_top_of_range(ctx, torch.float32 if i % 8 == 0 else torch.float64)
    return ctx.finish(
        rule="triples (c1, c2, a c1 + b c2) of positive scalings (entries over 6 orders of magnitude, a, b in [0.1,10]) "
             "on integer / well-conditioned rational matrices for Mean, Sum, Constant (signed weights), ConFIG, PCGrad and "
             "Random (fixed torch seed), preference vectors; UPGrad on a reg_eps ladder 1e-2..1e-8: defect / "
             "(sqrt(reg_eps)·s·|w|₁) below a calibrated constant and vanishing along the ladder",
        trusted=TRUSTED + ["UPGrad's defect bound: proved (C09b) in squared form with the un-regularised minimisers; the check "
                           "evaluates that bound exactly (model) on the implementation's outputs, and additionally the "
                           "calibrated-constant ladder of the first design"])
