"""C20 — a call rejected for its arguments changes nothing."""
from __future__ import annotations

import torch

from autojac_common import fmt_grads, model_backward, model_mtl, rand_pre, real_backward, real_mtl
from common import Ctx, sx
from progs import differentiable_nonleaves, numel, random_mtl, random_program
from prop_C01 import TRUSTED


def snapshot_ok(pre, after):
    return all(after[k] == (None if pre.get(k) is None else [int(x) for x in pre[k]]) for k in after)


def backward_faults(ctx: Ctx, P):
    """yield (kind, position, call kwargs) for every rejection kind of backward"""
    rng = ctx.rng
    cands = differentiable_nonleaves(P)
    tensors = rng.sample(cands, min(len(cands), rng.choice([1, 2])))
    m = sum(numel(P.nodes[t].shape) for t in tensors)
    good = [i for i in P.leaves() if P.nodes[i].rg]
    w = [rng.randint(-4, 5) for _ in range(m)]
    base = dict(tensors=tensors, inputs=list(good), agg=("const", w), chunk=rng.choice([None, 1, 2]))
    for c in (0, -1, -7):
        yield "chunk<=0", c, {**base, "chunk": c}
    yield "empty tensors", 0, {**base, "tensors": []}
    yield "duplicate tensors", 0, {**base, "tensors": tensors + [tensors[0]]}
    nonleaf = [i for i in cands if i not in tensors] or cands
    norg = [i for i in P.leaves() if not P.nodes[i].rg]
    for bad_kind, pool in (("non-leaf parameter", nonleaf), ("parameter not requiring grad", norg)):
        if not pool:
            continue
        bad = rng.choice(pool)
        for pos in range(len(good) + 1):
            ins = good[:pos] + [bad] + good[pos:]
            yield bad_kind, pos, {**base, "inputs": ins}
    # a leaf frozen (requires_grad_(False)) after the forward pass: still in the graph, no longer able to receive a .grad
    reach = sorted(P.reach_leaves(tensors))
    for pos, bad in enumerate(reach):
        yield "parameter frozen after the forward pass", pos, {**base, "inputs": reach, "freeze": [bad]}
        yield "parameter frozen after the forward pass (inputs defaulted)", pos, {**base, "inputs": None, "freeze": [bad]}
    rgl = [i for i in P.leaves() if P.nodes[i].rg]
    if rgl:
        # a leaf listed among the tensors while `inputs` is omitted: default discovery has no graph to walk
        yield "leaf among the tensors, inputs defaulted", 0, {**base, "tensors": tensors + [rng.choice(rgl)], "inputs": None,
                                                               "only_if_rejected": True}
    yield "aggregator rejects (row count)", 0, {**base, "agg": ("const", w + [1])}
    yield "aggregator returns wrong length", 0, {**base, "agg": ("badlen", 1 + sum(numel(P.nodes[i].shape) for i in good))}


def mtl_faults(ctx: Ctx, M):
    rng, P = ctx.rng, M.P
    T = len(M.losses)
    shared = sorted(P.reach_leaves(M.features))
    tasks = [list(tl) for tl in M.task_leaves]
    base = dict(losses=list(M.losses), features=list(M.features), tasks=tasks, shared=shared,
                agg=("const", [rng.randint(-4, 5) for _ in range(T)]), chunk=rng.choice([None, 1, 2]))
    for c in (0, -2):
        yield "chunk<=0", c, {**base, "chunk": c}
    yield "empty features", 0, {**base, "features": []}
    yield "empty losses", 0, {**base, "losses": [], "tasks": []}
    nonscalar = [i for i in differentiable_nonleaves(P) if len(P.nodes[i].shape) > 0]
    if nonscalar:
        for pos in range(T):
            ls = list(M.losses)
            ls[pos] = rng.choice(nonscalar)
            yield "non-scalar loss", pos, {**base, "losses": ls}
    yield "losses/tasks_params length mismatch", 0, {**base, "tasks": tasks + [[]]}
    if T > 1:
        yield "losses/tasks_params length mismatch", 1, {**base, "tasks": tasks[:-1]}
    if shared:
        for t in range(T):
            tp = [list(x) for x in tasks]
            pos = rng.randint(0, len(tp[t]))
            tp[t].insert(pos, rng.choice(shared))
            yield "shared/task overlap", t, {**base, "tasks": tp}
            yield "shared/task overlap (shared_params defaulted)", t, {**base, "tasks": tp, "shared": None, "m_shared": shared}
        yield "duplicate shared parameter", 0, {**base, "shared": shared + [shared[0]]}
    for t in range(T):
        if tasks[t]:
            tp = [list(x) for x in tasks]
            tp[t] = tp[t] + [tp[t][0]]
            yield "duplicate task parameter", t, {**base, "tasks": tp}
    for t in range(T):
        tp = [list(x) for x in tasks]
        tp[t] = tp[t] + [M.features[0]]
        yield "task parameter is a feature", t, {**base, "tasks": tp}
    for t in range(T):
        for bad in tasks[t][:2]:
            if bad in shared:
                continue
            for variant, kw in (("explicit", {}), ("tasks_params defaulted", {"tasks": None, "m_tasks": tasks}),
                                ("both defaulted", {"tasks": None, "m_tasks": tasks, "shared": None, "m_shared": shared})):
                yield f"task parameter frozen after the forward pass ({variant})", t, {**base, **kw, "freeze": [bad]}
    for bad in shared[:2]:
        for variant, kw in (("explicit", {}), ("shared_params defaulted", {"shared": None, "m_shared": shared})):
            yield f"shared parameter frozen after the forward pass ({variant})", 0, {**base, **kw, "freeze": [bad]}
    trunk_nonleaf = [i for i in differentiable_nonleaves(P) if i < min(M.losses) and i not in M.features]
    norg = [i for i in P.leaves() if not P.nodes[i].rg]
    for bad_kind, pool in (("non-leaf parameter", trunk_nonleaf), ("parameter not requiring grad", norg)):
        if not pool:
            continue
        bad = rng.choice(pool)
        for pos in range(len(shared) + 1):
            yield bad_kind + " in shared_params", pos, {**base, "shared": shared[:pos] + [bad] + shared[pos:]}
            # the same with the OTHER collection left to its default (discovered from the graph)
            yield bad_kind + " in shared_params (tasks_params defaulted)", pos, \
                {**base, "shared": shared[:pos] + [bad] + shared[pos:], "tasks": None, "m_tasks": tasks}
        for t in range(T):
            tp = [list(x) for x in tasks]
            pos = rng.randint(0, len(tp[t]))
            tp[t].insert(pos, bad)
            if bad in shared:
                continue
            yield bad_kind + f" in tasks_params", t, {**base, "tasks": tp}
            yield bad_kind + f" in tasks_params (shared_params defaulted)", t, \
                {**base, "tasks": tp, "shared": None, "m_shared": shared}


def run_fault(ctx: Ctx, api, P, kind, pos, call, reps):
    report = P.leaves()
    for rep in range(reps):
        pre = rand_pre(ctx.rng, P, report, p=0.6)
        fr = call.get("freeze", ())
        if api == "backward":
            rerr, rg, _ = real_backward(P, torch.float64, call["tensors"], call["inputs"], call["agg"],
                                        call["chunk"], False, pre, report, freeze=fr,
                                        inputs_kind=("list", "gen", "tuple", "iter", "dictkeys")[rep % 5])
            m_inputs = call["inputs"] if call["inputs"] is not None else sorted(P.reach_leaves(call["tensors"]))
            merr, mg, _ = model_backward(ctx.driver, P, call["tensors"], list(dict.fromkeys(m_inputs)),
                                         call["agg"], call["chunk"], False, pre, report, freeze=fr)
        else:
            retain = True
            rerr, rg, _ = real_mtl(P, torch.float64, call["losses"], call["features"], call["tasks"],
                                   call["shared"], call["agg"], call["chunk"], retain, pre, report, freeze=fr,
                                   as_generators=(rep % 2 == 1))        # parameter groups as one-shot iterables
            merr, mg, _ = model_mtl(ctx.driver, P, call["losses"], call["features"],
                                    call["tasks"] if call["tasks"] is not None else call["m_tasks"],
                                    call["shared"] if call["shared"] is not None else call["m_shared"],
                                    call["agg"], call["chunk"], retain, pre, report, freeze=fr)
        if call.get("only_if_rejected"):
            # not one of the rejections the property enumerates: IF the call is refused, nothing may have changed
            ctx.count("fault", f"{api}: {kind}")
            ctx.count("raised", rerr)
            if rerr is not None and not snapshot_ok(pre, rg):
                ctx.violation(f"{api} rejected the call ({rerr}: {kind}) AFTER modifying .grad: before {fmt_grads(pre)}, after "
                              f"{fmt_grads(rg)}", {"api": api, "fault": kind, "program": P.describe(), "prog_sx": sx(P.to_sx()),
                                                  "call": {k: str(v) for k, v in call.items()}})
                return
            continue
        ctx.case((api, kind, pos, tuple(P.describe()), sx([str(v) for v in call.values()]), rep), nontrivial=True,
                 sample={"api": api, "fault": kind, "position": pos, "program": P.describe(),
                         "call": {k: str(v) for k, v in call.items()}, "raised": rerr})
        ctx.count("fault", f"{api}: {kind}")
        ctx.count("raised", rerr)
        rp = {"api": api, "fault": kind, "position": pos, "program": P.describe(), "prog_sx": sx(P.to_sx()),
              "call": {k: str(v) for k, v in call.items()}, "pre": fmt_grads(pre), "after": fmt_grads(rg),
              "implementation_error": rerr, "model_error": merr}
        tag = None
        if merr is None:
            ctx.count("model_accepts")       # e.g. the "bad" parameter happened to be harmless
            if rerr is not None or rg != mg:
                ctx.violation(f"{api}: model accepts the call but implementation gives err={rerr}", rp)
            continue
        if rerr is None:
            ctx.violation(f"{api} accepted a call with {kind} (position {pos}) that must be rejected "
                          f"(model: {merr})", rp, tag=tag)
            return
        if not snapshot_ok(pre, rg):
            ctx.violation(f"{api} rejected the call ({rerr}: {kind} at position {pos}) AFTER modifying .grad: "
                          f"before {fmt_grads(pre)}, after {fmt_grads(rg)}", rp, tag=tag)
            return
        if rerr != merr:
            ctx.count("diag_errkind_differs", f"{kind}: impl {rerr} / model {merr}")


def main(ctx: Ctx):
    ctx.lean_gate()
    n = 60 if ctx.tier == "quick" else 1500
    reps = 3 if ctx.tier == "quick" else 5
    for i in range(n):
        P = random_program(ctx.rng, p_norg=0.3)
        for kind, pos, call in backward_faults(ctx, P):
            run_fault(ctx, "backward", P, kind, pos, call, reps)
        M = random_mtl(ctx.rng)
        for kind, pos, call in mtl_faults(ctx, M):
            run_fault(ctx, "mtl_backward", M.P, kind, pos, call, reps)
    return ctx.finish(
        rule="malformed stream: every rejection kind of backward / mtl_backward (non-positive chunk, empty "
             "tensors/features/losses, non-scalar loss, count mismatch, overlap, duplicates, non-leaf / "
             "not-requiring-grad parameter, aggregator rejecting the Jacobian) at every position of the argument "
             "lists (parameter collections passed as lists and as one-shot iterables), on random P-int programs with random pre-existing .grad, each repeated on fresh tensors (set "
             "iteration order varies); observable: exception + .grad snapshot of all leaves",
        trusted=TRUSTED)
