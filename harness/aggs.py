"""catalogue of the aggregators with the configuration knobs the properties talk about"""
from __future__ import annotations

from fractions import Fraction as Fr

import torch

from torchjd.aggregation import (CAGrad, ConFIG, Constant, DualProj, GradDrop, IMTLG, AlignedMTL, Krum, Mean, MGDA,
                                 PCGrad, Random, Sum, TrimmedMean, UPGrad)


def vec(xs, dtype):
    return torch.tensor([float(x) for x in xs], dtype=dtype)


class Spec:
    """name, factory(m, dtype, vecs) -> aggregator, flags"""

    def __init__(self, name, make, weighted=True, gramian=True, random=False, min_rows=1, pref=None, rows_required=False,
                 threshold=False, solver=False, pinv=False, ties=False):
        self.name, self.make = name, make
        self.weighted, self.gramian, self.random, self.min_rows = weighted, gramian, random, min_rows
        self.pref = pref                # "pref" / "weights" / "leak": has a per-row configuration vector
        self.rows_required = rows_required
        self.threshold = threshold      # has the norm_eps threshold (homogeneity only above it)
        self.solver, self.pinv, self.ties = solver, pinv, ties


def catalogue():
    return [
        Spec("Mean", lambda m, dt, v=None: Mean()),
        Spec("Sum", lambda m, dt, v=None: Sum()),
        Spec("Constant", lambda m, dt, v=None: Constant(vec(v if v is not None else [(-1) ** i * (i + 1) for i in range(m)], dt)),
             pref="weights", rows_required=True),
        Spec("UPGrad", lambda m, dt, v=None: UPGrad(pref_vector=None if v is None else vec(v, dt)), pref="pref", threshold=True),
        Spec("DualProj", lambda m, dt, v=None: DualProj(pref_vector=None if v is None else vec(v, dt)), pref="pref", threshold=True),
        Spec("MGDA", lambda m, dt, v=None: MGDA(), ties=True),
        Spec("PCGrad", lambda m, dt, v=None: PCGrad(), random=True),
        Spec("CAGrad", lambda m, dt, v=None: CAGrad(c=0.5), threshold=True, solver=True),
        Spec("IMTLG", lambda m, dt, v=None: IMTLG(), pinv=True),
        Spec("AlignedMTL", lambda m, dt, v=None: AlignedMTL(pref_vector=None if v is None else vec(v, dt)), pref="pref", pinv=True),
        Spec("ConFIG", lambda m, dt, v=None: ConFIG(pref_vector=None if v is None else vec(v, dt)), weighted=False, pref="pref", pinv=True),
        Spec("Krum", lambda m, dt, v=None: Krum(n_byzantine=1, n_selected=1), min_rows=5, ties=True),   # m - f - 2 >= 2 neighbours:
        # with a single neighbour, mutually nearest rows have exactly tied scores (index tie-breaking)
        Spec("Random", lambda m, dt, v=None: Random(), random=True),
        Spec("TrimmedMean", lambda m, dt, v=None: TrimmedMean(trim_number=1), weighted=False, gramian=False, min_rows=3),
        Spec("TrimmedMean0", lambda m, dt, v=None: TrimmedMean(trim_number=0), weighted=False, gramian=False, min_rows=1),
        Spec("GradDrop", lambda m, dt, v=None: GradDrop(leak=None if v is None else vec(v, dt)), weighted=False, gramian=False,
             random=True, pref="leak"),
    ]


def call(spec, A, Jt, seed=None):
    if seed is not None:
        torch.manual_seed(seed)
    return A(Jt)
