"""entry point: ./check <ID> [--tier quick|thorough] [--replay FILE]"""
from __future__ import annotations

import argparse
import importlib
import os
import sys
import traceback

from common import Ctx, InfraError

MODULES = {f"C{i:02d}": [f"TjdProps.C{i:02d}"] for i in range(1, 21)}
MODULES["C01"].append("TjdProps.C01Example")
MODULES["C03"] += ["TjdProps.C03Example", "TjdProps.C03b", "TjdProps.C03c"]
MODULES["C04"] += ["TjdProps.C03b", "TjdProps.C04b"]
MODULES["C15"].append("TjdProps.C15b")
MODULES["C10"].append("TjdProps.C10b")
MODULES["C09"].append("TjdProps.C09b")
for _c in ("C08", "C10", "C11", "C17"):
    MODULES[_c].append("TjdProps.C17b")


def main() -> int:
    ap = argparse.ArgumentParser()
    ap.add_argument("pid")
    ap.add_argument("--tier", default=os.environ.get("VERIF_TIER", "quick"))
    ap.add_argument("--replay", default=None)
    args = ap.parse_args()
    seed = int(os.environ.get("VERIF_SEED", "0"))
    pid = args.pid
    if pid not in MODULES:
        print(f"unknown property {pid}", file=sys.stderr)
        return 2
    cov = None
    if os.environ.get("VERIF_COVERAGE") == "1":
        # development aid: which lines / branches of /repo/src/torchjd do the correspondence runs execute?
        # (tools/coverage_report.py combines the per-check data files; never set by MANIFEST commands)
        import coverage
        from common import VERIF
        (VERIF / "out" / "cov").mkdir(parents=True, exist_ok=True)
        cov = coverage.Coverage(data_file=str(VERIF / "out" / "cov" / f".coverage.{pid}.{args.tier}"), branch=True,
                                include=["*/src/torchjd/*"])
        cov.start()
    try:
        return _main(args, pid, seed)
    finally:
        if cov is not None:
            cov.stop()
            cov.save()


def _main(args, pid, seed) -> int:
    try:
        mod = importlib.import_module(f"prop_{pid}")
        if args.replay:
            # a replay file records the tier and seed of the run that produced it: the run is deterministic, so
            # re-running it reproduces the violation (same hash) as long as the tree is in the same state
            import json
            rp = json.load(open(args.replay))
            print(f"[{pid}] replaying {args.replay}: {rp.get('what', '')[:300]}")
            ctx = Ctx(pid, MODULES[pid], rp.get("tier", args.tier), int(rp.get("seed", seed)))
            rc = run_main(mod, ctx)
            same = os.path.exists(args.replay) and rc == 1
            print(f"[{pid}] replay {'REPRODUCED a violation' if same else 'did not reproduce (tree changed or fixed)'}")
            return rc
        ctx = Ctx(pid, MODULES[pid], args.tier, seed)
        return run_main(mod, ctx)
    except InfraError as e:
        print(f"[{pid}] INFRASTRUCTURE FAILURE: {e}", file=sys.stderr)
        return 2
    except Exception:  # noqa: BLE001
        traceback.print_exc()
        print(f"[{pid}] INFRASTRUCTURE FAILURE (unexpected exception in the harness)", file=sys.stderr)
        return 2


def run_main(mod, ctx) -> int:
    from agg_common import NonFinite
    if True:
        try:
            return mod.main(ctx)
        except NonFinite as e:
            # every input the checks build is finite and within the range the property speaks about, so a nan/inf
            # coming back from the implementation is a violation (with the last registered case as the replay)
            ctx.violation(f"the implementation returned {e} where the property requires a finite result; last case: "
                          f"{str(getattr(ctx, 'last_case', None))[:500]}", {"last_case": getattr(ctx, "last_case", None)})
            from common import TRUSTED_COMMON
            return ctx.finish(rule="(run aborted at the first non-finite output; see the violation)", trusted=TRUSTED_COMMON)
        except Exception as e:  # noqa: BLE001
            # safety net: an exception raised INSIDE the code under test (a frame of torchjd in the traceback) at a call the
            # check expects to succeed is a verdict about the code, not a failure of the infrastructure: the inputs the checks
            # build are legal, and on the unchanged tree no such exception occurs.  The replay records the traceback; the run is
            # deterministic (tier + seed), so re-running it reproduces the failure.  Anything else is re-raised (exit 2).
            tb = traceback.extract_tb(e.__traceback__)
            inside = [f for f in tb if "/torchjd/" in f.filename.replace("\\", "/")]
            if not inside:
                raise
            where = f"{inside[-1].filename.split('/torchjd/')[-1]}:{inside[-1].lineno} ({inside[-1].name})"
            ctx.violation(f"the code under test raised {type(e).__name__}: {str(e)[:200]} in torchjd/{where} at a call the check expects "
                          f"to succeed; last case: {str(getattr(ctx, 'last_case', None))[:400]}",
                          {"last_case": getattr(ctx, "last_case", None), "traceback": traceback.format_exception(e)[-12:]})
            from common import TRUSTED_COMMON
            return ctx.finish(rule="(run aborted by an exception of the code under test; see the violation)", trusted=TRUSTED_COMMON)


if __name__ == "__main__":
    sys.exit(main())
