"""C15 — each building-block transform computes its specified linear map (transforms driven directly)."""
from __future__ import annotations

from fractions import Fraction

import torch

from autojac_common import make_agg
from common import Ctx, classify_exc, field, sx, to_frac
from progs import differentiable_nonleaves, numel, random_mtl, random_program
from prop_C01 import TRUSTED

from torchjd.aggregation import GradDrop, PCGrad, Random
from torchjd.autojac._transform import (Aggregate, Diagonalize, EmptyTensorDict, Grad, Gradients, Init, Jac,
                                        Jacobians, Select, Stack)

DT = torch.float64


def ints(rng, shape, lo=-4, hi=5, big=False):
    f = (2 ** 25 + 1) if big else 1          # k*(2^25+1): exact in double precision only
    return torch.tensor([float(rng.randint(lo, hi) * f) for _ in range(max(1, numel(shape)))][:numel(shape)] if numel(shape)
                        else [], dtype=DT).reshape(shape)


def no_casts(rng, gen):
    """transforms are driven in ONE working precision here (cotangents and weights are built in DT)"""
    while True:
        x = gen(rng)
        if not (x.P if hasattr(x, "P") else x).casts:
            return x


def flat(t):
    # (a non-finite entry stays a float: it equals no model value and is reported as a difference, not a harness crash)
    return [Fraction(x) if x == x and abs(x) != float("inf") else x for x in t.detach().reshape(-1).tolist()]


def rows(t):
    m = t.shape[0]
    return [flat(t[r]) for r in range(m)]


def parse_g(rep):
    return {int(k): [to_frac(x) for x in v] for k, v in rep}


def parse_j(rep):
    return {int(k): [[to_frac(x) for x in row] for row in m] for k, m in rep}


def run_real(fn):
    try:
        return "ok", fn()
    except Exception as e:  # noqa: BLE001
        return "err", classify_exc(e)


def cmp(ctx, name, P, real, model_rep, conv, extra, tag=None):
    ctx.count("transform", name)
    status = model_rep[0]
    rp = {"transform": name, "program": P.describe(), "prog_sx": sx(P.to_sx()), **extra}
    if real[0] == "err" or status == "err":
        if real[0] != status:
            ctx.violation(f"{name}: implementation {real}, model {model_rep}", rp)
            return False
        return True
    for k, v in real[1].items():
        if v.dtype != k.dtype:
            ctx.violation(f"{name}: the entry for a {k.dtype} tensor is returned in {v.dtype}", rp)
            return False
    got = conv(real[1])
    exp = (parse_j if name in ("Diagonalize", "Jac", "Stack") else parse_g)(model_rep[1])
    if got != exp:
        ctx.violation(f"{name}: output dictionary differs from the specified linear map: implementation "
                      f"{ {k: [[str(x) for x in r] for r in v] if v and isinstance(v[0], list) else [str(x) for x in v] for k, v in got.items()} } "
                      f"vs model { {k: str(v) for k, v in exp.items()} }", rp, tag=tag)
        return False
    return True


def one_program(ctx: Ctx, P):
    rng = ctx.rng
    ts = P.build(DT)
    idx = {id(t): i for i, t in enumerate(ts)}
    gconv = lambda d: {idx[id(k)]: flat(v) for k, v in d.items()}          # noqa: E731
    jconv = lambda d: {idx[id(k)]: rows(v) for k, v in d.items()}          # noqa: E731
    drv = ctx.driver
    base = ["transform", P.to_sx()]
    nodes = list(range(len(P.nodes)))
    # --- Init
    ks = rng.sample(nodes, rng.randint(0, min(4, len(nodes))))
    real = run_real(lambda: Init([ts[k] for k in ks])(EmptyTensorDict()))
    rep = drv.ask(base + [["op", "init", ks]])
    cmp(ctx, "Init", P, real, rep, gconv, {"keys": ks})
    # --- Diagonalize (several keys, equal sizes and 0-d included, arbitrary cotangent values)
    ks = rng.sample(nodes, rng.randint(1, min(4, len(nodes))))
    bigv = rng.random() < 0.3
    vals = {k: ints(rng, P.nodes[k].shape, big=bigv) for k in ks}
    order = list(ks)
    rng.shuffle(order)
    real = run_real(lambda: Diagonalize([ts[k] for k in order])(Gradients({ts[k]: vals[k] for k in ks})))
    rep = drv.ask(base + [["op", "diag", order], ["input", *[[k, flat(vals[k])] for k in ks]]])
    cmp(ctx, "Diagonalize", P, real, rep, jconv, {"keys": order})
    # --- Diagonalize with non-finite gradient entries: the block structure must not depend on the values (an entry that
    #     is ±inf or nan sits at its own position; every other entry of its column and row stays an exact zero)
    if rng.random() < 0.3 and sum(numel(P.nodes[k].shape) for k in ks) >= 2:
        bad = {k: v.clone() for k, v in vals.items()}
        kk = rng.choice([k for k in ks if numel(P.nodes[k].shape) >= 1])
        pos = rng.randrange(numel(P.nodes[kk].shape))
        special = rng.choice([float("inf"), float("-inf"), float("nan")])
        bad[kk].reshape(-1)[pos] = special
        real_b = run_real(lambda: Diagonalize([ts[k] for k in order])(Gradients({ts[k]: bad[k] for k in ks})))
        ctx.count("diagonalize_non_finite_entry")
        if real_b[0] != "ok":
            ctx.violation(f"Diagonalize raised {real_b[1]} on gradients containing {special}",
                          {"transform": "Diagonalize", "program": P.describe(), "keys": order})
        else:
            off = 0
            for k in order:
                nk = numel(P.nodes[k].shape)
                blk = real_b[1][ts[k]].reshape(-1, nk) if nk else real_b[1][ts[k]].reshape(-1, 0)
                for j in range(nk):
                    col = blk[:, j]
                    want = bad[k].reshape(-1)[j]
                    others = torch.cat([col[:off + j], col[off + j + 1:]])
                    d = col[off + j]
                    if not bool((others == 0).all()) or not (bool(d == want) or (bool(torch.isnan(d)) and bool(torch.isnan(want)))):
                        ctx.violation(f"Diagonalize with a {special} gradient entry: column {j} of key n{k} is {col.tolist()} — it must "
                                      f"hold {float(want)} at row {off + j} and exact zeros elsewhere",
                                      {"transform": "Diagonalize", "program": P.describe(), "keys": order, "special": str(special)})
                        break
                else:
                    off += nk
                    continue
                break
    # --- Select
    sub = [k for k in ks if rng.random() < 0.5]
    real = run_real(lambda: Select([ts[k] for k in sub], [ts[k] for k in ks])(Gradients({ts[k]: vals[k] for k in ks})))
    rep = drv.ask(base + [["op", "select", sub], ["input", *[[k, flat(vals[k])] for k in ks]]])
    cmp(ctx, "Select", P, real, rep, gconv, {"keys": sub})
    # --- Grad / Jac on outputs -> inputs (inputs may be leaves or intermediate tensors, some unreachable)
    outs = rng.sample(differentiable_nonleaves(P), min(len(differentiable_nonleaves(P)), rng.choice([1, 2, 3])))
    rgs = [i for i in nodes if P.requires_grad(i) and i not in outs]
    if rgs:
        ins = rng.sample(rgs, min(len(rgs), rng.choice([1, 2, 3])))
        cots = {o: ints(rng, P.nodes[o].shape) for o in outs}
        real = run_real(lambda: Grad([ts[o] for o in outs], [ts[i] for i in ins], retain_graph=True)(
            Gradients({ts[o]: cots[o] for o in outs})))
        rep = drv.ask(base + [["op", "grad", outs, ins], ["input", *[[o, flat(cots[o])] for o in outs]]])
        cmp(ctx, "Grad", P, real, rep, gconv, {"outs": outs, "ins": ins})
        # degenerate key counts: nothing to differentiate (the vector-Jacobian product of NO cotangent is zero), or
        # nothing to differentiate with respect to (empty result)
        if rng.random() < 0.25:
            junk = torch.full((64,), 7.0, dtype=DT)       # make recycled memory visibly non-zero
            del junk
            real = run_real(lambda: Grad([], [ts[i] for i in ins], retain_graph=True)(Gradients({})))
            rep = drv.ask(base + [["op", "grad", [], ins], ["input"]])
            cmp(ctx, "Grad", P, real, rep, gconv, {"outs": [], "ins": ins}, tag="F7-grad-no-outputs-uninitialised")
            real = run_real(lambda: Jac(outputs=[], inputs=[ts[i] for i in ins], chunk_size=rng.choice([None, 1, 2]), retain_graph=True)(Jacobians({})))
            rep = drv.ask(base + [["op", "jac", [], ins, "none"], ["input"]])
            cmp(ctx, "Jac", P, real, rep, jconv, {"outs": [], "ins": ins})
            real = run_real(lambda: Grad([ts[o] for o in outs], [], retain_graph=True)(Gradients({ts[o]: cots[o] for o in outs})))
            rep = drv.ask(base + [["op", "grad", outs, []], ["input", *[[o, flat(cots[o])] for o in outs]]])
            cmp(ctx, "Grad", P, real, rep, gconv, {"outs": outs, "ins": []})
            ctx.count("degenerate_key_counts")
        m = rng.choice([1, 2, 3, 5, 7, 10, 13])
        jc = {o: ints(rng, (m,) + tuple(P.nodes[o].shape)) for o in outs}
        chunk = rng.choice([None, 1, 2, m, m + 1] + list(range(3, m)))       # every chunk size, dividing the batch or not
        jac_t = Jac(outputs=[ts[o] for o in outs], inputs=[ts[i] for i in ins], chunk_size=chunk, retain_graph=True)
        real = run_real(lambda: jac_t(Jacobians({ts[o]: jc[o] for o in outs})))
        if real[0] == "ok":
            # a transform is a function of its input: using the same instance again (same batch size, other cotangents)
            # must neither change what it returned before nor be influenced by it
            snap = {k: v.clone() for k, v in real[1].items()}
            jc2 = {o: ints(rng, (m,) + tuple(P.nodes[o].shape)) for o in outs}
            again = run_real(lambda: jac_t(Jacobians({ts[o]: jc2[o] for o in outs})))
            ctx.count("jac_instance_reused")
            if any(not torch.equal(real[1][k], snap[k]) for k in snap):
                ctx.violation("Jac: calling the same instance again changed the Jacobians it had returned before",
                              {"transform": "Jac-reuse", "program": P.describe(), "outs": outs, "ins": ins, "chunk": chunk, "batch": m})
                return
            rep2 = drv.ask(base + [["op", "jac", outs, ins, "none" if chunk is None else chunk],
                                   ["input", *[[o, rows(jc2[o])] for o in outs]]])
            if not cmp(ctx, "Jac", P, again, rep2, jconv, {"outs": outs, "ins": ins, "chunk": chunk, "batch": m, "second_call": True}):
                return
        rep = drv.ask(base + [["op", "jac", outs, ins, "none" if chunk is None else chunk],
                              ["input", *[[o, rows(jc[o])] for o in outs]]])
        ok = cmp(ctx, "Jac", P, real, rep, jconv, {"outs": outs, "ins": ins, "chunk": chunk, "batch": m})
        # Jac == stacking Grad row by row (implementation-level metamorphic check)
        if ok and real[0] == "ok":
            for r in range(m):
                g = Grad([ts[o] for o in outs], [ts[i] for i in ins], retain_graph=True)(
                    Gradients({ts[o]: jc[o][r] for o in outs}))
                for i in ins:
                    if not torch.equal(g[ts[i]], real[1][ts[i]][r]):
                        ctx.violation(f"Jac row {r} differs from Grad on the same cotangents", 
                                      {"transform": "Jac-vs-Grad", "program": P.describe(), "outs": outs, "ins": ins})
        # --- Aggregate on the Jacobians just computed
        if real[0] == "ok":
            agg = rng.choice([("const", [rng.randint(-5, 7) for _ in range(m)]), ("sum",),
                              ("probe", [rng.choice([-1, 1, 2]) for _ in range(m)])][:2 if P.big else 3])
            korder = list(ins)
            rng.shuffle(korder)
            jd = real[1]
            real2 = run_real(lambda: Aggregate(make_agg(agg, DT), [ts[i] for i in korder])(jd))
            rep = drv.ask(base + [["op", "aggregate", korder, *agg],
                                  ["input", *[[i, rows(jd[ts[i]])] for i in ins]]])
            cmp(ctx, "Aggregate", P, real2, rep, gconv, {"key_order": korder, "agg": str(agg)})
            # --- a STOCHASTIC aggregator sees the united matrix ONCE: under a fixed seed the result is the aggregation of the
            #     concatenated matrix, cut into the keys' slices (one draw of weights / masks for all keys)
            if len(korder) >= 1 and m >= 1 and not P.big:
                sname, smk = rng.choice([("Random", lambda: Random()), ("GradDrop", lambda: GradDrop()), ("PCGrad", lambda: PCGrad())])
                sd = rng.randrange(10 ** 6)
                A3 = smk()
                torch.manual_seed(sd)
                real3 = run_real(lambda: Aggregate(A3, [ts[i] for i in korder])(jd))
                united = torch.cat([jd[ts[i]].reshape(m, -1) for i in korder], dim=1)
                torch.manual_seed(sd)
                ref = run_real(lambda: smk()(united))
                ctx.count("transform", "Aggregate(stochastic)")
                rp3 = {"transform": "Aggregate", "program": P.describe(), "prog_sx": sx(P.to_sx()), "key_order": korder,
                       "agg": sname, "torch_seed": sd}
                if real3[0] != ref[0]:
                    ctx.violation(f"Aggregate({sname}): implementation {real3[0]}, the aggregator on the united matrix {ref[0]}", rp3)
                elif real3[0] == "ok":
                    off = 0
                    for i in korder:
                        w_ = jd[ts[i]].reshape(m, -1).shape[1]
                        exp_i = ref[1][off:off + w_].reshape(ts[i].shape)
                        off += w_
                        got_i = real3[1][ts[i]]
                        if got_i.shape != exp_i.shape or not torch.allclose(got_i.double(), exp_i.double(), rtol=1e-6, atol=1e-9 * (1 + float(united.abs().max()))):
                            ctx.violation(f"Aggregate({sname}) under seed {sd}: the entry of key {i} is {got_i.flatten().tolist()}; the "
                                          f"slice of {sname}(united matrix) under the same seed is {exp_i.flatten().tolist()} (one "
                                          "aggregation of the concatenated matrix, not one per key)", rp3)
                            break
    # --- Stack of Gradients with absent keys
    ks = rng.sample(nodes, rng.randint(1, min(3, len(nodes))))
    dicts = []
    for _ in range(rng.choice([1, 2, 3])):
        present = [k for k in ks if rng.random() < 0.7]
        dicts.append({k: ints(rng, P.nodes[k].shape) for k in present})

    class Const:
        def __init__(self, d):
            self.d = d

    from torchjd.autojac._transform.base import Transform

    class Fixed(Transform):
        def __init__(self, d):
            self.d = d

        def _compute(self, input):
            return Gradients({ts[k]: v for k, v in self.d.items()})

        @property
        def required_keys(self):
            return set()

        @property
        def output_keys(self):
            return {ts[k] for k in self.d}

    real = run_real(lambda: Stack([Fixed(d) for d in dicts])(EmptyTensorDict()))
    rep = drv.ask(base + [["op", "stack"], ["inputs", *[[[k, flat(v)] for k, v in d.items()] for d in dicts]]])
    cmp(ctx, "Stack", P, real, rep, jconv, {"dicts": [{k: flat(v) for k, v in d.items()} for d in dicts].__repr__()})
    ctx.case((tuple(P.describe()), tuple(outs)), nontrivial=True,
             sample={"program": P.describe(), "outs": outs})


def chain(ctx: Ctx, M):
    """chaining two Jacs through the features == differentiating end to end (features form a cut)"""
    P = M.P
    if M.nested_features():
        return
    shared = sorted(P.reach_leaves(M.features))
    if not shared or any(set(tl) & set(shared) for tl in M.task_leaves):
        return
    ts = P.build(DT)
    losses = list(dict.fromkeys(M.losses))      # two heads may end in the very same scalar
    T = len(losses)
    m = ctx.rng.choice([1, 2, 3])
    cot = {l: ints(ctx.rng, (m,)) for l in losses}
    j1 = Jac(outputs=[ts[l] for l in losses], inputs=[ts[f] for f in M.features], chunk_size=None, retain_graph=True)(
        Jacobians({ts[l]: cot[l] for l in losses}))
    j2 = Jac(outputs=[ts[f] for f in M.features], inputs=[ts[s] for s in shared], chunk_size=None, retain_graph=True)(j1)
    je = Jac(outputs=[ts[l] for l in losses], inputs=[ts[s] for s in shared], chunk_size=None, retain_graph=True)(
        Jacobians({ts[l]: cot[l] for l in losses}))
    ctx.count("transform", "Jac-chain")
    ctx.case(("chain", tuple(P.describe()), m), nontrivial=True)
    for s in shared:
        if not torch.equal(j2[ts[s]], je[ts[s]]):
            ctx.violation("chaining Jac(losses->features) and Jac(features->shared) differs from Jac(losses->shared)",
                          {"transform": "Jac-chain", "program": P.describe(), "features": M.features,
                           "losses": M.losses, "shared": shared})
            return


def mixed_precision_jac(ctx: Ctx):
    """Jac over inputs of two floating dtypes, interleaved, all of the same shape: every key receives ITS OWN Jacobian (rows
    `coef[r][i] * W_i`), whatever the chunk size — the order of the inputs is the order of the columns, not the order of
    any grouping"""
    rng = ctx.rng
    k = rng.choice([3, 4])
    shape = rng.choice([(2,), (3,), (2, 2)])
    dts = [rng.choice([torch.float32, torch.float64]) for _ in range(k)]
    if len(set(dts)) == 1:
        j = rng.randrange(k)
        dts[j] = torch.float64 if dts[j] == torch.float32 else torch.float32
    m = rng.choice([1, 2, 3])
    leaves = [torch.tensor([float(rng.randint(-3, 3)) for _ in range(numel(shape))], dtype=dts[i]).reshape(shape).requires_grad_()
              for i in range(k)]
    W = [torch.tensor([float(rng.randint(-4, 4)) for _ in range(numel(shape))], dtype=torch.float64).reshape(shape) for _ in range(k)]
    coef = [[rng.randint(-3, 3) for _ in range(k)] for _ in range(m)]
    y = torch.stack([sum(coef[r][i] * (leaves[i].double() * W[i]).sum() for i in range(k)) for r in range(m)])
    chunk = rng.choice([None, 1, 2, m + 2])
    real = run_real(lambda: Jac(outputs=[y], inputs=leaves, chunk_size=chunk, retain_graph=True)(Jacobians({y: torch.eye(m, dtype=torch.float64)})))
    rp = {"transform": "Jac", "scenario": "inputs of two dtypes", "dtypes": [str(d) for d in dts], "shape": list(shape), "rows": m,
          "chunk": chunk, "coef": coef, "W": [w.flatten().tolist() for w in W]}
    ctx.case(("mixed-jac", tuple(str(d) for d in dts), shape, m, chunk, str(coef)), nontrivial=True)
    ctx.count("transform", "Jac(inputs of two dtypes)")
    if real[0] != "ok":
        ctx.violation(f"Jac over inputs of dtypes {[str(d) for d in dts]} raised {real[1]}", rp)
        return
    for i in range(k):
        got = real[1].get(leaves[i])
        exp = torch.stack([coef[r][i] * W[i] for r in range(m)])
        if got is None or tuple(got.shape) != tuple(exp.shape) or not torch.equal(got.double(), exp):
            ctx.violation(f"Jac over inputs of dtypes {[str(d) for d in dts]} (chunk {chunk}): the Jacobian under key {i} is "
                          f"{None if got is None else got.flatten().tolist()}, expected {exp.flatten().tolist()}", rp)
            return


def jac_extreme_cotangents(ctx: Ctx):
    """Jac row by row with cotangents at the ends of the range: a row whose cotangent is ±inf on ONE output must stay out of
    the inputs that output does not reach and out of the other rows (exact zeros there, as torch.autograd gives), and rows of
    subnormal cotangents (1e-310) are ordinary small numbers.  More rows than output scalars."""
    rng = ctx.rng
    na, nb = rng.choice([1, 2]), rng.choice([1, 2, 3])
    a = torch.tensor([float(rng.randint(1, 3)) for _ in range(na)], dtype=torch.float64, requires_grad=True)
    b = torch.tensor([float(rng.randint(1, 3)) for _ in range(nb)], dtype=torch.float64, requires_grad=True)
    ca = [float(rng.randint(1, 4)) for _ in range(na)]
    cb = [float(rng.randint(-4, 4) or 2) for _ in range(nb)]
    o1 = (a * torch.tensor(ca, dtype=torch.float64)).sum().reshape(1)       # reaches a only
    o2 = (b * torch.tensor(cb, dtype=torch.float64)).sum().reshape(1)       # reaches b only
    m = rng.choice([3, 5, 6])
    kind = rng.choice(["inf", "tiny"])
    big = float("inf") if kind == "inf" else 1e-310
    c1 = [float(rng.randint(-3, 3)) for _ in range(m)]
    c2 = [float(rng.randint(-3, 3)) for _ in range(m)]
    r0 = rng.randrange(m)
    c1[r0] = big * rng.choice([-1.0, 1.0])
    if kind == "tiny":
        c1 = [v * 1e-310 if abs(v) >= 1 else v for v in c1]
        c2 = [v * 1e-310 for v in c2]
    chunk = rng.choice([None, 1, 2, m])
    cot = {o1: torch.tensor(c1, dtype=torch.float64).reshape(m, 1), o2: torch.tensor(c2, dtype=torch.float64).reshape(m, 1)}
    real = run_real(lambda: Jac(outputs=[o1, o2], inputs=[a, b], chunk_size=chunk, retain_graph=True)(Jacobians(cot)))
    rp = {"transform": "Jac", "scenario": f"{kind} cotangents", "rows": m, "chunk": chunk, "c1": [str(v) for v in c1], "c2": [str(v) for v in c2],
          "d_o1/d_a": ca, "d_o2/d_b": cb}
    ctx.case(("jac-extreme", kind, m, chunk, str(c1), str(c2)), nontrivial=True)
    ctx.count("transform", f"Jac({kind} cotangents)")
    if real[0] != "ok":
        ctx.violation(f"Jac with {kind} cotangents raised {real[1]}", rp)
        return
    ea = torch.tensor([[c1[r] * ca[j] for j in range(na)] for r in range(m)], dtype=torch.float64)
    eb = torch.tensor([[c2[r] * cb[j] for j in range(nb)] for r in range(m)], dtype=torch.float64)
    for name, got, exp in (("a", real[1][a], ea), ("b", real[1][b], eb)):
        same = torch.equal(torch.nan_to_num(got, nan=7e77), torch.nan_to_num(exp, nan=7e77))
        if not same:
            ctx.violation(f"Jac with {kind} cotangents (chunk {chunk}): Jacobian of input {name} is {got.tolist()}, row-by-row vector-Jacobian "
                          f"products give {exp.tolist()}", rp)
            return


def main(ctx: Ctx):
    ctx.lean_gate()
    n = 250 if ctx.tier == "quick" else 25000
    for i in range(n):
        one_program(ctx, no_casts(ctx.rng, random_program))
        if i % 3 == 0:
            chain(ctx, no_casts(ctx.rng, random_mtl))
        if i % 5 == 0:
            mixed_precision_jac(ctx)
            jac_extreme_cotangents(ctx)
    return ctx.finish(
        rule="Init, Diagonalize, Select, Grad, Jac, Aggregate, Stack of torchjd.autojac._transform driven directly on "
             "random P-int programs with random key sets (several keys, equal-sized keys, 0-d..4-d, unreachable "
             "inputs, intermediate tensors as inputs), integer cotangents, batch sizes 1..5, chunk sizes None,1,2,m,m+1; "
             "output dictionaries compared EXACTLY with the model transform; Jac vs Grad row by row; Jac chained "
             "through the features vs end-to-end",
        trusted=TRUSTED)
