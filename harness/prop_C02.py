"""C02 — mtl_backward(): own-task gradients for heads, aggregated Jacobian for the trunk."""
from __future__ import annotations

import torch

from autojac_common import fmt_grads, max_abs, model_mtl, rand_pre, real_mtl
from common import Ctx, TRUSTED_COMMON, sx
from progs import numel, random_mtl
from prop_C01 import TRUSTED


def gen_call(ctx: Ctx, M):
    rng, P = ctx.rng, M.P
    T = len(M.losses)
    shared_default = sorted(P.reach_leaves(M.features))
    # explicit or defaulted lists
    if rng.random() < 0.3:
        shared, m_shared = None, shared_default
    else:
        shared = list(shared_default)
        rng.shuffle(shared)
        if rng.random() < 0.3 and len(shared) > 1:
            shared = shared[:-1]
        if rng.random() < 0.12:
            shared = []              # frozen trunk: only the heads are trained
        m_shared = shared
    if rng.random() < 0.3:
        tasks, m_tasks = None, [list(tl) for tl in M.task_leaves]
    else:
        tasks = []
        all_own = sorted({p for tl in M.task_leaves for p in tl})
        for tl in M.task_leaves:
            tp = [p for p in tl if rng.random() < 0.85]
            if all_own and rng.random() < 0.2:
                # a parameter listed for a task whose loss does not depend on it (every head handed the same list of
                # head parameters): that task contributes zeros to it, the tasks that do use it contribute their gradient
                extra = rng.choice(all_own)
                if extra not in tp and extra not in shared_default:
                    tp.append(extra)
            rng.shuffle(tp)
            tasks.append(tp)
        m_tasks = tasks
    a = rng.random()
    if a < 0.5:
        agg = ("const" if rng.random() < 0.8 else "sub", rng.sample(range(-6, 9), T))       # "sub": a user subclass overriding forward
    elif a < 0.6:
        agg = ("sum",)
    elif a < 0.7 and T in (1, 2, 4):
        agg = ("mean",)
    elif M.P.big or M.P.casts:
        agg = ("const", [rng.choice([-2, -1, 1, 2, 3]) for _ in range(T)])     # the probe is cubic in J: not exact with *BIG
    else:
        agg = ("probe", [rng.choice([-2, -1, 1, 2, 3]) for _ in range(T)])
    chunk = rng.choice([None, None, 1, 2, T, T + 1])
    retain = True if (M.nested_features() or M.multi_output_features()) else rng.random() < 0.3
    pre = rand_pre(rng, P, P.leaves())
    gen = rng.random() < 0.2
    losses = list(M.losses)
    if rng.random() < 0.12 and T <= 3:
        # the same loss tensor listed twice (legal; the graph is traversed twice, hence retain_graph): two rows of the
        # Jacobian are equal, and each listing brings its own parameter list
        j = rng.randrange(T)
        losses.append(losses[j])
        extra = [p for p in M.task_leaves[j] if rng.random() < 0.6]
        if tasks is not None:
            tasks = tasks + [extra]
            m_tasks = tasks
        else:
            m_tasks = m_tasks + [list(M.task_leaves[j])]
        T += 1
        retain = True
        agg = ("const", rng.sample(range(-6, 9), T)) if agg[0] in ("const", "sub", "probe", "mean") else agg
        chunk = rng.choice([None, 1, 2, T])
    return dict(gen=gen, losses=losses, features=M.features, tasks=tasks, m_tasks=m_tasks, shared=shared,
                m_shared=m_shared, agg=agg, chunk=chunk, retain=retain, pre=pre)


def overlapping(call):
    s = set(call["m_shared"])
    return any(p in s for tp in call["m_tasks"] for p in tp)


def one(ctx: Ctx, M, call, dtypes):
    P = M.P
    report = P.leaves()
    merr, mg, _ = model_mtl(ctx.driver, P, call["losses"], call["features"], call["m_tasks"], call["m_shared"],
                            call["agg"], call["chunk"], call["retain"], call["pre"], report)
    big = max_abs(mg)
    for dtype in dtypes:
        if (dtype == torch.float32 and (big * 4096 > 2 ** 22 or P.big)) or big > 2 ** 44:
            ctx.count("skipped_magnitude")
            continue
        rerr, rg, _ = real_mtl(P, dtype, call["losses"], call["features"], call["tasks"], call["shared"],
                               call["agg"], call["chunk"], call["retain"], call["pre"], report,
                               as_generators=call["gen"])
        spec = {k: str(v) for k, v in call.items() if k != "pre"}
        changed = sum(1 for k in report if rg[k] != (None if call["pre"].get(k) is None else list(call["pre"][k])))
        ctx.case((tuple(P.describe()), sx([str(v) for v in spec.values()]), str(dtype)),
                 nontrivial=(rerr is None and changed > 0),
                 sample={"program": P.describe(), "call": spec, "dtype": str(dtype), "grads": fmt_grads(rg)})
        ctx.count("agg", call["agg"][0])
        ctx.count("tasks", len(call["losses"]))
        ctx.count("features", len(call["features"]))
        ctx.count("defaults", f"shared={'None' if call['shared'] is None else 'explicit'},"
                              f"tasks={'None' if call['tasks'] is None else 'explicit'}")
        ctx.count("outcome", rerr or "ok")
        ctx.count("explicit_empty_shared", call["shared"] == [])
        ctx.count("same_loss_listed_twice", len(set(call["losses"])) < len(call["losses"]))
        ctx.count("params_as_one_shot_iterables", call["gen"])
        ctx.count("param_shared_by_two_tasks",
                  len({p for tp in call["m_tasks"] for p in tp}) < sum(len(tp) for tp in call["m_tasks"]))
        if rerr != merr or rg != mg:
            ctx.violation(
                f"mtl_backward deposited {fmt_grads(rg)} (err={rerr}); own-task gradients + aggregated "
                f"feature-level Jacobian give {fmt_grads(mg)} (err={merr}) [{dtype}]",
                {"program": P.describe(), "prog_sx": sx(P.to_sx()), "call": spec, "dtype": str(dtype),
                 "implementation": {"err": rerr, "grads": fmt_grads(rg)},
                 "model": {"err": merr, "grads": fmt_grads(mg)}})
            return False
    return True


def one_draw(ctx: Ctx, M):
    """a STOCHASTIC aggregator is evaluated exactly once per call: under a fixed seed, mtl_backward with Random deposits what
    Constant(w) deposits, w being THE FIRST weight vector Random draws under that seed (an extra evaluation of the weighting —
    for logging, for a shape probe — would consume that draw; a stateful aggregator would be stepped twice)"""
    from fractions import Fraction
    from torchjd.aggregation import Random
    rng = ctx.rng
    P = M.P
    T = len(M.losses)
    shared = sorted(P.reach_leaves(M.features))
    tasks = [list(tl) for tl in M.task_leaves]
    report = P.leaves()
    pre = {k: None for k in report}
    seed = rng.randrange(10 ** 6)
    chunk = rng.choice([None, 1, 2])
    torch.manual_seed(seed)
    w = Random().weighting(torch.zeros(T, 1, dtype=torch.float64)).tolist()
    e1, g1, _ = real_mtl(P, torch.float64, M.losses, M.features, tasks, shared, ("random", seed), chunk, False, pre, report)
    e2, g2, _ = real_mtl(P, torch.float64, M.losses, M.features, tasks, shared, ("constf", w), chunk, False, pre, report)
    ctx.case(("one-draw", tuple(P.describe()), seed, chunk), nontrivial=e1 is None)
    ctx.count("one_draw_checked")
    ok = e1 == e2
    if ok and e1 is None:
        for k in report:
            a, b = g1[k], g2[k]
            if (a is None) != (b is None) or (a is not None and any(abs(x - y) > Fraction(1, 10 ** 9) * max(abs(x), abs(y), 1) for x, y in zip(a, b))):
                ok = False
    if not ok:
        ctx.violation(f"mtl_backward with Random under seed {seed} deposited {fmt_grads(g1)} (err={e1}); Constant with the first weight "
                      f"vector Random draws under that seed ({[round(v, 6) for v in w]}) deposits {fmt_grads(g2)} (err={e2}): the aggregator was "
                      f"not evaluated exactly once", {"program": P.describe(), "prog_sx": sx(P.to_sx()), "torch_seed": seed, "chunk": chunk})


def main(ctx: Ctx):
    ctx.lean_gate()
    n = 300 if ctx.tier == "quick" else 40000
    for i in range(n):
        M = random_mtl(ctx.rng)
        call = gen_call(ctx, M)
        dtypes = [torch.float64] if call["agg"][0] == "probe" or i % 3 else [torch.float64, torch.float32]
        one(ctx, M, call, dtypes)
        if i % 10 == 0 and not (M.P.casts or M.P.big):
            one_draw(ctx, M)
    return ctx.finish(
        rule="random trunk/heads P-int programs (1-3 shared leaves, 1-3 feature tensors of any shape, 1-4 heads "
             "with 0-2 own leaves, parameters shared by two tasks, unused features) x calls (explicit / defaulted / "
             "partial parameter lists in random order, Constant with distinct weights / Sum / Mean / probe, chunk "
             "None,1,2,T,T+1, pre-existing .grad); .grad of every leaf compared EXACTLY with the Lean model. "
             "non-trivial = call succeeded and changed a .grad",
        trusted=TRUSTED)
