"""C06 — gradients accumulate; nothing but the requested .grad fields is touched (histories)."""
from __future__ import annotations

from fractions import Fraction

import torch

from autojac_common import Probe, fmt_grads, jac_dtype, make_agg
from common import Ctx, classify_exc, field, sx, to_frac
from progs import differentiable_nonleaves, numel, random_mtl, random_program
from prop_C01 import TRUSTED

from torchjd import backward, mtl_backward
from torchjd.aggregation import Aggregator, Constant


class Recording(Aggregator):
    """wraps an aggregator and keeps a reference to every vector it returned (so that its storage
    stays alive and can be compared with the storages of the .grad fields)"""

    def __init__(self, inner, sink):
        super().__init__()
        self.inner, self.sink = inner, sink

    def forward(self, J):
        v = self.inner(J)
        self.sink.append(v)
        return v


class Scheduled(Aggregator):
    """a STATEFUL aggregator (like NashMTL, or any user-defined one): call j of its life uses the j-th aggregator of its
    schedule.  The state lives on the object the user passes; the calls of a history must see it advance."""

    def __init__(self, inners):
        super().__init__()
        self.inners, self.calls = list(inners), 0

    def forward(self, J):
        inner = self.inners[min(self.calls, len(self.inners) - 1)]
        self.calls += 1
        return inner(J)


def sptr(t):
    return t.untyped_storage().data_ptr()


def gen_ops(ctx: Ctx, P, M):
    rng = ctx.rng
    leaves = P.leaves()
    rg = [i for i in leaves if P.nodes[i].rg]
    ops = []
    def content(k):
        # pre-existing content: small integers, or — in a double-precision leaf — integers around 2^30 that single precision
        # cannot hold (old + update must be formed in the accumulator's own precision)
        if not P.nodes[k].flip and rng.random() < 0.4:
            return [rng.choice([-1, 1]) * (2 ** 30 + 2 * rng.randint(0, 50) + 1) for _ in range(numel(P.nodes[k].shape))]
        return [rng.randint(-9, 9) for _ in range(numel(P.nodes[k].shape))]
    for k in rg:
        if rng.random() < 0.3:
            ops.append(("set", k, content(k)))
    n = rng.choice([1, 2, 3, 4, 5, 6])
    calls = []
    for _ in range(n):
        r = rng.random()
        if r < 0.55 or not calls:
            if M is not None and rng.random() < 0.6:
                T = len(M.losses)
                shared = sorted(P.reach_leaves(M.features))
                tasks = [list(tl) for tl in M.task_leaves]
                if rng.random() < 0.3:
                    # every head is handed the same list of head parameters (some of which its loss does not depend on)
                    shared_set = set(P.reach_leaves(M.features))
                    allp = sorted({p for tl in M.task_leaves for p in tl if p not in shared_set})
                    if T * len(allp) <= 20:
                        # (the model's heap semantics costs exponentially in tasks x listed parameters: 4 x 5 takes 0.2 s, 4 x 8
                        # did not finish in an hour — larger products keep their own lists)
                        tasks = [list(allp) for _ in M.task_leaves]
                agg = rng.choice([("const", rng.sample(range(-5, 8), T)), ("sum",),
                                  ("probe", [rng.choice([-1, 1, 2]) for _ in range(T)])][:2 if (P.big or P.casts) else 3])
                op = ("mtl", M.losses, M.features, tasks, shared, agg, rng.choice([None, 1, 2]))
            else:
                cands = differentiable_nonleaves(P)
                tensors = rng.sample(cands, min(len(cands), rng.choice([1, 2])))
                m = sum(numel(P.nodes[t].shape) for t in tensors)
                ins = [i for i in rg if rng.random() < 0.7] or rg[:1]
                agg = rng.choice([("const", [rng.randint(-5, 7) for _ in range(m)]), ("sum",),
                                  ("probe", [rng.choice([-1, 1, 2]) for _ in range(m)])][:2 if (P.big or P.casts) else 3])
                op = ("backward", tensors, ins, agg, rng.choice([None, 1, 2, m + 1]))
            calls.append(op)
            ops.append(op)
        elif r < 0.75:
            # repeat the call (retained graph) — through the SAME aggregator object, whose state decides the weights
            prev = list(calls[-1])
            ai = 5 if prev[0] == "mtl" else 3
            if prev[ai][0] in ("const", "probe") and rng.random() < 0.6:
                prev[ai] = (prev[ai][0], [rng.randint(-5, 7) for _ in prev[ai][1]])
            ops.append(tuple(prev))
        elif r < 0.83:
            # two same-shaped parameters made to share ONE gradient tensor (a common accumulator for tied weights)
            pairs = [(a, b) for a in rg for b in rg if a != b and numel(P.nodes[a].shape) == numel(P.nodes[b].shape)
                     and P.nodes[a].shape == P.nodes[b].shape and P.nodes[a].flip == P.nodes[b].flip]
            if pairs:
                a, b = rng.choice(pairs)
                if rng.random() < 0.5:
                    ops.append(("set", a, content(a)))
                ops.append(("alias", a, b))
                # ... and a call that requests both of them
                cands = differentiable_nonleaves(P)
                tensors = rng.sample(cands, min(len(cands), rng.choice([1, 2])))
                mm = sum(numel(P.nodes[t].shape) for t in tensors)
                ins = list(dict.fromkeys([a, b] + [i for i in rg if rng.random() < 0.5]))
                rng.shuffle(ins)
                op = ("backward", tensors, ins, ("const", [rng.randint(-5, 7) for _ in range(mm)]), rng.choice([None, 1, 2]))
                calls.append(op)
                ops.append(op)
        elif r < 0.85:
            ops.append(("zero", rng.choice(rg)))
        elif r < 0.93:
            ops.append(("none", rng.choice(rg)))
        else:
            k = rng.choice(rg)
            ops.append(("add", k, [rng.randint(-4, 4) for _ in range(numel(P.nodes[k].shape))]))
    return ops


def op_sx(op):
    k = op[0]
    if k == "backward":
        _, tensors, ins, agg, chunk = op
        return ["backward", ["tensors", list(tensors)], ["inputs", list(ins)], ["agg", *agg],
                ["chunk", "none" if chunk is None else chunk]]
    if k == "mtl":
        _, losses, feats, tasks, shared, agg, chunk = op
        return ["mtl", ["losses", list(losses)], ["features", list(feats)], ["tasks", *[list(t) for t in tasks]],
                ["shared", list(shared)], ["agg", *agg], ["chunk", "none" if chunk is None else chunk]]
    if k in ("zero", "none"):
        return [k, op[1]]
    if k == "alias":
        return ["alias", op[1], op[2]]
    return [k, op[1], list(op[2])]


def run_history(ctx: Ctx, P, M, ops):
    dtype = torch.float64
    leaves = P.leaves()
    ts = P.build(dtype)
    data0 = [t.detach().clone() for t in ts]
    sink = []
    rep = ctx.driver.ask(["history", P.to_sx(), ["ops", *[op_sx(o) for o in ops]], ["report", leaves]])
    prev_ptr, prev_sid = {}, {}
    # one aggregator OBJECT per distinct call signature; it is stateful: its j-th call uses the j-th scheduled weights
    def sig(o):
        return (o[0], str(o[1:3])) if o[0] == "backward" else (o[0], str(o[1:5]))
    sched, objs = {}, {}
    for o in ops:
        if o[0] in ("backward", "mtl"):
            sched.setdefault(sig(o), []).append(o[3] if o[0] == "backward" else o[5])
    for step, (op, mrep) in enumerate(zip(ops, rep)):
        merr = field(mrep, "err")[0]
        merr = None if merr == "none" else merr
        mg = {int(k): (None if v == "none" else (int(v[0]), [to_frac(x) for x in v[1]])) for k, v in field(mrep, "grads")[0]}
        rerr = None
        try:
            if op[0] == "backward":
                _, tensors, ins, agg, chunk = op
                if sig(op) not in objs:
                    objs[sig(op)] = Recording(Scheduled([make_agg(a, jac_dtype(ts, ins, dtype)) for a in sched[sig(op)]]), sink)
                # every third call lists its first input TWICE (tied modules: `[*l1.parameters(), *l2.parameters()]`): one tensor,
                # one deposit
                real_ins = [ts[i] for i in ins] + ([ts[ins[0]]] if step % 3 == 0 and ins else [])
                backward([ts[i] for i in tensors], objs[sig(op)], inputs=real_ins,
                         retain_graph=True, parallel_chunk_size=chunk)
            elif op[0] == "mtl":
                _, losses, feats, tasks, shared, agg, chunk = op
                if sig(op) not in objs:
                    objs[sig(op)] = Recording(Scheduled([make_agg(a, jac_dtype(ts, shared, dtype)) for a in sched[sig(op)]]), sink)
                mtl_backward([ts[i] for i in losses], [ts[i] for i in feats], objs[sig(op)],
                             tasks_params=[[ts[i] for i in tp] for tp in tasks], shared_params=[ts[i] for i in shared],
                             retain_graph=True, parallel_chunk_size=chunk)
            elif op[0] == "alias":
                ts[op[2]].grad = ts[op[1]].grad
            elif op[0] == "zero":
                if ts[op[1]].grad is not None:
                    ts[op[1]].grad.zero_()
            elif op[0] == "none":
                ts[op[1]].grad = None
            elif op[0] == "add":
                if ts[op[1]].grad is not None:
                    ts[op[1]].grad.add_(torch.tensor([float(x) for x in op[2]], dtype=ts[op[1]].dtype).reshape(ts[op[1]].shape))
            elif op[0] == "set":
                g0 = torch.tensor([float(x) for x in op[2]], dtype=ts[op[1]].dtype).reshape(ts[op[1]].shape)
                if g0.dim() >= 2 and (step + len(op[2])) % 2 == 0:
                    # same values, NON-contiguous memory layout (e.g. a .grad left by a channels_last / transposed
                    # computation): in-place accumulation must still go through it
                    rev = list(range(g0.dim()))[::-1]
                    g0 = g0.permute(rev).contiguous().permute(rev)
                    ctx.count("preexisting_grad_non_contiguous")
                ts[op[1]].grad = g0
        except Exception as e:  # noqa: BLE001
            rerr = classify_exc(e)
        rg = {k: (None if ts[k].grad is None else
                  [Fraction(x) for x in ts[k].grad.detach().reshape(-1).tolist()]) for k in leaves}
        ptr = {k: sptr(ts[k].grad) for k in leaves if ts[k].grad is not None}
        rp = {"program": P.describe(), "prog_sx": sx(P.to_sx()), "ops": [str(o) for o in ops], "step": step,
              "implementation": {"err": rerr, "grads": fmt_grads(rg)},
              "model": {"err": merr, "grads": {k: (None if v is None else [str(x) for x in v[1]]) for k, v in mg.items()}}}
        ctx.count("op", op[0])
        # 1. values (accumulation, creation, frame on .grad of non-requested leaves)
        if rerr != merr or rg != {k: (None if v is None else v[1]) for k, v in mg.items()}:
            ctx.violation(f"after step {step} ({op[0]}): .grad fields {fmt_grads(rg)} (err={rerr}) differ from "
                          f"accumulate-semantics model {rp['model']}", rp)
            return False
        # 2. tensor values untouched
        for i, (t, d0) in enumerate(zip(ts, data0)):
            if not torch.equal(t.detach(), d0):
                ctx.violation(f"step {step} ({op[0]}) modified the value of tensor n{i}", rp)
                return False
        # 3. aliasing partition
        others = {sptr(t): f"n{i}" for i, t in enumerate(ts)}
        others.update({sptr(v): "aggregator output" for v in sink})
        for k, p_ in ptr.items():
            if p_ in others:
                ctx.violation(f"after step {step} ({op[0]}): n{k}.grad shares memory with {others[p_]}", rp)
                return False
        byptr, bysid = {}, {}
        for k, p_ in ptr.items():
            byptr.setdefault(p_, []).append(k)
            bysid.setdefault(mg[k][0], []).append(k)
        if sorted(map(sorted, byptr.values())) != sorted(map(sorted, bysid.values())):
            ctx.violation(f"after step {step} ({op[0]}): which .grad fields share memory {sorted(map(sorted, byptr.values()))} "
                          f"differs from the heap model {sorted(map(sorted, bysid.values()))} (only gradients the USER aliased "
                          f"may share a storage)", rp)
            return False
        for k, p_ in ptr.items():
            sid = mg[k][0]
            if k in prev_sid and prev_sid[k] == sid and prev_ptr.get(k) != p_:
                ctx.violation(f"step {step} ({op[0]}): existing n{k}.grad was replaced instead of updated in place",
                              rp)
                return False
        prev_ptr, prev_sid = ptr, {k: v[0] for k, v in mg.items() if v is not None}
    return True


def low_precision_accumulators(ctx: Ctx):
    """pre-existing .grad of ARBITRARY content in a reduced-precision parameter (float16 / bfloat16): ±inf, nan, entries at
    the top of the dtype's range, sums that leave it.  `new .grad = old .grad + update` in the arithmetic of the dtype
    (inf stays inf, an out-of-range sum becomes inf, exactly as torch.autograd accumulates); the update itself is a small
    integer combination, exact in both dtypes.  Repeated on the retained graph: the k-th call adds the update again."""
    rng = ctx.rng
    dt = rng.choice([torch.float16, torch.bfloat16])
    n = rng.randint(2, 5)
    top = float(torch.finfo(dt).max)
    scale = rng.choice([1, 64, 1024, 8192])               # powers of two: products stay exact
    c = [[rng.randint(-3, 3) for _ in range(n)] for _ in range(2)]
    w = [rng.randint(1, 3), rng.randint(-2, 3)]
    upd = [scale * (w[0] * c[0][j] + w[1] * c[1][j]) for j in range(n)]          # |.| <= 15 * 8192 — may exceed float16's range
    p = torch.tensor([float(rng.randint(-3, 3)) for _ in range(n)], dtype=dt, requires_grad=True)
    other = torch.tensor([1.0, 2.0], dtype=dt, requires_grad=True)
    y = torch.stack([(p * torch.tensor(c[0], dtype=dt)).sum() * scale + other.sum() * 0, (p * torch.tensor(c[1], dtype=dt)).sum() * scale])
    old = [rng.choice([float("inf"), float("-inf"), float("nan"), top, -top, top / 2, -top / 4, 1.0, 0.0, -3.0]) for _ in range(n)]
    p.grad = torch.tensor(old, dtype=dt)
    keep = p.grad
    other_old = torch.tensor([float("inf"), 5.0], dtype=dt)
    other.grad = other_old.clone()
    u = torch.tensor([float(v) for v in upd], dtype=dt)    # rounds to ±inf exactly when the update leaves the range
    expected = torch.tensor(old, dtype=dt)
    calls = rng.randint(1, 4)
    rp = {"scenario": "low-precision accumulator", "dtype": str(dt), "old": [str(v) for v in old], "update": upd, "calls": calls,
          "c": c, "w": w, "scale": scale}
    ctx.case(("lowprec", str(dt), tuple(str(v) for v in old), tuple(upd), calls), nontrivial=True,
             sample={"scenario": "low-precision accumulator", "dtype": str(dt), "old": [str(v) for v in old], "update": upd})
    ctx.count("low_precision_accumulators", str(dt))
    for k in range(calls):
        if k > 0 and rng.random() < 0.5:
            # an edit of the accumulator between two calls (what an optimizer or a gradient-scaling step does): the next call
            # adds to what .grad holds NOW — no memory of earlier sums
            edit = rng.choice(["zero_", "mul_", "assign"])
            rp.setdefault("edits", []).append([k, edit])
            if edit == "zero_":
                p.grad.zero_()
                expected = torch.zeros_like(expected)
            elif edit == "mul_":
                p.grad.mul_(0.5)
                expected = expected * 0.5
            else:
                new = torch.tensor([float(rng.randint(-3, 3)) for _ in range(n)], dtype=dt)
                p.grad = new
                keep = new
                expected = new.clone()
        try:
            backward(y, Constant(torch.tensor([float(v) for v in w], dtype=dt)), inputs=[p], retain_graph=True)
        except Exception as e:  # noqa: BLE001
            ctx.violation(f"backward raised {type(e).__name__}: {e} on a {dt} parameter with a pre-existing .grad", rp)
            return
        expected = expected + u
        if p.grad is not keep:
            ctx.violation(f"the existing {dt} .grad was replaced instead of updated in place", rp)
            return
        if not torch.equal(torch.nan_to_num(p.grad.float(), nan=12345.0), torch.nan_to_num(expected.float(), nan=12345.0)):
            ctx.violation(f"call {k + 1}: a {dt} .grad holding {old} received the update {upd} {k + 1} time(s) and is now "
                          f"{p.grad.tolist()}; old + update in the arithmetic of the dtype is {expected.tolist()}", rp)
            return
        if not torch.equal(torch.nan_to_num(other.grad.float(), nan=12345.0), torch.nan_to_num(other_old.float(), nan=12345.0)):
            ctx.violation(f"the .grad of a {dt} leaf that was not requested changed from {other_old.tolist()} to {other.grad.tolist()}", rp)
            return


def tracked_accumulator(ctx: Ctx):
    """an existing .grad that autograd tracks (a NON-LEAF tensor requiring grad: the result of a differentiable computation
    stored in .grad, e.g. a meta-gradient): the call adds to THAT tensor, in place — a reference kept by the user sees the sum"""
    rng = ctx.rng
    n = rng.randint(2, 4)
    p = torch.tensor([float(rng.randint(-3, 3)) for _ in range(n)], dtype=torch.float64, requires_grad=True)
    q = torch.tensor([float(rng.randint(-3, 3)) for _ in range(n)], dtype=torch.float64, requires_grad=True)
    c = [[rng.randint(-3, 3) for _ in range(n)] for _ in range(2)]
    w = [rng.randint(1, 3), rng.randint(-2, 3)]
    y = torch.stack([(p * torch.tensor(c[0], dtype=torch.float64)).sum(), (p * torch.tensor(c[1], dtype=torch.float64)).sum()])
    old = q * 2.0                      # non-leaf, requires grad
    p.grad = old
    exp = old.detach().clone()
    upd = torch.tensor([float(w[0] * c[0][j] + w[1] * c[1][j]) for j in range(n)], dtype=torch.float64)
    rp = {"scenario": "tracked accumulator", "c": c, "w": w}
    ctx.case(("tracked", str(c), str(w)), nontrivial=True)
    ctx.count("tracked_accumulators")
    for k in range(rng.randint(1, 3)):
        try:
            backward(y, Constant(torch.tensor([float(v) for v in w], dtype=torch.float64)), inputs=[p], retain_graph=True)
        except Exception as e:  # noqa: BLE001
            ctx.violation(f"backward raised {type(e).__name__}: {e} on a parameter whose .grad is a tracked non-leaf tensor", rp)
            return
        exp = exp + upd
        if p.grad is not old:
            ctx.violation("the existing .grad (a tensor tracked by autograd) was REPLACED by a new tensor instead of being added to: "
                          f"a reference kept to it still holds {old.detach().tolist()} while p.grad holds {p.grad.detach().tolist()}", rp)
            return
        if not torch.equal(p.grad.detach(), exp):
            ctx.violation(f"call {k + 1}: tracked .grad is {p.grad.detach().tolist()}, old + update is {exp.tolist()}", rp)
            return


def main(ctx: Ctx):
    ctx.lean_gate()
    n = 200 if ctx.tier == "quick" else 30000
    for i in range(n):
        if i % 2:
            M = random_mtl(ctx.rng)
            P = M.P
        else:
            M, P = None, random_program(ctx.rng)
        ops = gen_ops(ctx, P, M)
        ok = run_history(ctx, P, M, ops)
        ctx.case((tuple(P.describe()), tuple(str(o) for o in ops)), nontrivial=sum(1 for o in ops if o[0] in ("backward", "mtl")) >= 1,
                 sample={"program": P.describe(), "ops": [str(o) for o in ops]})
        ctx.count("history_len", len(ops))
        ctx.count("calls_in_history", sum(1 for o in ops if o[0] in ("backward", "mtl")))
        if i % 8 == 0:
            low_precision_accumulators(ctx)
        if i % 16 == 0:
            tracked_accumulator(ctx)
    return ctx.finish(
        rule="histories of 1-6 operations (backward / mtl_backward with retain_graph=True incl. repeated identical "
             "calls through ONE stateful aggregator object, .grad.zero_(), .grad=None, in-place edits, two parameters sharing one "
             "gradient tensor, pre-existing .grad of arbitrary content) on ONE graph "
             "of a random P-int program; after every operation: .grad of all leaves == heap model (values), values of "
             "all tensors unchanged, no .grad shares storage with any tensor of the graph, with the (recorded) "
             "aggregator output or with another .grad, existing .grad updated in place; float16 / bfloat16 parameters whose "
             "pre-existing .grad holds ±inf, nan and entries at the top of the range: new == old + update in the dtype's arithmetic",
        trusted=TRUSTED + ["untyped_storage().data_ptr() identifies memory sharing among live tensors"])
