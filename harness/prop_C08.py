"""C08 — weighted aggregators stay in the row span and only look at the Gramian; every deterministic
aggregator commutes with column permutations and zero-column insertion."""
from __future__ import annotations

from fractions import Fraction as Fr

import numpy as np
import torch

from aggs import catalogue
from common import Ctx, classify_exc
from matrices import cayley, dependent_rows, m_int, m_svd, m_unit, matmul, to_tensor, transpose, ulp
from prop_C03 import TRUSTED

DT = torch.float64


def attempt(A, J, seed):
    torch.manual_seed(seed)
    try:
        return "ok", A(J)
    except Exception as e:  # noqa: BLE001
        return "err", classify_exc(e)


_FLOOR = [0.0]      # natural magnitude of the current input (an exact result may vanish by cancellation)


def relerr(a, b):
    sc = max(float(a.abs().max()), float(b.abs().max()), _FLOOR[0], 1e-300)
    return float((a - b).abs().max()) / sc


def well_conditioned(rng, m, n):
    """rational matrix with unambiguous rank (full row rank, cond <= ~10) — for pinv / solver / tie based ones"""
    sig = [Fr(10 + 3 * i + rng.randint(0, 2), 4) for i in range(min(m, n))][::-1]
    sig = sorted(sig, reverse=True)
    J, _, _, _ = m_svd(rng, m, n, sigmas=sig)
    return J


def one(ctx: Ctx, spec, dtype, dependent=False, disjoint=False, symmetric=False):
    rng = ctx.rng
    m = max(spec.min_rows, rng.choice([2, 3, 4]))
    n = rng.choice([m, m + 1, m + 2]) if (spec.pinv or spec.solver or spec.ties) else rng.choice([2, 3, 5])
    if symmetric:
        # a square SYMMETRIC Jacobian (y = S x with symmetric S; every objective with its own parameter): J equals its own
        # transpose and looks like a Gramian, but the weights must still come from J Jᵀ = S². Positive definite, cond <= ~10.
        m = max(m, 2)
        Qs = cayley(rng, m)
        sig = sorted([Fr(10 + 3 * i + rng.randint(0, 2), 4) for i in range(m)], reverse=True)
        J = matmul(matmul(Qs, [[sig[r] if r == c else Fr(0) for c in range(m)] for r in range(m)]), transpose(Qs))
        assert all(J[r][c] == J[c][r] for r in range(m) for c in range(m))
        ctx.count("family", f"{spec.name}:symmetric-square")
    elif spec.pinv and not spec.solver and dependent:
        # rank-deficient with an unambiguous rank: one row is a combination of two others (not a duplicate) — what a
        # pseudo-inverse handles and a plain solve / Cholesky factorisation does not
        m = max(m, 3)
        J = dependent_rows(rng, m, rng.choice([m - 1, m, m + 2]))
        ctx.count("family", f"{spec.name}:dependent-rows")
    elif spec.gramian and not spec.pinv and not spec.ties and (disjoint or rng.random() < 0.25):
        # rows with disjoint supports: no two rows conflict and some inner products are EXACTLY zero; after an orthogonal
        # change of coordinates they are +-1e-17 — nothing may depend on the sign of such an entry
        m = max(m, 2)
        n = m + rng.choice([0, 1, 2])
        J = [[Fr(0)] * n for _ in range(m)]
        for c in range(n):
            J[c % m][c] = Fr(rng.randint(1, 6))
        ctx.count("family", f"{spec.name}:disjoint-supports")
    elif spec.pinv or spec.solver or spec.ties or rng.random() < 0.5:
        J = well_conditioned(rng, m, max(n, m))
    else:
        J = m_int(rng, m, n)
    n = len(J[0])
    if not dependent and rng.random() < (0.5 if spec.ties else 0.2):
        # small gradients (entries ~1e-6, exactly scaled): the laws are scale-free; absolute constants hidden in a distance or
        # a threshold are not
        J = [[v / 2 ** 20 for v in r] for r in J]
        ctx.count("family", f"{spec.name}:scaled-2^-20")
    Jt = to_tensor(J, dtype)
    _FLOOR[0] = float(Jt.abs().max())
    pv = None
    if spec.pref is not None and (rng.random() < 0.6 or spec.pref == "weights"):
        pv = [rng.randint(1, 5) for _ in range(m)] if spec.pref != "leak" else [rng.choice([0, 0.25, 0.5, 1]) for _ in range(m)]
        if spec.pref == "weights":
            pv = [rng.choice([-2, -1, 1, 2, 3]) for _ in range(m)]
    A = spec.make(m, dtype, pv)
    seed = rng.randrange(10 ** 6)
    if spec.name == "Krum":
        # exact (or nearly exact) score ties are excluded by the property: the selection then depends on index order
        D = torch.cdist(Jt.double(), Jt.double(), compute_mode="donot_use_mm_for_euclid_dist")
        sc = D.topk(k=m - 1 - 2 + 1, largest=False).values[:, 1:].sum(dim=1).sort().values
        if float(sc[1] - sc[0]) < 1e-6 * max(float(sc[0]), 1e-300):
            ctx.count("skipped_low_margin", "Krum: score tie")
            return
    st, x = attempt(A, Jt, seed)
    tol = (2e-3 if dtype == torch.float32 else 1e-8) * (30 if (spec.solver or spec.pinv) else 1)
    if spec.solver:
        tol = max(tol, 2.5e-5)       # the conic solver's own stopping tolerance (a kernel): observed 1.3e-5 on exactly orthogonal rows
    rp = {"aggregator": spec.name, "pref": str(pv), "J": [[str(v) for v in r] for r in J], "dtype": str(dtype), "torch_seed": seed}
    ctx.case((spec.name, str(J), str(pv), str(dtype)), nontrivial=True,
             sample={"aggregator": spec.name, "J": [[str(v) for v in r] for r in J], "pref": str(pv)})
    ctx.count("aggregator", spec.name)
    if st != "ok":
        ctx.violation(f"{spec.name} raised {x}", rp)
        return
    # (0) rank-deficient matrices: the implementation against the exact any-rank model of the pseudo-inverse based
    #     aggregators (`imtlgWeightsP` / `configVecP`, TjdProps/C17b.lean); row norms are square roots: the model gets
    #     their double-precision values as exact rationals (the answer is Lipschitz in them)
    if dependent and spec.name in ("IMTLG", "ConFIG"):
        from agg_common import ask_agg, fr_list, tensor_to_fr, maxdiff, maxabs
        dn = [Fr(float(v)) for v in Jt.double().norm(dim=1).tolist()]
        if spec.name == "IMTLG":
            rep = ask_agg(ctx.driver, "imtlgp", J, d=dn, guard=Fr(1, 10 ** 12))
            xm = None if rep is None else fr_list(rep[2])
            if rep is not None:
                wm = fr_list(rep[1])
                if all(v == 0 for v in wm) or sum(abs(v) for v in wm) > 50:
                    # the un-normalised weights sum to (nearly) zero: the definition v / sum(v) is discontinuous there
                    # (decision margin of the guard, §4.2) — e.g. rows that add up to zero
                    ctx.count("skipped_low_margin", "IMTLG: weights sum near zero")
                    return
        else:
            wv = [Fr(v) for v in pv] if pv is not None else [Fr(1)] * m
            rep = ask_agg(ctx.driver, "configp", J, d=dn, w=wv)
            xm = None if rep is None else fr_list(rep[1])
        if xm is None:
            ctx.violation(f"{spec.name}: the any-rank model found no certificate on a rank-deficient matrix", rp, no_input=True)
            return
        sv = np.linalg.svd(np.array([[float(v) for v in r] for r in J]), compute_uv=False)
        pos = [v for v in sv if v > 1e-9 * sv[0]]
        kappa = (pos[0] / pos[-1]) ** 2
        xs = tensor_to_fr(x)
        # natural magnitude: the rows themselves (the exact result may vanish by cancellation)
        tolm = Fr(64 * ulp(dtype) * kappa * m * n) * max(maxabs(xm), maxabs([v for r in J for v in r]), Fr(1, 10 ** 30))
        ctx.count("compared_with_any_rank_model", spec.name)
        if maxdiff(xs, xm) > tolm:
            ctx.violation(f"{spec.name} on a rank-{len(pos)} matrix with {m} rows returns {[float(v) for v in xs]}; the exact "
                          f"pseudo-inverse based definition gives {[float(v) for v in xm]} (tolerance {float(tolm):.2e})", rp)
            return
    # (1) row span
    if spec.weighted:
        torch.manual_seed(seed)
        w = A.weighting(Jt)
        if relerr(w @ Jt, x) > tol:
            ctx.violation(f"{spec.name}: A(J) is not weighting(J) @ J (not the documented linear combination of rows)", rp)
            return
    if spec.name == "ConFIG":
        Jn, xn = Jt.double().numpy(), x.double().numpy()
        coef, res, rk, _ = np.linalg.lstsq(Jn.T, xn, rcond=None)
        r = float(np.linalg.norm(Jn.T @ coef - xn))
        if r > tol * 10 * max(float(np.linalg.norm(xn)), 1e-300):
            ctx.violation(f"ConFIG output is not in the row span of J (residual {r:.3e})", rp)
            return
    # (2) orthogonal change of coordinates (Gramian-based weightings)
    if spec.gramian:
        if dependent:
            # exactly representable orthogonal map (signed permutation): J Q stays an integer matrix, so its rank stays
            # unambiguous (a rounded J Q has a Gramian whose noise eigenvalue sits at the pseudo-inverse's own cut-off)
            perm_ = list(range(n))
            rng.shuffle(perm_)
            Q = [[Fr(rng.choice([-1, 1])) if c == perm_[r] else Fr(0) for c in range(n)] for r in range(n)]
        else:
            Q = cayley(rng, n)
        JQ = matmul(J, Q)
        st2, y = attempt(A, to_tensor(JQ, dtype), seed)
        xQ = x.double() @ to_tensor(Q, torch.float64)
        ctx.count("orthogonal_checked", spec.name)
        if st2 != "ok" or relerr(y.double(), xQ) > tol * 4:
            ctx.violation(f"{spec.name}: A(J Q) differs from A(J) Q for an orthogonal Q by "
                          f"{relerr(y.double(), xQ) if st2 == 'ok' else y}: the weights do not depend on J J^T only",
                          {**rp, "Q": [[str(v) for v in r] for r in Q]})
            return
    # (3) column permutation and zero-column insertion (deterministic aggregators; PCGrad/Random under a fixed seed)
    if spec.name != "GradDrop":
        perm = list(range(n))
        rng.shuffle(perm)
        Jp = Jt[:, perm]
        st3, y = attempt(A, Jp, seed)
        if st3 != "ok" or relerr(y, x[perm]) > tol * 4:
            ctx.violation(f"{spec.name}: permuting the columns by {perm} does not permute the result", {**rp, "perm": perm})
            return
        pos = rng.randint(0, n)
        Jz = torch.cat([Jt[:, :pos], torch.zeros(m, 1, dtype=dtype), Jt[:, pos:]], dim=1)
        st4, y = attempt(A, Jz, seed)
        exp = torch.cat([x[:pos], torch.zeros(1, dtype=dtype), x[pos:]])
        ctx.count("column_layout_checked", spec.name)
        if st4 != "ok" or relerr(y, exp) > tol * 4:
            ctx.violation(f"{spec.name}: inserting an all-zero column at {pos} changes the update of the other columns "
                          f"(or the new coordinate is {float(y[pos]) if st4 == 'ok' else y})", {**rp, "zero_col": pos})


def one_float(ctx: Ctx, spec, dtype, Jt, family):
    """same metamorphic checks on float matrices too large for exact rational orthogonal maps: Householder Q"""
    rng = ctx.rng
    m, n = Jt.shape
    _FLOOR[0] = float(Jt.abs().max()) * (1e-3 if family.startswith("many-rows") else 1.0)
    pv = None
    if spec.pref == "weights":
        pv = [rng.choice([-2, -1, 1, 2, 3]) for _ in range(m)]
    A = spec.make(m, dtype, pv)
    seed = rng.randrange(10 ** 6)
    st, x = attempt(A, Jt, seed)
    tol = (5e-3 if dtype == torch.float32 else 1e-7) * (30 if (spec.solver or spec.pinv) else 1)
    rp = {"aggregator": spec.name, "family": family, "shape": [m, n], "dtype": str(dtype), "torch_seed": seed,
          "J": Jt.tolist() if Jt.numel() <= 400 else "see generator seed", "pref": str(pv)}
    ctx.case((spec.name, family, m, n, str(dtype), seed), nontrivial=True,
             sample={"aggregator": spec.name, "family": family, "shape": [m, n], "dtype": str(dtype)})
    ctx.count("float_family", f"{spec.name}:{family}")
    if st != "ok":
        ctx.violation(f"{spec.name} raised {x} on a finite {m}x{n} matrix ({family})", rp)
        return
    if spec.gramian:
        g = torch.Generator().manual_seed(seed)
        v = torch.randn(n, generator=g, dtype=torch.float64)
        v = v / v.norm()
        Q = torch.eye(n, dtype=torch.float64) - 2 * torch.outer(v, v)          # Householder reflection
        JQ = (Jt.double() @ Q).to(dtype)
        st2, y = attempt(A, JQ, seed)
        xQ = x.double() @ Q
        if st2 != "ok" or relerr(y.double(), xQ) > tol * 4:
            ctx.violation(f"{spec.name}: A(J Q) differs from A(J) Q for an orthogonal (Householder) Q by "
                          f"{relerr(y.double(), xQ) if st2 == 'ok' else y} on a {m}x{n} matrix ({family})", rp)
            return
    for _ in range(4 if spec.name == "Krum" else 1):
        perm = list(range(n))
        rng.shuffle(perm)
        st3, y = attempt(A, Jt[:, perm], seed)
        # Krum(k=1) returns one ROW of the matrix: the same row must be selected, bit for bit (squared distances
        # are sums of the same terms in another order; the selection margin is checked to dominate that)
        exact = spec.name == "Krum"
        bad = st3 != "ok" or (not torch.equal(y, x[perm]) if exact else relerr(y, x[perm]) > tol * 4)
        if bad and exact and st3 == "ok":
            D = torch.cdist(Jt.double(), Jt.double(), compute_mode="donot_use_mm_for_euclid_dist")
            sc = D.topk(k=m - 1 - 2 + 1, largest=False).values[:, 1:].sum(dim=1).sort().values
            if float(sc[1] - sc[0]) < 1e-3 * float(sc[0]):
                ctx.count("krum_float_family_skipped_near_tie")
                continue
        if bad:
            ctx.violation(f"{spec.name}: permuting the columns does not permute the result "
                          f"({relerr(y, x[perm]) if st3 == 'ok' else y}) on a {m}x{n} matrix ({family})", {**rp, "perm": perm})
            return


def many_zero_columns(ctx: Ctx, spec):
    """a small single-precision Jacobian of moderate condition number next to tens of thousands of parameters that
    influence nothing: the update of the real parameters must not notice them (anything that scales a threshold with
    the number of columns does)"""
    rng = ctx.rng
    m = max(3, spec.min_rows)
    sig = [Fr(20), Fr(5)] + [Fr(1)] * (m - 2)
    # (also small gradients: largest singular value 2e-2 or 2e-3, well above every aggregator's norm_eps = 1e-4 — unless the
    # threshold is made to grow with the number of columns)
    sc = rng.choice([Fr(1), Fr(1, 1000), Fr(1, 10000)])
    J, _, _, _ = m_svd(rng, m, m, sigmas=sig, scale=sc)
    Jt = to_tensor(J, torch.float32)
    extra = rng.choice([50000, 80000])
    pos = rng.choice([0, m, rng.randint(0, m)])
    A = spec.make(m, torch.float32, [rng.choice([1, 2, 3]) for _ in range(m)] if spec.pref == "weights" else None)
    seed = rng.randrange(10 ** 6)
    st, x = attempt(A, Jt, seed)
    Jz = torch.cat([Jt[:, :pos], torch.zeros(m, extra, dtype=torch.float32), Jt[:, pos:]], dim=1)
    st2, y = attempt(A, Jz, seed)
    ctx.case((spec.name, "many-zero-columns", str(J), extra, pos), nontrivial=True,
             sample={"aggregator": spec.name, "family": "many-zero-columns", "shape": [m, m + extra]})
    ctx.count("float_family", f"{spec.name}:many-zero-columns")
    rp = {"aggregator": spec.name, "family": "many-zero-columns", "J": [[str(v) for v in r] for r in J], "zero_columns": extra,
          "inserted_at": pos, "dtype": "torch.float32", "torch_seed": seed}
    if st != "ok" or st2 != "ok":
        ctx.violation(f"{spec.name} raised {x if st != 'ok' else y} ({m}x{m} matrix / with {extra} zero columns)", rp)
        return
    _FLOOR[0] = float(Jt.abs().max())
    keep = torch.cat([y[:pos], y[pos + extra:]])
    tol = 2e-2 if (spec.pinv or spec.solver) else 5e-3
    if relerr(keep, x) > tol or float(y[pos:pos + extra].abs().max()) > tol * _FLOOR[0]:
        ctx.violation(f"{spec.name}: appending {extra} all-zero columns to a {m}x{m} matrix (cond 20) changes the update of the "
                      f"other columns by {relerr(keep, x):.3e} (relative)", rp)


def nearly_dependent_f64(ctx: Ctx):
    """ConFIG on a DOUBLE-precision matrix whose rows are nearly dependent (smallest relative singular value ~ 1e-6..1e-5:
    far above the double-precision noise, i.e. an unambiguous full rank), with tens to hundreds of all-zero columns
    appended: the update of the real columns must not notice them (a rank tolerance derived from anything but the matrix's
    own precision, or growing with the number of columns, does)"""
    from torchjd.aggregation import ConFIG
    rng = ctx.rng
    m = 3
    sig = [Fr(2), Fr(1), Fr(rng.choice([3, 6, 12]), 10 ** 6)]
    J, _, _, _ = m_svd(rng, m, m, sigmas=sig)
    Jt = to_tensor(J, torch.float64)
    extra = rng.choice([40, 100, 200, 400])
    pv = rng.choice([None, [1.0, 2.0, 3.0]])
    A = ConFIG(pref_vector=None if pv is None else torch.tensor(pv, dtype=torch.float64))
    st, x = attempt(A, Jt, 0)
    Jz = torch.cat([Jt, torch.zeros(m, extra, dtype=torch.float64)], dim=1)
    st2, y = attempt(A, Jz, 0)
    ctx.case(("nearly-dependent-f64", str(J), extra, str(pv)), nontrivial=True,
             sample={"aggregator": "ConFIG", "family": "nearly-dependent-f64", "zero_columns": extra})
    ctx.count("float_family", "ConFIG:nearly-dependent-f64")
    rp = {"aggregator": "ConFIG", "family": "nearly-dependent-f64", "J": [[str(v) for v in r] for r in J], "sigma": [str(v) for v in sig],
          "zero_columns": extra, "pref": str(pv), "dtype": "torch.float64"}
    if st != "ok" or st2 != "ok":
        ctx.violation(f"ConFIG raised {x if st != 'ok' else y}", rp)
        return
    _FLOOR[0] = float(x.abs().max())
    tol = 64 * 2.2e-16 * float(sig[0] / sig[-1]) ** 2
    if relerr(y[:m], x) > tol or float(y[m:].abs().max()) > tol * _FLOOR[0]:
        ctx.violation(f"ConFIG (float64, smallest relative singular value {float(sig[-1] / sig[0]):.1e}): appending {extra} all-zero "
                      f"columns changes the update of the other columns by {relerr(y[:m], x):.3e} (relative; allowance {tol:.1e})", rp)


def float_families(ctx: Ctx, spec, dtype):
    rng = ctx.rng
    g = torch.Generator().manual_seed(rng.randrange(2 ** 31))
    if spec.threshold:
        # wide Jacobian of small gradients: every entry below norm_eps = 1e-4 but the largest singular value above it
        m, n = rng.choice([2, 3]), rng.randint(300, 500)
        J = (torch.rand(m, n, generator=g, dtype=torch.float64) * 7 + 2) * 1e-5 * torch.sign(torch.randn(m, n, generator=g, dtype=torch.float64))
        J[1] = -J[0] * 0.8 + 0.3 * J[1]                      # conflicting rows
        one_float(ctx, spec, torch.float64, J, "wide-small-entries")
    if spec.name == "Krum":
        # many rows sharing a large common component (distances << norms)
        for _ in range(3):
            m, n = rng.randint(28, 40), rng.choice([8, 32, 64])
            J = 1000.0 + torch.randn(m, n, generator=g, dtype=torch.float64)
            one_float(ctx, spec, torch.float32, J.to(torch.float32), "many-rows-common-component")


def main(ctx: Ctx):
    ctx.lean_gate()
    cat = catalogue()
    n = 12 if ctx.tier == "quick" else 3000
    for i in range(n):
        for spec in cat:
            if spec.solver and i % 3:
                continue
            one(ctx, spec, torch.float64 if i % 3 else torch.float32)
            if i % 3 == 0:
                one(ctx, spec, torch.float64 if i % 2 else torch.float32, symmetric=True)
            if spec.pinv and not spec.solver:
                one(ctx, spec, torch.float64 if i % 2 else torch.float32, dependent=True)
            if spec.solver:
                for _ in range(3):
                    one(ctx, spec, torch.float64, disjoint=True)
            if i % 6 == 0 and spec.name != "GradDrop":
                many_zero_columns(ctx, spec)
            if i % 2 == 0:
                float_families(ctx, spec, torch.float32 if i % 4 == 0 else torch.float64)
        nearly_dependent_f64(ctx)
    return ctx.finish(
        rule="15 aggregators x (rational-SVD matrices with unambiguous rank / integer matrices) x preference, weight "
             "and leak vectors: A(J) == weighting(J) @ J (ConFIG: least-squares residual on the row span); A(JQ) == A(J)Q "
             "for rational orthogonal Q (Cayley) for the 13 Gramian-based ones (PCGrad, Random under a fixed seed); column "
             "permutation and zero-column insertion equivariance for every deterministic aggregator incl. TrimmedMean",
        trusted=TRUSTED)
