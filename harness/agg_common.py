"""helpers shared by the aggregator checks"""
from __future__ import annotations

from fractions import Fraction as Fr

import torch

from common import field, to_frac


def ask_agg(driver, name, J, **kw):
    req = ["agg", ["agg", name], ["J", [list(r) for r in J]]]
    for k, v in kw.items():
        req.append([k, v])
    rep = driver.ask(req)
    if rep[0] == "none":
        return None
    return rep


def fr_list(xs):
    return [to_frac(x) for x in xs]


class NonFinite(Exception):
    """an output the harness was about to convert to exact rationals contains nan/inf"""


def tensor_to_fr(t):
    xs = t.detach().double().reshape(-1).tolist()
    if any(x != x or x in (float("inf"), float("-inf")) for x in xs):
        raise NonFinite(f"non-finite values {xs[:8]}")
    return [Fr(float(x)) for x in xs]


def maxabs(xs):
    return max((abs(x) for x in xs), default=Fr(0))


def maxdiff(a, b):
    return max((abs(x - y) for x, y in zip(a, b)), default=Fr(0))


def run_agg(A, J):
    """call an aggregator; returns ('ok', vector tensor) or ('err', kind)"""
    from common import classify_exc
    try:
        return "ok", A(J)
    except Exception as e:  # noqa: BLE001
        return "err", classify_exc(e)
