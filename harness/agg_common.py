"""helpers shared by the aggregator checks"""
from __future__ import annotations

from fractions import Fraction as Fr

import torch

from common import field, to_frac


def ask_agg(driver, name, J, **kw):
    req = ["agg", ["agg", name], ["J", [list(r) for r in J]]]
    for k, v in kw.items():
        req.append([k, v])
    rep = driver.ask(req)
    if rep[0] == "none":
        return None
    return rep


def fr_list(xs):
    return [to_frac(x) for x in xs]


class NonFinite(Exception):
    """an output the harness was about to convert to exact rationals contains nan/inf"""


def tensor_to_fr(t):
    xs = t.detach().double().reshape(-1).tolist()
    if any(x != x or x in (float("inf"), float("-inf")) for x in xs):
        raise NonFinite(f"non-finite values {xs[:8]}")
    return [Fr(float(x)) for x in xs]


def maxabs(xs):
    return max((abs(x) for x in xs), default=Fr(0))


def maxdiff(a, b):
    return max((abs(x - y) for x, y in zip(a, b)), default=Fr(0))


def run_agg(A, J):
    """call an aggregator; returns ('ok', vector tensor) or ('err', kind)"""
    from common import classify_exc
    try:
        return "ok", A(J)
    except Exception as e:  # noqa: BLE001
        return "err", classify_exc(e)


def refill_history(make, Jt, Jt2, seed, how):
    """the SAME tensor object is passed twice, its contents replaced in between through a channel autograd's version
    counter does not see (`how` = "numpy": shared memory with a numpy buffer; "data": `.data.copy_`); the second result
    must be what a fresh instance returns on a fresh tensor with the new contents.  Returns None or a message."""
    import numpy as np
    import torch
    A = make()
    if how == "numpy":
        buf = np.array(Jt.numpy(), copy=True)
        T = torch.from_numpy(buf)
    else:
        T = Jt.clone()
    torch.manual_seed(seed)
    try:
        A(T)
    except Exception as e:  # noqa: BLE001
        return f"raised {type(e).__name__} on the first call"
    if how == "numpy":
        buf[...] = Jt2.numpy()
    else:
        T.data.copy_(Jt2)
    torch.manual_seed(seed)
    st_b, x_b = run_agg(A, T)
    torch.manual_seed(seed)
    st_c, x_c = run_agg(make(), Jt2.clone())
    if st_b != st_c or (st_b == "ok" and not torch.equal(x_b, x_c)):
        return (f"second call on the same tensor object (contents replaced through {'a numpy view' if how == 'numpy' else '.data'}) "
                f"gives {x_b.tolist() if st_b == 'ok' else x_b}; a fresh instance on a fresh tensor with the same contents gives "
                f"{x_c.tolist() if st_c == 'ok' else x_c}")
    return None
