"""C01 — backward() deposits the aggregation of the true Jacobian into .grad."""
from __future__ import annotations

import torch

from autojac_common import (fmt_grads, max_abs, model_backward, rand_pre, real_backward)
from common import Ctx, TRUSTED_COMMON, sx
from progs import differentiable_nonleaves, numel, random_program

TRUSTED = TRUSTED_COMMON + [
    "contract of torch.autograd.grad (total derivative / None when unreachable / row-wise under vmap); "
    "the P-int program language and its exact Jacobian oracle (lean/TjdModel/Autojac/Prog.lean) are "
    "validated against torch on every generated program by the value comparison itself",
]


def gen_call(ctx: Ctx, P, for_mean=False):
    rng = ctx.rng
    cands = differentiable_nonleaves(P)
    k = rng.choice([1, 1, 2, 2, 3, 4])
    tensors = rng.sample(cands, min(k, len(cands)))
    rg_leaves = [i for i in P.leaves() if P.nodes[i].rg]
    leaf_objective = False
    if rg_leaves and rng.random() < 0.12:
        # an objective that is itself a parameter (e.g. a learnable log-variance added to the losses): its Jacobian rows
        # are one-hot; legal as soon as `inputs` is given explicitly
        tensors = tensors + [rng.choice(rg_leaves)]
        rng.shuffle(tensors)
        leaf_objective = True
    m = sum(numel(P.nodes[t].shape) for t in tensors)
    reach = sorted(P.reach_leaves(tensors))
    mode = rng.random()
    if leaf_objective and mode < 0.2:
        mode = 0.3
    if mode < 0.2:
        inputs = None
    elif mode < 0.5:
        inputs = list(rg_leaves)
        rng.shuffle(inputs)
    else:
        inputs = [i for i in rg_leaves if rng.random() < 0.6] or rg_leaves[:1]
        rng.shuffle(inputs)
        if rng.random() < 0.15 and inputs:
            inputs = inputs + [inputs[0]]       # duplicates are collapsed by set()
    a = rng.random()
    if a < 0.45:
        w = rng.sample(range(-6, 9), m) if m <= 15 else [rng.randint(-6, 8) for _ in range(m)]
        agg = ("const", w) if rng.random() < 0.8 else ("sub", w)       # "sub": a user subclass of Constant overriding forward
    elif a < 0.6:
        agg = ("sum",)
    elif a < 0.7 and m in (1, 2, 4, 8, 16):
        agg = ("mean",)
    elif P.big or P.casts:      # (a single-precision parameter: the cubic probe would leave its exact range)
        agg = ("const", [rng.choice([-2, -1, 1, 2, 3]) for _ in range(m)])     # the probe is cubic in J: not exact with *BIG
    else:
        agg = ("probe", [rng.choice([-2, -1, 1, 2, 3]) for _ in range(m)])
    chunk = rng.choice([None, None, 1, 2, 3, m, m + 2])
    retain = rng.random() < 0.3
    model_inputs = reach if inputs is None else list(dict.fromkeys(inputs))
    pre = rand_pre(rng, P, P.leaves())
    # `inputs: Iterable[Tensor]`, `tensors: Sequence[Tensor]`: any kind of iterable is legal, one-shot ones included
    inputs_kind = rng.choice(["list", "list", "tuple", "gen", "iter", "dictkeys"])
    tensors_kind = rng.choice(["list", "list", "tuple"])
    hook = None
    if agg[0] in ("const", "sum", "mean", "sub") and model_inputs and rng.random() < 0.25:
        hook = rng.choice(model_inputs)      # a doubling gradient hook on one requested leaf (linear aggregators: the deposit doubles)
    return dict(tensors=tensors, inputs=inputs, model_inputs=model_inputs, agg=agg, chunk=chunk,
                retain=retain, pre=pre, m=m, inputs_kind=inputs_kind, tensors_kind=tensors_kind, hook=hook)


def one(ctx: Ctx, P, call, dtypes):
    report = P.leaves()
    merr, mg, msw = model_backward(ctx.driver, P, call["tensors"], call["model_inputs"], call["agg"],
                                   call["chunk"], call["retain"], call["pre"], report)
    h = call.get("hook")
    if h is not None and merr is None and mg.get(h) is not None:
        p0 = call["pre"].get(h)
        mg = dict(mg)
        mg[h] = [(0 if p0 is None else int(p0[j])) + 2 * (v - (0 if p0 is None else int(p0[j]))) for j, v in enumerate(mg[h])]
    big = max_abs(mg)
    for dtype in dtypes:
        if dtype == torch.float32 and (big * 4096 > 2 ** 22 or P.big):
            ctx.count("skipped_f32_magnitude")
            continue
        if big > 2 ** 44:
            ctx.count("skipped_magnitude")
            continue
        rerr, rg, _ = real_backward(P, dtype, call["tensors"], call["inputs"], call["agg"], call["chunk"],
                                    call["retain"], call["pre"], report,
                                    inputs_kind=call.get("inputs_kind", "list"), tensors_kind=call.get("tensors_kind", "list"),
                                    hooks=None if h is None else {h: 2.0})
        touched = sum(1 for k in report if rg[k] != (None if call["pre"].get(k) is None else
                                                     [x for x in map(int, call["pre"][k])]))
        spec = {k: v for k, v in call.items() if k not in ("pre",)}
        ctx.case((tuple(P.describe()), sx([spec["tensors"], spec["inputs"] or "None", list(spec["agg"]),
                                          spec["chunk"] or "None"]), str(dtype)),
                 nontrivial=(rerr is None and touched > 0),
                 sample={"program": P.describe(), "call": {k: str(v) for k, v in spec.items()},
                         "dtype": str(dtype), "grads": fmt_grads(rg)})
        ctx.count("agg", call["agg"][0])
        ctx.count("chunk", call["chunk"])
        ctx.count("n_inputs", "None" if call["inputs"] is None else len(call["inputs"]))
        ctx.count("inputs_passed_as", "None" if call["inputs"] is None else call.get("inputs_kind", "list"))
        ctx.count("rows", call["m"])
        ctx.count("outcome", rerr or "ok")
        if rerr != merr or rg != mg:
            ctx.violation(
                f"backward deposited {fmt_grads(rg)} (err={rerr}); aggregator applied to the true Jacobian "
                f"gives {fmt_grads(mg)} (err={merr}) [{dtype}]",
                {"program": P.describe(), "prog_sx": sx(P.to_sx()), "call": {k: str(v) for k, v in call.items()},
                 "dtype": str(dtype), "implementation": {"err": rerr, "grads": fmt_grads(rg)},
                 "model": {"err": merr, "grads": fmt_grads(mg)}})
            return False
    return True


def smooth_with_real_aggregators(ctx: Ctx):
    """P-float: a smooth program and the library's own aggregators; the oracle is the aggregator applied to the
    Jacobian assembled row by row by torch.autograd on a TWIN graph"""
    from prop_C05 import smooth_graph
    from torchjd import backward
    from torchjd.aggregation import DualProj, IMTLG, Krum, MGDA, Mean, TrimmedMean, UPGrad, AlignedMTL
    rng = ctx.rng
    build, plan = smooth_graph(rng)
    leaves, outs = build()
    mrows = sum(o.numel() for o in outs)
    name, A = rng.choice([("UPGrad", UPGrad()), ("DualProj", DualProj()), ("MGDA", MGDA()), ("Krum", Krum(1, 2)),
                          ("TrimmedMean", TrimmedMean(1)), ("IMTLG", IMTLG()), ("AlignedMTL", AlignedMTL()),
                          ("UPGrad(pref)", UPGrad(pref_vector=torch.arange(1.0, mrows + 1.0, dtype=torch.float64)))])
    chunk = rng.choice([None, 1, 2, 4])
    order = list(range(len(leaves)))
    rng.shuffle(order)
    backward(outs, A, inputs=[leaves[i] for i in order], parallel_chunk_size=chunk)
    l2, o2 = build()
    rows = []
    for o in o2:
        for r in range(o.numel()):
            g = torch.autograd.grad(o.reshape(-1)[r], l2, retain_graph=True, allow_unused=True)
            rows.append(torch.cat([(torch.zeros_like(p) if gi is None else gi).reshape(-1) for gi, p in zip(g, l2)]))
    J = torch.stack(rows)
    v = A(J)
    # conditioning of the aggregator AT this Jacobian: the two Jacobians (torchjd's sweeps, the twin's rows) agree to a few ulp
    # only; what a relative perturbation of 4 ulp of J does to A(J) is allowed a hundredfold (pseudo-inverse based aggregators
    # on nearly dependent rows amplify it: thorough tier, seed 1 — 6.7e-8 with IMTL-G on the unchanged tree)
    pert = torch.tensor([[1.0 + 8.9e-16 * (1 if (r + c) % 2 else -1) for c in range(J.shape[1])] for r in range(J.shape[0])],
                        dtype=J.dtype)
    try:
        sens = float((A(J * pert) - v).abs().max())
    except Exception:  # noqa: BLE001
        sens = 0.0
    ctx.case(("smooth", tuple(plan), name, chunk), nontrivial=True,
             sample={"smooth_program": plan, "aggregator": name, "chunk": chunk, "rows": int(J.shape[0])})
    ctx.count("smooth_aggregator", name)
    off = 0
    for p, q in zip(leaves, l2):
        sl = v[off:off + q.numel()].reshape(q.shape)
        off += q.numel()
        err = float((p.grad - sl).abs().max())
        if err > 1e-8 * max(1.0, float(sl.abs().max())) + 100 * sens:
            ctx.violation(f"backward with {name} on a smooth program {plan}: .grad differs from the slice of "
                          f"{name}(J) (J assembled by torch.autograd on a twin graph) by {err:.3e}",
                          {"program": plan, "aggregator": name, "chunk": chunk, "input_order": order})
            return


def main(ctx: Ctx):
    ctx.lean_gate()
    n = 350 if ctx.tier == "quick" else 60000
    for i in range(n):
        P = random_program(ctx.rng)
        call = gen_call(ctx, P)
        dtypes = [torch.float64] if call["agg"][0] == "probe" or i % 3 else [torch.float64, torch.float32]
        one(ctx, P, call, dtypes)
        if i % 4 == 0:
            smooth_with_real_aggregators(ctx)
    return ctx.finish(
        rule="random P-int programs (integer DAGs: affine torch ops incl. multi-output split/unbind, "
             "element-wise products, reuse, detach, leaves not requiring grad, 0-d..4-d shapes) x random calls "
             "(1-4 output tensors as list/tuple, explicit input subsets in random order / with duplicates / None, passed as "
             "list, tuple, generator, iterator or dict-keys view, Constant with "
             "distinct weights / Sum / Mean / Gramian-coupled probe aggregator, chunk sizes None,1,2,3,m,m+2, "
             "pre-existing .grad); .grad of every leaf compared EXACTLY with the Lean model. non-trivial = call "
             "succeeded and changed at least one .grad; distinct = distinct (program, call, dtype)",
        trusted=TRUSTED)
