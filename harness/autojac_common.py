"""running backward / mtl_backward on the real code and on the Lean model for P-int programs"""
from __future__ import annotations

import warnings
from fractions import Fraction

import torch

from common import classify_exc, field, to_frac
from progs import Program, numel

from torchjd import backward, mtl_backward
from torchjd.aggregation import Aggregator, Constant, Mean, Sum

warnings.filterwarnings("ignore")


class Probe(Aggregator):
    """non-linear, row-order-sensitive, couples all columns through the Gramian; exact on integers.
    Mirrored by `parseAgg "probe"` in lean/TjdModel/Driver.lean."""

    def __init__(self, w):
        super().__init__()
        self.w = w

    def forward(self, J):
        if J.shape[0] != len(self.w):
            raise ValueError("probe: wrong number of rows")
        G = J @ J.T
        ramp = torch.arange(1, J.shape[0] + 1, dtype=J.dtype)
        u = self.w.to(J.dtype) * (1 + G @ ramp)
        return u @ J


class TwiceConstant(Constant):
    """a user-defined subclass of a public weighted aggregator that post-processes the combination in `forward` (the
    documented extension point): `backward` must deposit what THIS object returns on the Jacobian — not what its weighting
    alone would give.  Model: Constant with doubled weights."""

    def forward(self, matrix):
        return 2 * super().forward(matrix)


class BadLen(Aggregator):
    def __init__(self, k):
        super().__init__()
        self.k = k

    def forward(self, J):
        return torch.zeros(self.k, dtype=J.dtype)


def make_agg(spec, dtype):
    k = spec[0]
    if k == "sum":
        return Sum()
    if k == "mean":
        return Mean()
    if k == "const":
        return Constant(torch.tensor([float(x) for x in spec[1]], dtype=dtype))
    if k == "probe":
        return Probe(torch.tensor([float(x) for x in spec[1]], dtype=dtype))
    if k == "sub":
        if len(spec[1]) % 2:
            # ... or a plain Constant carrying a forward hook (nn.Module protocol): calling the aggregator runs the hook
            A = Constant(torch.tensor([float(x) for x in spec[1]], dtype=dtype))
            A.register_forward_hook(lambda mod, args, out: 2 * out)
            return A
        return TwiceConstant(torch.tensor([float(x) for x in spec[1]], dtype=dtype))
    if k == "badlen":
        return BadLen(spec[1])
    if k == "random":
        # the library's stochastic weighting under a fixed seed (seeded here: the caller builds the aggregator in the argument
        # list of the call, nothing random happens in between)
        from torchjd.aggregation import Random
        torch.manual_seed(spec[1])
        return Random()
    if k == "constf":
        return Constant(torch.tensor([float(x) for x in spec[1]], dtype=dtype))
    raise AssertionError(spec)


def jac_dtype(ts, idxs, dtype):
    """dtype of the Jacobian torchjd assembles for these inputs: gradients of different precisions are promoted when
    concatenated (mixed-precision models); a Constant's weights must be handed over in that dtype"""
    ds = {ts[i].dtype for i in idxs}
    if torch.float64 in ds:
        return torch.float64
    return torch.float32 if ds else dtype


def grads_of(ts, report):
    out = {}
    for k in report:
        g = ts[k].grad
        # (a non-finite entry stays a float: it equals no model value and is reported, not a crash of the harness)
        out[k] = None if g is None else [Fraction(x) if x == x and abs(x) != float("inf") else x
                                         for x in g.detach().double().reshape(-1).tolist()]
    return out


def set_pre(P: Program, ts, pre, dtype):
    for k, v in pre.items():
        if v is not None:
            ts[k].grad = torch.tensor([float(x) for x in v], dtype=ts[k].dtype).reshape(P.nodes[k].shape)


def as_iterable(kind, xs):
    """the same collection handed over as another legal kind of `Iterable` (one-shot ones included)"""
    if kind == "tuple":
        return tuple(xs)
    if kind == "gen":
        return (x for x in xs)
    if kind == "iter":
        return iter(list(xs))
    if kind == "dictkeys":
        return {x: None for x in xs}.keys()
    return list(xs)


_CALLS = [0]


def grad_mode():
    """the public functions differentiate a graph that was recorded BEFORE the call: the grad mode in force DURING the call
    (a `torch.no_grad()` / `torch.enable_grad()` block around an evaluation or logging step) must not matter.  Every 5th
    real call runs under no_grad, every 7th under enable_grad (deterministic, seed-independent)."""
    _CALLS[0] += 1
    if _CALLS[0] % 5 == 0:
        return torch.no_grad()
    if _CALLS[0] % 7 == 0:
        return torch.enable_grad()
    import contextlib
    return contextlib.nullcontext()


def as_count(chunk):
    """`parallel_chunk_size: int | None` — the integer may come from a numpy hyper-parameter grid or be a 0-d tensor: every
    3rd explicit chunk size is handed over as `numpy.int64`, every 4th as a 0-d integer tensor (same value, same meaning)"""
    if chunk is None:
        return None
    _CALLS[0] += 1
    if _CALLS[0] % 3 == 0:
        import numpy as np
        return np.int64(chunk)
    if _CALLS[0] % 4 == 0:
        return torch.tensor(chunk)
    return chunk


def real_backward(P: Program, dtype, tensors, inputs, agg, chunk, retain, pre, report, ts=None, freeze=(),
                  inputs_kind="list", tensors_kind="list", hooks=None):
    """freeze: leaves switched to requires_grad=False AFTER the forward pass (they are still in the graph);
    inputs_kind / tensors_kind: which kind of Iterable / Sequence the arguments are passed as"""
    ts = ts if ts is not None else P.build(dtype)
    set_pre(P, ts, pre, dtype)
    for i in freeze:
        ts[i].requires_grad_(False)
    for i, f in (hooks or {}).items():
        # a gradient hook on a leaf (the per-layer learning-rate multiplier idiom): it acts ONCE on what flows into the leaf
        ts[i].register_hook(lambda g, f=f: g * f)
    err = None
    try:
        ins_ = inputs if inputs is not None else sorted(P.reach_leaves(tensors))
        with grad_mode():
            backward(as_iterable(tensors_kind, [ts[i] for i in tensors]), make_agg(agg, jac_dtype(ts, ins_, dtype)),
                     inputs=None if inputs is None else as_iterable(inputs_kind, [ts[i] for i in inputs]),
                     retain_graph=retain, parallel_chunk_size=as_count(chunk))
    except Exception as e:  # noqa: BLE001
        err = classify_exc(e)
    return err, grads_of(ts, report), ts


def real_mtl(P: Program, dtype, losses, features, tasks, shared, agg, chunk, retain, pre, report, ts=None,
             as_generators=False, freeze=()):
    """as_generators: pass the parameter collections as one-shot iterables (like `module.parameters()`),
    which the signature `Iterable[Tensor]` allows"""
    ts = ts if ts is not None else P.build(dtype)
    set_pre(P, ts, pre, dtype)
    for i in freeze:
        ts[i].requires_grad_(False)
    err = None
    wrap = (lambda xs: (x for x in xs)) if as_generators else (lambda xs: xs)
    try:
        sh_ = shared if shared is not None else sorted(P.reach_leaves(features))
        with grad_mode():
            mtl_backward([ts[i] for i in losses], [ts[i] for i in features], make_agg(agg, jac_dtype(ts, sh_, dtype)),
                         tasks_params=None if tasks is None else [wrap([ts[i] for i in tp]) for tp in tasks],
                         shared_params=None if shared is None else wrap([ts[i] for i in shared]),
                         retain_graph=retain, parallel_chunk_size=as_count(chunk))
    except Exception as e:  # noqa: BLE001
        err = classify_exc(e)
    return err, grads_of(ts, report), ts


def _pre_sx(pre, report):
    return ["grads", *[[k, "none" if pre.get(k) is None else list(pre[k])] for k in report]]


def _parse_outcome(rep):
    err = field(rep, "err")[0]
    grads = {}
    for k, v in field(rep, "grads")[0]:
        grads[int(k)] = None if v == "none" else [to_frac(x) for x in v]
    sweeps = [(int(r), v == "true", t == "true") for r, v, t in field(rep, "sweeps")[0]]
    return (None if err == "none" else err), grads, sweeps


def _model_agg(agg):
    return ("const", [2 * x for x in agg[1]]) if agg[0] == "sub" else agg


def model_backward(driver, P: Program, tensors, inputs, agg, chunk, retain, pre, report, freeze=()):
    agg = _model_agg(agg)
    req = ["backward", P.to_sx(), ["tensors", list(tensors)], ["inputs", list(inputs)],
           ["agg", *agg], ["chunk", "none" if chunk is None else chunk], ["retain", bool(retain)],
           _pre_sx(pre, report), ["report", list(report)]]
    if freeze:
        req.append(["frozen", list(freeze)])        # Engine.freeze: requires_grad_(False) after the forward pass
    return _parse_outcome(driver.ask(req))


def model_mtl(driver, P: Program, losses, features, tasks, shared, agg, chunk, retain, pre, report, freeze=()):
    agg = _model_agg(agg)
    req = ["mtl", P.to_sx(), ["losses", list(losses)], ["features", list(features)],
           ["tasks", *[list(tp) for tp in tasks]], ["shared", list(shared)],
           ["agg", *agg], ["chunk", "none" if chunk is None else chunk], ["retain", bool(retain)],
           _pre_sx(pre, report), ["report", list(report)]]
    if freeze:
        req.append(["frozen", list(freeze)])
    return _parse_outcome(driver.ask(req))


def rand_pre(rng, P: Program, keys, p=0.4):
    pre = {}
    for k in keys:
        if rng.random() < p:
            pre[k] = [rng.randint(-9, 9) for _ in range(numel(P.nodes[k].shape))]
        else:
            pre[k] = None
    return pre


def fmt_grads(g):
    return {k: (None if v is None else [str(x) for x in v]) for k, v in g.items()}


def max_abs(g):
    m = 0
    for v in g.values():
        if v:
            m = max(m, max(abs(x) for x in v))
    return m
