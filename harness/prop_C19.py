"""C19 — NashMTL's state: reset() means fresh, weights are reused as scheduled, norm bounded."""
from __future__ import annotations

import itertools
import warnings

import torch

from common import Ctx, TRUSTED_COMMON, classify_exc

from torchjd.aggregation import NashMTL

warnings.filterwarnings("ignore")
DT = torch.float64


def alphabet(rng, m, n_mats=3):
    """well-conditioned m x n matrices (m <= n), moderate scale"""
    mats = []
    for _ in range(n_mats):
        n = m + rng.choice([0, 1, 3])
        g = torch.Generator().manual_seed(rng.randrange(2 ** 31))
        q, _ = torch.linalg.qr(torch.randn(n, n, generator=g, dtype=DT))
        p, _ = torch.linalg.qr(torch.randn(m, m, generator=g, dtype=DT))
        sv = torch.tensor([1.0 + 0.5 * i + rng.random() for i in range(m)], dtype=DT)
        mats.append((p @ torch.diag(sv) @ q[:m]) * rng.choice([0.5, 1.0, 3.0]))
    return mats


def hard_alphabet(rng, m):
    """well-conditioned CONFLICTING matrices on which the first convex sub-problem handed to the solver is ill-posed
    from uniform starting weights: a row exactly orthogonal to the sum of the rows (the solver's problem data contain
    1/0), or with a slightly negative inner product with it (the solver reports `unbounded`).  Legal inputs: the call
    must succeed and the schedule must not notice."""
    fixed = {2: [[[1, 0], [-1, 1]], [[1, 2], [-3, -1]], [[1, 0], [-1.25, 2]], [[1, 0], [-1.1, 1]]],
             3: [[[1, 0, 0], [0, 1, 0], [-1, -1, 1]], [[1, 0, -.5], [-.5, 2, 1], [-1, -.5, -1]]]}
    mats = []
    for _ in range(2):
        if m in fixed and rng.random() < 0.7:
            mats.append(torch.tensor(rng.choice(fixed[m]), dtype=DT))
        else:
            J = alphabet(rng, m, 1)[0]
            S = J[:-1].sum(dim=0)
            d = J[-1]
            J[-1] = -(float(d @ S) / float(d @ d)) * d * rng.choice([1.0, 1.0, 1.05])
            mats.append(J)
    return mats + alphabet(rng, m, 1)


def call(A, J):
    try:
        return "ok", A.weighting(J).clone()
    except Exception as e:  # noqa: BLE001
        return "err", classify_exc(e)


def run_history(ctx: Ctx, mats, m, k, hist, max_norm, proportional=frozenset()):
    """hist: tuple of matrix indices or 'r' (reset)"""
    rp = {"n_tasks": m, "update_weights_every": k, "max_norm": max_norm, "history": list(hist),
          "matrices": [M.tolist() for M in mats]}
    niter = {0: 20, 1: 20, 2: 20, 3: 3, 4: 0}[(len(hist) + k + m) % 5]        # optim_niter: default mostly, also 3 and 0
    ctx.count("optim_niter", niter)
    rp["optim_niter"] = niter
    main = NashMTL(n_tasks=m, max_norm=max_norm, update_weights_every=k, optim_niter=niter)
    plain = NashMTL(n_tasks=m, max_norm=0.0, update_weights_every=k, optim_niter=niter)   # same schedule, rescaling disabled
    shadow = None            # fresh instance started at the last reset
    rep = ctx.driver.ask(["nash", ["k", k], ["m", m], ["ops", *[("reset" if h == "r" else ["call", h]) for h in hist]]])
    outs, plains = [], []
    ci = 0
    recompute_mats = []      # (segment id, matrix idx) for the sub-sampled twin
    prev_rec = None          # (segment, matrix idx, met its own Nash condition) of the previous scheduled recomputation
    seg = 0
    for pos, h in enumerate(hist):
        if h == "r":
            try:
                main.reset()
                plain.reset()
            except Exception as e:  # noqa: BLE001
                ctx.violation(f"reset() raised {type(e).__name__} at position {pos} of history {list(hist)} (a reset is legal at any "
                              f"time, also before the first call)", {**rp, "position": pos})
                return False
            shadow = NashMTL(n_tasks=m, max_norm=max_norm, update_weights_every=k, optim_niter=niter)
            seg += 1
            continue
        J = mats[h]
        st, w = call(main, J)
        stp, wp = call(plain, J)
        ctx.count("calls")
        if st != "ok" or stp != "ok":
            ctx.violation(f"NashMTL(update_weights_every={k}) call #{ci} of history {list(hist)} raised {w if st != 'ok' else wp}",
                          {**rp, "call": ci})
            return False
        invoked, sym = rep[ci][0] == "true", tuple(rep[ci][1])
        # (v) a scheduled recomputation is computed FROM THE MATRIX OF THAT CALL.  Every sub-problem handed to the solver
        #     constrains alpha_i (J J^T alpha)_i >= 1 for that matrix, and at the bargaining solution the products are 1
        #     (measured on the unchanged tree: 1 ± 2e-6 whenever the solver moves at all).  For a matrix PROPORTIONAL to the one
        #     of the previous recomputation (c J after J: same normalised Gramian, solution alpha / c) the warm start is an interior
        #     point, so the solver cannot be excused: weights carried over instead of recomputed miss the products by c^2.
        #     (A solver that never leaves the starting point — legal on hostile matrices — is recognised by the PREVIOUS
        #     recomputation not meeting its own condition, and nothing is concluded then.)
        if invoked and niter >= 3:
            prod = wp * ((J @ J.T) @ wp)
            lo, hi = float(prod.min()), float(prod.max())
            good = 0.99 <= lo and hi <= 1.01
            if prev_rec is not None and prev_rec[0] == seg and prev_rec[2] and (prev_rec[1], h) in proportional:
                ctx.count("nash_condition_checked_on_proportional_recomputation")
                if not (0.5 <= lo and hi <= 2.0):
                    ctx.violation(f"call #{ci} is a scheduled recomputation on matrix {h} = c * matrix {prev_rec[1]} (the matrix of the "
                                  f"previous recomputation, whose weights met alpha_i (G alpha)_i = 1), but its weights {wp.tolist()} "
                                  f"give alpha_i (G alpha)_i in [{lo:.4g}, {hi:.4g}] for ITS matrix: they were not recomputed from it",
                                  {**rp, "call": ci})
                    return False
            prev_rec = (seg, h, good)
        outs.append((sym, w, J))
        plains.append((sym, wp, invoked, seg, h))
        # (i) reset() means fresh
        if shadow is not None:
            sts, ws = call(shadow, J)
            if sts != "ok" or not torch.allclose(w, ws, rtol=1e-9, atol=1e-12):
                ctx.violation(f"after reset() the instance returns {w.tolist()} on call #{ci} but a newly constructed "
                              f"one fed the same suffix returns {ws.tolist() if sts == 'ok' else ws}", {**rp, "call": ci})
                return False
            ctx.count("reset_vs_fresh_compared")
        # (iv) norm bound
        if max_norm > 0:
            nrm = float(torch.linalg.norm(w @ J))
            if nrm > max_norm * (1 + 1e-9):
                ctx.violation(f"|J^T alpha| = {nrm} exceeds max_norm = {max_norm} on call #{ci}", {**rp, "call": ci})
                return False
            # the clipped instance returns the unclipped instance's weights, shortened when (and only when) |J^T w| > max_norm
            npn = float(torch.linalg.norm(wp @ J))
            expw = wp if npn <= max_norm else wp * (max_norm / npn)
            if float((w - expw).abs().max()) > 1e-9 * max(float(expw.abs().max()), 1e-300):
                ctx.violation(f"with max_norm={max_norm} call #{ci} returns {w.tolist()}; clipping the weights of an instance without "
                              f"clipping ({wp.tolist()}, |J^T w| = {npn:.6g}) gives {expw.tolist()}", {**rp, "call": ci})
                return False
            # rescaling only changes the length
            cr = float(torch.linalg.norm(w * float(wp.norm()) - wp * float(w.norm())))
            if cr > 1e-7 * max(float(wp.norm()) * float(w.norm()), 1e-300):
                ctx.violation(f"with max_norm={max_norm} the weights {w.tolist()} are not a rescaling of the unclipped "
                              f"weights {wp.tolist()}", {**rp, "call": ci})
                return False
        ci += 1
    # (ii) schedule: calls the model maps to the same solver answer return identical weights (unchanged reuse) ...
    first = {}
    for i, (sym, wp, invoked, sg, h) in enumerate(plains):
        if sym in first:
            if not torch.equal(plains[first[sym]][1], wp):
                ctx.violation(f"weights are not reused unchanged between recomputations: call #{first[sym]} returned "
                              f"{plains[first[sym]][1].tolist()}, call #{i} (same schedule slot) returned {wp.tolist()}",
                              {**rp, "call": i})
                return False
            ctx.count("reuse_compared")
        else:
            first[sym] = i
    # (iii) ... and the recomputations see exactly the matrices at calls 0, k, 2k, ... : sub-sampled twin with k = 1
    twin = NashMTL(n_tasks=m, max_norm=0.0, update_weights_every=1, optim_niter=niter)
    cur_seg = 0
    for i, (sym, wp, invoked, sg, h) in enumerate(plains):
        if sg != cur_seg:
            twin.reset()
            cur_seg = sg
        if invoked:
            stt, wt = call(twin, mats[h])
            if stt != "ok" or not torch.allclose(wp, wt, rtol=1e-9, atol=1e-12):
                ctx.violation(f"call #{i} is a scheduled recomputation but its weights {wp.tolist()} differ from those of "
                              f"an update_weights_every=1 instance fed only the scheduled matrices ({wt.tolist() if stt == 'ok' else wt})",
                              {**rp, "call": i})
                return False
            ctx.count("subsampled_twin_compared")
    return True


def mixed_precision_window(ctx: Ctx):
    """matrices of the two floating dtypes inside ONE reuse window: every call succeeds and the reused weights are the weights
    of the last scheduled update, handed back in the dtype of the matrix of the call (so their single-precision roundings agree)"""
    rng = ctx.rng
    m = rng.choice([2, 3])
    k = rng.choice([2, 3, 4])
    mats = alphabet(rng, m, 2)
    mx = rng.choice([0.0, 1.0, 50.0])
    A = NashMTL(n_tasks=m, max_norm=mx, update_weights_every=k, optim_niter=20)
    hist = []
    ref = None
    for ci in range(rng.randint(k, 2 * k + 1)):
        dt = rng.choice([torch.float32, torch.float64])
        J = mats[rng.randrange(2)].to(dt)
        hist.append([ci, str(dt)])
        rp = {"scenario": "two dtypes in one reuse window", "n_tasks": m, "update_weights_every": k, "max_norm": mx, "calls": hist,
              "matrices": [M.tolist() for M in mats]}
        st, w = call(A, J)
        ctx.count("mixed_precision_calls")
        if st != "ok":
            ctx.violation(f"NashMTL(update_weights_every={k}) call #{ci} on a {dt} matrix raised {w} (earlier calls: {hist[:-1]})", rp)
            return
        if w.dtype != dt:
            ctx.violation(f"call #{ci} on a {dt} matrix returned weights of dtype {w.dtype}", rp)
            return
        if ci % k == 0:
            ref = w
        elif mx == 0.0 and not torch.allclose(w.float(), ref.float(), rtol=1e-6, atol=0):
            ctx.violation(f"call #{ci} (inside the reuse window) returned {w.tolist()}, the weights of the last update are {ref.tolist()}", rp)
            return
    ctx.case(("mixed-window", m, k, mx, str(hist)), nontrivial=True)


def main(ctx: Ctx):
    ctx.lean_gate()
    rng = ctx.rng
    quick = ctx.tier == "quick"
    L = 3 if quick else 4
    symbols = [0, 1, 2, "r"]
    for m in ((2, 3) if quick else (2, 3, 4)):
        mats = alphabet(rng, m)
        hists = [h for n in range(1, L + 1) for h in itertools.product(symbols, repeat=n) if any(x != "r" for x in h)]
        if quick:
            hists = rng.sample(hists, 16) + [("r", 0), ("r", "r", 1, 0)]      # reset() before any call is legal too
        # TWO resets with calls in between and after (the second reset must be as complete as the first)
        hists += [(0, "r", 1, "r", 0, 1), ("r", 0, 1, "r", 1, 0, 2), (0, 1, 2, "r", 2, "r", "r", 1, 0)]
        for k in ((1, 2, 3) if quick else (1, 2, 3, 4)):
            for h in hists:
                mx = rng.choice([1.0, 1.0, 0.3, 5.0])
                ok = run_history(ctx, mats, m, k, h, mx)
                ctx.case((m, k, h, mx), nontrivial=len(h) > 1,
                         sample={"n_tasks": m, "update_weights_every": k, "history": list(h), "max_norm": mx})
                if not ok:
                    break
    for _ in range(6 if quick else 150):
        mixed_precision_window(ctx)
    # SMALL gradients (entries ~1e-3): the solver may use up its iterations without meeting its stopping criteria — the schedule
    # is the schedule all the same (recomputation on calls 0, k, 2k, ... only)
    for m in (2, 3):
        for rep_ in range(2 if quick else 6):
            mats = [M * 1e-3 for M in alphabet(rng, m)]
            hists = [h for n in range(2, L + 1) for h in itertools.product(symbols, repeat=n) if h[0] != "r"]
            for k in (2, 3):
                for h in rng.sample(hists, 6 if quick else 40):
                    ok = run_history(ctx, mats, m, k, h, rng.choice([1.0, 0.0]))
                    ctx.case(("small-scale", m, k, h, rep_), nontrivial=True)
                    ctx.count("small_scale_histories")
                    if not ok:
                        break
    # alphabets with PROPORTIONAL matrices (J, cJ): same normalised Gramian, different bargaining solution (alpha / c)
    for m in (2, 3):
        for rep_ in range(2 if quick else 6):
            base = alphabet(rng, m, 2)
            mats = [base[0], base[0] * rng.choice([0.25, 4.0, 10.0]), base[1]]
            hists = [h for n in range(2, L + 1) for h in itertools.product(symbols, repeat=n) if h[0] != "r"]
            for k in (1, 2):
                for h in rng.sample(hists, 8 if quick else 40):
                    ok = run_history(ctx, mats, m, k, h, rng.choice([1.0, 0.0, 50.0]), proportional=frozenset({(0, 1), (1, 0)}))
                    ctx.case(("proportional", m, k, h, rep_), nontrivial=True)
                    ctx.count("proportional_alphabet_histories")
                    if not ok:
                        break
    # alphabets containing matrices on which the solver's first sub-problem is ill-posed
    for m in ((2, 3) if quick else (2, 3, 4)):
        for rep_ in range(2 if quick else 5):
            mats = hard_alphabet(rng, m)
            hists = [h for n in range(1, L + 1) for h in itertools.product(symbols, repeat=n) if h[0] != "r"]
            for k in (1, 2, 3):
                for h in rng.sample(hists, 10 if quick else 60):
                    ok = run_history(ctx, mats, m, k, h, rng.choice([1.0, 5.0]))
                    ctx.case(("hard", m, k, h, rep_), nontrivial=len(h) > 1)
                    ctx.count("hard_alphabet_histories")
                    if not ok:
                        break
    # random longer histories
    for _ in range(6 if quick else 150):
        m = rng.choice([2, 3, 4])
        mats = alphabet(rng, m, 4)
        k = rng.choice([1, 2, 3, 4])
        h = tuple([rng.choice([0, 1, 2, 3])] + [rng.choice([0, 1, 2, 3, "r"]) for _ in range(rng.randint(4, 7))])
        run_history(ctx, mats, m, k, h, rng.choice([1.0, 0.5]))
        ctx.case((m, k, h), nontrivial=True)
    ctx.cov["exhaustive"] = not quick
    ctx.cov["exhaustive_space"] = f"histories over 3 matrices + reset up to length {L} (all in thorough, 18 sampled per (m,k) in quick)"
    return ctx.finish(
        rule="black-box histories over an alphabet of 3 well-conditioned matrices (2..5 rows) + reset(), k = "
             "update_weights_every in 1..4 (and alphabets with matrices on which the solver's first sub-problem is ill-posed: a "
             "row orthogonal / slightly opposed to the sum of the rows): every call must succeed; after reset() outputs equal those of a newly "
             "constructed instance on the same suffix; calls that the Lean schedule model maps to the same solver answer "
             "return identical weights; scheduled recomputations equal a k=1 twin fed only the scheduled matrices; norm "
             "bound and pure rescaling under max_norm",
        trusted=TRUSTED_COMMON + ["the cvxpy/ECOS iteration is an opaque deterministic kernel solve(matrix, previous weights)"])
