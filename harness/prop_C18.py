"""C18 — MGDA, PCGrad, CAGrad, GradDrop and Random satisfy their published definitions."""
from __future__ import annotations

import itertools
from fractions import Fraction as Fr

import torch

from agg_common import ask_agg, fr_list, maxabs, maxdiff, run_agg, tensor_to_fr
from common import Ctx, sx
from matrices import exact_of, gram, m_adv, m_int, m_svd, to_tensor, ulp
from prop_C03 import TRUSTED, top_singular_sq

from torchjd.aggregation import CAGrad, GradDrop, MGDA, PCGrad, Random


def dotf(a, b):
    return sum(x * y for x, y in zip(a, b))


def combine(J, w):
    return [sum(w[i] * J[i][c] for i in range(len(J))) for c in range(len(J[0]))]


# ------------------------------------------------------------------------------------------ MGDA
def check_mgda(ctx: Ctx, J, dtype, force=None):
    rng = ctx.rng
    m = len(J)
    Jt = to_tensor(J, dtype)
    uu = Fr(ulp(dtype))
    G = gram(J)
    gs = max(maxabs([v for r in G for v in r]), Fr(1, 10 ** 30))
    rp0 = {"aggregator": "MGDA", "J": [[str(v) for v in r] for r in J], "dtype": str(dtype)}
    # (1) short horizon: trajectory equality with the model (pins the loop body)
    iters = rng.choice([1, 2, 3])
    eps = rng.choice([0.0, 1e-3, 0.25, 0.6])
    if force is not None:
        iters, eps = force
    A = MGDA(epsilon=eps, max_iters=iters)
    st, x = run_agg(A, Jt)
    ctx.case(("mgda", sx(J), iters, eps, str(dtype)), nontrivial=True,
             sample={"aggregator": f"MGDA({eps},{iters})", "J": [[str(v) for v in r] for r in J]})
    if st != "ok":
        ctx.violation(f"MGDA raised {x}", rp0)
        return
    w = tensor_to_fr(A.weighting(Jt))
    rep = ask_agg(ctx.driver, "mgda", J, eps=Fr(eps), iters=iters)
    wm, margin = fr_list(rep[1]), fr_list([rep[3]])[0]
    tau = 256 * uu * m * m
    if margin / max(gs, Fr(1)) > 100 * tau and margin > Fr(100) * tau:
        ctx.count("mgda_trajectory_compared")
        if maxdiff(w, wm) > tau * 8:
            ctx.violation(f"MGDA(epsilon={eps}, max_iters={iters}) weights {[float(v) for v in w]} differ from the "
                          f"Frank-Wolfe iterate of the definition {[float(v) for v in wm]}",
                          {**rp0, "epsilon": eps, "max_iters": iters})
            return
    else:
        ctx.count("mgda_trajectory_skipped_margin")
    # (2) long horizon invariants
    iters = rng.choice([5, 20, 100])
    A = MGDA(epsilon=rng.choice([0.0, 1e-3]), max_iters=iters)
    st, x = run_agg(A, Jt)
    if st != "ok":
        ctx.violation(f"MGDA raised {x}", rp0)
        return
    w = tensor_to_fr(A.weighting(Jt))
    xs = tensor_to_fr(x)
    if min(w) < -tau or abs(sum(w) - 1) > tau:
        ctx.violation(f"MGDA weights {[float(v) for v in w]} are not a convex combination", {**rp0, "max_iters": iters})
        return
    mean = combine(J, [Fr(1, m)] * m)
    nx, nm = dotf(xs, xs), dotf(mean, mean)
    if nx > nm * (1 + 64 * uu * m) + (256 * uu * m) ** 2 * gs:      # floor: the mean may vanish exactly
        ctx.violation(f"MGDA output is longer than the mean of the rows: |A(J)|²={float(nx):.6e} > |mean|²={float(nm):.6e}",
                      {**rp0, "max_iters": iters})
        return
    if m == 2:
        mu = fr_list([ask_agg(ctx.driver, "minnorm", J)[2]])[0]
        if nx - mu > 64 * uu * m * gs:
            ctx.violation(f"MGDA on two rows is not the minimum-norm point of the segment: |A(J)|²-min = {float(nx - mu):.3e}",
                          {**rp0, "max_iters": iters})


# ------------------------------------------------------------------------------------------ PCGrad
def check_pcgrad(ctx: Ctx, J, dtype):
    rng = ctx.rng
    m, n = len(J), len(J[0])
    if any(all(v == 0 for v in r) for r in J):
        return          # a zero row conflicts with nothing; 0/0 never evaluated, but skip degenerate candidates
    Jt = to_tensor(J, dtype)
    uu = Fr(ulp(dtype))
    orders = [list(p) for p in itertools.permutations(range(m))]
    # candidate sets per row: depend only on the relative order of the others
    cands = []
    min_margin = None
    for i in range(m):
        seen = {}
        for p in orders:
            key = tuple(j for j in p if j != i)
            if key in seen:
                continue
            perms = [list(range(m))] * m
            perms = [p if r == i else [r] for r in range(m)]     # rows != i do nothing ([r] -> skipped)
            rep = ask_agg(ctx.driver, "pcgrad", J, perms=perms)
            wv, mg = fr_list(rep[1]), fr_list([rep[3]])[0]
            # weights = e_i-part + sum of the others' one-hot; subtract the trivial one-hots
            cw = [wv[r] - (1 if r != i else 0) for r in range(m)]
            seen[key] = cw
            min_margin = mg if min_margin is None else min(min_margin, mg)
        cands.append(list(seen.values()))
    scale = max(maxabs([v for r in gram(J) for v in r]), Fr(1))
    ctx.case(("pcgrad", sx(J), str(dtype)), nontrivial=any(len({tuple(c) for c in cs}) > 1 for cs in cands),
             sample={"aggregator": "PCGrad", "J": [[str(v) for v in r] for r in J],
                     "distinct_candidates_per_row": [len({tuple(c) for c in cs}) for cs in cands]})
    ctx.count("pcgrad_order_dependent", any(len({tuple(c) for c in cs}) > 1 for cs in cands))
    if min_margin is not None and min_margin < 4096 * uu * scale * m:
        ctx.count("pcgrad_skipped_margin")
        return
    totals = set()
    for combo in itertools.product(*[list({tuple(c) for c in cs}) for cs in cands]):
        totals.add(tuple(sum(c[r] for c in combo) for r in range(m)))
    tol = 512 * uu * m * m * max(max(maxabs(t) for t in totals), Fr(1))
    for seed in range(6):
        torch.manual_seed(ctx.seed * 1000 + seed)
        A = PCGrad()
        st, x = run_agg(A, Jt)
        if st != "ok":
            ctx.violation(f"PCGrad raised {x}", {"aggregator": "PCGrad", "J": [[str(v) for v in r] for r in J]})
            return
        torch.manual_seed(ctx.seed * 1000 + seed)
        w = tensor_to_fr(A.weighting(Jt))
        ctx.count("pcgrad_draws")
        if not any(maxdiff(w, t) <= tol for t in totals):
            best = min(totals, key=lambda t: maxdiff(w, t))
            ctx.violation(
                f"PCGrad weights {[float(v) for v in w]} are not in the set of {len(totals)} results obtainable by "
                f"projecting each row successively off the rows it conflicts with AT THAT MOMENT, over all projection "
                f"orders (closest candidate {[float(v) for v in best]}, distance {float(maxdiff(w, best)):.3e})",
                {"aggregator": "PCGrad", "J": [[str(v) for v in r] for r in J], "dtype": str(dtype), "torch_seed": ctx.seed * 1000 + seed,
                 "weights": [str(float(v)) for v in w]})
            return
        xs = tensor_to_fr(run_agg(A, Jt)[1]) if False else None
    # no conflict -> plain sum
    G = gram(J)
    if all(G[a][b] >= 0 for a in range(m) for b in range(m)):
        ctx.count("pcgrad_no_conflict")
        if not any(maxdiff([Fr(1)] * m, t) == 0 for t in totals):
            ctx.violation("model: no conflicting rows but PCGrad candidate is not the plain sum", {}, no_input=True)


# ------------------------------------------------------------------------------------------ GradDrop
def check_graddrop(ctx: Ctx, J, dtype, nonuniform_leak=False):
    rng = ctx.rng
    m, n = len(J), len(J[0])
    Jt = to_tensor(J, dtype)
    uu = Fr(ulp(dtype))
    leak = rng.choice([None, [Fr(rng.randint(0, 8), 8) for _ in range(m)], [Fr(0)] * m, [Fr(1)] * m])
    if nonuniform_leak:
        leak = [Fr(k % 5, 4) for k in rng.sample(range(1, 20), m)]
    lk = leak if leak is not None else [Fr(0)] * m
    P = []
    for c in range(n):
        s, a = sum(J[i][c] for i in range(m)), sum(abs(J[i][c]) for i in range(m))
        P.append(None if a == 0 else (1 + s / a) / 2)
    cand = {}
    for name, U in (("pos", [Fr(-1)] * n), ("neg", [Fr(2)] * n), ("none", [p if p is not None else Fr(0) for p in P])):
        cand[name] = fr_list(ask_agg(ctx.driver, "graddrop", J, leak=lk, U=U)[1])
    ctx.case(("graddrop", sx(J), str(leak), str(dtype)), nontrivial=True,
             sample={"aggregator": "GradDrop", "J": [[str(v) for v in r] for r in J], "leak": str(leak)})
    ctx.count("graddrop_leak", "none" if leak is None else ("zeros" if all(v == 0 for v in leak) else ("ones" if all(v == 1 for v in leak) else "mixed")))
    A = GradDrop(leak=None if leak is None else torch.tensor([float(v) for v in leak], dtype=dtype))
    scale = max(maxabs([v for r in J for v in r]), Fr(1, 10 ** 30))
    tol = 64 * uu * m * scale
    for seed in range(8):
        torch.manual_seed(ctx.seed * 977 + seed)
        st, x = run_agg(A, Jt)
        if st != "ok":
            ctx.violation(f"GradDrop raised {x}", {"J": [[str(v) for v in r] for r in J], "leak": str(leak)})
            return
        xs = tensor_to_fr(x)
        for c in range(n):
            ok = [k for k in ("pos", "neg", "none") if abs(xs[c] - cand[k][c]) <= tol]
            if P[c] is not None and 0 < P[c] < 1:
                ok = [k for k in ok if k != "none" or cand["none"][c] in (cand["pos"][c], cand["neg"][c])] or \
                     [k for k in ("pos", "neg") if abs(xs[c] - cand[k][c]) <= tol]
            if not ok:
                ctx.violation(
                    f"GradDrop coordinate {c} = {float(xs[c])} is neither the sum of the positive entries plus the "
                    f"leaked share of the others ({float(cand['pos'][c])}) nor the negative counterpart "
                    f"({float(cand['neg'][c])})",
                    {"aggregator": "GradDrop", "J": [[str(v) for v in r] for r in J], "leak": str(leak),
                     "dtype": str(dtype), "torch_seed": ctx.seed * 977 + seed, "x": [str(float(v)) for v in xs]})
                return
        ctx.count("graddrop_draws")


def check_graddrop_empty(ctx: Ctx, dtype):
    """no objective, or no parameter: the signs of an empty column sum to nothing, the result is the zero vector of
    the right length (the model's `graddrop` on the same empty matrix)"""
    rng = ctx.rng
    m, n = rng.choice([(0, 3), (0, 1), (2, 0), (0, 0)])
    Jt = torch.zeros(m, n, dtype=dtype)
    torch.manual_seed(ctx.seed)
    st, x = run_agg(GradDrop(), Jt)
    ctx.case(("graddrop-empty", m, n, str(dtype)), nontrivial=True)
    ctx.count("graddrop_empty", f"{m}x{n}")
    if st != "ok" or tuple(x.shape) != (n,) or x.dtype != dtype or bool((x != 0).any()):
        ctx.violation(f"GradDrop on a {m}x{n} matrix returns {x.tolist() if st == 'ok' else x} instead of the zero vector with {n} entries",
                      {"aggregator": "GradDrop", "shape": [m, n], "dtype": str(dtype)})


# ------------------------------------------------------------------------------------------ CAGrad / Random
def check_cagrad(ctx: Ctx, J, dtype):
    rng = ctx.rng
    m = len(J)
    Jt = to_tensor(J, dtype)
    c = rng.choice([0.0, 0.0, 0.3, 0.5, 1.0, 2.0, 8.0, 40.0, 1e4])
    A = CAGrad(c=c)
    st, x = run_agg(A, Jt)
    rp = {"aggregator": "CAGrad", "c": c, "J": [[str(v) for v in r] for r in J], "dtype": str(dtype)}
    ctx.case(("cagrad", sx(J), c, str(dtype)), nontrivial=c > 0)
    ctx.count("cagrad_c", c)
    if st != "ok":
        ctx.count("cagrad_raised", x)
        return
    xs = tensor_to_fr(x)
    g0 = combine(J, [Fr(1, m)] * m)
    n0 = dotf(g0, g0)
    d = [a - b for a, b in zip(xs, g0)]
    nd = dotf(d, d)
    rel = Fr(1, 10 ** 5) if dtype == torch.float64 else Fr(1, 10 ** 2)
    if all(v == 0 for v in xs):
        ctx.count("cagrad_zero_output")
        # stationarity branch (|g_w| < norm_eps in units of s) — legitimate only AT stationarity: g_w is a convex combination of
        # the rows, so |g_w|² >= min-norm² of the hull; when that is >= (2 norm_eps s)² the zero vector is not an answer
        mu0 = fr_list([ask_agg(ctx.driver, "minnorm", J)[2]])[0]
        if mu0 >= 4 * Fr(1, 10 ** 8) * top_singular_sq(J) and (c > 0 or n0 > 0) and float(top_singular_sq(J)) >= 1e-6:
            ctx.violation(f"CAGrad(c={c}) returned the zero vector although the hull of the rows stays at distance "
                          f"{float(mu0) ** 0.5:.3e} >= 2 norm_eps s from the origin (not stationary): |A(J) - g0| must be c|g0|", rp)
        return
    # near stationarity (0 almost in the hull) |g_w| is computed from the square roots of the eigenvalues of a
    # float Gramian and carries an ABSOLUTE error ~ sqrt(u)·s: the identity is then ill-conditioned (margin rule)
    mu = fr_list([ask_agg(ctx.driver, "minnorm", J)[2]])[0]
    s2 = top_singular_sq(J)
    if mu < (Fr(1, 10 ** 3) if dtype == torch.float32 else Fr(1, 10 ** 9)) * s2:
        ctx.count("cagrad_skipped_near_stationary")
        return
    # |d - g0|² = c² |g0|²
    target = Fr(c) ** 2 * n0
    if abs(nd - target) > rel * max(target, n0):
        ctx.violation(f"CAGrad(c={c}): |A(J) - g0|² = {float(nd):.8e} but c²|g0|² = {float(target):.8e}", rp)


def check_random(ctx: Ctx, J, dtype):
    Jt = to_tensor(J, dtype)
    A = Random()
    for seed in range(3):
        torch.manual_seed(ctx.seed * 31 + seed)
        w = A.weighting(Jt)
        ctx.count("random_draws")
        if not bool((w > 0).all()) or abs(float(w.double().sum()) - 1) > 1e-5:
            ctx.violation(f"Random weights {w.tolist()} are not a strictly positive convex combination",
                          {"aggregator": "Random", "rows": len(J), "torch_seed": ctx.seed * 31 + seed})
            return
    ctx.case(("random", len(J), str(dtype)), nontrivial=True)


def top_of_range_definitions(ctx: Ctx):
    """finite single-precision matrices near the top of the range (40 columns of entries ~1e37, their total far above the largest
    finite number): Random still returns a convex combination of the rows and GradDrop (all entries of one sign: nothing to
    drop) the column sums — a finite matrix is a finite matrix, whatever its sum"""
    rng = ctx.rng
    m, n = 3, 40
    sgn = rng.choice([-1.0, 1.0])
    Jt = torch.tensor([[sgn * rng.uniform(0.5, 1.0) * 1e37 for _ in range(n)] for _ in range(m)], dtype=torch.float32)
    rp = {"family": "top of range", "shape": [m, n], "dtype": "torch.float32", "sign": sgn}
    ctx.case(("top-defs", sgn, float(Jt[0, 0])), nontrivial=True)
    ctx.count("top_of_range_definitions")
    torch.manual_seed(rng.randrange(10 ** 6))
    st, x = run_agg(Random(), Jt)
    lo, hi = Jt.min(dim=0).values, Jt.max(dim=0).values
    if st != "ok" or not bool(((x >= lo * (1 + 1e-5 * sgn)) & (x <= hi * (1 - 1e-5 * sgn))).all() if sgn > 0 else ((x >= lo * (1 + 1e-5)) & (x <= hi * (1 - 1e-5))).all()):
        ctx.violation(f"Random on a finite {m}x{n} float32 matrix with entries ~1e37: {'raised ' + str(x) if st != 'ok' else 'output outside the range of the rows'}", {**rp, "aggregator": "Random"})
        return
    st2, y = run_agg(GradDrop(), Jt)
    ref = Jt.double().sum(dim=0)
    if st2 != "ok" or float(((y.double() - ref).abs() / ref.abs()).max()) > 1e-5:
        ctx.violation(f"GradDrop on a finite {m}x{n} float32 matrix of one sign with entries ~1e37: {'raised ' + str(y) if st2 != 'ok' else 'not the column sums'}", {**rp, "aggregator": "GradDrop"})


def main(ctx: Ctx):
    ctx.lean_gate()
    rng = ctx.rng
    n = 120 if ctx.tier == "quick" else 20000
    for i in range(n):
        dtype = torch.float64 if i % 3 else torch.float32
        m = rng.choice([1, 2, 2, 3, 3, 4]) if ctx.tier == "quick" else rng.choice([1, 2, 3, 3, 4, 4])
        ncol = rng.choice([1, 2, 3, 4, 6])
        J = m_int(rng, m, ncol, kind=rng.choice(["plain", "plain", "dup", "lowrank"]))
        if all(v == 0 for r in J for v in r):
            continue
        check_mgda(ctx, J, dtype)
        if i % 12 == 5:
            top_of_range_definitions(ctx)
        if i % 6 == 3:
            # two conflicting rows, one 30..1000 times longer than the other: the minimum-norm point of the segment is
            # interior with a tiny weight on the long row (two-row exactness clause)
            K = rng.choice([30, 50, 200, 1000])
            Jr = [[Fr(1), Fr(0), Fr(0)], [Fr(-1), Fr(K), Fr(rng.randint(0, 3))]]
            rng.shuffle(Jr)
            ctx.count("mgda_two_rows_unbalanced")
            check_mgda(ctx, Jr, torch.float64)
        if i % 6 == 0:
            # nearly balanced orthogonal rows: the first Frank-Wolfe steps are tiny (gamma ~ 1e-4); with epsilon = 0 the
            # iteration must go on all the same, with epsilon = 1e-3 it must stop after the first update
            mm = rng.choice([3, 4])
            Jb = [[(Fr(1) + Fr(rng.randint(1, 9) * (r > 0), 8192)) if c == r else Fr(0) for c in range(mm)] for r in range(mm)]
            rng.shuffle(Jb)
            ctx.count("mgda_nearly_balanced")
            check_mgda(ctx, Jb, torch.float64, force=(3, rng.choice([0.0, 0.0, 1e-3])))
        if i % 3 == 1:
            # the definitions are scale-free: small (and large) gradients must satisfy them just the same
            k = rng.choice([-40, -17, -12, 20])
            ctx.count("mgda_scaled", f"2^{k}")
            check_mgda(ctx, [[v * Fr(2) ** k for v in r] for r in J], dtype)
        if i % 2 == 0 or m <= 3:
            check_pcgrad(ctx, J, torch.float64)
        if i % 8 == 1:
            # three (four) mutually STRONGLY conflicting rows (pairwise angles around 150 degrees): after two projections a row can
            # point against its own original — the definition still never projects a row off itself
            base = [[8, 0], [-7, 4], [-7, -4], [1, 9]][:rng.choice([3, 3, 4])]
            Js = [[Fr(v * k) for v in r] + [Fr(rng.randint(-1, 1))] for r in base for k in [rng.randint(1, 4)]]
            rng.shuffle(Js)
            ctx.count("pcgrad_strongly_conflicting")
            check_pcgrad(ctx, Js, torch.float64)
        check_graddrop(ctx, J, dtype)
        if i % 5 == 2 and m >= 2:
            Jz = [list(r) for r in J]
            Jz[rng.randrange(m - 1)] = [Fr(0)] * len(J[0])         # an objective whose gradient vanishes, not listed last
            ctx.count("graddrop_zero_row")
            check_graddrop(ctx, Jz, dtype, nonuniform_leak=True)
        if i % 10 == 0:
            check_graddrop_empty(ctx, dtype)
        check_random(ctx, J, dtype)
        if i % 3 == 0:
            Js, _, _, _ = m_svd(rng, m, max(ncol, 2))
            check_cagrad(ctx, exact_of(to_tensor(Js, dtype)), dtype)
        if i % 6 == 1:
            # full rank but ill-conditioned (condition number 1e2..1e3): rows that nearly cancel along one dominant direction
            mm = rng.choice([2, 3])
            K = rng.choice([100, 300, 1000])
            extra = mm - 1 + rng.choice([0, 1])
            Ji = [[Fr(rng.choice([-1, 1]) * (K + rng.randint(-9, 9)))] + [Fr(rng.randint(1, 6)) for _ in range(extra)]
                  for _ in range(mm)]
            if all(r[0] > 0 for r in Ji) or all(r[0] < 0 for r in Ji):
                Ji[0][0] = -Ji[0][0]
            ctx.count("cagrad_ill_conditioned")
            check_cagrad(ctx, Ji, torch.float64)
    ctx.cov["pcgrad_exhaustive_orders"] = "all (m-1)!^m projection-order combinations for m <= 4"
    return ctx.finish(
        rule="integer matrices (plain / duplicated / collinear rows), m<=4: MGDA short-horizon weights == model "
             "Frank-Wolfe iterate (max_iters 1..3, epsilon forcing early breaks; decision-margin rule) + long-horizon "
             "invariants (simplex, never longer than the mean, exact segment minimum for two rows); PCGrad: weights under "
             "6 torch seeds must lie in the candidate set enumerated by the model over ALL projection orders; GradDrop: "
             "every coordinate under 8 seeds must equal one of the model's sign candidates (leak vectors in [0,1]); "
             "Random: positive, sum one; CAGrad: |A(J)-g0| = c|g0| / zero at stationarity / mean for c=0",
        trusted=TRUSTED + ["torch.randperm / torch.rand / torch.randn draws are not replayed: results are checked against "
                           "candidate sets over all draws"])
