"""P-int programs: random autograd DAGs whose values and Jacobians are small integers, hence exact in
float32/float64.  The same node list is (a) realised with real torch ops and (b) sent to the Lean
model (affine nodes as explicit integer matrices, derived by probing the op on basis vectors)."""
from __future__ import annotations

import math
from dataclasses import dataclass, field as dfield
from fractions import Fraction

import torch

SHAPES = [(), (1,), (2,), (3,), (2, 2), (1, 3), (2, 1, 2), (1, 1), (2, 3), (4,), (3, 1), (1, 2, 1, 2)]


def numel(s):
    n = 1
    for d in s:
        n *= d
    return n


@dataclass
class Node:
    kind: str                      # leaf | aff | mul | detach
    shape: tuple
    rg: bool = True
    vals: list | None = None       # leaf values (ints)
    srcs: list = dfield(default_factory=list)    # aff: [(src_idx, M)]  M: list of rows (ints)
    const: list | None = None
    a: int = -1
    b: int = -1
    fn: object = None              # aff: callable(list of src tensors) -> tensor (or tuple for groups)
    group: tuple | None = None     # (first_node_idx, position) for multi-output ops
    has_saved: bool = False        # the torch op saves tensors for backward
    desc: str = ""
    param: bool = False            # leaf realised as a torch.nn.Parameter (what `module.parameters()` yields)
    flip: bool = False             # leaf realised in the OTHER floating dtype than the one the program is built in
    alias: int | None = None       # leaf realised as a NEW leaf tensor over the memory of an earlier leaf (`nn.Parameter(enc)`,
    #                                `enc.detach().requires_grad_()`): a different tensor with its own .grad and its own columns
    layout: tuple | None = None    # leaf memory layout: ("perm", dims) = strides of a permuted tensor, ("step", k) = every
    #                                k-th element of a larger buffer; None = contiguous.  Values / shape are logical.


BIG = 2 ** 25 + 1      # odd, 26 bits: k*BIG is not representable in single precision for most small k


def realise_leaf(nd: Node, dtype):
    if nd.flip:
        dtype = torch.float32 if dtype == torch.float64 else torch.float64
    t = torch.tensor(nd.vals, dtype=dtype).reshape(nd.shape).clone()
    if nd.layout is not None and t.numel() > 0:
        kind, arg = nd.layout
        if kind == "perm":
            inv = [0] * len(arg)
            for i, a in enumerate(arg):
                inv[a] = i
            t = t.permute(*arg).contiguous().permute(*inv)          # same logical tensor, permuted strides
        else:
            buf = torch.zeros(t.numel() * arg, dtype=dtype)
            buf[::arg] = t.reshape(-1)
            t = buf[::arg].reshape(nd.shape) if len(nd.shape) <= 1 else buf[::arg].view(nd.shape)
    assert tuple(t.shape) == tuple(nd.shape)
    return t


class Program:
    def __init__(self):
        self.nodes: list[Node] = []
        self.big = False           # contains a *BIG op: exact in double precision only
        self.casts = False         # contains a dtype cast (f32 <-> f64): results are exact in both (small integers)

    # ---------------------------------------------------------------- realisation in torch
    def build(self, dtype=torch.float64):
        ts = []
        cache = {}
        for i, nd in enumerate(self.nodes):
            if nd.kind == "leaf":
                t = ts[nd.alias].detach() if nd.alias is not None else realise_leaf(nd, dtype)
                if nd.param:
                    t = torch.nn.Parameter(t, requires_grad=nd.rg)
                else:
                    t.requires_grad_(nd.rg)
            elif nd.kind == "aff":
                if nd.group is not None:
                    first, pos = nd.group
                    if first not in cache:
                        cache[first] = self.nodes[first].fn([ts[s] for s, _ in self.nodes[first].srcs])
                    t = cache[first][pos]
                else:
                    t = nd.fn([ts[s] for s, _ in nd.srcs])
            elif nd.kind == "mul":
                t = ts[nd.a] * ts[nd.b].reshape(ts[nd.a].shape)
            else:
                t = ts[nd.a].detach()
            assert tuple(t.shape) == tuple(nd.shape), (i, nd.desc, t.shape, nd.shape)
            ts.append(t)
        return ts

    # ---------------------------------------------------------------- for the Lean model
    def to_sx(self):
        out = ["prog"]
        for nd in self.nodes:
            n, d = numel(nd.shape), len(nd.shape)
            if nd.kind == "leaf":
                out.append(["leaf", n, d, nd.rg, list(nd.vals)])
            elif nd.kind == "aff":
                out.append(["aff", n, d, [[s, M] for s, M in nd.srcs], list(nd.const)])
            elif nd.kind == "mul":
                out.append(["mul", nd.a, nd.b])
            else:
                out.append(["detach", nd.a])
        return out

    def describe(self):
        return [f"{i}:{nd.kind}{list(nd.shape)}{'' if nd.rg else '!rg'} {nd.desc}"
                + (f" layout={nd.layout}" if nd.layout else "") + (" other-dtype" if nd.flip else "") + (f" shares-memory-with-n{nd.alias}" if nd.alias is not None else "")
                + (" nn.Parameter" if nd.param else "")
                for i, nd in enumerate(self.nodes)]

    def requires_grad(self, i):
        nd = self.nodes[i]
        if nd.kind == "leaf":
            return nd.rg
        if nd.kind == "detach":
            return False
        if nd.kind == "mul":
            return self.requires_grad(nd.a) or self.requires_grad(nd.b)
        return any(self.requires_grad(s) for s, _ in nd.srcs)

    def leaves(self):
        return [i for i, nd in enumerate(self.nodes) if nd.kind == "leaf"]

    def parents(self, i):
        nd = self.nodes[i]
        if nd.kind == "aff":
            return [s for s, _ in nd.srcs]
        if nd.kind == "mul":
            return [nd.a, nd.b]
        return []          # leaf, detach: the autograd graph stops here

    def reach_leaves(self, roots, excluded=()):
        """leaves requiring grad reachable from `roots` in the autograd graph without passing through
        (or starting at) an excluded tensor — the tensor-level statement of C12"""
        seen, out, stack = set(), set(), [r for r in roots if r not in excluded]
        while stack:
            n = stack.pop()
            if n in seen:
                continue
            seen.add(n)
            nd = self.nodes[n]
            if nd.kind == "leaf":
                if nd.rg:
                    out.add(n)
                continue
            for p in self.parents(n):
                if p not in excluded and self.requires_grad(p):
                    stack.append(p)
        return out

    # ---------------------------------------------------------------- construction helpers
    def add_leaf(self, shape, vals, rg=True, layout=None):
        self.nodes.append(Node("leaf", tuple(shape), rg, list(vals), desc="leaf", layout=layout))
        # every fourth leaf or so is an nn.Parameter (decided from its content, so that no random stream is disturbed)
        self.nodes[-1].param = (sum(abs(v) for v in vals) + len(self.nodes)) % 4 == 0
        return len(self.nodes) - 1

    def add_mul(self, a, b):
        assert numel(self.nodes[a].shape) == numel(self.nodes[b].shape)
        self.nodes.append(Node("mul", self.nodes[a].shape, a=a, b=b, has_saved=True, desc=f"n{a}*n{b}"))
        return len(self.nodes) - 1

    def add_detach(self, a):
        self.nodes.append(Node("detach", self.nodes[a].shape, rg=False, a=a, desc=f"n{a}.detach()"))
        return len(self.nodes) - 1

    def _probe(self, fn, srcs):
        """matrices / constant of an affine op by evaluating it on zero and basis inputs (float64)"""
        shapes = [self.nodes[s].shape for s in srcs]
        zeros = [torch.zeros(sh, dtype=torch.float64) for sh in shapes]
        base = fn(zeros)
        multi = isinstance(base, (tuple, list))
        bases = list(base) if multi else [base]
        consts = [b.reshape(-1).clone() for b in bases]
        mats = [[torch.zeros(numel(b.shape), numel(sh), dtype=torch.float64) for sh in shapes] for b in bases]
        for si, sh in enumerate(shapes):
            for j in range(numel(sh)):
                ins = [z.clone() for z in zeros]
                ins[si].reshape(-1)[j] = 1.0
                r = fn(ins)
                rs = list(r) if multi else [r]
                for oi, ro in enumerate(rs):
                    mats[oi][si][:, j] = ro.reshape(-1) - consts[oi]
        return multi, bases, consts, mats

    def add_aff(self, fn, srcs, desc, has_saved=False):
        """single- or multi-output affine op; returns the list of new node indices"""
        multi, bases, consts, mats = self._probe(fn, srcs)
        first = len(self.nodes)
        out = []
        for oi, b in enumerate(bases):
            def toint(t):
                r = t.round()
                assert torch.equal(r, t), "non-integer affine op"
                return [int(x) for x in r.tolist()]
            srcl = [(s, [toint(row) for row in mats[oi][si]]) for si, s in enumerate(srcs)]
            nd = Node("aff", tuple(b.shape), srcs=srcl, const=toint(consts[oi]), fn=fn if oi == 0 else None,
                      group=(first, oi) if multi else None, has_saved=has_saved,
                      desc=desc + (f"[{oi}]" if multi else ""))
            nd.rg = True
            self.nodes.append(nd)
            out.append(len(self.nodes) - 1)
        return out


# --------------------------------------------------------------------------------- random ops
def _factorizations(n):
    res = [(n,)]
    for a in range(1, n + 1):
        if n % a == 0:
            res.append((a, n // a))
            for b in range(1, n // a + 1):
                if (n // a) % b == 0:
                    res.append((a, b, n // a // b))
    return res


def random_layout(rng, shape, p=0.25):
    """a non-contiguous memory layout for a leaf of this shape (None most of the time)"""
    if numel(shape) < 2 or rng.random() >= p:
        return None
    big_dims = [d for d in shape if d > 1]
    if len(shape) >= 2 and len(big_dims) >= 2 and rng.random() < 0.7:
        for _ in range(10):
            perm = list(range(len(shape)))
            rng.shuffle(perm)
            if perm != sorted(perm):
                return ("perm", tuple(perm))
    return ("step", rng.choice([2, 3]))


def other_dtype(t):
    return torch.float32 if t.dtype == torch.float64 else torch.float64


def random_unary(rng, P: Program, s: int):
    """append a random single-source affine op on node s; returns new node indices"""
    sh = P.nodes[s].shape
    n, d = numel(sh), len(sh)
    choices = ["reshape", "sum", "scale", "neg", "addc", "matvec", "perm", "stack2", "expand", "idx"]
    if d >= 1:
        choices += ["sumdim", "flip", "cumsum", "slice", "unsq"]
    if d >= 2:
        choices += ["permute", "sumkeep"]
    if n >= 2 and d >= 1:
        choices += ["split", "unbind"]
    if not P.big and rng.random() < 0.06:
        P.casts = True            # mixed precision: the result lives in the other floating dtype than its source
        return P.add_aff(lambda x: x[0].to(other_dtype(x[0])), [s], f"n{s}.to(other float dtype)")
    op = rng.choice(choices)
    if op == "reshape":
        tgt = rng.choice(_factorizations(n))
        return P.add_aff(lambda x, tgt=tgt: x[0].reshape(tgt), [s], f"n{s}.reshape{tgt}")
    if op == "sum":
        return P.add_aff(lambda x: x[0].sum(), [s], f"n{s}.sum()")
    if op == "sumdim":
        dim = rng.randrange(d)
        return P.add_aff(lambda x, dim=dim: x[0].sum(dim), [s], f"n{s}.sum({dim})")
    if op == "sumkeep":
        dim = rng.randrange(d)
        return P.add_aff(lambda x, dim=dim: x[0].sum(dim, keepdim=True), [s], f"n{s}.sum({dim},keepdim)")
    if op == "scale":
        c = rng.choice([-3, -2, 2, 3])
        return P.add_aff(lambda x, c=c: x[0] * c, [s], f"n{s}*{c}", has_saved=False)
    if op == "neg":
        return P.add_aff(lambda x: -x[0], [s], f"-n{s}")
    if op == "addc":
        c = rng.choice([-2, -1, 1, 5])
        return P.add_aff(lambda x, c=c: x[0] + c, [s], f"n{s}+{c}")
    if op == "matvec":
        r = rng.choice([1, 2, 3, 4])
        W = [[rng.choice([-2, -1, 0, 1, 2]) for _ in range(n)] for _ in range(r)]
        return P.add_aff(lambda x, W=W: torch.tensor(W, dtype=x[0].dtype) @ x[0].reshape(-1), [s],
                         f"W{r}x{n}@n{s}.flatten()", has_saved=True)
    if op == "perm":
        idx = [rng.randrange(n) for _ in range(rng.choice([n, max(1, n - 1), n + 1]))]
        return P.add_aff(lambda x, idx=idx: x[0].reshape(-1)[idx], [s], f"n{s}.flatten()[{idx}]")
    if op == "stack2":
        return P.add_aff(lambda x: torch.stack([x[0], 2 * x[0]]), [s], f"stack([n{s},2*n{s}])")
    if op == "expand":
        k = rng.choice([2, 3])
        return P.add_aff(lambda x, k=k: x[0].unsqueeze(0).expand(k, *x[0].shape), [s], f"n{s}.expand({k},...)")
    if op == "idx":
        return P.add_aff(lambda x: x[0].reshape(-1)[0], [s], f"n{s}.flatten()[0]")
    if op == "flip":
        dim = rng.randrange(d)
        return P.add_aff(lambda x, dim=dim: x[0].flip(dim), [s], f"n{s}.flip({dim})")
    if op == "cumsum":
        dim = rng.randrange(d)
        return P.add_aff(lambda x, dim=dim: x[0].cumsum(dim), [s], f"n{s}.cumsum({dim})")
    if op == "slice":
        dim = rng.randrange(d)
        if sh[dim] >= 2:
            return P.add_aff(lambda x, dim=dim: x[0].narrow(dim, 1, x[0].shape[dim] - 1), [s], f"n{s}.narrow({dim},1,..)")
        return P.add_aff(lambda x, dim=dim: x[0].narrow(dim, 0, 1), [s], f"n{s}.narrow({dim},0,1)")
    if op == "unsq":
        dim = rng.randrange(d + 1)
        return P.add_aff(lambda x, dim=dim: x[0].unsqueeze(dim), [s], f"n{s}.unsqueeze({dim})")
    if op == "permute":
        perm = list(range(d))
        rng.shuffle(perm)
        return P.add_aff(lambda x, perm=perm: x[0].permute(perm), [s], f"n{s}.permute({perm})")
    if op == "split":
        k = rng.randrange(1, n)
        return P.add_aff(lambda x, k=k: x[0].reshape(-1).split(k), [s], f"n{s}.flatten().split({k})")
    if op == "unbind":
        dim = rng.randrange(d)
        return P.add_aff(lambda x, dim=dim: x[0].unbind(dim), [s], f"n{s}.unbind({dim})")
    raise AssertionError(op)


def random_binary(rng, P: Program, a: int, b: int):
    sa, sb = P.nodes[a].shape, P.nodes[b].shape
    na, nb = numel(sa), numel(sb)
    choices = ["cat", "affmix"]
    if na == nb:
        choices += ["add", "sub2", "mul", "mul"]
    if nb == 1 and na >= 1:
        choices += ["bcast_add", "bcast_mul"]
    op = rng.choice(choices)
    if op == "cat":
        return P.add_aff(lambda x: torch.cat([x[0].reshape(-1), x[1].reshape(-1)]), [a, b], f"cat(n{a},n{b})")
    if op == "affmix":
        r = rng.choice([1, 2, 3])
        W1 = [[rng.choice([-1, 0, 1, 2]) for _ in range(na)] for _ in range(r)]
        W2 = [[rng.choice([-2, 0, 1]) for _ in range(nb)] for _ in range(r)]
        return P.add_aff(lambda x, W1=W1, W2=W2: torch.tensor(W1, dtype=x[0].dtype) @ x[0].reshape(-1)
                         + torch.tensor(W2, dtype=x[1].dtype) @ x[1].reshape(-1), [a, b],
                         f"W1@n{a}+W2@n{b}", has_saved=True)
    if op == "add":
        return P.add_aff(lambda x: x[0] + x[1].reshape(x[0].shape), [a, b], f"n{a}+n{b}")
    if op == "sub2":
        return P.add_aff(lambda x: x[0] - 2 * x[1].reshape(x[0].shape), [a, b], f"n{a}-2*n{b}")
    if op == "bcast_add":
        return P.add_aff(lambda x: x[0] + x[1].reshape(()), [a, b], f"n{a}+n{b}(bcast)")
    if op == "bcast_mul":
        e = P.add_aff(lambda x, sa=sa: x[0].reshape(()).expand(sa) if len(sa) else x[0].reshape(()), [b],
                      f"n{b}.expand({list(sa)})")[0]
        return [P.add_mul(a, e)]
    if op == "mul":
        return [P.add_mul(a, b)]
    raise AssertionError(op)


def random_program(rng, n_leaves=None, n_ops=None, p_norg=0.15, max_numel=8, max_abs=200):
    """random DAG with reuse; values bounded by `max_abs` (regenerated otherwise)"""
    for _ in range(200):
        P = Program()
        nl = n_leaves or rng.choice([1, 2, 2, 3, 3, 4])
        for li in range(nl):
            sh = rng.choice(SHAPES)
            vals = [rng.choice([-3, -2, -1, 1, 2, 3, 0]) for _ in range(numel(sh))]
            if li > 0 and rng.random() < 0.08:
                # two DIFFERENT leaf tensors over one memory (a tied weight re-wrapped in a new Parameter): same values, same
                # layout — and each of them has its own Jacobian columns and its own .grad
                src = rng.randrange(li)
                sn = P.nodes[src]
                P.add_leaf(sn.shape, list(sn.vals), rg=rng.random() >= p_norg, layout=sn.layout)
                P.nodes[-1].alias = src
                continue
            P.add_leaf(sh, vals, rg=rng.random() >= p_norg, layout=random_layout(rng, sh))
        if nl >= 2 and rng.random() < 0.12:
            # parameters of different precisions in one model (a float32 network with a float64 parameter, or the reverse)
            P.nodes[rng.randrange(nl)].flip = True
            P.casts = True
            for nd in P.nodes[:nl]:
                if nd.alias is not None:
                    nd.flip = P.nodes[nd.alias].flip
            for nd in P.nodes[:nl]:
                if nd.alias is None and any(o.alias is not None and P.nodes[o.alias] is nd for o in P.nodes[:nl]):
                    for o in P.nodes[:nl]:
                        if o.alias is not None and P.nodes[o.alias] is nd:
                            o.flip = nd.flip
        if not any(P.nodes[i].rg for i in P.leaves()):
            P.nodes[0].rg = True
        k = n_ops or rng.choice([1, 2, 3, 4, 5, 6, 8])
        for _ in range(k):
            cand = list(range(len(P.nodes)))
            # prefer recent nodes and nodes requiring grad
            w = [(2 if P.requires_grad(i) else 1) * (1 + i) for i in cand]
            s = rng.choices(cand, w)[0]
            if numel(P.nodes[s].shape) > max_numel:
                P.add_aff(lambda x: x[0].sum(), [s], f"n{s}.sum()")
                continue
            r = rng.random()
            if r < 0.55:
                random_unary(rng, P, s)
            elif r < 0.93:
                t = rng.choices(cand, w)[0]
                random_binary(rng, P, s, t)
            else:
                P.add_detach(s)
        ts = P.build(torch.float64)
        if all(float(t.detach().abs().max()) <= max_abs for t in ts if t.numel() > 0) and \
                all(numel(nd.shape) <= 3 * max_numel for nd in P.nodes) and \
                any(P.requires_grad(i) and P.nodes[i].kind != "leaf" for i in range(len(P.nodes))):
            if not P.casts and rng.random() < 0.12:
                # one large odd factor: Jacobian entries k*(2^25+1) are exact in double precision but not in single, so a
                # silent round trip through float32 anywhere in the pipeline becomes visible
                s = rng.choice(differentiable_nonleaves(P))
                P.add_aff(lambda x: x[0] * BIG, [s], f"n{s}*(2^25+1)")
                P.big = True
            return P
    raise RuntimeError("could not generate a bounded program")


def differentiable_nonleaves(P: Program):
    return [i for i, nd in enumerate(P.nodes) if nd.kind in ("aff", "mul") and P.requires_grad(i)]


# --------------------------------------------------------------------------------- trunk / heads
def grow(rng, P: Program, pool: list, k: int, max_numel=8):
    """k random ops whose sources are drawn from `pool`; new nodes join the pool"""
    for _ in range(k):
        w = [(3 if P.requires_grad(i) else 1) for i in pool]
        s = rng.choices(pool, w)[0]
        if numel(P.nodes[s].shape) > max_numel:
            pool.extend(P.add_aff(lambda x: x[0].sum(), [s], f"n{s}.sum()"))
            continue
        if rng.random() < 0.55 or len(pool) < 2:
            pool.extend(random_unary(rng, P, s))
        else:
            t = rng.choices(pool, w)[0]
            pool.extend(random_binary(rng, P, s, t))
    return pool


def to_scalar(rng, P: Program, nodes: list):
    """a 0-d node depending on all `nodes`"""
    parts = []
    for n in nodes:
        if len(P.nodes[n].shape) == 0:
            parts.append(n)
        else:
            c = rng.choice([1, 1, 2, -1])
            parts.append(P.add_aff(lambda x, c=c: (x[0] * c).sum(), [n], f"({c}*n{n}).sum()")[0])
    cur = parts[0]
    for p in parts[1:]:
        if rng.random() < 0.3:
            cur = P.add_mul(cur, p)
        else:
            cur = P.add_aff(lambda x: x[0] + x[1], [cur, p], f"n{cur}+n{p}")[0]
    return cur


class MTL:
    """a trunk/heads program: shared leaves -> features -> per-task heads -> scalar losses"""

    def __init__(self):
        self.P = Program()
        self.shared_leaves: list = []
        self.features: list = []
        self.task_leaves: list = []     # per task, leaves (requiring grad) its loss uses around the features
        self.losses: list = []
        self.masked_tasks: list = []    # tasks whose loss has an exactly zero gradient w.r.t. the features

    def unused_features(self):
        """features no loss depends on (mtl_backward still differentiates them, with zero cotangents)"""
        P = self.P
        used = set()
        for l in self.losses:
            stack = [l]
            while stack:
                n = stack.pop()
                if n in used:
                    continue
                used.add(n)
                stack.extend(P.parents(n))
        return [f for f in self.features if f not in used]

    def multi_output_features(self):
        """a feature that is one output of a multi-output op (split/unbind): torch's engine decides which nodes to
        execute per NODE, not per output, so gradients w.r.t. such a feature may execute (and, with
        retain_graph=False, release) trunk nodes that lead to a sibling output — outside C13's hypothesis"""
        return any(self.P.nodes[f].group is not None for f in self.features)

    def nested_features(self):
        """some feature is computed from another feature: then a task's backward pass traverses trunk
        nodes, and retain_graph=False makes the later sweeps fail (outside C13's hypothesis)"""
        P = self.P
        for f in self.features:
            seen, stack = set(), list(P.parents(f))
            while stack:
                n = stack.pop()
                if n in seen:
                    continue
                seen.add(n)
                if n in self.features:
                    return True
                stack.extend(P.parents(n))
        return False


def random_mtl(rng, heads_disjoint=True, max_abs=300):
    for _ in range(300):
        M = MTL()
        P = M.P
        for _ in range(rng.choice([1, 2, 2, 3])):
            sh = rng.choice(SHAPES)
            M.shared_leaves.append(P.add_leaf(sh, [rng.choice([-2, -1, 1, 2, 3]) for _ in range(numel(sh))],
                                              rg=rng.random() >= 0.1, layout=random_layout(rng, sh)))
        if not any(P.nodes[i].rg for i in M.shared_leaves):
            P.nodes[M.shared_leaves[0]].rg = True
        if len(M.shared_leaves) >= 2 and rng.random() < 0.1:
            P.nodes[rng.choice(M.shared_leaves)].flip = True        # shared parameters of two precisions
            P.casts = True
        pool = list(M.shared_leaves)
        grow(rng, P, pool, rng.choice([1, 2, 3, 4]))
        trunk = [i for i in pool if P.nodes[i].kind != "leaf" and P.requires_grad(i)]
        if not trunk:
            continue
        nf = min(len(trunk), rng.choice([1, 1, 2, 3]))
        M.features = rng.sample(trunk, nf)
        T = rng.choice([1, 2, 2, 3, 4])
        prev_leaves: list = []
        ok = True
        for t in range(T):
            own = []
            for _ in range(rng.choice([0, 1, 1, 2])):
                sh = rng.choice(SHAPES[:8])
                own.append(P.add_leaf(sh, [rng.choice([-2, -1, 1, 2]) for _ in range(numel(sh))],
                                      rg=rng.random() >= 0.1, layout=random_layout(rng, sh)))
                if rng.random() < 0.04:
                    P.nodes[own[-1]].flip = True                    # a head parameter in the other precision
                    P.casts = True
            if prev_leaves and rng.random() < 0.3:
                own.append(rng.choice(prev_leaves))           # a parameter shared by two tasks
            used_feats = [f for f in M.features if rng.random() < 0.7] or [rng.choice(M.features)]
            if rng.random() < 0.12:
                # a masked task: its loss is connected to the features through a zero factor, so its gradient with
                # respect to them is exactly zero (the sweep still has to be made)
                used_feats = [P.add_aff(lambda x: x[0] * 0, [f], f"n{f}*0")[0] for f in used_feats]
                M.masked_tasks.append(t)
            if own and any(P.nodes[l].rg for l in own) and rng.random() < 0.08:
                # a task whose loss does not pass through the features at all: a pure regulariser on its own parameters, or a
                # head reading `features.detach()` (stop-gradient) — legal: its row of the trunk Jacobian is zero
                used_feats = [P.add_detach(f) for f in used_feats] if rng.random() < 0.5 else []
                M.feature_free_tasks = getattr(M, "feature_free_tasks", []) + [t]
            hp = list(used_feats) + own
            if not heads_disjoint and rng.random() < 0.3 and M.shared_leaves:
                inner = [i for i in trunk if i not in M.features]
                if inner and rng.random() < 0.5:
                    hp.append(rng.choice(inner))             # a skip connection from an intermediate trunk activation
                else:
                    hp.append(rng.choice(M.shared_leaves))   # reaches a shared leaf around the features
            start = len(P.nodes)
            grow(rng, P, hp, rng.choice([0, 1, 2, 3]))
            new_nodes = list(range(start, len(P.nodes)))
            # the loss must depend on every used feature and own leaf: combine sinks
            consumed = set()
            for n in new_nodes:
                consumed.update(P.parents(n))
            sinks = [n for n in dict.fromkeys(hp) if n not in consumed]
            loss = to_scalar(rng, P, sinks)
            if P.nodes[loss].kind == "leaf":
                loss = P.add_aff(lambda x: x[0] * 2, [loss], f"2*n{loss}")[0]       # (a loss is a computed tensor, not a parameter)
            if not P.requires_grad(loss):
                ok = False
                break
            M.losses.append(loss)
            M.task_leaves.append(sorted(P.reach_leaves([loss], excluded=set(M.features))))
            prev_leaves.extend(l for l in own if P.nodes[l].rg)
        if not ok:
            continue
        ts = P.build(torch.float64)
        if all(float(t.detach().abs().max()) <= max_abs for t in ts if t.numel() > 0):
            if not P.casts and rng.random() < 0.15:
                t = rng.randrange(T)
                M.losses[t] = P.add_aff(lambda x: x[0] * BIG, [M.losses[t]], f"n{M.losses[t]}*(2^25+1)")[0]
                P.big = True
            return M
    raise RuntimeError("could not generate a bounded mtl program")


def sibling_mtl(rng):
    """a feature that is ONE output of a multi-output op (split / unbind) whose sibling output is also used
    by a head: the sibling path reaches the shared leaves around the feature tensor"""
    M = MTL()
    P = M.P
    n = rng.choice([2, 3, 4])
    x = P.add_leaf((n,), [rng.choice([-2, -1, 1, 2, 3]) for _ in range(n)])
    M.shared_leaves = [x]
    h = P.add_aff(lambda t: t[0] * 2, [x], "n0*2")[0]
    k = rng.randrange(1, n)
    outs = P.add_aff(lambda t, k=k: t[0].split(k), [h], f"n{h}.split({k})")
    M.features = [outs[0]]
    sib = outs[1]
    T = rng.choice([1, 2, 3])
    for t in range(T):
        own = [P.add_leaf((), [rng.choice([-2, 1, 2])])] if rng.random() < 0.7 else []
        hp = [outs[0]] + own
        if t == T - 1 or rng.random() < 0.5:
            hp.append(sib)
        M.losses.append(to_scalar(rng, P, hp))
        M.task_leaves.append(sorted(P.reach_leaves([M.losses[-1]], excluded=set(M.features))))
    return M
