"""C14 — transform pipelines are key-typed.  Correspondence: real torchjd transforms vs the Lean
typing model (TjdModel/Autojac/Typing.lean) on enumerated / sampled terms over a 3-key universe."""
from __future__ import annotations

import itertools

import torch

from common import Ctx, TRUSTED_COMMON, classify_exc, field, sx

from torchjd.autojac._transform import (Accumulate, Composition, Conjunction, Diagonalize,
                                        EmptyTensorDict, Gradients, GradientVectors, Init,
                                        JacobianMatrices, Jacobians, Select, Stack, TensorDict)

TYPES = {"TensorDict": TensorDict, "Gradients": Gradients, "Jacobians": Jacobians,
         "GradientVectors": GradientVectors, "JacobianMatrices": JacobianMatrices,
         "EmptyTensorDict": EmptyTensorDict}
UNIVERSES = [((), (2,), (2,)), ((3,), (1, 2), ()), ((2, 1), (2,), (1,))]


def numel(s):
    n = 1
    for d in s:
        n *= d
    return n


def term_sx(t):
    k = t[0]
    if k in ("init", "diag", "acc"):
        return [k, *t[1]]
    if k == "select":
        return [k, list(t[1]), list(t[2])]
    if k in ("stack", "conj"):
        return [k, *[term_sx(x) for x in t[1]]]
    return ["comp", term_sx(t[1]), term_sx(t[2])]


class MemberMutated(Exception):
    """constructing (or failing to construct) a compound transform changed one of its members"""


import random as _random
_FORM = _random.Random(0)      # which public spelling builds a compound term (re-seeded per check run in main)


def _sig_of(tr):
    return (frozenset(map(id, tr.required_keys)), frozenset(map(id, tr.output_keys)))


def _compound(make, members, what):
    """build a compound transform from already built members; whatever happens, the members must be left as they were"""
    before = [_sig_of(m) for m in members]
    try:
        return make()
    finally:
        for m, b in zip(members, before):
            if _sig_of(m) != b:
                raise MemberMutated(f"{what}: the required/output keys of a member {type(m).__name__} changed while the "
                                    f"compound transform was being constructed")


def build_real(t, keys):
    k = t[0]
    if k == "init":
        return Init([keys[i] for i in t[1]])
    if k == "select":
        return Select([keys[i] for i in t[1]], [keys[i] for i in t[2]])
    if k == "diag":
        return Diagonalize([keys[i] for i in t[1]])
    if k == "acc":
        return Accumulate([keys[i] for i in t[1]])
    if k in ("stack", "conj"):
        # structurally equal members: half of the time the SAME object is listed twice (`s | s`, `Conjunction([s, t, s])`) —
        # the rules are about keys, not about object identity
        ms, memo = [], {}
        for x in t[1]:
            if repr(x) in memo and _FORM.random() < 0.5:
                ms.append(memo[repr(x)])
            else:
                ms.append(build_real(x, keys))
                memo[repr(x)] = ms[-1]
    if k == "stack":
        return _compound(lambda: Stack(ms), ms, "Stack")
    if k == "conj":
        if len(ms) == 2 and _FORM.random() < 0.4:
            return _compound(lambda: ms[0] | ms[1], ms, "a | b")          # the operator spelling of a conjunction
        return _compound(lambda: Conjunction(ms), ms, "Conjunction")
    outer, inner = build_real(t[1], keys), build_real(t[2], keys)
    form = _FORM.choice(["ctor", "lshift", "compose"])                     # the three public spellings of a composition
    if form == "lshift":
        return _compound(lambda: outer << inner, [outer, inner], "outer << inner")
    if form == "compose":
        return _compound(lambda: outer.compose(inner), [outer, inner], "outer.compose(inner)")
    return _compound(lambda: Composition(outer, inner), [outer, inner], "Composition")


def value_shape(ty, kshape, m, odd):
    if ty == "Gradients":
        return tuple(kshape)
    if ty == "Jacobians":
        return (m,) + tuple(kshape)
    if ty == "GradientVectors":
        return (numel(kshape),)
    if ty == "JacobianMatrices":
        return (m, numel(kshape))
    return tuple(odd)


def atoms(full: bool):
    K = [0, 1, 2]
    subsets = [c for r in range(4) for c in itertools.combinations(K, r)]
    out = []
    for s in subsets:
        out.append(("init", s))
        out.append(("acc", s))
    diag_lists = [()] + [p for r in (1, 2, 3) for c in itertools.combinations(K, r)
                         for p in itertools.permutations(c)]
    diag_lists += [(0, 0), (1, 2, 1)]
    for d in diag_lists:
        out.append(("diag", d))
    for s in subsets:
        for r in subsets:
            if full or set(s) <= set(r) or (len(s) == 1 and len(r) <= 1):
                out.append(("select", s, r))
    return out


def observe(t, shapes, inp):
    """run the real code: returns (build, apply) observations"""
    keys = [torch.zeros(s, requires_grad=True) for s in shapes]
    idx = {id(k): i for i, k in enumerate(keys)}
    try:
        tr = build_real(t, keys)
        b = ("ok", sorted(idx[id(k)] for k in tr.required_keys),
             sorted(idx[id(k)] for k in tr.output_keys))
    except MemberMutated as e:
        return ("member-mutated", str(e)), None
    except Exception as e:  # noqa: BLE001
        return ("err", classify_exc(e)), None
    if inp is None:
        return b, None
    ty, entries = inp
    try:
        d = TYPES[ty]({keys[k]: torch.ones(s) for k, s in entries})
    except Exception as e:  # noqa: BLE001
        return b, ("input-rejected", classify_exc(e))
    try:
        r = tr(d)
        a = ("ok", type(r).__name__, sorted((idx[id(k)], tuple(v.shape)) for k, v in r.items()))
    except Exception as e:  # noqa: BLE001
        return b, ("err", classify_exc(e))
    # the dictionary a transform RETURNS is a dictionary of the family too: it rejects every mutator
    kk = next(iter(r), keys[0])
    accepted = []
    for name, op in (("__setitem__", lambda x: x.__setitem__(kk, torch.zeros(1))), ("update", lambda x: x.update({})),
                     ("setdefault", lambda x: x.setdefault(kk, torch.zeros(1))), ("__delitem__", lambda x: x.__delitem__(kk)),
                     ("pop", lambda x: x.pop(kk)), ("popitem", lambda x: x.popitem()), ("clear", lambda x: x.clear())):
        try:
            op(r)
            accepted.append(name)
        except Exception:  # noqa: BLE001
            pass
    if accepted:
        a = ("result-accepts-mutation", type(r).__name__, accepted)
    return b, a


def model(ctx, t, shapes, inp):
    req = ["typing", ["shapes", *[list(s) for s in shapes]], ["term", term_sx(t)]]
    if inp is not None:
        ty, entries = inp
        req.append(["input", ty, [[k, list(s)] for k, s in entries]])
    rep = ctx.driver.ask(req)
    b = field(rep, "build")[0]
    a = field(rep, "apply")[0]
    if b[0] == "ok":
        mb = ("ok", [int(x) for x in b[1]], [int(x) for x in b[2]])
    else:
        mb = ("err", b[1])
    if a == "skipped":
        ma = None
    elif a[0] == "ok":
        ma = ("ok", a[1], sorted((int(k), tuple(int(x) for x in s)) for k, s in a[2]))
    else:
        ma = ("err", a[1])
    return mb, ma


def static_type(t, in_ty):
    """most specific dictionary type common to the parts (independent Python statement of the
    property, used as predicate on the implementation's result)"""
    k = t[0]
    if k == "init":
        return "Gradients"
    if k == "select":
        return in_ty
    if k in ("diag", "stack"):
        return "Jacobians"
    if k == "acc":
        return "EmptyTensorDict"
    if k == "comp":
        return static_type(t[1], static_type(t[2], in_ty))
    tys = [static_type(x, in_ty) for x in t[1]]
    cur = "EmptyTensorDict"
    for ty in tys:
        if cur == "EmptyTensorDict":
            cur = ty
        elif ty == "EmptyTensorDict" or ty == cur:
            pass
        else:
            cur = "TensorDict"
    return cur


def inputs_for(ctx, req_keys, shapes, rich: bool):
    """candidate input dictionaries for a transform requiring `req_keys`"""
    outs = []
    if not req_keys:
        outs.append(("EmptyTensorDict", []))
        if rich:
            outs.append(("Gradients", []))
            outs.append(("Jacobians", []))
            # wrong keys
            outs.append(("Gradients", [(0, tuple(shapes[0]))]))
        return outs
    tys = ["Gradients", "Jacobians"] + (["GradientVectors", "JacobianMatrices", "TensorDict"]
                                          if rich else [])
    for ty in tys:
        m = ctx.rng.choice([1, 2, 3])
        odd = ctx.rng.choice([(2,), (1, 1), (3, 2), ()])
        outs.append((ty, [(k, value_shape(ty, shapes[k], m, odd)) for k in req_keys]))
    # wrong key sets: one missing, one extra
    if rich or ctx.rng.random() < 0.3:
        miss = req_keys[:-1]
        outs.append(("Gradients", [(k, tuple(shapes[k])) for k in miss]))
        extra = [k for k in (0, 1, 2) if k not in req_keys]
        if extra:
            ks = list(req_keys) + [extra[0]]
            outs.append(("Gradients", [(k, tuple(shapes[k])) for k in ks]))
    return outs


def compare(ctx: Ctx, t, shapes, rich=False):
    """one term: build comparison + apply comparisons + property predicates"""
    b_real, _ = observe(t, shapes, None)
    b_mod, _ = model(ctx, t, shapes, None)
    ctx.count("build", b_real[0])
    ctx.count("term_kind", t[0])
    sample = {"term": sx(term_sx(t)), "shapes": [list(s) for s in shapes], "build": list(b_real)}
    ctx.case(("b", t, shapes), nontrivial=True, sample=sample)
    if b_real[0] == "member-mutated":
        ctx.violation(f"{b_real[1]} (term {sx(term_sx(t))}): constructing a transform must not alter its parts",
                      {"kind": "build", "term": sx(term_sx(t)), "shapes": [list(s) for s in shapes]})
        return
    if b_real[0] != b_mod[0] or (b_real[0] == "ok" and b_real != b_mod):
        ctx.violation(
            f"constructor behaviour differs from the typing model on {sx(term_sx(t))}: "
            f"implementation {b_real}, model {b_mod}",
            {"kind": "build", "term": sx(term_sx(t)), "shapes": [list(s) for s in shapes],
             "implementation": b_real, "model": b_mod})
        return
    if b_real[0] == "err":
        if b_real[1] != b_mod[1]:
            ctx.count("diag_build_errkind_differs")
        return
    req = b_real[1]
    for inp in inputs_for(ctx, req, shapes, rich):
        _, a_real = observe(t, shapes, inp)
        _, a_mod = model(ctx, t, shapes, inp)
        if a_real[0] == "input-rejected":
            ctx.count("input_rejected")
            continue
        in_keys = sorted(k for k, _ in inp[1])
        ctx.case(("a", t, shapes, inp), nontrivial=True)
        ctx.count("apply", a_real[0] + (":" + a_real[1] if a_real[0] == "err" else ""))
        rp = {"kind": "apply", "term": sx(term_sx(t)), "shapes": [list(s) for s in shapes],
              "input": [inp[0], [[k, list(s)] for k, s in inp[1]]],
              "implementation": a_real, "model": a_mod}
        # property predicates on the implementation alone
        if in_keys != req:
            ctx.count("apply_wrong_keys")
            if a_real != ("err", "ValueError"):
                ctx.violation(f"transform {sx(term_sx(t))} applied to keys {in_keys} (requires {req}) "
                              f"did not raise ValueError: {a_real}", rp)
                continue
        elif a_real[0] == "ok":
            out_keys = [k for k, _ in a_real[2]]
            if out_keys != b_real[2]:
                ctx.violation(f"output keys {out_keys} differ from declared output_keys {b_real[2]} "
                              f"for {sx(term_sx(t))}", rp)
                continue
            st = static_type(t, inp[0])
            if a_real[1] != st:
                ctx.violation(f"output type {a_real[1]} is not the most specific common type {st} "
                              f"for {sx(term_sx(t))}", rp)
                continue
        # correspondence with the model
        if a_real[0] != a_mod[0] or (a_real[0] == "ok" and a_real != a_mod):
            ctx.violation(f"application differs from the typing model on {sx(term_sx(t))} with input "
                          f"{inp}: implementation {a_real}, model {a_mod}", rp)
        elif a_real[0] == "err" and a_real != a_mod:
            ctx.count("diag_apply_errkind_differs", f"{a_real[1]}/{a_mod[1]}")


def laws(ctx: Ctx, a, b, c, shapes):
    """associativity / commutativity: same build result and same application result"""
    pairs = [(("comp", ("comp", a, b), c), ("comp", a, ("comp", b, c)), "comp_assoc"),
             (("conj", [a, b]), ("conj", [b, a]), "conj_comm"),
             (("conj", [("conj", [a, b]), c]), ("conj", [a, ("conj", [b, c])]), "conj_assoc")]
    for l, r, name in pairs:
        bl, _ = observe(l, shapes, None)
        br, _ = observe(r, shapes, None)
        ctx.case(("law", name, l, shapes), nontrivial=bl[0] == "ok")
        ctx.count("law_" + name, bl[0])
        if (bl[0] == "ok") != (br[0] == "ok") or (bl[0] == "ok" and bl != br):
            ctx.violation(f"{name}: builds differ: {bl} vs {br} for {sx(term_sx(l))}",
                          {"kind": "law", "law": name, "left": sx(term_sx(l)),
                           "right": sx(term_sx(r)), "shapes": [list(s) for s in shapes]})
            continue
        if bl[0] != "ok":
            continue
        for inp in inputs_for(ctx, bl[1], shapes, False)[:2]:
            bl2, al = observe(l, shapes, inp)
            br2, ar = observe(r, shapes, inp)
            if al is None or ar is None:
                # the term was built a moment ago and is now refused (or the reverse): the verdict depends on HOW the
                # compound was spelled (`Composition(a, b)`, `a << b`, `a.compose(b)`, `Conjunction([a, b])`, `a | b`)
                ctx.violation(f"{name}: the same term {sx(term_sx(l if al is None else r))} is accepted in one public spelling and "
                              f"refused in another: first {bl if al is None else br}, then {bl2 if al is None else br2}",
                              {"kind": "law", "law": name, "left": sx(term_sx(l)), "right": sx(term_sx(r)),
                               "shapes": [list(s) for s in shapes]})
                break
            if al[0] == "input-rejected":
                continue
            same = (al[0] == ar[0]) and (al[0] != "ok" or al == ar)
            if name != "comp_assoc" and (al[0] != "ok" or ar[0] != "ok"):
                # the property speaks about conjunctions "whenever construction and application succeed": regrouping
                # changes which intermediate dictionary class is checked (e.g. two Jacobians of different first
                # dimension united directly vs through a plain TensorDict), so one grouping may be rejected
                ctx.count("conj_law_one_side_rejected", al[0] != ar[0])
                continue
            if not same:
                ctx.violation(f"{name}: applications differ: {al} vs {ar} for {sx(term_sx(l))}",
                              {"kind": "law", "law": name, "left": sx(term_sx(l)),
                               "right": sx(term_sx(r)), "input": [inp[0], [[k, list(s)] for k, s in inp[1]]],
                               "shapes": [list(s) for s in shapes]})


def dict_checks(ctx: Ctx, shapes):
    """constructors vs model `mkDict`; mutators must raise"""
    pool = [(), (1,), (2,), (3,), (1, 2), (2, 1), (2, 2), (2, 3), (6,), (1, 1, 2), (2, 1, 2)]
    for ty in TYPES:
        cases = [[]]
        for k in range(3):
            for s in pool:
                cases.append([(k, s)])
        for s0 in pool:
            for s1 in pool[:8]:
                cases.append([(0, s0), (1, s1)])
        for entries in cases:
            keys = [torch.zeros(s, requires_grad=True) for s in shapes]
            try:
                TYPES[ty]({keys[k]: torch.ones(s) for k, s in entries})
                real = "ok"
            except Exception as e:  # noqa: BLE001
                real = classify_exc(e)
            rep = ctx.driver.ask(["typing", ["shapes", *[list(s) for s in shapes]],
                                  ["mk", [ty, [[k, list(s)] for k, s in entries]]]])
            r = field(rep, "mk") if rep[0] != "mk" else rep[1:]
            r = r[0]
            mod = "ok" if r[0] == "ok" else r[1]
            ctx.case(("mk", ty, tuple(entries), shapes), nontrivial=True)
            ctx.count("mk_" + ty, real)
            if (real == "ok") != (mod == "ok"):
                ctx.violation(f"{ty} constructor on value shapes {entries} (key shapes {shapes}): "
                              f"implementation {real}, model {mod}",
                              {"kind": "mk", "type": ty, "entries": [[k, list(s)] for k, s in entries],
                               "shapes": [list(s) for s in shapes], "implementation": real, "model": mod})
            elif real != mod:
                ctx.count("diag_mk_errkind_differs", f"{real}/{mod}")
    # immutability
    for ty in ("TensorDict", "Gradients", "Jacobians", "GradientVectors", "JacobianMatrices",
               "EmptyTensorDict"):
        k = torch.zeros(2, requires_grad=True)
        ent = {} if ty == "EmptyTensorDict" else {k: torch.ones((1, 2) if ty in ("Jacobians", "JacobianMatrices") else (2,))}
        ops = {
            "__setitem__": lambda d: d.__setitem__(k, torch.ones(2)),
            "__delitem__": lambda d: d.__delitem__(k),
            "update": lambda d: d.update({}),
            "pop": lambda d: d.pop(k),
            "popitem": lambda d: d.popitem(),
            "clear": lambda d: d.clear(),
            "setdefault": lambda d: d.setdefault(k, torch.ones(2)),
        }
        for name, op in ops.items():
            d = TYPES[ty](dict(ent))
            before = list(d.items())
            try:
                op(d)
                res = "no-exception"
            except Exception as e:  # noqa: BLE001
                res = classify_exc(e)
            ctx.case(("mut", ty, name), nontrivial=True)
            if res == "no-exception" or len(list(d.items())) != len(before):
                ctx.violation(f"{ty}.{name} did not reject the mutation ({res})",
                              {"kind": "mutator", "type": ty, "op": name, "result": res})


def rand_term(ctx, depth):
    """mostly-valid nested terms: pipelines in the style of backward / mtl_backward"""
    rng = ctx.rng
    K = [0, 1, 2]

    def subset(nonempty=False):
        while True:
            s = tuple(k for k in K if rng.random() < 0.55)
            if s or not nonempty:
                return s

    def producer(d):  # term requiring {} and outputting something
        s = subset(True)
        c = rng.random()
        if d <= 0 or c < 0.3:
            return ("init", s), s
        if c < 0.5:
            p, ks = producer(d - 1)
            sel = tuple(k for k in ks if rng.random() < 0.6)
            return ("comp", ("select", sel, ks), p), sel
        if c < 0.65:
            p, ks = producer(d - 1)
            if ks:
                perm = list(ks)
                rng.shuffle(perm)
                return ("comp", ("diag", tuple(perm)), p), ks
            return p, ks
        if c < 0.8:
            parts = [producer(d - 1) for _ in range(rng.choice([1, 2, 3]))]
            return ("stack", [p for p, _ in parts]), tuple(sorted({k for _, ks in parts for k in ks}))
        parts = [producer(d - 1) for _ in range(rng.choice([1, 2]))]
        return ("conj", [p for p, _ in parts]), tuple(sorted({k for _, ks in parts for k in ks}))

    p, ks = producer(depth)
    if rng.random() < 0.4:
        p = ("comp", ("acc", ks), p)
    if rng.random() < 0.15:  # perturb: break one key set
        p = ("comp", ("acc", subset()), p)
    return p


def instance_reuse(ctx: Ctx, shapes, quick):
    """a transform is a function of its input: ONE instance applied to dictionaries of different types, one after the other,
    must give for each what a freshly built copy gives (the result type follows the input, not the first application)"""
    K = [0, 1, 2]
    terms = []
    for _ in range(40 if quick else 600):
        ks = tuple(sorted(ctx.rng.sample(K, ctx.rng.choice([1, 2, 3]))))
        a = ("select", tuple(k for k in ks if ctx.rng.random() < 0.6), ks)
        b = ("select", tuple(k for k in ks if k not in a[1]), ks)
        terms.append(ctx.rng.choice([("conj", [a, b]), ("conj", [a]), ("comp", ("conj", [a, b]), ("select", ks, ks)), a]))
    for t in terms:
        keys = [torch.zeros(s, requires_grad=True) for s in shapes]
        idx = {id(k): i for i, k in enumerate(keys)}
        try:
            tr = build_real(t, keys)
        except Exception:  # noqa: BLE001
            continue
        req = sorted(idx[id(k)] for k in tr.required_keys)
        tys = ["Gradients", "Jacobians", "TensorDict", "Gradients", "Jacobians"]
        ctx.rng.shuffle(tys)
        for ty in tys[:3]:
            m = ctx.rng.choice([1, 2, 3])
            entries = [(k, value_shape(ty, shapes[k], m, (2,))) for k in req]
            try:
                d = TYPES[ty]({keys[k]: torch.ones(s) for k, s in entries})
            except Exception:  # noqa: BLE001
                continue

            def app(trf):
                try:
                    r = trf(d)
                    return ("ok", type(r).__name__, sorted((idx[id(k)], tuple(v.shape)) for k, v in r.items()))
                except Exception as e:  # noqa: BLE001
                    return ("err", classify_exc(e))
            used, fresh = app(tr), app(build_real(t, keys))
            ctx.case(("reuse", t, ty, m), nontrivial=True)
            ctx.count("instance_reuse_applications")
            if used != fresh:
                ctx.violation(f"the transform {sx(term_sx(t))}, already applied to other dictionaries, maps a {ty} to {used}; a freshly "
                              f"built copy maps it to {fresh}", {"kind": "instance reuse", "term": sx(term_sx(t)), "input_type": ty,
                                                               "shapes": [list(s) for s in shapes]})
                return


def main(ctx: Ctx):
    ctx.lean_gate()
    _FORM.seed(f"C14-form:{ctx.seed}")
    quick = ctx.tier == "quick"
    A = atoms(full=not quick)
    ctx.cov["atoms"] = len(A)
    # depth 0 and depth 1 (exhaustive over the atom set; lists of length <= 2)
    for ui, shapes in enumerate(UNIVERSES if not quick else UNIVERSES[:2]):
        for a in A:
            compare(ctx, a, shapes, rich=True)
        dict_checks(ctx, shapes)
    shapes = UNIVERSES[ctx.seed % len(UNIVERSES)]
    pairs = list(itertools.product(A, A))
    if quick:
        # naive sampling over-exercises the error paths (~80% unbuildable): half of the sample is drawn among
        # pairs whose key sets are compatible for a composition or a conjunction
        sig = {}
        for a in A:
            b, _ = observe(a, shapes, None)
            sig[a] = (tuple(b[1]), tuple(b[2])) if b[0] == "ok" else None
        compat = [(a, b) for a, b in pairs if sig[a] and sig[b] and (sig[a][0] == sig[b][1] or sig[a][0] == sig[b][0])]
        ctx.rng.shuffle(pairs)
        ctx.rng.shuffle(compat)
        pairs = pairs[:750] + compat[:750]
        ctx.cov["sampled_compatible_pairs"] = min(750, len(compat))
    for a, b in pairs:
        for t in (("comp", a, b), ("conj", [a, b]), ("stack", [a, b])):
            compare(ctx, t, shapes)
    for a in A:
        for t in (("conj", [a]), ("stack", [a]), ("conj", [a, a]), ("stack", [a, a])):
            compare(ctx, t, shapes)
    for t in (("conj", []), ("stack", [])):
        compare(ctx, t, shapes, rich=True)
    # flat conjunctions / stacks of THREE members (the rules are not pairwise-neighbour rules: members 1 and 3 count too)
    same_req = {}
    for a in A:
        b, _ = observe(a, shapes, None)
        if b[0] == "ok":
            same_req.setdefault(tuple(b[1]), []).append(a)
    groups = [g for g in same_req.values() if len(g) >= 2]
    for _ in range(250 if quick else 6000):
        g = ctx.rng.choice(groups)
        a, b, c = (ctx.rng.choice(g) for _ in range(3))
        if ctx.rng.random() < 0.4:
            c = a                              # first and last member equal: their outputs overlap, the middle one may not
        for t in (("conj", [a, b, c]), ("stack", [a, b, c])):
            compare(ctx, t, shapes)
    ctx.count("three_member_lists")
    instance_reuse(ctx, shapes, quick)
    ctx.cov["exhaustive_depth1"] = not quick
    if not quick:
        # depth 2, exhaustive up to behavioural equivalence of the depth<=1 sub-terms: one representative per
        # (required keys, output keys, results of applying it to canonical inputs of every dictionary class)
        depth1 = list(A)
        for a, b in itertools.product(A, A):
            depth1 += [("comp", a, b), ("conj", [a, b]), ("stack", [a, b])]
        depth1 += [("conj", [a]) for a in A] + [("stack", [a]) for a in A] + [("conj", []), ("stack", [])]
        classes = {}
        for t in depth1:
            b, _ = observe(t, shapes, None)
            if b[0] != "ok":
                classes.setdefault(("unbuildable",), t)
                continue
            sig = [tuple(b[1]), tuple(b[2])]
            for ty in ("Gradients", "Jacobians", "GradientVectors", "JacobianMatrices", "TensorDict", "EmptyTensorDict"):
                if ty == "EmptyTensorDict" and b[1]:
                    continue
                inp = (ty, [(k, value_shape(ty, shapes[k], 2, (3, 2))) for k in b[1]])
                _, a_ = observe(t, shapes, inp)
                sig.append(repr(a_))
            classes.setdefault(tuple(sig), t)
        reps = list(classes.values())
        ctx.cov["depth1_terms"] = len(depth1)
        ctx.cov["depth1_behaviour_classes"] = len(reps)
        for a, b in itertools.product(reps, reps):
            for t in (("comp", a, b), ("conj", [a, b]), ("stack", [a, b])):
                compare(ctx, t, shapes)
        ctx.cov["exhaustive_depth2_up_to_equivalence"] = True
    # sampled deeper terms + laws
    n = 600 if quick else 12000
    for i in range(n):
        sh = UNIVERSES[i % len(UNIVERSES)]
        compare(ctx, rand_term(ctx, ctx.rng.choice([1, 2, 3])), sh, rich=(i % 5 == 0))
    for i in range(300 if quick else 5000):
        sh = UNIVERSES[i % len(UNIVERSES)]
        if ctx.rng.random() < 0.5:
            a, b, c = (ctx.rng.choice(A) for _ in range(3))
        else:
            a, b, c = (rand_term(ctx, 1) for _ in range(3))
        laws(ctx, a, b, c, sh)
    return ctx.finish(
        rule="terms over a 3-key universe (3 shape assignments incl. 0-d and equal-sized keys): all "
             "atoms, depth-1 terms over the atom set (all in thorough, 1500 sampled pairs x3 in quick), "
             "sampled pipelines of depth<=3 (mostly valid + perturbed), each applied to dictionaries of "
             "the five types with right and wrong key sets; constructor shape grid; mutators; "
             "assoc/comm laws. distinct = distinct (term, shapes, input) tuples",
        trusted=TRUSTED_COMMON + ["model is shape-level: tensor values are not represented in C14"])
