"""C04 — non-conflicting aggregators never oppose any objective (up to the stated allowance)."""
from __future__ import annotations

import itertools
from fractions import Fraction as Fr

import torch

from agg_common import ask_agg, fr_list, maxabs, run_agg, tensor_to_fr
from common import Ctx, sx
from matrices import all_small, exact_of, gram, m_adv, m_int, m_svd, to_tensor, ulp
from prop_C03 import TRUSTED, top_singular_sq

from torchjd.aggregation import CAGrad, DualProj, MGDA, UPGrad

C_FLOAT = 64


def slack(ctx, J, x, allow):
    rep = ask_agg(ctx.driver, "nonconflict", J, x=x, allow=allow)
    return fr_list(rep[1])


def check_qp_agg(ctx: Ctx, name, cls, J, Jt, dtype, s2, pref, reg_eps, norm_eps, fam):
    m = len(J)
    # quarters: exactly representable in half / single / double precision (the preference vector need not be in J's dtype)
    pd = ctx.rng.choice([dtype, dtype, torch.float16, torch.float32, torch.float64])
    if pref is not None and any(0 < v < Fr(1, 2 ** 14) for v in pref):
        pd = ctx.rng.choice([dtype, torch.float32, torch.float64])          # (below half precision's normal range)
    A = cls(pref_vector=None if pref is None else torch.tensor([float(v) for v in pref], dtype=torch.float64).to(pd),
            norm_eps=norm_eps, reg_eps=reg_eps)
    st, x = run_agg(A, Jt)
    rp = {"aggregator": name, "family": fam, "J": [[str(v) for v in r] for r in J], "pref": None if pref is None else [str(v) for v in pref],
          "reg_eps": reg_eps, "norm_eps": norm_eps, "dtype": str(dtype)}
    if st != "ok":
        ctx.count("raised", f"{name}:{x}")
        if float(s2) < 1e290:
            ctx.violation(f"{name} raised {x} on a finite matrix", rp)
        return
    xs = tensor_to_fr(x)
    if not all(torch.isfinite(x)):
        ctx.violation(f"{name} returned a non-finite vector", rp)
        return
    w = tensor_to_fr(A.weighting(Jt))
    l1 = sum(abs(v) for v in w)
    uu = Fr(ulp(dtype))
    # + quadprog's own feasibility tolerance (a kernel): (G w)_i >= -1e-8 |w|_1 on the normalised Gramian
    # … and its ABSOLUTE accuracy on the normalised problem (up to 1.4e-15 in the weights whatever the magnitude of the
    # preference vector, see C03): 2e-14 s^2 m
    allow = [Fr(reg_eps) * s2 * max(wi, 0) + (C_FLOAT * m * uu + Fr(1, 10 ** 8)) * s2 * l1 + Fr(2, 10 ** 14) * s2 * m for wi in w]
    sl = slack(ctx, J, xs, allow)
    ctx.cov["min_slack_ratio_qp"] = min(ctx.cov.get("min_slack_ratio_qp", 1e9),
                                        min(float(s / (a if a > 0 else 1)) for s, a in zip(sl, allow)) if allow else 1e9)
    if min(sl) < 0:
        i = sl.index(min(sl))
        ctx.violation(f"{name}: (J·A(J))_{i} = {float(sl[i] - allow[i]):.6e} is below the allowance "
                      f"-(reg_eps·s²·w_i + float) = {-float(allow[i]):.6e}: the update conflicts with objective {i}",
                      {**rp, "x": [str(float(v)) for v in xs], "weights": [str(float(v)) for v in w]})


def check_mgda(ctx: Ctx, J, Jt, dtype, s2, fam, iters, eps):
    m = len(J)
    A = MGDA(epsilon=eps, max_iters=iters)
    st, x = run_agg(A, Jt)
    rp = {"aggregator": "mgda", "family": fam, "J": [[str(v) for v in r] for r in J], "max_iters": iters,
          "epsilon": eps, "dtype": str(dtype)}
    if st != "ok":
        ctx.violation(f"MGDA raised {x}", rp)
        return
    xs = tensor_to_fr(x)
    rep = ask_agg(ctx.driver, "minnorm", J)
    if rep is None:
        ctx.violation("model found no min-norm certificate", rp, no_input=True)
        return
    mu = fr_list([rep[2]])[0]
    xx = sum(v * v for v in xs)
    uu = Fr(ulp(dtype))
    ftol = C_FLOAT * m * uu * s2
    gap = xx - mu
    jx = fr_list(ask_agg(ctx.driver, "matvec", J, x=xs)[1])
    # (J x)_i >= - s sqrt(|x|^2 - mu)   <=>   (J x)_i < 0  ->  (J x)_i^2 <= s^2 (|x|^2 - mu)    (+ float allowance)
    for i, v in enumerate(jx):
        if v < -ftol and (v + ftol) ** 2 > s2 * max(gap, 0) + ftol * ftol:
            ctx.violation(f"MGDA: (J·A(J))_{i} = {float(v):.6e} is below -s·sqrt(|A(J)|²-minnorm²) = "
                          f"{-float(s2 * max(gap, 0)) ** 0.5:.6e}", {**rp, "x": [str(float(t)) for t in xs]})
            return
    if gap < -ftol:
        ctx.violation(f"MGDA output is shorter than the minimum-norm point of the hull: |A(J)|² - min = {float(gap):.3e} "
                      "(not a convex combination)", rp)
        return
    if eps == 0 and gap > 8 * s2 / (iters + 2) + ftol:
        ctx.violation(f"MGDA(epsilon=0, max_iters={iters}): sub-optimality |A(J)|²-minnorm² = {float(gap):.6e} exceeds "
                      f"8 s²/(K+2) = {float(8 * s2 / (iters + 2)):.6e}", {**rp, "x": [str(float(t)) for t in xs]})
    ctx.cov["max_fw_gap_ratio"] = max(ctx.cov.get("max_fw_gap_ratio", 0.0),
                                      float(gap / (8 * s2 / (iters + 2))) if (eps == 0 and s2 > 0) else 0.0)


def check_cagrad(ctx: Ctx, J, Jt, dtype, s2, fam, c):
    m = len(J)
    A = CAGrad(c=c)
    st, x = run_agg(A, Jt)
    rp = {"aggregator": "cagrad", "family": fam, "J": [[str(v) for v in r] for r in J], "c": c, "dtype": str(dtype)}
    if st != "ok":
        ctx.count("raised", f"cagrad:{x}")
        # (never observed on the unchanged tree in 55 000 thorough evaluations: the aggregator is total on finite matrices)
        ctx.violation(f"CAGrad(c={c}) raised {x} on a finite matrix (family {fam})", rp)
        return
    xs = tensor_to_fr(x)
    w = tensor_to_fr(A.weighting(Jt))
    l1 = sum(abs(v) for v in w)
    # allowance of row i = (delta |j_i| s + 32 ulp s^2) |omega|_1 :
    #  * the conic solver's tolerance, scaled PER ROW: an error delta (relative) in the returned weights moves A(J) = J^T omega
    #    by at most s |omega|_1 delta, hence (J A(J))_i by at most |j_i| s |omega|_1 delta; delta = 2e-6 (CLARABEL: 1e-8);
    #  * the working precision: the implementation sees the Gramian through a singular value decomposition computed in J's
    #    dtype, i.e. with an ABSOLUTE error of a few ulp s^2 per entry — an objective whose row is below ulp s is invisible to
    #    it (thorough tier, single precision: a row 2.6e-8 s long received cosine -0.36).
    #  measured on the unchanged tree (evidence: cagrad_worst_negativity_over_allowance): <= 0.1 of the allowance
    sflt = float(s2) ** 0.5 * (1 + 1e-9)
    delta = Fr(2, 10 ** 6)
    rown = [Fr(float(sum(v * v for v in r)) ** 0.5 * (1 + 1e-9)) for r in J]
    allow = [(delta * rn * Fr(sflt) + 32 * Fr(ulp(dtype)) * s2) * max(l1, Fr(1, m)) for rn in rown]
    # kernel contract behind `cagrad_nonconflict_of_optimality`: the solver's answer w (recovered from the final
    # weights omega = e + lambda w, sum(w) = 1) satisfies the first-order condition (G omega)·w <= (G omega)_i
    lam = sum(w) - 1
    if lam > Fr(1, 10 ** 6) and s2 > 0:
        wsol = [(wi - Fr(1, m)) / lam for wi in w]
        gom = [v / s2 for v in fr_list(ask_agg(ctx.driver, "matvec", J, x=xs)[1])]        # G omega = J x / s^2
        lhs = sum(a * b for a, b in zip(gom, wsol))
        gmax = max(maxabs(gom), Fr(1, 10 ** 30))
        ctx.count("cagrad_optimality_checked")
        ctx.cov["cagrad_worst_optimality_gap"] = max(ctx.cov.get("cagrad_worst_optimality_gap", 0.0),
                                                     float((lhs - min(gom)) / gmax))
        if lhs - min(gom) > Fr(1, 100) * gmax:
            ctx.count("cagrad_optimality_contract_violated")       # diagnostic: the conic solver is a kernel
    sl = slack(ctx, J, xs, allow)
    for _i in range(m):
        if allow[_i] > 0:
            _k = "cagrad_worst_negativity_over_allowance:" + str(dtype)
            ctx.cov[_k] = max(ctx.cov.get(_k, 0.0), float(-(sl[_i] - allow[_i]) / allow[_i]))
    if min(sl) < 0:
        i = sl.index(min(sl))
        ctx.violation(f"CAGrad(c={c}): (J·A(J))_{i} = {float(sl[i] - allow[i]):.6e} < -(solver allowance) = "
                      f"{-float(allow[i]):.3e}", {**rp, "x": [str(float(v)) for v in xs]})


def faint_conflict(rng, dtype):
    """one dominant objective and faint ones (6e-5 … 4e-4 of it) whose mutual conflict is decided along a direction that
    the dominant row does not see: what the faint rows receive is invisible in |A(J)| and in the objective of every solver,
    yet the property is per OBJECTIVE — the allowance of row i scales with |j_i|"""
    m = rng.choice([3, 3, 4])
    n = rng.choice([2, 3, 5])
    g = torch.Generator().manual_seed(rng.randrange(2 ** 31))
    Q, _ = torch.linalg.qr(torch.randn(n, n, generator=g, dtype=torch.float64))
    d, e = Q[0], Q[1]
    rows = [d * rng.choice([1.0, 3.0, 1000.0])]
    scale = float(rows[0].norm())
    for i in range(1, m):
        # faint enough to hide behind the dominant row, not so faint that the combination falls below norm_eps (1e-4 s), where
        # every aggregator of the family returns the zero vector
        eps = 10.0 ** rng.uniform(-4.2, -3.4)
        # (the faint rows agree with the dominant one and conflict with EACH OTHER across the unseen direction)
        a, b = rng.uniform(1, 3), rng.uniform(3, 5) * (1 if i % 2 else -1)
        rows.append(scale * eps * (a * d + b * e))
    return torch.stack(rows).to(dtype)


def one_matrix(ctx: Ctx, J, Jt, dtype, fam, cheap_only=False):
    rng = ctx.rng
    m = len(J)
    if all(v == 0 for r in J for v in r):
        s2 = Fr(0)
    else:
        s2 = top_singular_sq(J)
    ctx.case((fam, sx(J), str(dtype)), nontrivial=s2 > 0,
             sample={"family": fam, "J": [[str(v) for v in r] for r in J[:3]], "dtype": str(dtype)})
    ctx.count("family", fam)
    norm_eps = 1e-4
    prefs = [None, [Fr(rng.randint(0, 8), 4) for _ in range(m)],
             [Fr(rng.randint(1, 9), 2 ** rng.choice([27, 33, 40])) for _ in range(m)]]     # tiny preferences: same cone, same guarantee
    if float(s2) >= (2 * norm_eps) ** 2:
        pref = rng.choice(prefs)
        # (reg_eps below 1e-6 in double precision only: the QP solver needs reg_eps well above the rounding of the Gramian)
        reg_eps = rng.choice([1e-4, 1e-4, 1e-2, 1e-6] + ([1e-8, 1e-10] if dtype == torch.float64 else []))
        check_qp_agg(ctx, "upgrad", UPGrad, J, Jt, dtype, s2, pref, reg_eps, norm_eps, fam)
        check_qp_agg(ctx, "dualproj", DualProj, J, Jt, dtype, s2, pref, reg_eps, norm_eps, fam)
        if not cheap_only and float(s2) < 1e30:
            check_cagrad(ctx, J, Jt, dtype, s2, fam, rng.choice([1.0, 1.5, 3.0]))
    else:
        ctx.count("below_norm_eps_skipped")
    if float(s2) < 1e150:
        check_mgda(ctx, J, Jt, dtype, s2, fam, rng.choice([1, 2, 5, 20, 100]), rng.choice([0.0, 0.0, 1e-3]))


def check_e2e(ctx: Ctx):
    """END TO END (theorems C04b.backward_upgrad_nonconflict / backward_dualproj_nonconflict): `backward(tensors, UPGrad)` on a
    random integer program.  The model composes the autojac pipeline with `upgradAgg` / `dualprojAgg` on the program's exact
    Jacobian; (i) the real `.grad` deposits are compared with the model's, (ii) the Lean predicate NonConflictUpTo is evaluated
    exactly on the vector the real call deposited, against the exact Jacobian."""
    from autojac_common import model_backward
    from common import to_frac
    from progs import differentiable_nonleaves, numel, random_program
    rng = ctx.rng
    P = random_program(rng)
    while P.casts or P.big:
        P = random_program(rng)
    cands = differentiable_nonleaves(P)
    tensors = rng.sample(cands, min(len(cands), rng.choice([1, 2, 2])))
    m = sum(numel(P.nodes[t].shape) for t in tensors)
    inputs = sorted(P.reach_leaves(tensors))
    if m < 2 or m > 6 or not inputs:
        return
    rep = ctx.driver.ask(["jacobian", P.to_sx(), ["outs", tensors], ["ins", inputs]])
    J = []
    for t, blocks in zip(tensors, rep[1][1:]):
        nt = numel(P.nodes[t].shape)
        for r in range(nt):
            row = []
            for i, blk in zip(inputs, blocks):
                row += [Fr(0)] * numel(P.nodes[i].shape) if blk == "none" else [to_frac(x) for x in blk[r]]
            J.append(row)
    if all(v == 0 for r in J for v in r) or max(abs(v) for r in J for v in r) > 10 ** 6:
        return
    Jt = to_tensor(J, torch.float64)
    s_f = float(torch.linalg.svdvals(Jt)[0])
    name, cls = rng.choice([("upgrad", UPGrad), ("dualproj", DualProj)])
    norm_eps, reg_eps = rng.choice([(1e-4, 1e-2), (1e-6, 1e-4), (1e-2, 1e-1)])
    if 0.25 < s_f / norm_eps < 4:
        return
    pref = rng.choice([None, [Fr(rng.randint(0, 8), 4) for _ in range(m)]])
    u = pref if pref is not None else [Fr(1, m)] * m
    A = cls(pref_vector=None if pref is None else torch.tensor([float(v) for v in pref], dtype=torch.float64),
            norm_eps=norm_eps, reg_eps=reg_eps)
    ts = P.build(torch.float64)
    chunk = rng.choice([None, 1, 2])
    rp = {"check": "end-to-end", "aggregator": name, "program": P.describe(), "prog_sx": sx(P.to_sx()), "tensors": tensors,
          "inputs": inputs, "pref": None if pref is None else [str(v) for v in pref], "norm_eps": norm_eps, "reg_eps": reg_eps,
          "chunk": chunk, "J": [[str(v) for v in r] for r in J]}
    from torchjd import backward
    try:
        backward([ts[t] for t in tensors], A, inputs=[ts[i] for i in inputs], parallel_chunk_size=chunk)
    except Exception as e:  # noqa: BLE001
        ctx.violation(f"backward with {name} raised {type(e).__name__} on a valid call (theorem: it cannot fail)", rp)
        return
    v_real = []
    for i in inputs:
        v_real += tensor_to_fr(ts[i].grad)
    merr, mg, _ = model_backward(ctx.driver, P, tensors, inputs, (name, Fr(s_f), Fr(norm_eps), Fr(reg_eps), list(u)), chunk,
                                 False, {}, inputs)
    ctx.case(("e2e", name, tuple(P.describe()), tuple(tensors), str(pref), norm_eps, reg_eps), nontrivial=True,
             sample={"end_to_end": name, "program": P.describe(), "rows": m})
    ctx.count("end_to_end", name)
    if merr is not None:
        ctx.violation(f"the end-to-end model reports {merr} on a valid call", rp, no_input=True)
        return
    v_mod = []
    for i in inputs:
        v_mod += mg[i]
    uu = ulp(torch.float64)
    kappa = (1 + reg_eps) / reg_eps
    rowsum = max(sum(abs(x) for x in r) for r in J)
    tol = Fr(64 * uu * kappa * m * m) * max(maxabs(u), Fr(1, 10 ** 30)) * rowsum + Fr(64 * uu) * maxabs(v_mod)
    if max(abs(a - b) for a, b in zip(v_real, v_mod)) > tol:
        ctx.violation(f"backward with {name}: the deposited update {[float(x) for x in v_real]} differs from the end-to-end "
                      f"model {[float(x) for x in v_mod]} (tolerance {float(tol):.2e})", rp)
        return
    w = tensor_to_fr(A.weighting(Jt))
    l1 = sum(abs(x) for x in w)
    s2 = Fr(s_f) ** 2 if s_f >= norm_eps else Fr(0)
    allow = [Fr(reg_eps) * s2 * max(wi, 0) + (C_FLOAT * m * Fr(uu) + Fr(1, 10 ** 8)) * max(s2, Fr(s_f) ** 2) * l1 for wi in w]
    sl = slack(ctx, J, v_real, allow)
    if s_f >= norm_eps and min(sl) < 0:
        i = sl.index(min(sl))
        ctx.violation(f"backward with {name}: the deposited update conflicts with objective {i}: <row_{i}, update> = "
                      f"{float(sl[i] - allow[i]):.6e} below the allowance {-float(allow[i]):.6e}", rp)


def main(ctx: Ctx):
    ctx.lean_gate()
    rng = ctx.rng
    quick = ctx.tier == "quick"
    for _ in range(60 if quick else 6000):
        check_e2e(ctx)
    small = list(all_small(3, 3))
    if quick:
        small = rng.sample(small, 250)
    else:
        ctx.cov["exhaustive"] = True
        ctx.cov["exhaustive_space"] = "all matrices with entries in {-1,0,1} up to 3x3"
    for k, J in enumerate(small):
        one_matrix(ctx, J, to_tensor(J, torch.float64), torch.float64, "small{-1,0,1}", cheap_only=(k % 10 != 0))
    for i in range(150 if quick else 30000):
        m, n = rng.choice([2, 2, 3, 4, 5]), rng.choice([1, 2, 3, 5, 8])
        dtype = torch.float64 if i % 2 else torch.float32
        r = rng.random()
        if i % 5 == 3:
            Jt = faint_conflict(rng, dtype)
            one_matrix(ctx, exact_of(Jt), Jt, dtype, "adv:faint-conflict")
        elif i % 10 == 7:
            # small gradients: largest singular value between norm_eps (1e-4) and its square root (1e-2) — above the threshold,
            # so the projection is required (a guard comparing s^2 with norm_eps would skip it)
            Ji = m_int(rng, rng.choice([2, 3]), rng.choice([2, 3, 5]), kind="plain")
            if all(v == 0 for r in Ji for v in r):
                continue
            Ji = [[v / 2 ** rng.choice([11, 12, 13]) for v in r] for r in Ji]
            one_matrix(ctx, Ji, to_tensor(Ji, dtype), dtype, "small-scale-int")
        elif r < 0.6:
            Jt, kind = m_adv(rng, m, n, dtype)
            if not torch.isfinite(Jt).all():
                continue
            one_matrix(ctx, exact_of(Jt), Jt, dtype, "adv:" + kind, cheap_only=(i % 4 != 0))
        elif r < 0.8:
            J, _, _, _ = m_svd(rng, m, n, scale=rng.choice([Fr(1), Fr(1000), Fr(1, 100)]))
            Jt = to_tensor(J, dtype)
            one_matrix(ctx, exact_of(Jt), Jt, dtype, "svd", cheap_only=(i % 4 != 0))
        else:
            J = m_int(rng, m, n)
            one_matrix(ctx, J, to_tensor(J, dtype), dtype, "int", cheap_only=(i % 4 != 0))
    return ctx.finish(
        rule="matrices with entries in {-1,0,1} up to 3x3 (all in thorough, 250 sampled in quick), adversarial float "
             "matrices (nearly antiparallel rows, row norms over 12 orders, rank-deficient, stationary, scales 1e-10..1e12 "
             "f32 / 1e-80..1e80 f64), rational-SVD and integer matrices; UPGrad/DualProj (preference vectors, reg_eps "
             "1e-6..1e-2), MGDA (max_iters 1,2,5,20,100; epsilon 0/1e-3), CAGrad c in {1,1.5,3}; the Lean predicate "
             "NonConflictUpTo is evaluated EXACTLY (rationals) on the implementation's output with the allowance of the "
             "property (+ a float term C·m·u·s²·|w|₁); MGDA allowance uses the certified exact min-norm value; END TO END: backward "
             "with UPGrad / DualProj on random integer programs against the composed model (autojac pipeline ∘ upgradAgg) and the "
             "predicate on the deposited update (theorems of TjdProps/C04b.lean)",
        trusted=TRUSTED + ["CLARABEL (CAGrad) is a kernel: only a scaled solver allowance 1e-4·s²·|w|₁ is checked"])
