"""C16 — Byzantine-robust aggregators ignore a bounded number of arbitrary rows."""
from __future__ import annotations

from fractions import Fraction as Fr

import torch

from agg_common import ask_agg, fr_list, maxabs, maxdiff, run_agg, tensor_to_fr
from common import Ctx, TRUSTED_COMMON, sx
from matrices import to_tensor, ulp

from torchjd.aggregation import Krum, TrimmedMean

TRUSTED = TRUSTED_COMMON + [
    "kernels: torch.sort / topk / cdist have their documented meaning; Krum's square roots are enclosed in rational "
    "intervals of width 1e-30 by the driver and the selection is certified only when the enclosures agree",
]


def honest_cluster(rng, m, n, spread=3, center=None):
    c = center or [rng.randint(-20, 20) for _ in range(n)]
    return [[Fr(c[j] + rng.randint(-spread, spread)) for j in range(n)] for _ in range(m)]


def corrupt(rng, J, k, dtype):
    """replace k rows by arbitrary finite values (up to 1e12 x the honest scale, exactly representable)"""
    m, n = len(J), len(J[0])
    rows = rng.sample(range(m), k)
    big = 2 ** 40 if dtype == torch.float64 else 2 ** 20
    out = [list(r) for r in J]
    for r in rows:
        mode = rng.choice(["huge", "neg", "mixed", "near", "zero"])
        for j in range(n):
            if mode == "huge":
                out[r][j] = Fr(rng.randint(big // 2, big))
            elif mode == "neg":
                out[r][j] = Fr(-rng.randint(big // 2, big))
            elif mode == "mixed":
                out[r][j] = Fr(rng.choice([-1, 1]) * rng.randint(1, big))
            elif mode == "near":
                out[r][j] = J[r][j] + rng.randint(-50, 50)
            else:
                out[r][j] = Fr(0)
    return out, rows


def check_trimmed(ctx: Ctx, dtype):
    rng = ctx.rng
    b = rng.choice([0, 1, 1, 2, 3])
    m = rng.randint(2 * b + 1, 2 * b + 6)
    if rng.random() < 0.2:
        m = rng.choice([16 * max(b, 1), 16 * max(b, 1) + 5, 40, 64, 100, rng.randint(41, 130), rng.randint(41, 130),
                        rng.choice([47, 49, 55, 57, 98, 107])])      # many rows, few of them trimmed
        m = max(m, 2 * b + 1)
        ctx.count("trimmed_many_rows")
    n = rng.choice([1, 2, 3, 5])
    H = honest_cluster(rng, m, n, spread=rng.choice([0, 2, 30]))
    frac = rng.random() < 0.5
    if frac:
        # non-integer honest values (rounded to the dtype, so still exact rationals): sums are no longer exact in floating
        # point, which separates "mean of the kept entries" from "sum of everything minus the extremes"
        H = [[Fr(torch.tensor(float(v) + rng.uniform(-0.5, 0.5), dtype=dtype).item()) for v in r] for r in H]
    ctx.count("trimmed_noninteger", frac)
    k = rng.randint(0, b)
    J, bad = corrupt(rng, H, k, dtype)
    Jt = to_tensor(J, dtype)
    st, x = run_agg(TrimmedMean(trim_number=b), Jt)
    ctx.case(("tm", sx(J), b, str(dtype)), nontrivial=k > 0,
             sample={"aggregator": f"TrimmedMean({b})", "J": [[str(v) for v in r] for r in J], "corrupted_rows": bad})
    ctx.count("trimmed_b", b)
    ctx.count("trimmed_corrupted", k)
    rp = {"aggregator": "TrimmedMean", "b": b, "J": [[str(v) for v in r] for r in J], "corrupted_rows": bad, "dtype": str(dtype)}
    if st != "ok":
        ctx.violation(f"TrimmedMean({b}) raised {x} on {m} rows", rp)
        return
    xs = tensor_to_fr(x)
    # the result belongs to the caller: a later call on the same instance (same shape, other values) must not change it
    if rng.random() < 0.3:
        keep = x.clone()
        Aagain = TrimmedMean(trim_number=b)
        x1 = Aagain(Jt)
        Aagain(Jt.flip(0) * 3 + 1)
        ctx.count("trimmed_result_kept_after_second_call")
        if not torch.equal(x1, keep):
            ctx.violation(f"TrimmedMean({b}): the vector returned by a call changed after the same instance was called again "
                          f"({keep.tolist()} became {x1.tolist()})", {"aggregator": "TrimmedMean", "b": b,
                                                                      "J": [[str(v) for v in r] for r in J], "dtype": str(dtype)})
            return
    mod = fr_list(ask_agg(ctx.driver, "trimmed", J, b=b)[1])
    good = [i for i in range(m) if i not in bad]
    # every kept entry lies between the extremes of the untouched rows (k <= b): rounding is relative to THEIR magnitude,
    # not to the magnitude of the corrupted rows
    tol = Fr(8 * ulp(dtype)) * max(maxabs([v for i in good for v in J[i]]), Fr(1)) * m
    if maxdiff(xs, mod) > tol:
        ctx.violation(f"TrimmedMean({b}) = {[float(v) for v in xs]} differs from the mean of the entries left after "
                      f"removing the {b} largest and {b} smallest per column = {[float(v) for v in mod]}", rp)
        return
    for c in range(n):
        lo, hi = min(J[i][c] for i in good), max(J[i][c] for i in good)
        if not (lo - tol <= xs[c] <= hi + tol):
            ctx.violation(f"TrimmedMean({b}) coordinate {c} = {float(xs[c])} left the range [{lo}, {hi}] of the "
                          f"untouched rows although only {k} <= b rows were corrupted", rp)
            return
    # too few rows are rejected
    if b > 0:
        few = to_tensor(H[: 2 * b], dtype)
        st2, e2 = run_agg(TrimmedMean(trim_number=b), few)
        if not (st2 == "err" and e2 == "ValueError"):
            ctx.violation(f"TrimmedMean({b}) accepted a matrix with only {2 * b} rows ({st2}, {e2})", rp)


def check_krum(ctx: Ctx, dtype):
    rng = ctx.rng
    f = rng.choice([0, 1, 1, 2])
    big = rng.random() < 0.25
    if big:
        # many rows sharing a large common component (distances tiny relative to the norms): the regime where a
        # matmul-based distance computation loses all its digits
        f = rng.choice([1, 3, 8])
        m = rng.randint(max(f + 3, 26), 40)
    else:
        m = rng.randint(f + 3, f + 7)
    # every legal selection count (the library only requires k <= m): also k > m - f, where more rows are averaged than can be honest
    k = rng.randint(1, max(1, m - f - 2)) if rng.random() < 0.6 else rng.randint(1, m)
    n = rng.choice([1, 2, 3, 4]) if not big else rng.choice([4, 8])
    H = honest_cluster(rng, m, n, spread=rng.choice([2, 5, 9]),
                       center=[rng.choice([-1, 1]) * rng.randint(900, 4000) for _ in range(n)] if big else None)
    ctx.count("krum_many_rows", big)
    nb = rng.randint(0, f)
    J, bad = corrupt(rng, H, nb, dtype)
    if rng.random() < 0.3:
        # two clusters: makes the neighbourhood size matter
        c2 = [rng.randint(30, 60) for _ in range(n)]
        for r in rng.sample(range(m), m // 2):
            J[r] = [Fr(c2[j] + rng.randint(-2, 2)) for j in range(n)]
    Jt = to_tensor(J, dtype)
    A = Krum(n_byzantine=f, n_selected=k)
    st, x = run_agg(A, Jt)
    ctx.case(("krum", sx(J), f, k, str(dtype)), nontrivial=True,
             sample={"aggregator": f"Krum({f},{k})", "J": [[str(v) for v in r] for r in J]})
    ctx.count("krum_fk", f"f={f},k={k}")
    rp = {"aggregator": "Krum", "f": f, "k": k, "J": [[str(v) for v in r] for r in J], "dtype": str(dtype)}
    if st != "ok":
        ctx.violation(f"Krum({f},{k}) raised {x} on {m} rows", rp)
        return
    w = tensor_to_fr(A.weighting(Jt))
    sel = sorted(i for i, v in enumerate(w) if v != 0)
    # plain average of exactly k distinct rows
    if len(sel) != k or any(abs(w[i] - Fr(1, k)) > Fr(4 * ulp(dtype)) for i in sel):
        ctx.violation(f"Krum({f},{k}) weights {[float(v) for v in w]} are not the plain average of exactly {k} distinct rows", rp)
        return
    xs = tensor_to_fr(x)
    avg = [sum(J[i][c] for i in sel) / k for c in range(n)]
    if maxdiff(xs, avg) > Fr(16 * ulp(dtype)) * max(maxabs(avg), Fr(1)) * m:
        ctx.violation(f"Krum output is not the average of the selected rows {sel}", rp)
        return
    rep = ask_agg(ctx.driver, "krum", J, f=f, k=k)
    if rep is None:
        ctx.count("krum_uncertified")
        return
    wm, gap = fr_list(rep[1]), fr_list([rep[3]])[0]
    selm = sorted(i for i, v in enumerate(wm) if v != 0)
    # integer data: differences are exact in floating point, so distances carry only a relative rounding error
    dmax2 = max(sum((a - b) ** 2 for a, b in zip(r1, r2)) for r1 in J for r2 in J)
    dmax = Fr(int(float(dmax2) ** 0.5) + 1)
    if gap <= Fr(256 * ulp(dtype)) * dmax * m * n:
        ctx.count("krum_skipped_tie")
        return
    ctx.count("krum_compared")
    if sel != selm:
        ctx.violation(f"Krum({f},{k}) selected rows {sel}; the rows with the smallest sum of distances to their "
                      f"m-f-2 = {m - f - 2} nearest other rows are {selm} (score gap {float(gap):.3e})", rp)
        return
    for bad_m in (f + 2,):
        if bad_m >= 1:
            st2, e2 = run_agg(Krum(n_byzantine=f, n_selected=1), to_tensor(H[:bad_m], dtype))
            if not (st2 == "err" and e2 == "ValueError"):
                ctx.violation(f"Krum(f={f}) accepted a matrix with only {bad_m} rows", rp)


def trimmed_subnormal(ctx: Ctx):
    """TrimmedMean on single-precision gradients in the SUBNORMAL range (integers times 2^-149 … 2^-140): the kept entries are
    summed first and divided once — the result stays within one quantum of the exact trimmed mean and inside the range of the
    untouched rows (dividing every entry before summing loses whole quanta)"""
    rng = ctx.rng
    b = rng.choice([0, 1, 2])
    m = rng.randint(2 * b + 2, 2 * b + 6)
    n = rng.choice([1, 2, 3])
    q = 2.0 ** -149
    e = rng.choice([0, 2, 5])
    H = [[rng.randint(1, 7) * 2 ** e for _ in range(n)] for _ in range(m)]              # in quanta
    J = [row[:] for row in H]
    bad = rng.sample(range(m), rng.randint(0, b))
    for r in bad:
        J[r] = [v * rng.choice([-1000, 1000, 10 ** 6]) for v in J[r]]
    Jt = torch.tensor([[v * q for v in row] for row in J], dtype=torch.float32)
    st, x = run_agg(TrimmedMean(trim_number=b), Jt)
    rp = {"aggregator": f"TrimmedMean({b})", "family": "subnormal", "J_in_quanta_of_2^-149": J, "corrupted_rows": bad}
    ctx.case(("tm-subnormal", str(J), b), nontrivial=True)
    ctx.count("trimmed_subnormal")
    if st != "ok":
        ctx.violation(f"TrimmedMean({b}) raised {x} on a finite single-precision matrix of subnormal entries", rp)
        return
    for c in range(n):
        col = sorted(J[r][c] for r in range(m))
        exact = Fr(sum(col[b:m - b]), m - 2 * b)                                        # in quanta
        got = Fr(float(x[c])) / Fr(q)
        honest = [H[r][c] for r in range(m) if r not in bad]
        if abs(got - exact) > 1 or not (min(honest) - 1 <= got <= max(honest) + 1):
            ctx.violation(f"TrimmedMean({b}) coordinate {c} = {float(got)} quanta (of 2^-149); the trimmed mean of the column is "
                          f"{float(exact)} quanta and the untouched rows span [{min(honest)}, {max(honest)}]", rp)
            return


def krum_far_outlier(ctx: Ctx):
    """Krum in single precision with honest gradients of magnitude ~1e8 and ONE corrupted row 1e11-1e12 times larger (inside the
    property's bound): its distances to the others overflow to inf — an infinite distance is just the largest one; the selected
    rows are honest and the scores of the honest rows are unaffected"""
    rng = ctx.rng
    f = 1
    m = rng.choice([5, 6, 7])
    k = rng.randint(1, m - f - 2)
    n = rng.choice([2, 3, 4])
    base = [rng.randint(-3, 3) for _ in range(n)]
    H = [[(base[c] * 10 + rng.randint(-4, 4)) * 1e7 for c in range(n)] for _ in range(m)]
    r = rng.randrange(m)
    J = [row[:] for row in H]
    J[r] = [rng.choice([-1.0, 1.0]) * (abs(v) + 1e7) * rng.choice([1e11, 1e12]) for v in J[r]]
    Jt = torch.tensor(J, dtype=torch.float32)
    if not bool(torch.isfinite(Jt).all()):
        return
    A = Krum(n_byzantine=f, n_selected=k)
    st, x = run_agg(A, Jt)
    rp = {"aggregator": f"Krum({f},{k})", "family": "far outlier (infinite distances)", "J": J, "corrupted_row": r}
    ctx.case(("krum-far", str(J), k), nontrivial=True)
    ctx.count("krum_far_outlier")
    if st != "ok":
        ctx.violation(f"Krum({f},{k}) raised {x} on a finite single-precision matrix", rp)
        return
    w = A.weighting(Jt)
    sel = sorted(i for i, v in enumerate(w.tolist()) if v != 0)
    if not bool(torch.isfinite(x).all()) or r in sel or len(sel) != k:
        ctx.violation(f"Krum({f},{k}) with one row 1e11-1e12 times larger than the others (row {r}): selected rows {sel}, output "
                      f"{x.tolist()} — the far row must not be selected and the output must be the average of {k} honest rows", rp)
        return
    # the honest rows' scores do not involve the far row (m - f - 2 nearest neighbours among m - 1 >= m - f - 1 others)
    Hd = torch.tensor([row for i, row in enumerate(H) if i != r], dtype=torch.float64)
    D = torch.cdist(Hd, Hd)
    sc = D.topk(k=m - f - 2 + 1, largest=False).values[:, 1:].sum(dim=1)
    order = sc.argsort().tolist()
    idx = [i for i in range(m) if i != r]
    if k < len(order) and float(sc[order[k]] - sc[order[k - 1]]) > 1e-3 * float(sc[order[k]]):
        expsel = sorted(idx[j] for j in order[:k])
        if sel != expsel:
            ctx.violation(f"Krum({f},{k}) selected {sel}; by the scores of the honest rows (far row {r} excluded) it should select {expsel}", rp)


def main(ctx: Ctx):
    ctx.lean_gate()
    n = 400 if ctx.tier == "quick" else 80000
    for i in range(n):
        dtype = torch.float64 if i % 3 else torch.float32
        check_trimmed(ctx, dtype)
        check_krum(ctx, dtype)
        if i % 10 == 0:
            trimmed_subnormal(ctx)
            krum_far_outlier(ctx)
    return ctx.finish(
        rule="honest integer clusters (one or two clusters) with up to b (resp. f) rows replaced by arbitrary values up to "
             "2^40 x the honest scale (exactly representable), all admissible b in 0..3, (f,k) with m <= f+7; "
             "TrimmedMean compared with the exact model and with the [min,max] range of the untouched rows; Krum: weights "
             "= plain average of k distinct rows, selected set compared with the model's certified selection (score-gap "
             "margin), too-few-rows rejection",
        trusted=TRUSTED)
