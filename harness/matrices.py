"""seeded matrix families for the aggregator checks (DESIGN §4.3): exact rational constructions whose
spectral data / row norms are known exactly, plus integer and adversarial float families"""
from __future__ import annotations

import itertools
import math
from fractions import Fraction as Fr

import torch


def fmat(rows):
    return [[Fr(x) for x in r] for r in rows]


def matmul(A, B):
    return [[sum(a * b for a, b in zip(row, col)) for col in zip(*B)] for row in A]


def transpose(A):
    return [list(c) for c in zip(*A)]


def identity(n):
    return [[Fr(int(i == j)) for j in range(n)] for i in range(n)]


def inverse(A):
    n = len(A)
    M = [list(r) + idr for r, idr in zip(A, identity(n))]
    for c in range(n):
        p = next(r for r in range(c, n) if M[r][c] != 0)
        M[c], M[p] = M[p], M[c]
        pv = M[c][c]
        M[c] = [x / pv for x in M[c]]
        for r in range(n):
            if r != c and M[r][c] != 0:
                f = M[r][c]
                M[r] = [x - f * y for x, y in zip(M[r], M[c])]
    return [r[n:] for r in M]


def cayley(rng, n, amp=2):
    """random rational orthogonal matrix: (I - A)(I + A)^-1 for a random integer skew-symmetric A"""
    A = [[Fr(0)] * n for _ in range(n)]
    for i in range(n):
        for j in range(i + 1, n):
            v = Fr(rng.randint(-amp, amp), rng.choice([1, 1, 2, 3]))
            A[i][j], A[j][i] = v, -v
    I = identity(n)
    ImA = [[I[i][j] - A[i][j] for j in range(n)] for i in range(n)]
    IpA = [[I[i][j] + A[i][j] for j in range(n)] for i in range(n)]
    Q = matmul(ImA, inverse(IpA))
    # random signed permutation on top (Cayley matrices never have eigenvalue -1)
    perm = list(range(n))
    rng.shuffle(perm)
    signs = [rng.choice([-1, 1]) for _ in range(n)]
    return [[Q[perm[i]][j] * signs[i] for j in range(n)] for i in range(n)]


def m_svd(rng, m, n, sigmas=None, scale=Fr(1)):
    """J = V diag(sigma) W^T with rational orthogonal V (m x m), W (n x n): exact rational singular values.
    returns (J, V, sigma[list of length min(m,n), descending, zeros allowed], W)"""
    r = min(m, n)
    if sigmas is None:
        k = rng.randint(1, r)                                    # rank
        sig = sorted([Fr(rng.randint(1, 40), rng.choice([1, 2, 4, 5, 8])) for _ in range(k)], reverse=True)
        sig += [Fr(0)] * (r - k)
    else:
        sig = list(sigmas)
    sig = [s * scale for s in sig]
    V, W = cayley(rng, m), cayley(rng, n)
    S = [[sig[i] if i == j and i < r else Fr(0) for j in range(n)] for i in range(m)]
    J = matmul(matmul(V, S), transpose(W))
    return J, V, sig, W


def unit_vector(rng, n):
    """rational unit vector by stereographic projection of a random integer point"""
    while True:
        t = [Fr(rng.randint(-4, 4), rng.choice([1, 1, 2, 3])) for _ in range(n - 1)]
        s = sum(x * x for x in t)
        v = [2 * x / (1 + s) for x in t] + [(s - 1) / (1 + s)]
        if any(x != 0 for x in v):
            rng.shuffle(v)
            return v


def m_unit(rng, m, n, scale=Fr(1)):
    """rows = rational norm x rational unit vector; returns (J, norms)"""
    norms = [Fr(rng.randint(1, 30), rng.choice([1, 2, 3, 4])) * scale for _ in range(m)]
    rows = []
    for d in norms:
        u = unit_vector(rng, n)
        rows.append([d * x for x in u])
    return rows, norms


def m_int(rng, m, n, lo=-5, hi=5, kind=None):
    kind = kind or rng.choice(["plain", "plain", "dup", "zero", "lowrank"])
    J = [[rng.randint(lo, hi) for _ in range(n)] for _ in range(m)]
    if kind == "dup" and m > 1:
        J[rng.randrange(m)] = list(J[rng.randrange(m)])
    if kind == "zero":
        J[rng.randrange(m)] = [0] * n
    if kind == "lowrank" and m > 1:
        a, b = rng.randrange(m), rng.randrange(m)
        J[a] = [rng.choice([-2, -1, 2, 3]) * x for x in J[b]]
    return fmat(J)


def all_small(mmax=3, nmax=3):
    """all matrices with entries in {-1,0,1} up to mmax x nmax"""
    for m in range(1, mmax + 1):
        for n in range(1, nmax + 1):
            for ent in itertools.product((-1, 0, 1), repeat=m * n):
                yield [[Fr(ent[i * n + j]) for j in range(n)] for i in range(m)]


def m_adv(rng, m, n, dtype):
    """hard float matrices: nearly antiparallel rows, badly scaled rows, rank deficient, stationary, extreme scale"""
    kind = rng.choice(["antiparallel", "imbalanced", "rankdef", "stationary", "scaled", "gauss"])
    g = torch.Generator().manual_seed(rng.randrange(2 ** 31))
    J = torch.randn(m, n, generator=g, dtype=torch.float64)
    if kind == "antiparallel" and m >= 2:
        eps = 10.0 ** (-rng.choice([2, 4, 6, 8]))
        J[1] = -J[0] * rng.uniform(0.5, 2.0) + eps * J[1]
    elif kind == "imbalanced":
        e = torch.tensor([10.0 ** rng.uniform(-6, 6) for _ in range(m)], dtype=torch.float64)
        J = J * e[:, None]
    elif kind == "rankdef" and m >= 2:
        J[-1] = J[0] * 2 - (J[1] if m > 2 else 0)
    elif kind == "stationary" and m >= 2:
        J[-1] = -J[:-1].sum(0)
    elif kind == "scaled":
        ex = rng.uniform(-10, 12) if dtype == torch.float32 else rng.uniform(-80, 80)
        J = J * (10.0 ** ex)
    return J.to(dtype), kind


def to_tensor(J, dtype=torch.float64):
    return torch.tensor([[float(x) for x in r] for r in J], dtype=dtype)


def exact_of(t):
    """exact rational value of every entry of a float tensor"""
    return [[Fr(float(x)) for x in row] for row in t.double().tolist()]


def gram(J):
    return matmul(J, transpose(J))


def ulp(dtype):
    return float(torch.finfo(dtype).eps) / 2


def dependent_rows(rng, m, n):
    """integer matrix of rank m-1 with an UNAMBIGUOUS rank: m-1 independent, reasonably conditioned integer rows and a
    last row that is an integer combination of two of them (no duplicated rows).  All entries are small integers, so
    the matrix and its Gramian are exact in float32/float64: the smallest singular value is 0 up to the SVD's own
    backward error, 15 orders of magnitude below the others."""
    import numpy as np
    assert m >= 3 and n >= m - 1
    while True:
        rows = [[rng.randint(-6, 6) for _ in range(n)] for _ in range(m - 1)]
        sv = np.linalg.svd(np.array(rows, dtype=float), compute_uv=False)
        if sv[-1] > 0 and sv[0] / sv[-1] < 12:
            break
    a, b = rng.sample(range(m - 1), 2)
    ca, cb = rng.choice([1, 1, 2, -1]), rng.choice([1, 1, -1, 2])
    rows.append([ca * x + cb * y for x, y in zip(rows[a], rows[b])])
    order = list(range(m))
    rng.shuffle(order)
    return [[Fr(v) for v in rows[i]] for i in order]
