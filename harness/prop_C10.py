"""C10 — the order of the objectives does not matter."""
from __future__ import annotations

import itertools
from fractions import Fraction as Fr

import torch

from aggs import catalogue
from common import Ctx
from matrices import m_int, to_tensor
from prop_C03 import TRUSTED
from prop_C08 import attempt, relerr, well_conditioned

INVARIANT = {"UPGrad", "DualProj", "MGDA", "Mean", "Sum", "AlignedMTL", "IMTLG", "ConFIG", "CAGrad", "TrimmedMean",
             "Krum", "GradDrop", "Constant"}


def one(ctx: Ctx, spec, dtype, m, exhaustive):
    rng = ctx.rng
    m = max(m, spec.min_rows)
    if spec.name == "Krum":
        m = max(m, 5)      # with m - f - 2 = 1 neighbour, mutually nearest rows have EXACTLY tied scores (excluded)
    n = rng.choice([m, m + 1, m + 2])
    if not (spec.pinv or spec.solver) and spec.name != "Krum" and rng.random() < 0.5:
        # nearly aligned rows of very different lengths (the minimum-norm point sits at a vertex)
        base = [Fr(rng.randint(1, 9)) for _ in range(n)]
        J = [[Fr(rng.choice([1, 3, 7, 20])) * b + Fr(rng.randint(-3, 3), 16) for b in base] for _ in range(m)]
        ctx.count("family", "aligned-unbalanced")
    elif spec.pinv or spec.solver or spec.ties or spec.threshold:
        J = well_conditioned(rng, m, n)
    else:
        J = [[Fr(rng.randint(-9, 9)) + Fr(rng.randint(0, 7), 8) for _ in range(n)] for _ in range(m)]   # no exact ties
    Jt = to_tensor(J, dtype)
    import prop_C08
    prop_C08._FLOOR[0] = float(Jt.abs().max())
    pv = None
    if spec.pref is not None and (rng.random() < 0.7 or spec.pref == "weights"):
        if spec.pref == "leak":
            pv = [rng.choice([0.0, 0.25, 0.5, 0.75, 1.0]) for _ in range(m)]
        elif spec.pref == "weights":
            pv = rng.sample([-3, -2, -1, 1, 2, 3, 4, 5], m)
        else:
            pv = rng.sample([1, 2, 3, 4, 5, 6], m)
    seed = rng.randrange(10 ** 6)
    A = spec.make(m, dtype, pv)
    st, x = attempt(A, Jt, seed)
    rp = {"aggregator": spec.name, "pref": str(pv), "J": [[str(v) for v in r] for r in J], "dtype": str(dtype), "torch_seed": seed}
    if st != "ok":
        ctx.violation(f"{spec.name} raised {x}", rp)
        return
    tol = (2e-3 if dtype == torch.float32 else 1e-8) * (50 if (spec.solver or spec.pinv) else 1)
    perms = list(itertools.permutations(range(m)))
    if not exhaustive:
        perms = rng.sample(perms, min(len(perms), 6))
    for p in perms:
        p = list(p)
        Ap = spec.make(m, dtype, None if pv is None else [pv[i] for i in p])
        stp, y = attempt(Ap, Jt[p], seed)
        ctx.count("permutations_checked", spec.name)
        if stp != "ok" or relerr(x, y) > tol:
            ctx.violation(f"{spec.name}: permuting the rows (and the {spec.pref or 'configuration'} vector along) by {p} "
                          f"changes the result by {relerr(x, y) if stp == 'ok' else y}", {**rp, "perm": p})
            return
    ctx.case((spec.name, str(J), str(pv), str(dtype)), nontrivial=True,
             sample={"aggregator": spec.name, "rows": m, "pref": str(pv), "permutations": len(perms)})


def main(ctx: Ctx):
    ctx.lean_gate()
    cat = [s for s in catalogue() if s.name in INVARIANT]
    quick = ctx.tier == "quick"
    reps = 5 if quick else 150
    for rep in range(reps):
        for m in ((2, 3, 4) if quick else (2, 3, 4, 5)):
            for spec in cat:
                if spec.solver and (rep or m > 3) and quick:
                    continue
                one(ctx, spec, torch.float64 if rep % 2 == 0 else torch.float32, m, exhaustive=(m <= (4 if quick else 5)))
    for rep in range(0 if quick else 30):
        for spec in cat:
            if not spec.solver:
                one(ctx, spec, torch.float64, 6, exhaustive=False)
    ctx.cov["exhaustive_permutations"] = "all m! permutations for m <= 4 (quick) / m <= 5 (thorough)"
    return ctx.finish(
        rule="all m! row permutations (m<=4 quick, m<=5 thorough; random ones for m=6) of tie-free matrices (well-"
             "conditioned rational-SVD matrices for the pinv / solver / argmin based aggregators) for UPGrad, DualProj, "
             "MGDA, Mean, Sum, Aligned-MTL, IMTL-G, ConFIG, CAGrad, TrimmedMean, Krum, GradDrop (fixed seed) and Constant, "
             "with NON-UNIFORM preference / weight / leak vectors permuted along",
        trusted=TRUSTED)
