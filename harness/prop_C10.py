"""C10 — the order of the objectives does not matter."""
from __future__ import annotations

import itertools
from fractions import Fraction as Fr

import torch

from aggs import catalogue
from common import Ctx
from matrices import dependent_rows, m_int, to_tensor
from prop_C03 import TRUSTED
from prop_C08 import attempt, relerr, well_conditioned

INVARIANT = {"UPGrad", "DualProj", "MGDA", "Mean", "Sum", "AlignedMTL", "IMTLG", "ConFIG", "CAGrad", "TrimmedMean", "TrimmedMean0",
             "Krum", "GradDrop", "Constant"}


def mgda_margin(Jt, epsilon=1e-3, max_iters=100):
    """smallest relative margin of any discrete decision of the Frank-Wolfe iteration (argmin gap, line-search branches,
    stopping test), measured in double precision.  Used ONLY to skip inputs on which a row permutation may legitimately
    change the path (the property excludes score ties; §4.2, theorem C10b.mgda_row_perm_of_margin)."""
    G = (Jt.double() @ Jt.double().T)
    m = G.shape[0]
    sc = float(G.abs().max()) or 1.0
    alpha = torch.ones(m, dtype=torch.float64) / m
    mg = 1.0
    for _ in range(max_iters):
        ga = G @ alpha
        vals = ga.sort().values
        if m > 1:
            mg = min(mg, float(vals[1] - vals[0]) / sc)
        t = int(torch.argmin(ga))
        a, b, c = float(ga[t]), float(alpha @ ga), float(G[t, t])
        mg = min(mg, abs(c - a) / sc, abs(b - a) / sc)
        gamma = 1.0 if c <= a else (0.0 if b <= a else (b - a) / (b + c - 2 * a))
        mg = min(mg, abs(gamma - epsilon))
        e = torch.zeros(m, dtype=torch.float64)
        e[t] = 1.0
        alpha = (1 - gamma) * alpha + gamma * e
        if gamma < epsilon:
            break
    return mg


def one(ctx: Ctx, spec, dtype, m, exhaustive):
    rng = ctx.rng
    m = max(m, spec.min_rows)
    if spec.name == "Krum":
        m = max(m, 5)      # with m - f - 2 = 1 neighbour, mutually nearest rows have EXACTLY tied scores (excluded)
    n = rng.choice([m, m + 1, m + 2])
    if not (spec.pinv or spec.solver) and spec.name != "Krum" and rng.random() < 0.5:
        # nearly aligned rows of very different lengths (the minimum-norm point sits at a vertex)
        base = [Fr(rng.randint(1, 9)) for _ in range(n)]
        J = [[Fr(rng.choice([1, 3, 7, 20])) * b + Fr(rng.randint(-3, 3), 16) for b in base] for _ in range(m)]
        ctx.count("family", "aligned-unbalanced")
    elif spec.pinv and not spec.solver and m >= 3 and rng.random() < 0.3:
        # rank-deficient with an unambiguous rank: one row is a combination of two others (not a duplicate)
        J = dependent_rows(rng, m, rng.choice([m - 1, m, m + 2]))
        n = len(J[0])
        ctx.count("family", "dependent-rows")
        if spec.name == "IMTLG":
            from agg_common import ask_agg, fr_list
            dn = [Fr(float(v)) for v in to_tensor(J, torch.float64).norm(dim=1).tolist()]
            rep = ask_agg(ctx.driver, "imtlgp", J, d=dn, guard=Fr(1, 10 ** 12))
            wm = None if rep is None else fr_list(rep[1])
            if wm is None or all(v == 0 for v in wm) or sum(abs(v) for v in wm) > 50:
                ctx.count("skipped_low_margin", "IMTLG: weights sum near zero")     # discontinuity of v / sum(v), §4.2
                return
    elif spec.name == "MGDA" and m >= 3 and rng.random() < 0.6:
        # conflicting rows of which two or more have EXACTLY the same (smallest) norm — rows that are signed permutations of
        # each other; not a tie of the algorithm's scores (its start is the barycentre), so the order must not matter
        base = rng.sample([1, 2, 3, 5, 7], 3)
        n = 3
        J = []
        for i in range(m):
            pr = rng.sample(range(3), 3)
            J.append([Fr(rng.choice([-1, 1]) * base[pr[c]]) for c in range(3)])
        if rng.random() < 0.5:
            J[-1] = [v * 3 for v in J[-1]]
        ctx.count("family", "MGDA:equal-norm-rows")
    elif spec.pinv or spec.solver or spec.ties or spec.threshold:
        J = well_conditioned(rng, m, n)
    else:
        J = [[Fr(rng.randint(-9, 9)) + Fr(rng.randint(0, 7), 8) for _ in range(n)] for _ in range(m)]   # no exact ties
    zero_row = None
    if spec.pref == "pref" and m >= 3 and rng.random() < 0.25:
        # an objective whose gradient vanishes exactly (anywhere but necessarily last), with a NON-uniform preference
        zero_row = rng.randrange(m - 1)
        J = [([Fr(0)] * len(r) if i == zero_row else r) for i, r in enumerate(J)]
        ctx.count("family", "zero-row-with-preference")
    Jt = to_tensor(J, dtype)
    import prop_C08
    prop_C08._FLOOR[0] = float(Jt.abs().max())
    pv = None
    if spec.pref is not None and (rng.random() < 0.7 or spec.pref == "weights" or zero_row is not None):
        if spec.pref == "leak":
            pv = [rng.choice([0.0, 0.25, 0.5, 0.75, 1.0]) for _ in range(m)]
        elif spec.pref == "weights":
            pv = rng.sample([-3, -2, -1, 1, 2, 3, 4, 5], m)
        else:
            pv = rng.sample([1, 2, 3, 4, 5, 6], m)
            if rng.random() < 0.3:
                pv[rng.randrange(m)] = 0          # an objective with zero preference (first, last or in between)
    seed = rng.randrange(10 ** 6)
    A = spec.make(m, dtype, pv)
    int_pref = spec.name in ("UPGrad", "DualProj") and pv is not None and rng.random() < 0.4   # (they convert the preference themselves)
    if int_pref:
        # the preference vector handed over as an INTEGER tensor (small integers are exact in every dtype)
        cls = type(A)
        mk_int = lambda q: cls(pref_vector=torch.tensor([int(v) for v in q], dtype=torch.int64))      # noqa: E731
        A = mk_int(pv)
        ctx.count("family", "integer-preference-tensor")
    # (two rows: no path to depend on — exact line search reaches the minimum-norm point of the segment in one step from
    #  anywhere, theorem C18.mgda_two_rows_exact — so the margin rule applies from three rows on)
    if spec.name == "Krum":
        # exact (or nearly exact) score ties are excluded by the property: the selection then depends on the index order
        # (thorough tier, seed 2: a rational-SVD matrix with four rows of EXACTLY equal score)
        Dk = torch.cdist(Jt.double(), Jt.double(), compute_mode="donot_use_mm_for_euclid_dist")
        sck = Dk.topk(k=m - 1 - 2 + 1, largest=False).values[:, 1:].sum(dim=1).sort().values
        if float(sck[1] - sck[0]) < 1e-6 * max(float(sck[0]), 1e-300):
            ctx.count("skipped_low_margin", "Krum: score tie")
            return
    if spec.name == "MGDA" and m >= 3 and mgda_margin(Jt) < (1e-3 if dtype == torch.float32 else 1e-7):
        ctx.count("skipped_low_margin", "MGDA")       # a near-tie in some iteration: the path may depend on the row order
        return
    st, x = attempt(A, Jt, seed)
    rp = {"aggregator": spec.name, "pref": str(pv), "J": [[str(v) for v in r] for r in J], "dtype": str(dtype), "torch_seed": seed}
    if st != "ok":
        ctx.violation(f"{spec.name} raised {x}", rp)
        return
    tol = (2e-3 if dtype == torch.float32 else 1e-8) * (50 if (spec.solver or spec.pinv) else 1)
    perms = list(itertools.permutations(range(m)))
    if not exhaustive:
        perms = rng.sample(perms, min(len(perms), 6))
    for p in perms:
        p = list(p)
        Ap = spec.make(m, dtype, None if pv is None else [pv[i] for i in p])
        if int_pref:
            Ap = mk_int([pv[i] for i in p])
        stp, y = attempt(Ap, Jt[p], seed)
        ctx.count("permutations_checked", spec.name)
        if stp != "ok" or relerr(x, y) > tol:
            ctx.violation(f"{spec.name}: permuting the rows (and the {spec.pref or 'configuration'} vector along) by {p} "
                          f"changes the result by {relerr(x, y) if stp == 'ok' else y}", {**rp, "perm": p})
            return
    ctx.case((spec.name, str(J), str(pv), str(dtype)), nontrivial=True,
             sample={"aggregator": spec.name, "rows": m, "pref": str(pv), "permutations": len(perms)})


def snap(x, dtype):
    """exact rational value of x rounded to dtype"""
    return Fr(torch.tensor(float(x), dtype=dtype).item())


def trimmed_outliers(ctx: Ctx, dtype):
    """TrimmedMean on >= 5 non-integer rows with outliers 1e6..1e12 times larger than the entries that are kept: the
    result is a function of the SORTED columns, so no row order may change it beyond the rounding of the kept entries
    (a rewrite that sums everything and subtracts the extremes depends on the order through cancellation)"""
    from torchjd.aggregation import TrimmedMean
    rng = ctx.rng
    b = rng.choice([1, 1, 2])
    m = rng.randint(2 * b + 3, 2 * b + 5)
    n = rng.choice([1, 2, 4])
    J = [[snap(rng.uniform(-3, 3) + rng.choice([0, 10]), dtype) for _ in range(n)] for _ in range(m)]
    big = 10.0 ** rng.choice([6, 8, 11]) if dtype == torch.float64 else 10.0 ** rng.choice([4, 5, 6])
    for c in range(n):
        for r in rng.sample(range(m), rng.randint(1, b)):          # at most b outliers per column: all of them are trimmed
            J[r][c] = snap(rng.choice([-1, 1]) * big * rng.uniform(1, 9), dtype)
    Jt = to_tensor(J, dtype)
    A = TrimmedMean(trim_number=b)
    x = A(Jt)
    kept = 13.0
    tol = 64 * float(torch.finfo(dtype).eps) * kept * m
    rp = {"aggregator": f"TrimmedMean({b})", "J": [[str(v) for v in r] for r in J], "dtype": str(dtype)}
    perms = list(itertools.permutations(range(m))) if m <= 5 else [rng.sample(range(m), m) for _ in range(60)]
    for p in perms:
        p = list(p)
        y = A(Jt[p])
        ctx.count("permutations_checked", "TrimmedMean:outliers")
        if not bool(torch.isfinite(y).all()) or float((x - y).abs().max()) > tol:
            ctx.violation(f"TrimmedMean({b}): permuting the rows by {p} changes the result by {float((x - y).abs().max()):.3e} "
                          f"(allowance {tol:.1e}: rounding of the {m - 2 * b} entries kept per column, all below {kept})",
                          {**rp, "perm": p})
            return
    ctx.case(("tm-outliers", str(J), b, str(dtype)), nontrivial=True,
             sample={"aggregator": f"TrimmedMean({b})", "family": "outliers", "rows": m, "permutations": len(perms)})


def trimmed_repeated(ctx: Ctx, dtype):
    """TrimmedMean on columns with REPEATED non-zero entries (sign-compressed / clipped gradients: values in {-3, 0, 3, 7}):
    the result is a function of the sorted column — a run of equal values that spans the trimming boundary is trimmed by
    COUNT, whichever rows carry it.  (No tie is excluded here: equal entries are not "scores".)"""
    from torchjd.aggregation import TrimmedMean
    rng = ctx.rng
    b = rng.choice([1, 2, 2, 3])
    m = rng.randint(2 * b + 1, 2 * b + 4)
    n = rng.choice([1, 2, 3])
    J = [[float(rng.choice([-3, 0, 3, 3, 7])) for _ in range(n)] for _ in range(m)]
    Jt = torch.tensor(J, dtype=dtype)
    A = TrimmedMean(trim_number=b)
    exp = torch.tensor([sum(sorted(J[r][c] for r in range(m))[b:m - b]) / (m - 2 * b) for c in range(n)], dtype=torch.float64)
    rp = {"aggregator": f"TrimmedMean({b})", "family": "repeated values", "J": J, "dtype": str(dtype)}
    perms = list(itertools.permutations(range(m))) if m <= 5 else [rng.sample(range(m), m) for _ in range(80)]
    for p in [list(range(m))] + [list(q) for q in perms]:
        y = A(Jt[p])
        ctx.count("permutations_checked", "TrimmedMean:repeated-values")
        if float((y.double() - exp).abs().max()) > 1e-5:
            ctx.violation(f"TrimmedMean({b}) on columns with repeated entries, rows in the order {p}: {y.tolist()}; the mean of the "
                          f"sorted columns without their {b} smallest and {b} largest entries is {exp.tolist()}", {**rp, "perm": p})
            return
    ctx.case(("tm-repeated", str(J), b, str(dtype)), nontrivial=True,
             sample={"aggregator": f"TrimmedMean({b})", "family": "repeated values", "rows": m})


def krum_small_scale(ctx: Ctx):
    """Krum on a single-precision matrix of SMALL gradients (entries ~1e-7) with clearly separated scores (relative gaps of
    several percent): the selection is a function of the matrix — nothing absolute (an epsilon added to the scores or to the
    distances) may decide it"""
    from torchjd.aggregation import Krum
    rng = ctx.rng
    m = rng.choice([5, 6, 7])
    n = rng.choice([2, 3, 5])
    f = 1
    k = rng.choice([1, 2])
    g = torch.Generator().manual_seed(rng.randrange(2 ** 31))
    J0 = torch.randn(m, n, generator=g, dtype=torch.float64)
    D = torch.cdist(J0, J0)
    sc = D.topk(k=m - f - 2 + 1, largest=False).values[:, 1:].sum(dim=1).sort().values
    gaps = (sc[1:] - sc[:-1]) / sc[1:]
    if float(gaps.min()) < 0.03:
        ctx.count("skipped_low_margin", "Krum small scale: score gap below 3%")
        return
    Jt = (J0 * 2.0 ** -23).to(torch.float32)
    A = Krum(n_byzantine=f, n_selected=k)
    x = A(Jt)
    rp = {"aggregator": f"Krum({f},{k})", "family": "small scale, single precision", "J": Jt.tolist()}
    perms = [rng.sample(range(m), m) for _ in range(30)]
    for p in perms:
        y = A(Jt[p])
        ctx.count("permutations_checked", "Krum:small-scale")
        if float((x - y).abs().max()) > 1e-3 * float(Jt.abs().max()):
            ctx.violation(f"Krum({f},{k}) on a float32 matrix with entries ~1e-7 and score gaps >= 3%: permuting the rows by {p} "
                          f"changes the result from {x.tolist()} to {y.tolist()}", {**rp, "perm": p})
            return
    ctx.case(("krum-small", m, n, k, str(Jt.tolist())), nontrivial=True,
             sample={"aggregator": f"Krum({f},{k})", "family": "small scale", "rows": m})


def top_of_range(ctx: Ctx, dtype):
    """finite matrices whose first column sits near the top of the dtype's range with mixed signs: Mean, Constant (small
    weights) and TrimmedMean (extremes trimmed) have a finite value without intermediate overflow in every row order, so
    every order must give that value (and none may be rejected as non-finite)"""
    from torchjd.aggregation import Constant, Mean, TrimmedMean
    rng = ctx.rng
    top = float(torch.finfo(dtype).max)
    m = 6
    signs = [1, -1, 1, -1, 1, -1]
    rng.shuffle(signs)
    Jt = torch.tensor([[signs[i] * top * rng.uniform(0.55, 0.95), rng.uniform(-3, 3), rng.uniform(-3, 3)] for i in range(m)],
                      dtype=dtype)
    w = torch.tensor([rng.choice([0.05, 0.1, 0.15, 0.2]) for _ in range(m)], dtype=dtype)
    rp = {"family": "top-of-range", "J": Jt.tolist(), "dtype": str(dtype), "weights": w.tolist()}
    for name, make in (("Mean", lambda p: Mean()), ("Constant", lambda p: Constant(w[p])),
                       ("TrimmedMean(2)", lambda p: TrimmedMean(trim_number=2))):
        try:
            x = make(list(range(m)))(Jt)
        except Exception as e:  # noqa: BLE001
            ctx.violation(f"{name} raised {type(e).__name__} on a finite matrix (first column near {top:.1e})", {**rp, "aggregator": name})
            return
        scale = torch.tensor([top, 3.0, 3.0], dtype=torch.float64)
        for _ in range(40):
            p = rng.sample(range(m), m)
            ctx.count("permutations_checked", f"{name}:top-of-range")
            try:
                y = make(p)(Jt[p])
            except Exception as e:  # noqa: BLE001
                ctx.violation(f"{name}: the row order {p} of a finite matrix is rejected ({type(e).__name__}) while the "
                              f"original order is accepted", {**rp, "aggregator": name, "perm": p})
                return
            d = (x.double() - y.double()).abs() / scale
            if not bool(torch.isfinite(y).all()) or float(d.max()) > 1e-5:
                ctx.violation(f"{name}: permuting the rows by {p} changes the result from {x.tolist()} to {y.tolist()}",
                              {**rp, "aggregator": name, "perm": p})
                return
        ctx.case(("top", name, str(Jt.tolist()), str(dtype)), nontrivial=True,
                 sample={"aggregator": name, "family": "top-of-range", "dtype": str(dtype)})


def main(ctx: Ctx):
    ctx.lean_gate()
    for i in range(6 if ctx.tier == "quick" else 400):
        trimmed_outliers(ctx, torch.float64 if i % 2 == 0 else torch.float32)
        top_of_range(ctx, torch.float32 if i % 2 == 0 else torch.float64)
        trimmed_repeated(ctx, torch.float64 if i % 2 == 0 else torch.float32)
        trimmed_repeated(ctx, torch.float32 if i % 2 == 0 else torch.float64)
        krum_small_scale(ctx)
        krum_small_scale(ctx)
    cat = [s for s in catalogue() if s.name in INVARIANT]
    quick = ctx.tier == "quick"
    reps = 5 if quick else 150
    for rep in range(reps):
        for m in ((2, 3, 4) if quick else (2, 3, 4, 5)):
            for spec in cat:
                if spec.solver and (rep or m > 3) and quick:
                    continue
                one(ctx, spec, torch.float64 if rep % 2 == 0 else torch.float32, m, exhaustive=(m <= (4 if quick else 5)))
    for rep in range(0 if quick else 30):
        for spec in cat:
            if not spec.solver:
                one(ctx, spec, torch.float64, 6, exhaustive=False)
    ctx.cov["exhaustive_permutations"] = "all m! permutations for m <= 4 (quick) / m <= 5 (thorough)"
    return ctx.finish(
        rule="all m! row permutations (m<=4 quick, m<=5 thorough; random ones for m=6) of tie-free matrices (well-"
             "conditioned rational-SVD matrices for the pinv / solver / argmin based aggregators) for UPGrad, DualProj, "
             "MGDA, Mean, Sum, Aligned-MTL, IMTL-G, ConFIG, CAGrad, TrimmedMean, Krum, GradDrop (fixed seed) and Constant, "
             "with NON-UNIFORM preference / weight / leak vectors permuted along",
        trusted=TRUSTED)
