"""writes MANIFEST.json from the table below (single source of truth for the registered checks)"""
import json
from pathlib import Path

VERIF = Path(__file__).resolve().parent.parent
TITLES = {}
for ln in (VERIF / "properties.jsonl").read_text().splitlines():
    p = json.loads(ln)
    TITLES[p["id"]] = p["title"]

# id -> (technique, level text, level note, design ref)
NOTE_AUTOJAC = ("Trusted: Lean kernel; contract of torch.autograd.grad (DESIGN §3); the harness; the hand-written model "
                "lean/TjdModel/Autojac/*.lean, tied to /repo on every run by exact differential execution on P-int "
                "programs. Floating point is not modelled (values are integers, hence exact in float32/64).")
NOTE_AGG = ("Trusted: Lean kernel; numerical kernels (SVD, quadprog, pinv, eigh, CLARABEL/ECOS, sort/topk/cdist, RNG) by "
            "contract, their USE is modelled; the harness and its tolerances (derived from conditioning, DESIGN §4.5); floats "
            "are not modelled: consequences for floats are checked, not proved.")
CLAIMED = {
    "C01": ("Lean 4 theorems (backward_eq_spec, backward_order_indep, ...) over all engines/aggregators/orders/chunk "
            "sizes + exact correspondence of the executable model with torchjd.backward on random integer programs",
            "backward_eq_spec proves, for every autograd engine, tensor list, input order, aggregator, chunk size and "
            "initial .grad, that the model of Accumulate∘Aggregate∘Jac∘Diagonalize∘Init deposits exactly the slices of "
            "A(J); the same model function is executed against the real backward() and .grad is compared exactly.",
            NOTE_AUTOJAC, "DESIGN.md §5 C01"),
    "C02": ("Lean 4 theorem mtl_eq_spec (+ row order, task params under any aggregator, overlap rejection) + exact "
            "correspondence with torchjd.mtl_backward on random trunk/heads programs",
            "mtl_eq_spec characterises every .grad after mtl_backward for all engines, task lists, parameter lists and "
            "aggregators; the model is executed against the real mtl_backward (explicit, defaulted and one-shot iterable "
            "parameter collections) with exact comparison.", NOTE_AUTOJAC, "DESIGN.md §5 C02"),
    "C05": ("Lean 4 theorems (constant_fullJac_eq_vjp, backward_constant_eq_autograd, backward_sum_eq_autograd) + twin-graph "
            "comparison with torch.autograd.backward",
            "Linear aggregators are proved to deposit the vector-Jacobian product torch.autograd computes (engine contract); "
            "torchjd and torch.autograd are run on twin graphs and compared exactly (integer programs) or to 1e-10 (smooth).",
            NOTE_AUTOJAC, "DESIGN.md §5 C05"),
    "C06": ("Lean 4 refinement proof of a heap with storage identities to the abstract .grad state (accumulate_refines, "
            "created_grad_is_fresh, frame, backward_repeat) + history correspondence incl. storage pointers",
            "Accumulation/creation/frame/freshness are proved for all histories over the heap model; real call histories "
            "(with zeroing, None, in-place edits) are compared step by step with the model: values, tensor data, aliasing.",
            NOTE_AUTOJAC, "DESIGN.md §5 C06"),
    "C07": ("Lean 4 theorems on the literal chunk index arithmetic (chunks_partition/count/size, jac_chunk_irrelevant, "
            "no_vmap_when_sequential) + exhaustive (m,k) correspondence with sweep-counting hooks",
            "Chunk ranges tile the rows for every m and k, the update is chunk-independent (proved on the model of "
            "backward and mtl_backward); all (m,k) pairs up to 8 (quick) / 12 (thorough) are run on the real code with a "
            "hook observing every sweep and a vmap-incompatible op for the sequential cases.",
            NOTE_AUTOJAC, "DESIGN.md §5 C07"),
    "C12": ("Lean 4 correctness proof of the breadth-first walk (bfs_eq_reach, termination fuel, tensor-level "
            "reachability) + defaulted-vs-explicit correspondence on extracted autograd graphs",
            "The walk of _get_descendant_accumulate_grads is proved to return exactly the AccumulateGrad nodes reachable "
            "without entering an excluded tensor, for all graphs; the real graph of every generated program is extracted "
            "and handed to the model; defaulted and explicit calls are compared on twin graphs.",
            NOTE_AUTOJAC, "DESIGN.md §5 C12"),
    "C13": ("Lean 4 theorems on a liveness model of the engine (backward_liveness_eq_single, mtl_liveness_eq_joint, "
            "retain_true_identity) + call-history correspondence with twin graphs driven by torch.autograd",
            "Relative to the engine's liveness contract, chunked backward is proved equivalent to one engine call and "
            "mtl_backward to the joint call; histories of up to 3 calls are run on the real code, on a torch-driven twin and "
            "on the model over the extracted graph.",
            NOTE_AUTOJAC + " The liveness contract (which nodes a call executes/releases) is assumed and validated by the "
            "twin comparison; the cut condition of mtl_liveness_eq_joint is a hypothesis.", "DESIGN.md §5 C13"),
    "C14": (
        "Lean 4 theorems over an inductive term language (type soundness by structural induction) + "
        "exhaustive/sampled correspondence of the typing model with the real transforms",
        "Theorems in lean/TjdProps/C14.lean hold for all terms, depths and key universes; the model they are "
        "about is executed against the real Composition/Conjunction/Stack/Select/Init/Diagonalize/Accumulate "
        "and the six dictionary classes on every generated term.",
        "Trusted: Lean kernel; harness; the model is shape-level (no tensor values). Error kinds inside "
        "ill-typed applications are diagnostics only.",
        "DESIGN.md §5 C14"),
    "C15": ("Lean 4 theorems per transform (grad_is_vjp, jac_rows_are_grads, diagonalize_spec, stack_spec, "
            "aggregate_spec, ...) + exact correspondence driving each transform directly",
            "Each building-block transform is specified by a theorem for all key counts/shapes/batch/chunk sizes; the "
            "real transforms are driven directly with integer cotangents and compared exactly with the model.",
            NOTE_AUTOJAC + " Chaining (jac_chain) is checked on the implementation only (no Lean theorem).",
            "DESIGN.md §5 C15"),
    "C20": ("Lean 4 theorems (backward_rejected_changes_nothing for every error path, mtl_rejected_changes_nothing for "
            "every argument fault, pre-fix counter-witness) + malformed-stream correspondence with .grad snapshots",
            "For every rejection the model is proved to leave all .grad unchanged; every rejection kind is injected at "
            "every argument position on random programs and the real .grad snapshot is compared.",
            NOTE_AUTOJAC, "DESIGN.md §5 C20"),

    "C03": ("Lean 4 theorems over any ordered field (kkt_minimizer, qp_min_unique, qp_min_exists [C03c: existence of the "
            "projection by finite descent over faces, no completeness used], dualproj_is_projection, "
            "upgrad_is_sum_of_projections, no_conflict_identity, ...) + exact-rational correspondence on rational-SVD matrices",
            "The returned weights are proved to be THE minimiser of the regularised QP (KKT certificate, uniqueness by "
            "positive definiteness, existence for every matrix / preference vector / reg_eps > 0), UPGrad the sum of the m projections; the model is executed on matrices whose largest "
            "singular value is exactly rational and compared with the real aggregators; KKT is also evaluated exactly on "
            "the implementation's own weights.", NOTE_AGG, "DESIGN.md §5 C03, §10"),
    "C04": ("Lean 4 theorems (dualproj/upgrad_nonconflict, minnorm_certificate, minNorm_total [the min-norm point exists and the certified search finds it], "
            "mgda_nonconflict, mgda_fw_rate, cagrad_nonconflict_of_optimality, weights_perturbation_row_bound; C04b end to end: "
            "backward with UPGrad/DualProj on any program succeeds and deposits a non-conflicting update) + the Lean "
            "predicate NonConflictUpTo evaluated exactly on the implementation's output",
            "The stated allowances are proved for UPGrad/DualProj/MGDA including the Frank-Wolfe rate 8s²/(K+2); the "
            "predicate is evaluated with exact rationals on adversarial and exhaustive {-1,0,1} matrices. CAGrad: non-conflict is proved "
            "from the first-order optimality of the solver's answer (a kernel contract, measured); allowance per objective "
            "(2e-6 |j_i| s + 32 ulp s^2) |omega|_1.", NOTE_AGG, "DESIGN.md §5 C04, §10.3, §10.19"),
    "C08": ("Lean 4 theorems (gramian_aggregator_equivariant and instances, config_in_rowspan, column permutation / "
            "zero-column lemmas; C17b imtlgP_orthogonal_invariant for any rank) + implementation vs the exact any-rank "
            "pseudo-inverse model on rank-deficient matrices + metamorphic correspondence with rational orthogonal Q",
            "Every aggregator of the form J^T W(JJ^T) is proved equivariant under orthogonal changes of coordinates, "
            "column-wise ones under column permutations and zero columns; the real aggregators are checked on J, JQ, "
            "permuted and padded matrices.", NOTE_AGG, "DESIGN.md §5 C08, §10"),
    "C09": ("Lean 4 theorems (fixed_weights_linear, pcgrad_linear_under_scaling via the vector-space refinement, "
            "config_linear_under_scaling; C09b: reg_close_to_unreg, unreg_scaleRows, upgrad_unreg_linear, "
            "upgrad_linearity_defect_sq, upgrad_defect_bound_computed) + scaling-triple correspondence; UPGrad's proved "
            "defect bound evaluated exactly by the model on the implementation's outputs along a reg_eps ladder",
            "Exact linearity under positive row scaling is proved for the aggregators the property lists; for UPGrad the "
            "defect bound is proved in squared form (|defect|^2 <= 3 m reg_eps (s^2 S(c) + ...), S from the un-regularised "
            "minimisers, whose existence is a hypothesis supplied by the model's certified search).", NOTE_AGG, "DESIGN.md §5 C09, §10.3"),
    "C10": ("Lean 4 theorems (combine_row_perm, isQPMin_perm + uniqueness => dualproj/upgrad_row_perm, "
            "trimmedMean/graddrop_row_perm; MGDA: minnorm_point_unique, minnorm_point_row_perm, mgda_perm_defect [the target is order-independent, two runs differ by <= 32 s^2/(K+2)]; "
            "C10b MGDA/Krum under a positive margin; C17b imtlgP_row_perm / configP_row_perm at any "
            "rank, no uniqueness hypothesis) + exhaustive m! permutation correspondence",
            "Row-permutation invariance is proved for linear, QP-based, TrimmedMean and GradDrop models; MGDA, Krum, CAGrad, "
            "IMTL-G, ConFIG, Aligned-MTL are covered by the exhaustive permutation check (ties excluded).",
            NOTE_AGG, "DESIGN.md §5 C10, §10.3"),
    "C11": ("Lean 4 theorems (validation decision tables rejects_*_iff and ctor_rejects_iff, scale-invariance of every weighting model, pre-fix "
            "counter-witness for IMTL-G) + validation-table correspondence and observed totality/purity/homogeneity",
            "The validation table and positive homogeneity of the models are proved; finiteness over 27 orders of "
            "magnitude, dtype preservation, history independence and seeded reproducibility are OBSERVED on the "
            "implementation (runtime facts).", NOTE_AGG, "DESIGN.md §5 C11, §10.3"),
    "C16": ("Lean 4 theorems (trimmedMeanCol_robust by a counting argument on the sorted column, krum_selects_lowest_scores, "
            "krum_neighbourhood) + corrupted-row correspondence",
            "Robustness of the trimmed mean to any b corrupted rows and Krum's selection rule are proved for all inputs; "
            "the real aggregators are run on honest clusters with arbitrary corrupted rows and compared with the exact model.",
            NOTE_AGG, "DESIGN.md §5 C16"),
    "C17": ("Lean 4 theorems (imtlg_equal_projections, config_cosines, config_length, aligned_balanced; C17b: the pseudo-inverse "
            "certificate at any rank is unique, means least squares / minimum norm / equals P d for every Penrose inverse P) + exact-rational "
            "correspondence on matrices with rational row norms / spectrum",
            "The defining equal-projection / cosine / balance equations are proved from certificate-checked kernels; the "
            "real aggregators are compared with the exact model and the defining equations are evaluated on their output.",
            NOTE_AGG, "DESIGN.md §5 C17"),
    "C18": ("Lean 4 theorems (fwStep_simplex/monotone, mgda_two_rows_exact, pcgrad_refines, graddrop_coordinate, "
            "cagrad_distance, softmax_positive_sum_one) + candidate-set correspondence over all random draws",
            "The published definitions are proved for the models for every draw; the implementation's results under many "
            "seeds must lie in the candidate sets the model enumerates over ALL projection orders / sign choices.",
            NOTE_AGG, "DESIGN.md §5 C18"),
    "C19": ("Lean 4 theorems on the NashMTL state machine (reset_eq_fresh, schedule, reuse_unchanged, subsampled_equiv, "
            "max_norm_bound) for every solver + black-box history correspondence",
            "For an arbitrary solver function, reset/schedule/reuse/sub-sampling/norm-bound are proved over all histories; "
            "real instances are driven through exhaustive short histories and compared with fresh instances, a k=1 twin and "
            "the schedule model.", NOTE_AGG + " The cvxpy/ECOS iteration is an opaque deterministic kernel.",
            "DESIGN.md §5 C19"),
}
PENDING_REASON = "check not built yet in this round (see DESIGN.md §9 order of work); nothing is claimed for it"

checks = []
for pid, (tech, text, note, ref) in sorted(CLAIMED.items()):
    checks.append({
        "property_id": pid,
        "quick_cmd": f"./check {pid} --tier quick",
        "thorough_cmd": f"./check {pid} --tier thorough",
        "evidence_file": f"evidence/{pid}.json",
        "replay_cmd_template": f"./check {pid} --replay {{path}}",
        "engine": "lean-model+correspondence",
        "level_claimed": {"category": "proof", "text": text, "design_ref": ref},
        "level_note": note,
        "technique": tech,
    })
manifest = {
    "version": 1,
    "setup_cmd": "cd lean && lake build",
    "hooks": {
        "guard": "TORCHJD_VERIF",
        "enable": "no source hook is needed: every observable is reachable through the public API",
        "baseline_off_cmd": "cd /repo && /venv/bin/python -m pytest -ra -q -p no:cacheprovider --timeout=900 --continue-on-collection-errors",
        "source_commits": [],
        "add_only": True,
    },
    "engines": [{
        "name": "lean-model+correspondence",
        "path": "lean/ (model TjdModel, lemmas TjdLemmas, theorems TjdProps, driver Main) + harness/",
        "serves_properties": sorted(CLAIMED),
        "kind_free_text": "hand-written executable Lean 4 model with kernel-checked theorems; tied to /repo on "
                          "every run by differential execution of the compiled model against the real torchjd",
    }],
    "checks": checks,
    "not_applicable": [{"property_id": pid, "reason": PENDING_REASON}
                       for pid in sorted(TITLES) if pid not in CLAIMED],
    "notes": "exit 0 ok / 1 VIOLATION / 2 infrastructure failure. VERIF_SEED selects the PRNG seed.",
}
(VERIF / "MANIFEST.json").write_text(json.dumps(manifest, indent=1) + "\n")
print("claimed", sorted(CLAIMED))
