"""writes MANIFEST.json from the table below (single source of truth for the registered checks)"""
import json
from pathlib import Path

VERIF = Path(__file__).resolve().parent.parent
TITLES = {}
for ln in (VERIF / "properties.jsonl").read_text().splitlines():
    p = json.loads(ln)
    TITLES[p["id"]] = p["title"]

# id -> (technique, level text, level note, design ref)
CLAIMED = {
    "C14": (
        "Lean 4 theorems over an inductive term language (type soundness by structural induction) + "
        "exhaustive/sampled correspondence of the typing model with the real transforms",
        "Theorems in lean/TjdProps/C14.lean hold for all terms, depths and key universes; the model they are "
        "about is executed against the real Composition/Conjunction/Stack/Select/Init/Diagonalize/Accumulate "
        "and the six dictionary classes on every generated term.",
        "Trusted: Lean kernel; harness; the model is shape-level (no tensor values). Error kinds inside "
        "ill-typed applications are diagnostics only.",
        "DESIGN.md §5 C14"),
}
PENDING_REASON = "check not built yet in this round (see DESIGN.md §9 order of work); nothing is claimed for it"

checks = []
for pid, (tech, text, note, ref) in sorted(CLAIMED.items()):
    checks.append({
        "property_id": pid,
        "quick_cmd": f"./check {pid} --tier quick",
        "thorough_cmd": f"./check {pid} --tier thorough",
        "evidence_file": f"evidence/{pid}.json",
        "replay_cmd_template": f"./check {pid} --replay {{path}}",
        "engine": "lean-model+correspondence",
        "level_claimed": {"category": "proof", "text": text, "design_ref": ref},
        "level_note": note,
        "technique": tech,
    })
manifest = {
    "version": 1,
    "setup_cmd": "cd lean && lake build",
    "hooks": {
        "guard": "TORCHJD_VERIF",
        "enable": "no source hook is needed: every observable is reachable through the public API",
        "baseline_off_cmd": "cd /repo && /venv/bin/python -m pytest -ra -q -p no:cacheprovider --timeout=900 --continue-on-collection-errors",
        "source_commits": [],
        "add_only": True,
    },
    "engines": [{
        "name": "lean-model+correspondence",
        "path": "lean/ (model TjdModel, lemmas TjdLemmas, theorems TjdProps, driver Main) + harness/",
        "serves_properties": sorted(CLAIMED),
        "kind_free_text": "hand-written executable Lean 4 model with kernel-checked theorems; tied to /repo on "
                          "every run by differential execution of the compiled model against the real torchjd",
    }],
    "checks": checks,
    "not_applicable": [{"property_id": pid, "reason": PENDING_REASON}
                       for pid in sorted(TITLES) if pid not in CLAIMED],
    "notes": "exit 0 ok / 1 VIOLATION / 2 infrastructure failure. VERIF_SEED selects the PRNG seed.",
}
(VERIF / "MANIFEST.json").write_text(json.dumps(manifest, indent=1) + "\n")
print("claimed", sorted(CLAIMED))
