"""C07 — parallel_chunk_size is a pure performance knob: same update for every chunk size, exactly
ceil(rows/k) sweeps of at most k rows, no batched (vmap) differentiation with k = 1 or a single row."""
from __future__ import annotations

import math

import torch

from autojac_common import fmt_grads, model_backward, model_mtl, real_backward, real_mtl
from common import Ctx, sx
from progs import MTL, Program, grow, numel, to_scalar
from prop_C01 import TRUSTED

F = torch._C._functorch


class NoBatchedBackward(torch.autograd.Function):
    """y = 2x whose backward refuses batched cotangents: stands for computations vmap cannot handle"""

    @staticmethod
    def forward(ctx, x):
        return 2 * x

    @staticmethod
    def backward(ctx, g):
        if F.is_batchedtensor(g):
            raise RuntimeError("NoBatchedBackward: batched cotangent (vmap) reached a vmap-incompatible op")
        return 2 * g


def make_hook(rec):
    def hook(g):
        if F.is_batchedtensor(g):
            u = F.get_unwrapped(g)
            rec.append((int(u.shape[F.maybe_get_bdim(g)]), True))
        else:
            rec.append((1, False))
    return hook


def compositions(rng, m):
    parts = []
    while m > 0:
        p = rng.randint(1, min(m, 4))
        parts.append(p)
        m -= p
    return parts


def chunk_program(rng, m, novmap):
    """leaf x -> gate g (hooked) -> random ops -> outputs with numels summing to m"""
    P = Program()
    n = rng.choice([1, 2, 3, 4])
    x = P.add_leaf((n,), [rng.choice([-2, -1, 1, 2, 3]) for _ in range(n)])
    if novmap:
        g = P.add_aff(lambda t: NoBatchedBackward.apply(t[0]), [x], "NoBatchedBackward(n0)")[0]
    else:
        g = P.add_aff(lambda t: t[0].clone(), [x], "n0.clone()")[0]
    pool = [g]
    if rng.random() < 0.5:
        sh = rng.choice([(), (2,), (1, 2)])
        y = P.add_leaf(sh, [rng.choice([-1, 1, 2]) for _ in range(numel(sh))])
        pool.extend(P.add_aff(lambda t: t[0].reshape(-1)[:1].sum() * 1 + t[1].sum() * 0 + t[0].reshape(-1).sum(),
                              [g, y], "mix(g,y)") if False else [])
        other = y
    else:
        other = None
    grow(rng, P, pool, rng.choice([0, 1, 2]), max_numel=6)
    dep = [i for i in pool if g in ancestors(P, i) or i == g]
    outs = []
    for p in compositions(rng, m):
        s = rng.choice(dep)
        ns = numel(P.nodes[s].shape)
        W = [[rng.choice([-2, -1, 1, 2]) for _ in range(ns)] for _ in range(p)]
        if other is not None and rng.random() < 0.4:
            no = numel(P.nodes[other].shape)
            V = [[rng.choice([-1, 0, 1]) for _ in range(no)] for _ in range(p)]
            o = P.add_aff(lambda t, W=W, V=V: torch.tensor(W, dtype=t[0].dtype) @ t[0].reshape(-1)
                          + torch.tensor(V, dtype=t[1].dtype) @ t[1].reshape(-1), [s, other], f"W@n{s}+V@n{other}",
                          has_saved=True)[0]
        else:
            o = P.add_aff(lambda t, W=W: torch.tensor(W, dtype=t[0].dtype) @ t[0].reshape(-1), [s], f"W{p}@n{s}",
                          has_saved=True)[0]
        if rng.random() < 0.3 and p > 1:
            o = P.add_mul(o, o)
        if rng.random() < 0.4:
            # a differentiated tensor of 2 or more dimensions: it still contributes numel rows
            shapes = [(1, p), (p, 1), (1, 1, p)] + [(a, p // a) for a in range(2, p) if p % a == 0]
            sh = rng.choice(shapes)
            o = P.add_aff(lambda t, sh=sh: t[0].reshape(sh), [o], f"n{o}.reshape{sh}")[0]
        outs.append(o)
    return P, g, outs


def ancestors(P, i):
    seen, stack = set(), list(P.parents(i))
    while stack:
        n = stack.pop()
        if n not in seen:
            seen.add(n)
            stack.extend(P.parents(n))
    return seen


def expected_sweeps(m, k):
    kk = m if k is None else k
    n = math.ceil(m / kk)
    sizes = [kk] * (n - 1) + [m - (n - 1) * kk]
    return [(s, s != 1) for s in sizes]


def check_backward(ctx: Ctx, m, ks, novmap=False):
    P, g, outs = chunk_program(ctx.rng, m, novmap)
    leaves = P.leaves()
    w = [ctx.rng.randint(-5, 7) for _ in range(m)]
    base = None
    for k in ks:
        for retain in (False, True):
            rec = []
            ts = P.build(torch.float64)
            ts[g].register_hook(make_hook(rec))
            rerr, rg, _ = real_backward(P, torch.float64, outs, leaves, ("const", w), k, retain, {}, leaves, ts=ts)
            merr, mg, msw = model_backward(ctx.driver, P, outs, leaves, ("const", w), k, retain, {}, leaves)
            ctx.case(("bw", tuple(P.describe()), m, k, retain, novmap), nontrivial=True,
                     sample={"program": P.describe(), "rows": m, "chunk": k, "retain": retain,
                             "sweeps_observed": rec, "novmap_op": novmap})
            ctx.count("pairs_backward", f"m={m}")
            rp = {"api": "backward", "program": P.describe(), "prog_sx": sx(P.to_sx()), "outs": outs, "rows": m,
                  "chunk": k, "retain": retain, "weights": w, "novmap_op": novmap}
            if novmap and not (k == 1 or m == 1):
                continue      # batched sweeps legitimately fail on the vmap-incompatible op
            if rerr is not None:
                ctx.violation(f"backward failed ({rerr}) with parallel_chunk_size={k}, rows={m}"
                              + (" although differentiation must be sequential (vmap-incompatible op in graph)"
                                 if novmap else ""), rp)
                return
            if rg != mg:
                ctx.violation(f"update differs from the model for chunk={k}: {fmt_grads(rg)} vs {fmt_grads(mg)}", rp)
                return
            if base is None:
                base = rg
            elif rg != base:
                ctx.violation(f"update depends on parallel_chunk_size: {fmt_grads(rg)} (k={k}) vs {fmt_grads(base)}", rp)
                return
            exp = expected_sweeps(m, k)
            if rec != exp:
                ctx.violation(f"sweeps through the graph with chunk={k}, rows={m}: observed (rows,batched) {rec}, "
                              f"expected {exp} = ceil(m/k) blocks of <=k rows, batched iff >1 row", {**rp, "observed": rec})
                return
            if [(r, v) for r, v, _ in msw] != exp:
                ctx.violation(f"model sweeps {msw} differ from ceil(m/k) schedule {exp}", rp, no_input=False)
                return


def mtl_program(rng, T, novmap=False, novmap_heads=False):
    M = MTL()
    P = M.P
    n = rng.choice([1, 2, 3])
    x = P.add_leaf((n,), [rng.choice([-2, -1, 1, 2]) for _ in range(n)])
    if novmap:
        g = P.add_aff(lambda t: NoBatchedBackward.apply(t[0]), [x], "NoBatchedBackward(n0)")[0]
    else:
        g = P.add_aff(lambda t: t[0].clone(), [x], "n0.clone()")[0]
    pool = [g]
    grow(rng, P, pool, rng.choice([1, 2]), max_numel=6)
    feats = [i for i in pool if i != g][: rng.choice([1, 2])] or [g]
    M.shared_leaves, M.features = [x], feats
    if rng.random() < 0.5:
        # a shared parameter of the same size that nothing depends on, listed first: its columns are zero for every chunk size
        z = P.add_leaf((n,), [rng.choice([-1, 1, 2]) for _ in range(n)])
        M.shared_leaves = [z, x]
    for t in range(T):
        own = []
        if rng.random() < 0.6 and not novmap_heads:
            own.append(P.add_leaf((2,), [rng.choice([-1, 1, 2]) for _ in range(2)]))
        hf = list(feats)
        if novmap_heads:
            # the op that cannot be batched sits in the HEAD: no head may be differentiated through vmap either
            hf = [P.add_aff(lambda t_: NoBatchedBackward.apply(t_[0]), [f], f"NoBatchedBackward(n{f})")[0] for f in feats]
        hp = hf + own
        M.losses.append(to_scalar(rng, P, hp))
        M.task_leaves.append(own)
    return M, g


def check_mtl(ctx: Ctx, T, ks, novmap=False, novmap_heads=False):
    M, g = mtl_program(ctx.rng, T, novmap, novmap_heads)
    P = M.P
    leaves = P.leaves()
    w = [ctx.rng.randint(-5, 7) for _ in range(T)]
    base = None
    retain_opts = (True,) if M.nested_features() else (False, True)
    for k in ks:
        for retain in retain_opts:
            rec = []
            ts = P.build(torch.float64)
            ts[g].register_hook(make_hook(rec))
            rerr, rg, _ = real_mtl(P, torch.float64, M.losses, M.features, M.task_leaves, M.shared_leaves,
                                   ("const", w), k, retain, {}, leaves, ts=ts)
            if T <= 25:
                merr, mg, msw = model_mtl(ctx.driver, P, M.losses, M.features, M.task_leaves, M.shared_leaves,
                                          ("const", w), k, retain, {}, leaves)
            else:
                # many tasks: the update is compared across chunk sizes and the sweeps with the schedule only (the
                # exact model is evaluated on the small cases; its cost grows quickly with the number of heads)
                merr, mg = None, (rg if base is None else base)
            ctx.case(("mtl", tuple(P.describe()), T, k, retain), nontrivial=True)
            ctx.count("pairs_mtl", f"T={T}")
            rp = {"api": "mtl_backward", "program": P.describe(), "prog_sx": sx(P.to_sx()), "losses": M.losses,
                  "features": M.features, "tasks": M.task_leaves, "shared": M.shared_leaves, "chunk": k,
                  "retain": retain, "weights": w}
            if rerr is not None or rg != mg:
                ctx.violation(f"mtl_backward with chunk={k}: err={rerr}, {fmt_grads(rg)} vs model {fmt_grads(mg)}"
                              + (" (a vmap-incompatible op sits between the features and the parameters; differentiation "
                                 "must be sequential here)" if novmap else ""), rp)
                return
            if base is None:
                base = rg
            elif rg != base:
                ctx.violation(f"mtl update depends on parallel_chunk_size: k={k}", rp)
                return
            exp = expected_sweeps(T, k)
            if rec != exp:
                ctx.violation(f"sweeps between features and shared parameters with chunk={k}, rows={T}: observed "
                              f"{rec}, expected {exp}", {**rp, "observed": rec})
                return


def main(ctx: Ctx):
    ctx.lean_gate()
    quick = ctx.tier == "quick"
    mmax = 8 if quick else 12
    reps = 1 if quick else 4
    for rep in range(reps):
        for m in range(1, mmax + 1):
            ks = [None] + list(range(1, m + 3))
            check_backward(ctx, m, ks)
        for m in (range(1, 9) if quick else range(1, 13)):
            check_backward(ctx, m, [1] + ([None, 2, m + 1] if m == 1 else []), novmap=True)
        for T in range(1, (6 if quick else 9)):
            check_mtl(ctx, T, [None] + list(range(1, T + 3)))
            check_mtl(ctx, T, [1] if T > 1 else [None, 1, 2, 3], novmap=True)
            # heads without parameters of their own, a vmap-incompatible op in every head: every chunk size must work (the
            # heads are differentiated one loss at a time whatever the chunk size)
            check_mtl(ctx, T, [None, 1, 2, T + 1], novmap_heads=True)
    if quick:
        for m in (9, 10, 11, 12):
            ks = sorted(set(ctx.rng.sample(range(1, m + 3), 4)))
            check_backward(ctx, m, [None] + ks)
    # many rows: nothing in the schedule may depend on an absolute row count (caps on the batch size, thresholds)
    for m in ((65, 130) if quick else (65, 66, 100, 129, 130, 257)):
        check_backward(ctx, m, [None, 64, 100, m + 1])
    for T in ((70,) if quick else (65, 70, 130)):
        check_mtl(ctx, T, [None, 64, T + 1])
    ctx.cov["exhaustive"] = True
    ctx.cov["exhaustive_space"] = f"all (m, k) with m <= {mmax}, k in {{None, 1..m+2}}, retain_graph both ways"
    return ctx.finish(
        rule="for every row count m and every chunk size k in {None,1..m+2} (all pairs m<=8 quick / m<=12 thorough, "
             "both retain_graph values; plus m in {65, 130, ...} with k in {None, 64, 100, m+1}): a P-int program with a hooked gate tensor below the differentiated tensors; "
             ".grad compared exactly across k and with the Lean model; hook records (rows, batched?) per sweep and "
             "must equal the ceil(m/k) schedule; a vmap-incompatible op sits in the graph for k=1 / single-row calls; "
             "same for mtl_backward with T losses (sweeps between features and shared parameters)",
        trusted=TRUSTED + ["torch._C._functorch.is_batchedtensor identifies batched (vmap) cotangents"])
