import TjdProps.C14
import TjdProps.C01
