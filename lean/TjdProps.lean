import TjdProps.C01
import TjdProps.C01Example
import TjdProps.C05
import TjdProps.C07
import TjdProps.C14
import TjdProps.C15
import TjdProps.C02
import TjdProps.C20
