import TjdProps.C14
