/-
  S-expression reader/printer used by the line protocol between the Python harness and the
  compiled model driver.  Core Lean only.
-/
namespace Tjd

inductive SExp where
  | atom (s : String)
  | list (xs : List SExp)
  deriving Repr, Inhabited, BEq

namespace SExp

partial def toStr : SExp → String
  | atom s => s
  | list xs => "(" ++ " ".intercalate (xs.map toStr) ++ ")"

instance : ToString SExp := ⟨toStr⟩

/-- tokeniser: parentheses are tokens, everything else is split on white space -/
def tokenize (s : String) : List String :=
  let rec go (cs : List Char) (cur : List Char) (acc : List String) : List String :=
    let flush (cur : List Char) (acc : List String) :=
      if cur.isEmpty then acc else String.ofList cur.reverse :: acc
    match cs with
    | [] => (flush cur acc).reverse
    | c :: rest =>
      if c = '(' || c = ')' then go rest [] (String.singleton c :: flush cur acc)
      else if c = ' ' || c = '\n' || c = '\t' || c = '\r' then go rest [] (flush cur acc)
      else go rest (c :: cur) acc
  go s.toList [] []

/-- parse one expression from a token list (fuel = number of tokens) -/
def parseTokens : Nat → List String → Option (SExp × List String)
  | 0, _ => none
  | _, [] => none
  | fuel + 1, t :: rest =>
    if t = "(" then
      let rec items (f : Nat) (toks : List String) (acc : List SExp) :
          Option (SExp × List String) :=
        match f, toks with
        | 0, _ => none
        | _, [] => none
        | f + 1, ")" :: r => some (list acc.reverse, r)
        | f + 1, toks =>
          match parseTokens fuel toks with
          | none => none
          | some (e, r) => items f r (e :: acc)
      items (fuel + 1) rest []
    else if t = ")" then none
    else some (atom t, rest)

def parse (s : String) : Option SExp :=
  let toks := tokenize s
  match parseTokens (toks.length + 1) toks with
  | some (e, []) => some e
  | _ => none

def sym? : SExp → Option String
  | atom s => some s
  | _ => none

def list? : SExp → Option (List SExp)
  | list xs => some xs
  | _ => none

def nat? : SExp → Option Nat
  | atom s => s.toNat?
  | _ => none

def int? : SExp → Option Int
  | atom s => s.toInt?
  | _ => none

/-- rational atom `p` or `p/q` -/
def rat? : SExp → Option Rat
  | atom s =>
    match s.splitOn "/" with
    | [p] => p.toInt?.map (fun (i : Int) => (i : Rat))
    | [p, q] =>
      match p.toInt?, q.toNat? with
      | some pi, some qn => if qn = 0 then none else some ((pi : Rat) / (qn : Rat))
      | _, _ => none
    | _ => none
  | _ => none

def natList? (e : SExp) : Option (List Nat) := do
  let xs ← e.list?
  xs.mapM nat?

def ratList? (e : SExp) : Option (List Rat) := do
  let xs ← e.list?
  xs.mapM rat?

def ratMat? (e : SExp) : Option (List (List Rat)) := do
  let xs ← e.list?
  xs.mapM ratList?

def ofNat (n : Nat) : SExp := atom (toString n)
def ofInt (n : Int) : SExp := atom (toString n)
def ofRat (q : Rat) : SExp :=
  if q.den = 1 then atom (toString q.num) else atom (toString q.num ++ "/" ++ toString q.den)
def ofNats (xs : List Nat) : SExp := list (xs.map ofNat)
def ofRats (xs : List Rat) : SExp := list (xs.map ofRat)
def ofRatMat (xs : List (List Rat)) : SExp := list (xs.map ofRats)
def ofBool (b : Bool) : SExp := atom (if b then "true" else "false")
def bool? : SExp → Option Bool
  | atom "true" => some true
  | atom "false" => some false
  | _ => none

/-- look up `(key v...)` in an association-style list `((k1 ...) (k2 ...))`; returns the tail -/
def field? (e : SExp) (key : String) : Option (List SExp) :=
  match e with
  | list xs => xs.findSome? fun x =>
      match x with
      | list (atom k :: vs) => if k = key then some vs else none
      | _ => none
  | _ => none

def field1? (e : SExp) (key : String) : Option SExp :=
  match e.field? key with
  | some [v] => some v
  | _ => none

end SExp
end Tjd
