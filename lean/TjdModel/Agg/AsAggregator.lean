/-
  The weighting models of TjdModel/Agg packaged as AGGREGATORS in the sense of the autojac model
  (`Mat α → Except Err (Vec α)`: what `backward` / `mtl_backward` are handed), so that theorems can be stated about
  the composition  autojac ∘ aggregation  — what a user of `torchjd.backward(tensors, UPGrad())` actually runs.
  Mirrors `_WeightedAggregator.forward` (`combine(matrix, weighting(matrix))`) with `_ConstantWeighting`'s row-count
  check for an explicit preference vector.  The SVD kernel (largest singular value) is the parameter `sv`.
  Core Lean only.
-/
import TjdModel.Err
import TjdModel.Agg.Gramian
namespace Tjd.Agg
open Tjd

section
variable {α : Type} [Zero α] [One α] [Add α] [Sub α] [Mul α] [Div α] [Neg α] [DecidableEq α] [Inhabited α]
  [LT α] [LE α] [DecidableLT α] [DecidableLE α]

/-- `UPGrad(pref_vector = u, norm_eps, reg_eps)`; a failing QP solve is the ValueError of `_project_weight_vector` -/
def upgradAgg (sv : Mat α → α) (normEps regEps : α) (u : Vec α) : Mat α → Except Err (Vec α) :=
  fun J =>
    if J.length ≠ u.length then .error Err.value
    else match upgradWeights J (sv J) normEps regEps u with
      | some (w, _) => .ok (combine (ncols J) J w)
      | none => .error Err.value

/-- `DualProj(pref_vector = u, norm_eps, reg_eps)` -/
def dualprojAgg (sv : Mat α → α) (normEps regEps : α) (u : Vec α) : Mat α → Except Err (Vec α) :=
  fun J =>
    if J.length ≠ u.length then .error Err.value
    else match dualprojWeights J (sv J) normEps regEps u with
      | some (w, _) => .ok (combine (ncols J) J w)
      | none => .error Err.value

end
end Tjd.Agg
