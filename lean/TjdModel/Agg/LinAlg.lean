/-
  Small exact linear algebra over a field with decidable equality: Gauss–Jordan solve, used by the
  certified checkers (QP active sets, G v = d, pseudo-inverse on full row rank).  Core Lean only.
  Nothing here is trusted by the theorems: every use is followed by an exact residual check.
-/
import TjdModel.Basic
namespace Tjd.Agg
open Tjd

section
variable {α : Type} [Zero α] [One α] [Add α] [Sub α] [Mul α] [Div α] [DecidableEq α] [Inhabited α]

/-- one elimination step on an augmented matrix (rows = equations); `col` is the pivot column, `r` the
    number of pivots found so far -/
def elimStep (rows : List (List α)) (col r : Nat) : List (List α) × Bool :=
  -- find a pivot row at index ≥ r with non-zero entry in `col`
  match (rows.zipIdx.drop r).find? (fun p => p.1.getD col 0 ≠ 0) with
  | none => (rows, false)
  | some (prow, pi) =>
    let pv := prow.getD col 0
    let prow' := prow.map (· / pv)
    -- swap rows r and pi
    let rows1 := rows.zipIdx.map fun (row, i) =>
      if i = r then prow' else if i = pi then rows.getD r [] else row
    let rows2 := rows1.zipIdx.map fun (row, i) =>
      if i = r then row else
        let f := row.getD col 0
        List.zipWith (fun a b => a - f * b) row prow'
    (rows2, true)

/-- Gauss–Jordan on `[A | b]` with `n` unknowns; returns some solution of `A x = b` if the system is
    consistent (free variables set to 0) -/
def solve (A : Mat α) (b : Vec α) (n : Nat) : Option (Vec α) :=
  let aug := List.zipWith (fun row bi => row ++ [bi]) A b
  let rec go (fuel col r : Nat) (rows : List (List α)) (pivots : List (Nat × Nat)) :
      List (List α) × List (Nat × Nat) :=
    match fuel with
    | 0 => (rows, pivots)
    | fuel + 1 =>
      if col ≥ n then (rows, pivots) else
      let (rows', found) := elimStep rows col r
      if found then go fuel (col + 1) (r + 1) rows' ((col, r) :: pivots)
      else go fuel (col + 1) r rows' pivots
  let (rows, pivots) := go (n + 1) 0 0 aug []
  -- consistency: rows below the rank must have zero right-hand side
  let rank := pivots.length
  if (rows.drop rank).any (fun row => row.getD n 0 ≠ 0) then none
  else some ((List.range n).map fun c =>
    match pivots.find? (·.1 == c) with
    | some (_, r) => (rows.getD r []).getD n 0
    | none => 0)

def sqnorm (v : Vec α) : α := dot v v

end
end Tjd.Agg
