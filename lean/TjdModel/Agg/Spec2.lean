/-
  More specification vocabulary for the aggregator theorems (C04, C08–C11, C16–C18).  Core Lean only.
-/
import TjdModel.Agg.Spec
import TjdModel.Agg.Simplex
namespace Tjd.Agg
open Tjd

section
variable {α : Type} [Zero α] [One α] [Add α] [Sub α] [Mul α] [Div α] [Neg α] [LE α] [LT α]

/-- `a` is in the probability simplex of dimension `m` -/
def InSimplex (a : Vec α) (m : Nat) : Prop :=
  a.length = m ∧ (∀ x ∈ a, 0 ≤ x) ∧ a.sum = 1

/-- positive semi-definite on vectors of length `m` -/
def PosSemidef (G : Mat α) (m : Nat) : Prop := ∀ v : Vec α, v.length = m → 0 ≤ qf G v

/-- the mean of the rows: `Jᵀ (1/m, …, 1/m)` -/
def meanRow [NatCast α] (n : Nat) (J : Mat α) : Vec α :=
  combine n J (List.replicate J.length (1 / ((J.length : Nat) : α)))

/-- PCGrad in VECTOR space, as published: row `i` successively projected off every other row it
    conflicts with at that moment, in the order `perm` -/
def pcRow [DecidableLT α] (J : Mat α) (i : Nat) (perm : List Nat) : Vec α :=
  perm.foldl (fun (g : Vec α) j =>
    if j = i then g else
      let gj := J.getD j []
      let ip := dot gj g
      if ip < 0 then vsub g (smul (ip / dot gj gj) gj) else g)
    (J.getD i [])

/-- softmax weights for an abstract exponential `e` -/
def softmaxW (e : α → α) (xs : Vec α) : Vec α :=
  let es := xs.map e
  es.map (· / es.sum)

/-- reorder the entries of a vector by the index list `p` -/
def permV [Inhabited α] (p : List Nat) (v : Vec α) : Vec α := p.map fun i => v.getD i default

/-- `J Q` for a matrix `Q` with `n'` columns: every row `r` becomes `rᵀ Q` -/
def mulRight (n' : Nat) (J Q : Mat α) : Mat α := J.map fun r => combine n' Q r

/-- `Q Qᵀ = I` (rows of `Q` orthonormal), `Q` is `n × n` -/
def Orthogonal (Q : Mat α) (n : Nat) : Prop :=
  Q.length = n ∧ (∀ r ∈ Q, r.length = n) ∧
  ∀ i j, i < n → j < n → dot (Q.getD i []) (Q.getD j []) = if i = j then 1 else 0

/-- `diag(c) J` -/
def scaleRows (c : Vec α) (J : Mat α) : Mat α := List.zipWith smul c J

end
end Tjd.Agg
