/-
  Minimum-norm point of the convex hull of the rows (MGDA's target), by a certified support search:
  the answer is returned only after the exact variational-inequality check
    α ≥ 0, Σ α = 1, (G α)_i ≥ αᵀ G α for all i   (⇔ α minimises αᵀGα on the simplex).
  Core Lean only.
-/
import TjdModel.Agg.Gramian
namespace Tjd.Agg
open Tjd

section
variable {α : Type} [Zero α] [One α] [Add α] [Sub α] [Mul α] [Div α] [Neg α] [DecidableEq α] [Inhabited α]
  [LT α] [LE α] [DecidableLT α] [DecidableLE α]

/-- certificate: `a` is in the simplex and satisfies the variational inequality of the min-norm problem -/
def minNormCheck (G : Mat α) (a : Vec α) : Bool :=
  let ga := matVec G a
  let val := dot a ga
  a.length == G.length && a.all (fun x => decide (0 ≤ x)) && decide (a.sum = 1) &&
  ga.all (fun x => decide (val ≤ x))

/-- candidate with support `S` (`true` = in the support): solve `G_SS a_S = λ 1`, `Σ a_S = 1` -/
def minNormCandidate (G : Mat α) (supp : List Bool) : Option (Vec α) :=
  let m := G.length
  let idx := (List.range m).filter fun i => supp.getD i false
  if idx.isEmpty then none else
  let k := idx.length
  -- unknowns: a_S (k of them) and λ; equations: Σ_j G_ij a_j - λ = 0 (i ∈ S), Σ a_j = 1
  let A : Mat α := (idx.map fun i => (idx.map fun j => (G.getD i []).getD j 0) ++ [(-1 : α)]) ++
                   [List.replicate k (1 : α) ++ [(0 : α)]]
  let b : Vec α := List.replicate k (0 : α) ++ [(1 : α)]
  match solve A b (k + 1) with
  | none => none
  | some x =>
    some ((List.range m).map fun i =>
      match idx.zipIdx.find? (·.1 == i) with
      | some (_, p) => x.getD p 0
      | none => 0)

/-- `(α*, |g*|²)`: weights of the minimum-norm point of the hull and its squared norm -/
def minNorm (G : Mat α) : Option (Vec α × α) :=
  (subsetsBool G.length).findSome? fun supp =>
    match minNormCandidate G supp with
    | none => none
    | some a => if minNormCheck G a then some (a, dot a (matVec G a)) else none

end
end Tjd.Agg
