/-
  Gramian-based weightings: regularised normalised Gramian, the projection QP (certified active-set
  search), UPGrad, DualProj, MGDA (Frank–Wolfe), PCGrad (explicit projection orders).
  Mirrors  src/torchjd/aggregation/{_gramian_utils,_dual_cone_utils,upgrad,dualproj,mgda,pcgrad}.py.
  Core Lean only.
-/
import TjdModel.Agg.LinAlg
namespace Tjd.Agg
open Tjd

section
variable {α : Type} [Zero α] [One α] [Add α] [Sub α] [Mul α] [Div α] [Neg α] [DecidableEq α] [Inhabited α]
  [LT α] [LE α] [DecidableLT α] [DecidableLE α]

def vmin (xs : List α) (dflt : α) : α := xs.foldl (fun a b => if b < a then b else a) (xs.headD dflt)

/-- `_compute_regularized_normalized_gramian`: `J Jᵀ / s²` (zero when `s < norm_eps`) `+ reg_eps·I`;
    `s` = largest singular value of `J` (kernel: torch.linalg.svd) -/
def regNormGram (J : Mat α) (s normEps regEps : α) : Mat α :=
  let m := J.length
  let N : Mat α := if s < normEps then List.replicate m (zeros m)
                   else (gram J).map fun row => row.map (· / (s * s))
  madd N (msmul regEps (ident m))

/-- KKT conditions of  min vᵀGv  s.t.  u ≤ v :  primal feasibility `u ≤ w`, dual feasibility
    `0 ≤ G w`, complementary slackness `(w - u)·(G w) = 0` -/
def kktCheck (G : Mat α) (u w : Vec α) : Bool :=
  let gw := matVec G w
  w.length == u.length && gw.length == u.length &&
  (List.zipWith (fun ui wi => decide (ui ≤ wi)) u w).all id &&
  gw.all (fun x => decide (0 ≤ x)) &&
  decide (dot (vsub w u) gw = 0)

def subsetsBool : Nat → List (List Bool)
  | 0 => [[]]
  | n + 1 => (subsetsBool n).flatMap fun s => [false :: s, true :: s]

/-- candidate for one active set (`true` = constraint active, `w_i = u_i`): solve `(G w)_F = 0` on the
    free indices -/
def qpCandidate (G : Mat α) (u : Vec α) (act : List Bool) : Option (Vec α) :=
  let m := u.length
  let idx := List.range m
  let free := idx.filter fun i => !(act.getD i false)
  let A : Mat α := free.map fun i => free.map fun j => (G.getD i []).getD j 0
  let b : Vec α := free.map fun i =>
    (idx.filter fun j => act.getD j false).foldl (fun acc j => acc - (G.getD i []).getD j 0 * u.getD j 0) 0
  match solve A b free.length with
  | none => none
  | some x =>
    some (idx.map fun i =>
      if act.getD i false then u.getD i 0
      else match free.zipIdx.find? (·.1 == i) with
        | some (_, k) => x.getD k 0
        | none => 0)

/-- the projection QP (`_project_weight_vector`, kernel: quadprog): the answer is returned only after
    the exact KKT check; second component = smallest strict-complementarity margin (decision margin) -/
def qpProject (G : Mat α) (u : Vec α) : Option (Vec α × α) :=
  (subsetsBool u.length).findSome? fun act =>
    match qpCandidate G u act with
    | none => none
    | some w =>
      if kktCheck G u w then
        let gw := matVec G w
        let margins := (List.range u.length).map fun i =>
          if act.getD i false then gw.getD i 0 else w.getD i 0 - u.getD i 0
        some (w, vmin margins 1)
      else none

/-- `_DualProjWrapper.forward`: project the preference vector itself -/
def dualprojWeights (J : Mat α) (s normEps regEps : α) (u : Vec α) : Option (Vec α × α) :=
  qpProject (regNormGram J s normEps regEps) u

/-- `_UPGradWrapper.forward`: project every row of `diag(u)` and sum the weight rows -/
def upgradWeights (J : Mat α) (s normEps regEps : α) (u : Vec α) : Option (Vec α × α) :=
  let m := u.length
  let G := regNormGram J s normEps regEps
  let rows := (List.range m).map fun i =>
    qpProject G ((List.range m).map fun j => if j = i then u.getD i 0 else 0)
  if rows.all Option.isSome then
    let ws := rows.filterMap id
    some (vsum m (ws.map (·.1)), vmin (ws.map (·.2)) 1)
  else none

/-- the vector UPGrad projects for objective `i`: `u_i e_i` (the expression used in `upgradWeights`) -/
def prefRow (m i : Nat) (ui : α) : Vec α := (List.range m).map fun j => if j = i then ui else 0

/-- the individual projections UPGrad sums (certified search on any Gramian `G`): row `i` is the answer for `u_i e_i` -/
def upgradRows (G : Mat α) (u : Vec α) : Option (List (Vec α)) :=
  let m := u.length
  let rows := (List.range m).map fun i => qpProject G (prefRow m i (u.getD i 0))
  if rows.all Option.isSome then some ((rows.filterMap id).map (·.1)) else none

/-- a minimiser of the row-scaled problem obtained from a minimiser `w` of the unscaled one -/
def rescaleW (m i : Nat) (c w : Vec α) : Vec α :=
  (List.range m).map fun k => w.getD k 0 * c.getD i 0 / c.getD k 0

/-- `Σ_i |w₀ᵢ(cc)|²` for the un-regularised minimisers `ws` rescaled to `diag(cc) J`: the quantity that multiplies
    `reg_eps · s²` in the bound on UPGrad's linearity defect (C09) -/
def unregSumsq (ws : List (Vec α)) (cc : Vec α) : α :=
  let m := cc.length
  ((List.range m).map fun i => dot (rescaleW m i cc (ws.getD i [])) (rescaleW m i cc (ws.getD i []))).sum

/-! ### MGDA -/

/-- first index of the minimum (`torch.argmin`) and the gap to the runner-up -/
def argminGap (xs : List α) : Nat × α :=
  let mn := vmin xs 0
  let i := (xs.zipIdx.find? (fun p => p.1 = mn)).map (·.2) |>.getD 0
  let others := (xs.zipIdx.filter (fun p => p.2 ≠ i)).map (·.1)
  (i, if others.isEmpty then 1 else vmin others 0 - mn)

def absV (x : α) : α := if x < 0 then -x else x

/-- one Frank–Wolfe iteration of `_frank_wolfe_solver`; returns `(alpha', gamma, margin)` -/
def fwStep (G : Mat α) (alpha : Vec α) : Vec α × α × α :=
  let m := alpha.length
  let ga := matVec G alpha
  let (t, gap) := argminGap ga
  let et : Vec α := oneHot m t
  let a := dot alpha (matVec G et)
  let b := dot alpha ga
  let c := dot et (matVec G et)
  let gamma : α := if c ≤ a then 1 else if b ≤ a then 0 else (b - a) / (b + c - (1 + 1) * a)
  let alpha' := vadd (smul (1 - gamma) alpha) (smul gamma et)
  (alpha', gamma, vmin [gap, absV (c - a), absV (b - a)] 1)

/-- `_frank_wolfe_solver`: start at the barycentre, at most `maxIters` iterations, stop after the
    update when `gamma < epsilon` -/
def mgdaWeights (G : Mat α) (m : Nat) (mInv : α) (epsilon : α) : Nat → Vec α × α
  | maxIters =>
    let rec go : Nat → Vec α → α → Vec α × α
      | 0, alpha, mg => (alpha, mg)
      | k + 1, alpha, mg =>
        let (alpha', gamma, mg') := fwStep G alpha
        let mg2 := vmin [mg, mg', absV (gamma - epsilon)] 1
        if gamma < epsilon then (alpha', mg2) else go k alpha' mg2
    go maxIters (List.replicate m mInv) 1

/-! ### PCGrad -/

/-- `_PCGradWeighting.forward` for given projection orders: `perms[i]` is the permutation drawn for
    row `i` (an arbitrary ordering of `0..m-1`; `j = i` is skipped) -/
def pcgradWeights (G : Mat α) (perms : List (List Nat)) : Vec α × α :=
  let m := G.length
  let res := (List.range m).map fun i =>
    (perms.getD i []).foldl (fun (st : Vec α × α) j =>
      if j = i then st else
        let cw := st.1
        let ip := dot (G.getD j []) cw
        let mg := vmin [st.2, absV ip] 1
        if ip < 0 then
          (cw.zipIdx.map fun (x, k) => if k = j then x - ip / (G.getD j []).getD j 0 else x, mg)
        else (cw, mg))
      (oneHot m i, (1 : α))
  (vsum m (res.map (·.1)), vmin (res.map (·.2)) 1)

end
end Tjd.Agg
