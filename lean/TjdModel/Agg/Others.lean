/-
  TrimmedMean, Krum, GradDrop, IMTL-G, ConFIG, Aligned-MTL, CAGrad (closed form given the dual
  optimum), the input-validation decision table.
  Mirrors  src/torchjd/aggregation/{trimmed_mean,krum,graddrop,imtl_g,config,aligned_mtl,cagrad,bases,
  constant}.py.  Core Lean only.
-/
import TjdModel.Agg.Gramian
namespace Tjd.Agg
open Tjd

section
variable {α : Type} [Zero α] [One α] [Add α] [Sub α] [Mul α] [Div α] [Neg α] [DecidableEq α] [Inhabited α]
  [LT α] [LE α] [DecidableLT α] [DecidableLE α] [NatCast α]

/-! ### TrimmedMean -/

def sortAsc (xs : List α) : List α := xs.mergeSort (fun a b => decide (a ≤ b))

/-- one column: sort, drop the `b` smallest and `b` largest, average the rest -/
def trimmedMeanCol (b : Nat) (col : List α) : α :=
  let kept := ((sortAsc col).drop b).take (col.length - 2 * b)
  kept.sum / ((col.length - 2 * b : Nat) : α)

/-- `TrimmedMean(b).forward` after validation: column-wise -/
def trimmedMean (b : Nat) (n : Nat) (J : Mat α) : Vec α :=
  (List.range n).map fun c => trimmedMeanCol b (col J c)

/-! ### GradDrop (identity `f`), for a given uniform sample `U` -/

def graddrop (J : Mat α) (leak : Vec α) (U : Vec α) (n : Nat) : Vec α :=
  (List.range n).map fun c =>
    let column := col J c
    let s := column.sum
    let a := (column.map absV).sum
    -- P = 0.5 * (1 + s / a); 0/0 is nan in the code: both comparisons with U are then false
    let pos : Bool := if a = 0 then false else decide (U.getD c 0 < (1 + s / a) / (1 + 1))
    let neg : Bool := if a = 0 then false else decide ((1 + s / a) / (1 + 1) < U.getD c 0)
    (column.zipIdx.map fun (x, i) =>
      let mask : α := (if pos && decide (0 < x) then 1 else 0) + (if neg && decide (x < 0) then 1 else 0)
      let l := leak.getD i 0
      (l + (1 - l) * mask) * x).sum

/-! ### Krum: distances are a kernel (`torch.cdist`, square roots); `D` is the matrix of distances -/

/-- the `k` smallest entries of a list, ascending (`torch.topk(largest=False)` values) -/
def smallest (k : Nat) (xs : List α) : List α := (sortAsc xs).take k

/-- scores: sum of the `m - f - 2` smallest distances to OTHER rows (`topk(k = n_closest + 1)` then the
    first column — the zero self-distance — is dropped) -/
def krumScores (D : Mat α) (f : Nat) : Vec α :=
  let m := D.length
  D.map fun row => ((smallest (m - f - 2 + 1) row).drop 1).sum

/-- indices of the `k` lowest scores (ties: lower index first) and the gap between the `k`-th and the
    `(k+1)`-th score -/
def lowestK (scores : Vec α) (k : Nat) : List Nat × α :=
  let sorted := scores.zipIdx.mergeSort (fun a b => decide (a.1 ≤ b.1))
  let sel := (sorted.take k).map (·.2)
  let gap := match sorted.drop (k - 1) with
    | a :: b :: _ => b.1 - a.1
    | _ => 1
  (sel, gap)

def krumWeights (D : Mat α) (f k : Nat) : Vec α × α :=
  let m := D.length
  let (sel, gap) := lowestK (krumScores D f) k
  ((List.range m).map fun i => (if sel.contains i then 1 else 0) / ((k : Nat) : α), gap)

/-! ### IMTL-G: `d` = row norms (kernel: sqrt), `v = pinv(J Jᵀ) d`; for independent rows `G v = d` -/

def imtlgWeights (J : Mat α) (d : Vec α) (guard : α) : Option (Vec α) :=
  let G := gram J
  match solve G d d.length with
  | none => none
  | some v =>
    if matVec G v = d then                 -- certificate: v = G⁻¹ d  (= pinv(G) d when G is invertible)
      let s := v.sum
      -- guard relative to the magnitude of `v` (code after the `fix:` commit)
      if absV s ≤ guard * (v.map absV).sum then some (zeros d.length) else some (v.map (· / s))
    else none

/-! ### pseudo-inverse of a symmetric matrix applied to a vector, for ANY rank (kernel: `torch.linalg.pinv`).
      `x = pinv(G) d` is the minimum-norm least-squares solution of `G x = d`; for symmetric `G` it is characterised by
      `x ∈ range G` and `G (G x - d) = 0` (the residual is orthogonal to the range).  The search solves `G³ u = G d`
      (always consistent) and takes `x = G u`; the answer is returned only after the exact certificate check. -/

/-- `A Bᵀ` (rows of `A` against rows of `B`); for a symmetric `B` this is `A B` -/
def mulT (A B : Mat α) : Mat α := A.map fun r => B.map (dot r)

/-- the certificate: `x = G u` and `G (G x - d) = 0` -/
def pinvCert (G : Mat α) (d u x : Vec α) : Bool :=
  decide (x = matVec G u) && decide (matVec G (vsub (matVec G x) d) = zeros d.length)

def pinvApply (G : Mat α) (d : Vec α) : Option (Vec α) :=
  let m := d.length
  match solve (mulT (mulT G G) G) (matVec G d) m with
  | none => none
  | some u =>
    let x := matVec G u
    if pinvCert G d u x then some x else none

/-- IMTL-G for any rank: `v = pinv(J Jᵀ) d`, then as `imtlgWeights` -/
def imtlgWeightsP (J : Mat α) (d : Vec α) (guard : α) : Option (Vec α) :=
  match pinvApply (gram J) d with
  | none => none
  | some v =>
    let s := v.sum
    if absV s ≤ guard * (v.map absV).sum then some (zeros d.length) else some (v.map (· / s))

/-- ConFIG for any rank: `pinv(U) w = Uᵀ pinv(U Uᵀ) w` (an identity of the pseudo-inverse), then as `configVec`;
    a zero row has the zero unit row (`nan_to_num`) -/
def configVecP (J : Mat α) (d : Vec α) (w : Vec α) (n : Nat) : Option (Vec α) :=
  let U : Mat α := List.zipWith (fun row di => if di = 0 then row.map (fun _ => 0) else row.map (· / di)) J d
  match pinvApply (gram U) w with
  | none => none
  | some y =>
    let best := combine n U y
    let bb := dot best best
    if bb = 0 then some (zeros n)
    else
      let len := (J.map fun row => dot row best).sum
      some (smul (len / bb) best)

/-! ### ConFIG: `d` = row norms; unit rows `U`; `best = pinv(U) w`; for independent rows
      `pinv(U) = Uᵀ (U Uᵀ)⁻¹`.  `A(J) = (Σ_i ⟨j_i, û⟩) û` with `û = best/|best|` is rational:
      `(Σ_i ⟨j_i, best⟩ / ⟨best, best⟩) · best`. -/

def configVec (J : Mat α) (d : Vec α) (w : Vec α) (n : Nat) : Option (Vec α) :=
  let U : Mat α := List.zipWith (fun row di => row.map (· / di)) J d
  let GU := gram U
  match solve GU w w.length with
  | none => none
  | some y =>
    if matVec GU y = w then
      let best := combine n U y
      let bb := dot best best
      if bb = 0 then some (zeros n)
      else
        let len := (J.map fun row => dot row best).sum
        some (smul (len / bb) best)
    else none

/-! ### Aligned-MTL: eigen-decomposition of `M = J Jᵀ` is a kernel (`eigh`): `V` (columns = eigenvectors,
      given as the list of eigenvectors), `sigma` = square roots of the non-zero eigenvalues, largest
      first.  `B = σ_min · V Σ⁻¹ Vᵀ`, weights `α = B w`. -/

def alignedCert (M : Mat α) (vecs : Mat α) (sigma : Vec α) : Bool :=
  -- orthonormal eigenvectors with eigenvalues σ², σ > 0, and M = Σ σ_i² v_i v_iᵀ
  let m := M.length
  vecs.length == sigma.length &&
  sigma.all (fun s => decide (0 < s)) &&
  (vecs.zipIdx.all fun (v, i) => vecs.zipIdx.all fun (w, j) =>
      decide (dot v w = if i = j then 1 else 0)) &&
  ((List.range m).all fun a => (List.range m).all fun b =>
      decide ((M.getD a []).getD b 0 =
        (List.zipWith (fun v s => s * s * v.getD a 0 * v.getD b 0) vecs sigma).sum))

def alignedWeights (J : Mat α) (vecs : Mat α) (sigma : Vec α) (w : Vec α) : Option (Vec α) :=
  let M := gram J
  let m := M.length
  if sigma.isEmpty then some w                 -- rank 0: identity transformation
  else if alignedCert M vecs sigma then
    let smin := vmin sigma 1
    -- B w = σ_min Σ_i (1/σ_i) v_i (v_i · w)
    some (vsum m (List.zipWith (fun v s => smul (smin / s * dot v w) v) vecs sigma))
  else none

/-! ### CAGrad: the conic programme is a kernel (CLARABEL); given its optimum `w` and the norms
      `g0n = |g_0|`, `gwn = |g_w|` (normalised Gramian) the weights are closed-form -/

def cagradWeights (m : Nat) (c g0n gwn normEps : α) (w : Vec α) : Vec α :=
  if normEps ≤ gwn then
    (List.range m).map fun i => 1 / ((m : Nat) : α) + (c * g0n / gwn) * w.getD i 0
  else zeros m

end

/-! ### input validation (C11): which inputs every aggregator must reject with ValueError -/

inductive AggKind where
  | weighted (rowsRequired : Option Nat)     -- `_WeightedAggregator` (+ Constant / pref_vector length)
  | graddrop (leakLen : Option Nat)
  | trimmedMean (b : Nat)
  | krum (f k : Nat)
  deriving Repr

/-- `true` = rejected with ValueError.  `shape` = tensor shape, `finite` = no nan/inf -/
def rejects (kind : AggKind) (shape : List Nat) (finite : Bool) : Bool :=
  if shape.length ≠ 2 then true
  else
    let m := shape.getD 0 0
    match kind with
    | .weighted req => !finite || (match req with | some r => m ≠ r | none => false)
    | .graddrop req => (match req with | some r => m ≠ r | none => false) || !finite
    | .trimmedMean b => m < 2 * b + 1 || !finite
    | .krum f k => !finite || m < f + 3 || m < k

/-! ### constructor validation: which CONFIGURATIONS are refused with ValueError when the aggregator is built
      (`pref_vector_to_weighting`, `_ConstantWeighting.__init__`, `GradDrop.__init__`, `_CAGradWeighting.__init__`,
      `_KrumWeighting.__init__`, `TrimmedMean.__init__`); a refused configuration never reaches `forward` -/

inductive CtorSpec where
  | prefVector (ndim : Option Nat)      -- UPGrad / DualProj / AlignedMTL / ConFIG: `None` or a tensor of that ndim
  | constant (ndim : Nat)               -- Constant(weights)
  | graddrop (leakNdim : Option Nat)    -- GradDrop(leak = None | tensor)
  | cagrad (cNegative : Bool)           -- CAGrad(c): is `c < 0`?
  | krum (f k : Int)                    -- Krum(n_byzantine, n_selected)
  | trimmedMean (b : Int)               -- TrimmedMean(trim_number)
  deriving Repr

/-- `true` = the constructor raises ValueError -/
def ctorRejects : CtorSpec → Bool
  | .prefVector none => false
  | .prefVector (some d) => d ≠ 1
  | .constant d => d ≠ 1
  | .graddrop none => false
  | .graddrop (some d) => d ≠ 1
  | .cagrad neg => neg
  | .krum f k => f < 0 || k < 1
  | .trimmedMean b => b < 0

end Tjd.Agg
