/-
  Specification vocabulary for the aggregator theorems.  Core Lean only.
-/
import TjdModel.Agg.Others
namespace Tjd.Agg
open Tjd

section
variable {α : Type} [Zero α] [One α] [Add α] [Sub α] [Mul α] [Div α] [Neg α] [LE α] [LT α]

/-- quadratic form `vᵀ G v` -/
def qf (G : Mat α) (v : Vec α) : α := dot v (matVec G v)

/-- `u ≤ v` component-wise, same length -/
def vle (u v : Vec α) : Prop := u.length = v.length ∧ ∀ i, i < u.length → u.getD i 0 ≤ v.getD i 0

/-- `G` is a well-formed symmetric `m × m` matrix -/
def SymmSquare (G : Mat α) (m : Nat) : Prop :=
  G.length = m ∧ (∀ row ∈ G, row.length = m) ∧
  ∀ i j, i < m → j < m → (G.getD i []).getD j 0 = (G.getD j []).getD i 0

/-- `w` minimises `vᵀ G v` over `{v | u ≤ v}` -/
def IsQPMin (G : Mat α) (u w : Vec α) : Prop :=
  vle u w ∧ ∀ v, vle u v → qf G w ≤ qf G v

/-- positive definite on vectors of length `m` -/
def PosDef (G : Mat α) (m : Nat) : Prop :=
  ∀ v : Vec α, v.length = m → (∃ x ∈ v, x ≠ 0) → 0 < qf G v

/-- `J` has `m` rows of length `n` -/
def MatWF (J : Mat α) (m n : Nat) : Prop := J.length = m ∧ ∀ row ∈ J, row.length = n

/-- `x` does not conflict with any row of `J` up to the allowance: `(J x)_i ≥ -allow_i` -/
def NonConflictUpTo (J : Mat α) (x allow : Vec α) : Prop :=
  ∀ i, i < J.length → -(allow.getD i 0) ≤ dot (J.getD i []) x

end
end Tjd.Agg
