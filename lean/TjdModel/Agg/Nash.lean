/-
  C19 — NashMTL as a state machine.  The cvxpy/ECOS iteration (including its internal early stopping
  and warm start from the previous weights) is an opaque deterministic kernel
      solve : (matrix, previous weights) → weights.
  Mirrors `_NashMTLWeighting.{__init__, reset, forward}` of src/torchjd/aggregation/nash_mtl.py.
  Core Lean only.
-/
import TjdModel.Basic
namespace Tjd.Agg
open Tjd

/-- the fields `forward` reads that survive a call: `step` and `prvs_alpha` (the cvxpy problem and
    `normalization_factor` are rebuilt / overwritten before use whenever `step = 0` / a recomputation
    happens) -/
structure NashState (α : Type) where
  step : Nat
  prvs : Vec α

/-- `__init__` and `reset()` -/
def nashFresh {α : Type} [One α] (m : Nat) : NashState α := ⟨0, List.replicate m 1⟩

inductive NashOp (α : Type) where
  | call (J : Mat α)
  | reset

section
variable {α : Type} [One α] [Zero α] [Add α] [Mul α] [Div α] [LT α] [DecidableLT α]

/-- weights before the `max_norm` rescaling, new state, and whether the solver was invoked -/
def nashStep (solve : Mat α → Vec α → Vec α) (k : Nat) (st : NashState α) (J : Mat α) :
    NashState α × Vec α × Bool :=
  if st.step % k = 0 then
    let a := solve J st.prvs
    (⟨st.step + 1, a⟩, a, true)
  else
    (⟨st.step + 1, st.prvs⟩, st.prvs, false)

/-- the `max_norm` rescaling; `norm` is the kernel `‖αᵀJ‖` (a square root) -/
def nashRescale (norm : Mat α → Vec α → α) (maxNorm : α) (J : Mat α) (a : Vec α) : Vec α :=
  if 0 < maxNorm then
    let nrm := norm J a
    if maxNorm < nrm then a.map fun x => x / nrm * maxNorm else a
  else a

/-- run a history of calls and resets; outputs one entry per call: (weights before rescaling,
    weights returned, solver invoked?) -/
def nashRun (solve : Mat α → Vec α → Vec α) (norm : Mat α → Vec α → α) (m k : Nat) (maxNorm : α) :
    NashState α → List (NashOp α) → List (Vec α × Vec α × Bool)
  | _, [] => []
  | st, .reset :: ops => nashRun solve norm m k maxNorm (nashFresh m) ops
  | st, .call J :: ops =>
    let (st', a, inv) := nashStep solve k st J
    (a, nashRescale norm maxNorm J a, inv) :: nashRun solve norm m k maxNorm st' ops

end
end Tjd.Agg
