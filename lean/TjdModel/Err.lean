namespace Tjd

/-- the small enum every Python exception is mapped to by the harness -/
inductive Err where
  | value      -- ValueError
  | type       -- TypeError
  | runtime    -- RuntimeError
  | other      -- anything else (IndexError, KeyError, ...)
  deriving Repr, DecidableEq, Inhabited

def Err.toStr : Err → String
  | .value => "ValueError" | .type => "TypeError" | .runtime => "RuntimeError" | .other => "Other"

instance : ToString Err := ⟨Err.toStr⟩

end Tjd
