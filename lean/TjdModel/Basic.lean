/-
  Vectors and matrices as lists (row-major), generic in the scalar type.
  Executed at `Rat` by the driver; theorems are stated for arbitrary (ordered) fields / rings.
  Core Lean only.
-/
namespace Tjd

abbrev Vec (α : Type) := List α
abbrev Mat (α : Type) := List (List α)   -- list of rows

section
variable {α : Type}

def zeros [Zero α] (n : Nat) : Vec α := List.replicate n 0
def onesV [One α] (n : Nat) : Vec α := List.replicate n 1

def vadd [Add α] (x y : Vec α) : Vec α := List.zipWith (· + ·) x y
def vsub [Sub α] (x y : Vec α) : Vec α := List.zipWith (· - ·) x y
def smul [Mul α] (c : α) (x : Vec α) : Vec α := x.map (c * ·)
def vneg [Neg α] (x : Vec α) : Vec α := x.map (- ·)

def dot [Zero α] [Add α] [Mul α] (x y : Vec α) : α := (List.zipWith (· * ·) x y).sum

/-- `J v` : one dot product per row -/
def matVec [Zero α] [Add α] [Mul α] (J : Mat α) (v : Vec α) : Vec α := J.map (dot · v)

/-- sum of a list of vectors of length `n` -/
def vsum [Zero α] [Add α] (n : Nat) (xs : List (Vec α)) : Vec α := xs.foldl vadd (zeros n)

/-- `wᵀ J = Σ_i w_i · row_i` (a vector with one entry per column): `_WeightedAggregator.combine` -/
def combine [Zero α] [Add α] [Mul α] (n : Nat) (J : Mat α) (w : Vec α) : Vec α :=
  vsum n (List.zipWith smul w J)

def ncols (J : Mat α) : Nat := match J with | [] => 0 | r :: _ => r.length

def col [Inhabited α] (J : Mat α) (c : Nat) : Vec α := J.map (·.getD c default)

def transpose [Inhabited α] (n : Nat) (J : Mat α) : Mat α := (List.range n).map (col J)

/-- Gramian `J Jᵀ` -/
def gram [Zero α] [Add α] [Mul α] (J : Mat α) : Mat α := J.map fun r => J.map (dot r)

def ident [Zero α] [One α] (m : Nat) : Mat α :=
  (List.range m).map fun i => (List.range m).map fun j => if i = j then 1 else 0

def madd [Add α] (A B : Mat α) : Mat α := List.zipWith vadd A B
def msmul [Mul α] (c : α) (A : Mat α) : Mat α := A.map (smul c)

def oneHot [Zero α] [One α] (m i : Nat) : Vec α :=
  (List.range m).map fun j => if j = i then 1 else 0

/-- every row has length `n` and there are `m` rows -/
def Mat.wf (J : Mat α) (m n : Nat) : Bool := J.length == m && J.all (·.length == n)

end
end Tjd
