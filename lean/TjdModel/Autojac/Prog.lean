/-
  P-int programs: a small language of autograd programs whose values and Jacobians are computed
  exactly; `Prog.engine` is the independent oracle for "the true Jacobian" (not torch).
  Core Lean only.
-/
import TjdModel.Autojac.Engine
namespace Tjd.Autojac
open Tjd

inductive PNode (α : Type) where
  | leaf (numel ndim : Nat) (rg : Bool) (vals : Vec α)
  | aff (numel ndim : Nat) (srcs : List (Nat × Mat α)) (const : Vec α)  -- Σ_s M_s x_s + c
  | mul (a b : Nat)                                                      -- element-wise product
  | detach (a : Nat)

abbrev Prog (α : Type) := List (PNode α)

section
variable {α : Type} [Zero α] [One α] [Add α] [Mul α] [Inhabited α]


/-- numel / ndim / requires_grad / values of every node, computed front to back -/
structure NodeInfo (α : Type) where
  numel : Nat
  ndim : Nat
  rg : Bool
  isLeaf : Bool
  vals : Vec α

def Prog.infos (p : Prog α) : List (NodeInfo α) :=
  p.foldl (fun (acc : List (NodeInfo α)) nd =>
    let get (i : Nat) : NodeInfo α := acc.getD i ⟨0, 0, false, false, []⟩
    let info : NodeInfo α := match nd with
      | .leaf n d rg vals => ⟨n, d, rg, true, vals⟩
      | .aff n d srcs c =>
        let v := srcs.foldl (fun v (s : Nat × Mat α) => vadd v (matVec s.2 (get s.1).vals)) c
        ⟨n, d, srcs.any fun s => (get s.1).rg, false, v⟩
      | .mul a b =>
        ⟨(get a).numel, (get a).ndim, (get a).rg || (get b).rg, false,
         List.zipWith (· * ·) (get a).vals (get b).vals⟩
      | .detach a => ⟨(get a).numel, (get a).ndim, false, true, (get a).vals⟩
    acc ++ [info]) []

/-- `A B` for `A : r × k`, `B : k × n` -/
def mmul (n : Nat) (A B : Mat α) : Mat α := A.map fun row => combine n B row

/-- rows of `M` scaled entry-wise: `diag(d) M` -/
def rowScale (d : Vec α) (M : Mat α) : Mat α := List.zipWith smul d M

def optAdd (a b : Option (Mat α)) : Option (Mat α) :=
  match a, b with
  | none, x => x
  | x, none => x
  | some A, some B => some (madd A B)

/-- forward-mode derivative of every node w.r.t. node `i` (treated as an independent variable):
    entry `n` is `some (numel n × numel i)` iff `i` is in the graph of `n` -/
def Prog.deriv (p : Prog α) (infos : List (NodeInfo α)) (i : Nat) : List (Option (Mat α)) :=
  let ni := (infos.getD i ⟨0, 0, false, false, []⟩).numel
  (p.zipIdx).foldl (fun (acc : List (Option (Mat α))) (ndx : PNode α × Nat) =>
    let nd := ndx.1
    let n := ndx.2
    let get (k : Nat) : Option (Mat α) := acc.getD k none
    let info (k : Nat) : NodeInfo α := infos.getD k ⟨0, 0, false, false, []⟩
    let d : Option (Mat α) :=
      if n = i then some (ident ni)
      else if n < i then none
      else match nd with
        | .leaf .. => none
        | .detach _ => none
        | .aff _ _ srcs _ =>
          srcs.foldl (fun (d : Option (Mat α)) (s : Nat × Mat α) =>
            optAdd d ((get s.1).map fun D => mmul ni s.2 D)) none
        | .mul a b =>
          optAdd ((get a).map fun D => rowScale (info b).vals D)
                 ((get b).map fun D => rowScale (info a).vals D)
    acc ++ [d]) []

/-- the engine of a program -/
def Prog.engine (p : Prog α) : Engine α × (Key → Nat) :=
  let infos := p.infos
  let table := (List.range p.length).map fun i => p.deriv infos i
  let info (k : Nat) : NodeInfo α := infos.getD k ⟨0, 0, false, false, []⟩
  ({ numel := fun k => (info k).numel
     jac := fun o i => (table.getD i []).getD o none
     requiresGrad := fun k => (info k).rg
     expectsGrad := fun k => (info k).rg && (info k).isLeaf },
   fun k => (info k).ndim)

end
end Tjd.Autojac
