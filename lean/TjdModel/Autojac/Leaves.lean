/-
  C12 — default parameter discovery: the breadth-first walk of
  `torchjd.autojac._utils._get_descendant_accumulate_grads` over `grad_fn.next_functions`.
  Core Lean only.
-/
namespace Tjd.Leaves

/-- one autograd node: is it an `AccumulateGrad`, and its `next_functions` (`none` = no edge;
    `some (child, nr)` = edge to output number `nr` of node `child`) -/
structure GNode where
  isAcc : Bool
  next : List (Option (Nat × Nat))
  deriving Repr, Inhabited

abbrev Graph := List GNode     -- node id = index

def edgesOf (G : Graph) (n : Nat) : List (Nat × Nat) := (G.getD n ⟨false, []⟩).next.filterMap id

def isAcc (G : Graph) (n : Nat) : Bool := (G.getD n ⟨false, []⟩).isAcc

def insertIfNew (xs : List Nat) (x : Nat) : List Nat := if xs.contains x then xs else xs ++ [x]

/-- the loop body for one node: every edge `(child, output_nr)` that does not enter an excluded tensor
    and whose child has not been visited yet appends the child to the queue and marks it visited -/
def visitEdges (excl : List (Nat × Nat)) : List (Nat × Nat) → List Nat → List Nat → List Nat × List Nat
  | [], queue, visited => (queue, visited)
  | e :: es, queue, visited =>
    if excl.contains e || visited.contains e.1 then visitEdges excl es queue visited
    else visitEdges excl es (queue ++ [e.1]) (e.1 :: visited)

/-- `while nodes_to_traverse:` with explicit fuel -/
def loop (G : Graph) (excl : List (Nat × Nat)) : Nat → List Nat → List Nat → List Nat → List Nat
  | 0, _, _, result => result
  | _ + 1, [], _, result => result
  | fuel + 1, node :: queue, visited, result =>
    let result := if isAcc G node then insertIfNew result node else result
    let (queue, visited) := visitEdges excl (edgesOf G node) queue visited
    loop G excl fuel queue visited result

def dedup : List Nat → List Nat
  | [] => []
  | x :: xs => if xs.contains x then dedup xs else x :: dedup xs

/-- `_get_descendant_accumulate_grads(roots, excluded)`: tensors are `(grad_fn, output_nr)` pairs.
    Every node enters the queue at most once, so `|G| + |roots| + 1` iterations suffice. -/
def descendantAccs (G : Graph) (roots excl : List (Nat × Nat)) : List Nat :=
  let start := dedup ((roots.filter (fun r => !excl.contains r)).map (·.1))
  loop G excl (start.length + G.length + 1) start start []

/-! ### the tensor-level statement of the property

  A tensor is a pair `(node, output_nr)`.  "The leaves a loss was computed from without passing
  through the features": accumulate nodes reachable from the loss by a path none of whose edges
  enters a feature *tensor* `(node, nr)`. -/

/-- reachability avoiding excluded *tensors* (edges), by bounded iteration (graph search with a
    visited list; fuel = number of nodes + 1 rounds of frontier expansion) -/
def reachAvoidingTensors (G : Graph) (roots : List (Nat × Nat)) (excl : List (Nat × Nat)) : List Nat :=
  let start := dedup ((roots.filter (fun r => !excl.contains r)).map (·.1))
  let rec go : Nat → List Nat → List Nat → List Nat
    | 0, _, visited => visited
    | fuel + 1, frontier, visited =>
      let new := dedup (frontier.flatMap fun n =>
        ((edgesOf G n).filter (fun e => !excl.contains e)).map (·.1))
      let fresh := new.filter (fun n => !visited.contains n)
      if fresh.isEmpty then visited else go fuel fresh (visited ++ fresh)
  (go (G.length + 1) start start).filter (isAcc G)

end Tjd.Leaves
