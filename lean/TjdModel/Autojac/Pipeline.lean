/-
  The autojac transforms on values, `backward` and `mtl_backward`.
  Mirrors  src/torchjd/autojac/{backward,mtl_backward}.py  and  _transform/{init,diagonalize,jac,grad,
  stack,select,aggregate,accumulate,_differentiate,_utils}.py.
  Tensors are flattened row-major (every reshape/view in the code is a row-major no-op on the data).
  Core Lean only.
-/
import TjdModel.Autojac.Engine
namespace Tjd.Autojac
open Tjd

section
variable {α : Type}

def hasDup : List Key → Bool
  | [] => false
  | k :: ks => ks.contains k || hasDup ks

/-! ### Init, Diagonalize -/

/-- `Init._compute`: ones of the shape of each value -/
def initT [One α] (E : Engine α) (values : List Key) : GDict α :=
  values.map fun k => (k, onesV (E.numel k))

/-- the `L × L` matrix `torch.cat(values).diag()` -/
def diagMat [Zero α] (flat : Vec α) : Mat α :=
  (List.range flat.length).map fun r =>
    (List.range flat.length).map fun c => if r = c then flat.getD r 0 else 0

/-- `Diagonalize.__init__`: `(begin, end)` per key, accumulated in the order of `considered` -/
def offsets (numel : Key → Nat) : List Key → Nat → List (Nat × Nat)
  | [], _ => []
  | k :: ks, b => (b, b + numel k) :: offsets numel ks (b + numel k)

/-- `Diagonalize._compute` -/
def diagonalizeT [Zero α] (E : Engine α) (considered : List Key) (g : GDict α) : JDict α :=
  let flat := considered.flatMap fun k => lookupD g k []
  let D := diagMat flat
  (List.zip considered (offsets E.numel considered 0)).map fun (k, (b, e)) =>
    (k, D.map fun row => (row.drop b).take (e - b))

/-! ### Jac, Grad -/

/-- `Jac._differentiate`: row blocks `[i*k,(i+1)*k)` for `i < n-1`, then `[(n-1)*k, m)`;
    `n = ceil(m / k)`, `k = chunk_size or m` -/
def chunkRanges (m : Nat) (chunk : Option Nat) : List (Nat × Nat) :=
  let k := chunk.getD m
  let n := (m + k - 1) / k
  (List.range (n - 1)).map (fun i => (i * k, (i + 1) * k)) ++ [((n - 1) * k, m)]

/-- one backward sweep through the graph, as observable from outside -/
structure Sweep where
  rows : Nat        -- number of cotangent rows differentiated in this sweep
  vmap : Bool       -- `torch.vmap` used (batched cotangents)
  retain : Bool     -- `retain_graph` passed to the engine
  deriving Repr, DecidableEq

/-- split a row into consecutive pieces of the given lengths -/
def splitCols : List Nat → Vec α → List (Vec α)
  | [], _ => []
  | n :: ns, v => v.take n :: splitCols ns (v.drop n)

/-- `_extract_sub_matrices` : one column block per length -/
def subMatrices (lengths : List Nat) (M : Mat α) : List (Mat α) :=
  (List.range lengths.length).map fun idx => M.map fun row => (splitCols lengths row).getD idx []

/-- row `r` of the cotangents handed to the engine: one flattened cotangent per output -/
def cotRow (outs : List Key) (j : JDict α) (r : Nat) : List (Vec α) :=
  outs.map fun o => (lookupD j o []).getD r []

variable [Zero α] [Add α] [Mul α]

/-- `_get_vjp` : engine call + `_materialize` + concatenation of the flattened gradients -/
def vjpRow (E : Engine α) (outs ins : List Key) (cots : List (Vec α)) : Except Err (Vec α) := do
  let gs ← E.vjp outs ins cots
  pure gs.flatten

/-- rows `[s, e)` in one sweep (`_get_jac_matrix_chunk`): a direct call for one row, `vmap` (row-wise
    application of `_get_vjp`) otherwise -/
def jacChunk (E : Engine α) (outs ins : List Key) (j : JDict α) (s e : Nat) : Except Err (Mat α) :=
  ((List.range (e - s)).map (· + s)).mapM fun r => vjpRow E outs ins (cotRow outs j r)

/-- `Jac._compute` for non-degenerate arguments; returns the Jacobians and the sweeps performed -/
def jacT (E : Engine α) (outs ins : List Key) (chunk : Option Nat) (retain : Bool) (j : JDict α) :
    Except Err (JDict α × List Sweep) := do
  if ins.isEmpty then return ([], [])
  if outs.isEmpty then return (ins.map fun i => (i, []), [])
  let m := (lookupD j (outs.headD 0) []).length
  if m = 0 then throw Err.other          -- ceil(0/0) / vmap over zero rows: not supported by the code
  if chunk = some 0 then throw Err.other -- ZeroDivisionError (rejected earlier by the public API)
  let ranges := chunkRanges m chunk
  let blocks ← ranges.mapM fun (s, e) => jacChunk E outs ins j s e
  let sweeps := ranges.zipIdx.map fun ((s, e), idx) =>
    ({ rows := e - s, vmap := (e - s) ≠ 1, retain := if idx + 1 < ranges.length then true else retain } : Sweep)
  let M := blocks.flatten
  let subs := subMatrices (ins.map E.numel) M
  pure (List.zip ins subs, sweeps)

/-- `Grad._compute` -/
def gradT (E : Engine α) (outs ins : List Key) (g : GDict α) : Except Err (GDict α) := do
  if ins.isEmpty then return []
  if outs.isEmpty then return ins.map fun i => (i, zeros (E.numel i))   -- `torch.empty`: unspecified
  let gs ← E.vjp outs ins (outs.map fun o => lookupD g o [])
  pure (List.zip ins gs)

/-! ### Stack, Select -/

/-- first-occurrence-ordered union of the keys of a list of dictionaries -/
def unionKeys {β : Type} (ds : List (List (Key × β))) : List Key :=
  ds.foldl (fun acc d => d.foldl (fun acc (kv : Key × β) => if acc.contains kv.1 then acc else acc ++ [kv.1]) acc) []

/-- `_stack` : one row per dictionary; zeros where the key is absent -/
def stackT (E : Engine α) (ds : List (GDict α)) : JDict α :=
  (unionKeys ds).map fun k =>
    (k, ds.map fun d => match d.find? (·.1 == k) with
                        | some (_, v) => v
                        | none => zeros (E.numel k))

def selectT {β : Type} (keys : List Key) (d : List (Key × β)) : List (Key × β) :=
  keys.filterMap fun k => d.find? (·.1 == k)

/-! ### Aggregate -/

/-- `_unite` : `torch.cat(matrices, dim=1)` of matrices with `m` rows -/
def unite (m : Nat) (mats : List (Mat α)) : Mat α :=
  (List.range m).map fun r => mats.flatMap fun M => M.getD r []

/-- `Aggregate._compute` = `_Reshape ∘ _AggregateMatrices ∘ _Matrixify` -/
def aggregateT (E : Engine α) (A : Mat α → Except Err (Vec α)) (keyOrder : List Key) (j : JDict α) :
    Except Err (GDict α) := do
  if keyOrder.isEmpty then return []
  let mats := keyOrder.map fun k => lookupD j k []
  let m := (mats.headD []).length
  let united := unite m mats
  let v ← A united
  let widths := keyOrder.map E.numel
  if v.length ≠ widths.sum then throw Err.value      -- `_disunite` length check
  pure (List.zip keyOrder (splitCols widths v))

/-! ### Accumulate -/

/-- `Accumulate._compute`: every key is validated (`_check_expects_grad`) before the first `.grad`
    is written; then `key.grad += value` where a `.grad` exists and `key.grad = value.clone()` where
    it does not -/
def accumulateT (E : Engine α) (g : GDict α) (h : Grads α) : Grads α × Option Err :=
  if g.all (fun kv => E.expectsGrad kv.1) then
    (g.foldl (fun (h : Grads α) (kv : Key × Vec α) =>
        match h kv.1 with
        | some old => h.set kv.1 (some (vadd old kv.2))     -- key.grad += value
        | none => h.set kv.1 (some kv.2))                    -- key.grad = value.clone()
      h, none)
  else (h, some Err.value)

/-! ### backward -/

structure Outcome (α : Type) where
  grads : Grads α
  err : Option Err
  sweeps : List Sweep

/-- `backward(tensors, aggregator, inputs, retain_graph, parallel_chunk_size)`.
    `inputs` is the iteration order of the Python set built from the argument (an arbitrary
    duplicate-free ordering, the same for `Jac` and `Aggregate`). -/
def backward [One α] (E : Engine α) (tensors inputs : List Key) (A : Mat α → Except Err (Vec α))
    (chunk : Option Int) (retain : Bool) (h : Grads α) : Outcome α :=
  -- _check_optional_positive_chunk_size
  match chunk with
  | some c => if c ≤ 0 then ⟨h, some Err.value, []⟩ else go (some c.toNat)
  | none => go none
where
  go (chunk : Option Nat) : Outcome α :=
    if tensors.isEmpty then ⟨h, some Err.value, []⟩
    else if hasDup tensors then ⟨h, some Err.value, []⟩          -- ordered_set(tensors) in Diagonalize / Jac
    else
      let g0 := initT E tensors
      let j0 := diagonalizeT E tensors g0
      match jacT E tensors inputs chunk retain j0 with
      | .error e => ⟨h, some e, []⟩
      | .ok (j1, sweeps) =>
        match aggregateT E A inputs j1 with
        | .error e => ⟨h, some e, sweeps⟩
        | .ok g1 =>
          let (h', err) := accumulateT E g1 h
          ⟨h', err, sweeps⟩

/-! ### mtl_backward -/

/-- one task transform: `(Select(features) | Accumulate ∘ Select(task_params)) ∘ Grad ∘ Init`;
    returns the gradients w.r.t. the features -/
def taskT [One α] (E : Engine α) (features taskParams : List Key) (loss : Key) (h : Grads α) :
    Grads α × Except Err (GDict α) :=
  let toDiff := taskParams ++ features
  match gradT E [loss] toDiff (initT E [loss]) with
  | .error e => (h, .error e)
  | .ok g =>
    let back := selectT features g
    let (h', err) := accumulateT E (selectT taskParams g) h
    match err with
    | some e => (h', .error e)
    | none => (h', .ok back)

/-- run the task transforms in order (`Stack._compute`), threading the heap -/
def runTasks [One α] (E : Engine α) (features : List Key) :
    List (List Key × Key) → Grads α → Grads α × Except Err (List (GDict α))
  | [], h => (h, .ok [])
  | (tp, loss) :: rest, h =>
    match taskT E features tp loss h with
    | (h1, .error e) => (h1, .error e)
    | (h1, .ok d) =>
      match runTasks E features rest h1 with
      | (h2, .error e) => (h2, .error e)
      | (h2, .ok ds) => (h2, .ok (d :: ds))

/-- `mtl_backward` with explicit parameter lists.  `ndim` gives the number of dimensions of a loss. -/
def mtlBackward [One α] (E : Engine α) (ndim : Key → Nat) (losses features : List Key)
    (tasksParams : List (List Key)) (shared : List Key) (A : Mat α → Except Err (Vec α))
    (chunk : Option Int) (retain : Bool) (h : Grads α) : Outcome α :=
  let fail (e : Err) : Outcome α := ⟨h, some e, []⟩
  let chunkBad := match chunk with | some c => decide (c ≤ 0) | none => false
  if chunkBad then fail .value
  else if features.isEmpty then fail .value
  else if tasksParams.flatten.any (shared.contains ·) then fail .value      -- _check_no_overlap
  else if losses.any (fun l => ndim l > 0) then fail .value                  -- _check_losses_are_scalar
  else if losses.isEmpty then fail .value
  else if losses.length ≠ tasksParams.length then fail .value
  -- every parameter must expect a gradient (checked before anything is accumulated)
  else if !(shared ++ tasksParams.flatten).all E.expectsGrad then fail .value
  -- constructors: ordered_set(...) in Grad / Jac / Aggregate reject duplicates
  else if tasksParams.any (fun tp => hasDup (tp ++ features)) then fail .value
  else if hasDup features || hasDup shared then fail .value
  else
    let chunkN : Option Nat := chunk.map Int.toNat
    match runTasks E features (List.zip tasksParams losses) h with
    | (h1, .error e) => ⟨h1, some e, []⟩
    | (h1, .ok ds) =>
      let j0 := stackT E ds
      match jacT E features shared chunkN retain j0 with
      | .error e => ⟨h1, some e, []⟩
      | .ok (j1, sweeps) =>
        match aggregateT E A shared j1 with
        | .error e => ⟨h1, some e, sweeps⟩
        | .ok g1 =>
          let (h2, err) := accumulateT E g1 h1
          ⟨h2, err, sweeps⟩

end
end Tjd.Autojac
