/-
  C06 — a small heap with storage identities, to speak about aliasing of `.grad`.

  Every tracked tensor lives in a storage (`Sid`).  `Accumulate` receives, per key, a value together
  with the storage it lives in (the slices handed over by `Aggregate` are views of ONE storage: the
  aggregator's output; the gradients returned by `torch.autograd.grad` may alias each other and the
  cotangents arbitrarily).  `key.grad += value` writes through the existing storage; 
  `key.grad = value.clone()` allocates a fresh one.  Core Lean only.
-/
import TjdModel.Autojac.Spec
namespace Tjd.Autojac
open Tjd

abbrev Sid := Nat

/-- `.grad` of every key: the storage it lives in and its (flattened) content -/
structure Heap (α : Type) where
  grad : Key → Option (Sid × Vec α)
  next : Sid                                  -- all storages allocated so far have ids `< next`

def Heap.abs {α : Type} (H : Heap α) : Grads α := fun k => (H.grad k).map (·.2)

section
variable {α : Type} [Add α]

/-- `Accumulate._compute` on the heap (after validation): values come with the storage they live in.
    `clone = true` is the code as written; `clone = false` models dropping the `.clone()`. -/
def accumulateH (clone : Bool) (g : List (Key × Sid × Vec α)) (H : Heap α) : Heap α :=
  g.foldl (fun (H : Heap α) (e : Key × Sid × Vec α) =>
    match H.grad e.1 with
    | some (s, old) =>                               -- key.grad += value   (same storage)
      { H with grad := fun j => if j = e.1 then some (s, vadd old e.2.2) else
                                  -- every other `.grad` living in the same storage sees the write
                                  match H.grad j with
                                  | some (s', v) => if s' = s then some (s', vadd v e.2.2) else some (s', v)
                                  | none => none }
    | none =>
      if clone then                                   -- key.grad = value.clone()  (fresh storage)
        { grad := fun j => if j = e.1 then some (H.next, e.2.2) else H.grad j, next := H.next + 1 }
      else                                            -- key.grad = value          (aliases the source)
        { H with grad := fun j => if j = e.1 then some (e.2.1, e.2.2) else H.grad j })
    H

/-- user operations between calls -/
inductive UserOp (α : Type) where
  | zero (k : Key)                 -- k.grad.zero_()
  | setNone (k : Key)              -- k.grad = None
  | addConst (k : Key) (v : Vec α) -- k.grad.add_(v)   (in place)

def Heap.user [Zero α] (H : Heap α) : UserOp α → Heap α
  | .zero k =>
    match H.grad k with
    | some (s, v) => { H with grad := fun j => match H.grad j with
                                | some (s', w) => if s' = s then some (s', w.map fun _ => 0) else some (s', w)
                                | none => none }
    | none => H
  | .setNone k => { H with grad := fun j => if j = k then none else H.grad j }
  | .addConst k v =>
    match H.grad k with
    | some (s, _) => { H with grad := fun j => match H.grad j with
                                | some (s', w) => if s' = s then some (s', vadd w v) else some (s', w)
                                | none => none }
    | none => H

/-- no two `.grad`s share a storage, and all live storages are below `next` -/
def Heap.Unaliased (H : Heap α) : Prop :=
  (∀ j k s v s' v', H.grad j = some (s, v) → H.grad k = some (s', v') → s = s' → j = k) ∧
  (∀ j s v, H.grad j = some (s, v) → s < H.next)

end
end Tjd.Autojac
