/-
  Specification vocabulary for `mtl_backward` (C02, C05).  Core Lean only.
-/
import TjdModel.Autojac.Spec
namespace Tjd.Autojac
open Tjd

section
variable {α : Type} [Zero α] [One α] [Add α] [Mul α]

/-- gradient of the scalar loss `l` w.r.t. tensor `p` (zeros when `p` is not in the graph of `l`):
    what `l.backward(inputs=[p])` adds to `p.grad` -/
def lossGrad (E : Engine α) (l p : Key) : Vec α := autogradDeposit E [l] [1] p

/-- row `i` of the feature-level Jacobian pulled back to the shared parameters: the gradient of
    `losses[i]` w.r.t. the features, back-propagated through the features to every shared parameter,
    columns in the order of `shared` -/
def mtlRow (E : Engine α) (features shared : List Key) (l : Key) : Vec α :=
  (shared.map fun s => materialize E s (E.vjp1 features (features.map (lossGrad E l)) s)).flatten

/-- the matrix `mtl_backward` hands to the aggregator: row `i` belongs to `losses[i]` -/
def mtlJac (E : Engine α) (losses features shared : List Key) : Mat α :=
  losses.map (mtlRow E features shared)

/-- `.grad` of a task parameter after all task transforms ran: one accumulation per task that lists it,
    in task order -/
def taskAccum (E : Engine α) (tasks : List (List Key × Key)) (p : Key) (g : Option (Vec α)) :
    Option (Vec α) :=
  tasks.foldl (fun g (tl : List Key × Key) => if p ∈ tl.1 then accum g (lossGrad E tl.2 p) else g) g

end
end Tjd.Autojac
