/-
  C13 — retain_graph: liveness of the saved buffers of the autograd graph.

  Contract of the torch engine (DESIGN §3), on the graph as torch builds it (nodes, next_functions with
  output numbers, `hasSaved` = the node holds saved tensors that `retain_graph=False` releases):
  an engine call `(outs, targets, retain)` EXECUTES the nodes that are reachable from an output node
  and from which the grad_fn NODE of some target can be reached (node-level, as in torch's `exec_info`); it fails (RuntimeError) iff an executed node has
  saved tensors that were already released; otherwise, if `retain = false`, all executed nodes are
  released.  Core Lean only.
-/
import TjdModel.Autojac.Pipeline
namespace Tjd.Liveness
open Tjd.Autojac (chunkRanges)

structure LNode where
  hasSaved : Bool
  next : List (Option (Nat × Nat))
  deriving Repr, Inhabited

abbrev LGraph := List LNode

def edges (G : LGraph) (n : Nat) : List (Nat × Nat) := (G.getD n ⟨false, []⟩).next.filterMap id

def dedup : List Nat → List Nat
  | [] => []
  | x :: xs => if xs.contains x then dedup xs else x :: dedup xs

/-- nodes reachable from the output nodes (forward closure along `next_functions`) -/
def reachFrom (G : LGraph) (outs : List Nat) : List Nat :=
  let rec go : Nat → List Nat → List Nat → List Nat
    | 0, _, visited => visited
    | fuel + 1, frontier, visited =>
      let new := dedup (frontier.flatMap fun n => (edges G n).map (·.1))
      let fresh := new.filter (fun n => !visited.contains n)
      if fresh.isEmpty then visited else go fuel fresh (visited ++ fresh)
  let start := dedup outs
  go (G.length + 1) start start

/-- nodes from which a target edge can be reached by a path of at least one edge -/
def leadsTo (G : LGraph) (targets : List (Nat × Nat)) : List Nat :=
  let all := List.range G.length
  -- torch decides per NODE, not per output: a node whose edge enters the grad_fn of a target tensor (through
  -- whichever output number) is considered to lead to it (`exec_info[next].should_execute()`)
  let l0 := all.filter fun n => (edges G n).any (fun e => targets.any (fun t => t.1 == e.1))
  let rec go : Nat → List Nat → List Nat
    | 0, cur => cur
    | fuel + 1, cur =>
      let nxt := all.filter fun n => cur.contains n || (edges G n).any (fun e => cur.contains e.1)
      if nxt.length = cur.length then cur else go fuel nxt
  go (G.length + 1) l0

/-- the nodes an engine call executes -/
def executed (G : LGraph) (outs : List Nat) (targets : List (Nat × Nat)) : List Nat :=
  let l := leadsTo G targets
  (reachFrom G outs).filter (l.contains ·)

structure Call where
  outs : List Nat
  targets : List (Nat × Nat)
  retain : Bool
  deriving Repr

/-- `dead` = nodes whose saved tensors have been released.  `none` = the call raises RuntimeError. -/
def engineCall (G : LGraph) (dead : List Nat) (c : Call) : Option (List Nat) :=
  let ex := executed G c.outs c.targets
  if ex.any (fun n => (G.getD n ⟨false, []⟩).hasSaved && dead.contains n) then none
  else if c.retain then some dead
  else some (dead ++ ex.filter (fun n => !dead.contains n))

def runCalls (G : LGraph) : List Call → List Nat → Option (List Nat)
  | [], dead => some dead
  | c :: cs, dead =>
    match engineCall G dead c with
    | none => none
    | some d => runCalls G cs d

/-- the engine calls `Jac` issues for `m` rows: one per chunk, all but the last retaining -/
def jacCalls (outs : List Nat) (targets : List (Nat × Nat)) (m : Nat) (chunk : Option Nat) (retain : Bool) :
    List Call :=
  let n := (chunkRanges m chunk).length
  (List.range n).map fun i => ⟨outs, targets, if i + 1 < n then true else retain⟩

/-- `backward(tensors, inputs, retain_graph, parallel_chunk_size)` as engine calls -/
def backwardCalls (tensors : List Nat) (inputs : List (Nat × Nat)) (m : Nat) (chunk : Option Nat)
    (retain : Bool) : List Call :=
  if inputs.isEmpty then [] else jacCalls tensors inputs m chunk retain      -- `Jac` returns early

/-- `mtl_backward` as engine calls: one `Grad` per task (loss_i -> task params_i ++ features) with the
    caller's flag, then the `Jac` sweeps features -> shared parameters -/
def mtlCalls (tasks : List (Nat × List (Nat × Nat))) (features : List (Nat × Nat)) (shared : List (Nat × Nat))
    (chunk : Option Nat) (retain : Bool) : List Call :=
  (tasks.map fun t => (⟨[t.1], t.2 ++ features, retain⟩ : Call)) ++
    (if shared.isEmpty then [] else jacCalls (features.map (·.1)) shared tasks.length chunk retain)

end Tjd.Liveness
