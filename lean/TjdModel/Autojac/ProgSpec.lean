/-
  Well-formedness of P-int programs and the chain-rule ("cut") condition on engines.  Core Lean only.
-/
import TjdModel.Autojac.Prog
import TjdModel.Autojac.Spec
namespace Tjd.Autojac
open Tjd

section
variable {α : Type} [Zero α] [One α] [Add α] [Mul α] [Inhabited α]

/-- node `nd` at position `pos` is well-formed w.r.t. the infos of the earlier nodes -/
def PNode.WFAt (nd : PNode α) (pos : Nat) (numelOf : Nat → Nat) : Prop :=
  match nd with
  | .leaf n _ _ vals => vals.length = n
  | .aff n _ srcs c =>
    c.length = n ∧ ∀ s ∈ srcs, s.1 < pos ∧ s.2.length = n ∧ ∀ row ∈ s.2, row.length = numelOf s.1
  | .mul a b => a < pos ∧ b < pos ∧ numelOf a = numelOf b
  | .detach a => a < pos

/-- every node refers to earlier nodes only and all dimensions fit -/
def Prog.WF (p : Prog α) : Prop :=
  ∀ pos, pos < p.length →
    (p.getD pos (.detach 0)).WFAt pos (fun k => ((p.infos).getD k ⟨0, 0, false, false, []⟩).numel)

/-- `A B` on list matrices (`B` has `n` columns) and the sum of a list of `r × n` matrices -/
def mmulL (n : Nat) (A B : Mat α) : Mat α := A.map fun row => combine n B row

def msumL (r n : Nat) (Ms : List (Mat α)) : Mat α :=
  Ms.foldl madd (List.replicate r (zeros n))

/-- chain rule through a cut: every derivative block from `outs` to `ins` factors through `mids` -/
def Engine.CutBy (E : Engine α) (outs mids ins : List Key) : Prop :=
  ∀ o ∈ outs, ∀ i ∈ ins,
    E.block o i = msumL (E.numel o) (E.numel i) (mids.map fun f => mmulL (E.numel i) (E.block o f) (E.block f i))

end
end Tjd.Autojac
