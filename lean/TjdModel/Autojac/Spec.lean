/-
  Specification vocabulary for the autojac theorems: the "true Jacobian" assembled from the engine,
  slices of an aggregated vector, accumulation into `.grad`, the linear aggregators.
  Core Lean only (these definitions are also executed by the driver).
-/
import TjdModel.Autojac.Pipeline
namespace Tjd.Autojac
open Tjd

section
variable {α : Type}

/-- the `(numel o × numel i)` derivative block, zeros when `i` is not in the graph of `o` -/
def Engine.block [Zero α] (E : Engine α) (o i : Key) : Mat α :=
  match E.jac o i with
  | some M => M
  | none => List.replicate (E.numel o) (zeros (E.numel i))

/-- the rows of the Jacobian that belong to output tensor `o`: one per scalar of `o`, columns in the
    order of `ins` -/
def fullJacRows [Zero α] (E : Engine α) (ins : List Key) (o : Key) : Mat α :=
  (List.range (E.numel o)).map fun r => ins.flatMap fun i => (E.block o i).getD r []

/-- THE Jacobian of the property statements: rows = scalars of `outs` (flattened, in the order
    given), columns = scalars of `ins` -/
def fullJac [Zero α] (E : Engine α) (outs ins : List Key) : Mat α :=
  outs.flatMap (fullJacRows E ins)

/-- the part of an aggregated vector `v` that belongs to key `k` when columns are laid out in the
    order `ins` -/
def sliceOf (numel : Key → Nat) : List Key → Key → Vec α → Vec α
  | [], _, _ => []
  | i :: rest, k, v => if i = k then v.take (numel i) else sliceOf numel rest k (v.drop (numel i))

/-- `.grad += v`, or `.grad = v` when there is none -/
def accum [Add α] (old : Option (Vec α)) (v : Vec α) : Option (Vec α) :=
  match old with
  | some g => some (vadd g v)
  | none => some v

/-- well-formed engine: derivative blocks have the right dimensions -/
def Engine.WF (E : Engine α) : Prop :=
  ∀ o i M, E.jac o i = some M → M.length = E.numel o ∧ ∀ row ∈ M, row.length = E.numel i

/-- offset of key `k` in the column layout `ins` -/
def offsetOf (numel : Key → Nat) : List Key → Key → Nat
  | [], _ => 0
  | i :: rest, k => if i = k then 0 else numel i + offsetOf numel rest k

variable [Zero α] [One α] [Add α] [Mul α]

/-- `Constant(w)` : `_ConstantWeighting._check_matrix_shape` then `w @ J` -/
def constAgg (w : Vec α) : Mat α → Except Err (Vec α) :=
  fun J => if J.length ≠ w.length then .error Err.value else .ok (combine (ncols J) J w)

/-- `Sum()` -/
def sumAgg : Mat α → Except Err (Vec α) :=
  fun J => .ok (combine (ncols J) J (onesV J.length))

/-- `Mean()` : `_MeanWeighting` gives every row the weight `1/m` (`m` = number of rows) -/
def meanAgg [Div α] [NatCast α] : Mat α → Except Err (Vec α) :=
  fun J => .ok (combine (ncols J) J (List.replicate J.length (1 / (J.length : α))))

/-- what `torch.autograd.backward(outs, grad_tensors = w split per tensor, inputs = ins)` adds to the
    `.grad` of input `i` -/
def autogradDeposit (E : Engine α) (outs : List Key) (w : Vec α) (i : Key) : Vec α :=
  materialize E i (E.vjp1 outs (splitCols (outs.map E.numel) w) i)

end
end Tjd.Autojac
