/-
  The autograd engine as torchjd sees it (contract of `torch.autograd.grad`, DESIGN §3), and the
  `.grad` heap.  Core Lean only.
-/
import TjdModel.Basic
import TjdModel.Err
namespace Tjd.Autojac
open Tjd

abbrev Key := Nat

/-- What `torch.autograd.grad` knows about a fixed graph.
    `jac o i = some M` : `M` is the (numel o × numel i) total derivative of tensor `o` w.r.t. tensor `i`
    (all tensors flattened row-major); `none` : `i` is not in the graph of `o`. -/
structure Engine (α : Type) where
  numel : Key → Nat
  jac : Key → Key → Option (Mat α)
  requiresGrad : Key → Bool      -- tensor.requires_grad
  expectsGrad : Key → Bool       -- requires_grad and (is_leaf or retains_grad)

/-- `tensor.requires_grad_(False)` on the tensors `ks` AFTER the forward pass: the recorded graph (hence every
    derivative block) is unchanged, but these tensors no longer require — nor can receive — a gradient -/
def Engine.freeze {α : Type} (E : Engine α) (ks : List Key) : Engine α :=
  { E with requiresGrad := fun k => !ks.contains k && E.requiresGrad k
           expectsGrad := fun k => !ks.contains k && E.expectsGrad k }

section
variable {α : Type} [Zero α] [Add α] [Mul α]

/-- `cᵀ M` : vector–matrix product, one entry per column of `M` (`n` columns) -/
def vecMat (n : Nat) (c : Vec α) (M : Mat α) : Vec α := combine n M c

/-- `torch.autograd.grad(outs, ins, grad_outputs=cots, allow_unused=True)` for one input:
    sum over the outputs that reach it, `none` if no output reaches it -/
def Engine.vjp1 (E : Engine α) (outs : List Key) (cots : List (Vec α)) (i : Key) : Option (Vec α) :=
  (List.zip outs cots).foldl
    (fun acc (oc : Key × Vec α) =>
      match E.jac oc.1 i with
      | none => acc
      | some M =>
        let t := vecMat (E.numel i) oc.2 M
        match acc with
        | none => some t
        | some a => some (vadd a t))
    none

/-- `_materialize`: `None` becomes zeros of the input's shape -/
def materialize (E : Engine α) (i : Key) : Option (Vec α) → Vec α
  | some v => v
  | none => zeros (E.numel i)

/-- the engine refuses inputs that do not require grad, and needs some output that requires grad -/
def Engine.callOk (E : Engine α) (outs ins : List Key) : Bool :=
  ins.all E.requiresGrad && outs.all E.requiresGrad

/-- one engine call followed by `_materialize`: one flattened gradient per input -/
def Engine.vjp (E : Engine α) (outs ins : List Key) (cots : List (Vec α)) :
    Except Err (List (Vec α)) :=
  if E.callOk outs ins then
    .ok (ins.map fun i => materialize E i (E.vjp1 outs cots i))
  else .error Err.runtime

end

/-- the `.grad` fields: `none` = `None` -/
abbrev Grads (α : Type) := Key → Option (Vec α)

def Grads.set {α : Type} (g : Grads α) (k : Key) (v : Option (Vec α)) : Grads α :=
  fun j => if j = k then v else g j

/-- ordered dictionaries (Python dicts keep insertion order) -/
abbrev GDict (α : Type) := List (Key × Vec α)      -- Gradients: flattened value per key
abbrev JDict (α : Type) := List (Key × Mat α)      -- Jacobians: one (m × numel key) matrix per key

def lookupD {β : Type} (d : List (Key × β)) (k : Key) (dflt : β) : β :=
  match d.find? (·.1 == k) with
  | some (_, v) => v
  | none => dflt

end Tjd.Autojac
