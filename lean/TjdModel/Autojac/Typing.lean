/-
  C14 — key typing of transform pipelines.

  Mirrors  src/torchjd/autojac/_transform/{base,tensor_dict,_utils,init,select,diagonalize,stack,
  accumulate}.py  at the level of *keys, dictionary types and value shapes* (no numeric values).
  Core Lean only.
-/
import TjdModel.Err
namespace Tjd.Typing

abbrev Key := Nat
abbrev Shape := List Nat

def numel (s : Shape) : Nat := s.foldl (· * ·) 1

/-- set equality / subset / disjointness of key lists (Python `set` semantics) -/
def subset (a b : List Key) : Bool := a.all (b.contains ·)
def seteq (a b : List Key) : Bool := subset a b && subset b a
def dedup : List Key → List Key
  | [] => []
  | k :: ks => if ks.contains k then dedup ks else k :: dedup ks
def hasDup : List Key → Bool
  | [] => false
  | k :: ks => ks.contains k || hasDup ks

/-- the six dictionary classes of `tensor_dict.py` -/
inductive DType where
  | td | grads | jacs | gvecs | jmats | empty
  deriving Repr, DecidableEq, Inhabited

def DType.toStr : DType → String
  | .td => "TensorDict" | .grads => "Gradients" | .jacs => "Jacobians"
  | .gvecs => "GradientVectors" | .jmats => "JacobianMatrices" | .empty => "EmptyTensorDict"

/-- `cls.mro()[:-1]` restricted to the TensorDict classes (`dict` can never be the answer for two
    TensorDict classes because `TensorDict` comes before it) -/
def DType.mro : DType → List DType
  | .td => [.td]
  | .grads => [.grads, .td]
  | .jacs => [.jacs, .td]
  | .gvecs => [.gvecs, .td]
  | .jmats => [.jmats, .td]
  | .empty => [.empty, .grads, .jacs, .gvecs, .jmats, .td]

/-- `issubclass(a, b)` -/
def DType.isSub (a b : DType) : Bool := a.mro.contains b

/-- `_least_common_ancestor(first, second)`: first class in `first`'s MRO that `second` inherits -/
def lca (first second : DType) : DType :=
  match first.mro.find? (fun c => second.isSub c) with
  | some c => c
  | none => .td

structure Dict where
  ty : DType
  entries : List (Key × Shape)     -- key ↦ shape of the value tensor
  deriving Repr, Inhabited

def Dict.keys (d : Dict) : List Key := d.entries.map (·.1)

/-- `[value.shape[0] for value in dict.values()]` then `len(set(first_dims)) > 1` -/
def checkUniqueFirstDim (entries : List (Key × Shape)) : Except Err Unit := do
  let firsts ← entries.mapM fun (_, s) =>
    match s with
    | [] => Except.error Err.other          -- IndexError on a 0-d value
    | d :: _ => pure d
  match firsts with
  | [] => pure ()
  | d :: rest => if rest.all (· == d) then pure () else throw Err.value

/-- constructor of the six classes: `_check_dict` then `_check_all_pairs` -/
def mkDict (keyShape : Key → Shape) (ty : DType) (entries : List (Key × Shape)) :
    Except Err Dict := do
  match ty with
  | .td => pure ()
  | .grads =>
    if entries.all (fun (k, s) => s == keyShape k) then pure () else throw Err.value
  | .jacs =>
    checkUniqueFirstDim entries
    if entries.all (fun (k, s) => s.drop 1 == keyShape k) then pure () else throw Err.value
  | .gvecs =>
    if entries.all (fun (k, s) => s.length == 1 && s.headD 0 == numel (keyShape k)) then pure ()
    else throw Err.value
  | .jmats =>
    checkUniqueFirstDim entries
    if entries.all (fun (k, s) => s.length == 2 && s.getD 1 0 == numel (keyShape k)) then pure ()
    else throw Err.value
  | .empty =>
    if entries.isEmpty then pure () else throw Err.value
  pure { ty := ty, entries := entries }

/-- transform terms -/
inductive Term where
  | init (ks : List Key)
  | select (ks req : List Key)
  | diag (ks : List Key)
  | acc (ks : List Key)
  | stack (ts : List Term)
  | conj (ts : List Term)
  | comp (outer inner : Term)
  deriving Repr, Inhabited

/-- `(required_keys, output_keys)` as key lists read as sets -/
structure Sig where
  required : List Key
  output : List Key
  deriving Repr, Inhabited

mutual
/-- the constructors: which terms can be built, and their declared key sets -/
def build : Term → Except Err Sig
  | .init ks => pure ⟨[], dedup ks⟩
  | .select ks req =>
    if subset ks req then pure ⟨dedup req, dedup ks⟩ else throw Err.value
  | .diag ks => if hasDup ks then throw Err.value else pure ⟨ks, ks⟩
  | .acc ks => pure ⟨dedup ks, []⟩
  | .stack ts => do
    let sigs ← buildList ts
    let req := dedup (sigs.flatMap (·.required))
    if sigs.all (fun s => seteq s.required req) then
      pure ⟨req, dedup (sigs.flatMap (·.output))⟩
    else throw Err.value
  | .conj ts => do
    let sigs ← buildList ts
    let req := dedup (sigs.flatMap (·.required))
    if sigs.all (fun s => seteq s.required req) then
      let outs := sigs.flatMap (·.output)
      if hasDup outs then throw Err.value else pure ⟨req, outs⟩
    else throw Err.value
  | .comp outer inner => do
    -- Python evaluates the arguments (inner, outer are already built objects); a failure of
    -- either sub-term is a failure of the whole term
    let so ← build outer
    let si ← build inner
    if seteq so.required si.output then pure ⟨si.required, so.output⟩ else throw Err.value
def buildList : List Term → Except Err (List Sig)
  | [] => pure []
  | t :: ts => do
    let s ← build t
    let ss ← buildList ts
    pure (s :: ss)
end

/-- `_union`: fold of `_least_common_ancestor` starting from `EmptyTensorDict`, `|=` of entries -/
def unionDicts (keyShape : Key → Shape) (ds : List Dict) : Except Err Dict :=
  let ty := ds.foldl (fun t d => lca t d.ty) DType.empty
  mkDict keyShape ty (ds.flatMap (·.entries))

/-- first-occurrence-ordered union of the keys (`dicts_union(...).keys()`) -/
def unionKeys (ds : List Dict) : List Key :=
  (dedup ((ds.flatMap (·.keys)).reverse)).reverse

/-- `_stack`: per key, `torch.stack` of the present values / zeros of the key's shape -/
def stackDicts (keyShape : Key → Shape) (ds : List Dict) : Except Err Dict := do
  let keys := unionKeys ds
  let entries ← keys.mapM fun k => do
    let shapes := ds.map fun d =>
      match d.entries.find? (·.1 == k) with
      | some (_, s) => s
      | none => keyShape k
    match shapes with
    | [] => Except.error Err.runtime            -- torch.stack([])
    | s :: rest =>
      if rest.all (· == s) then pure (k, ds.length :: s) else Except.error Err.runtime
  mkDict keyShape .jacs entries

/-- `Transform.__call__`: `input.check_keys_are(self.required_keys)` before `_compute` -/
def guardKeys (sig : Except Err Sig) (d : Dict) (body : Unit → Except Err Dict) : Except Err Dict :=
  match sig with
  | .error e => .error e
  | .ok sig => if seteq sig.required d.keys then body () else .error Err.value

/-- `Diagonalize._compute` on shapes: offsets accumulated over the *key* numels, in the order of
    `considered`; `L` = total number of scalars in the values -/
def diagEntries (keyShape : Key → Shape) (L : Nat) : List Key → Nat → Except Err (List (Key × Shape))
  | [], _ => pure []
  | k :: rest, begin => do
    let n := numel (keyShape k)
    let e := begin + n
    let width := min e L - min begin L
    if n = 0 then throw Err.runtime
    if (L * width) % n ≠ 0 then throw Err.runtime
    let tl ← diagEntries keyShape L rest e
    pure ((k, (L * width / n) :: keyShape k) :: tl)

def computeDiag (keyShape : Key → Shape) (ks : List Key) (d : Dict) : Except Err Dict := do
  if ks.isEmpty then throw Err.runtime         -- torch.cat([])
  let valNumel (k : Key) : Nat :=
    match d.entries.find? (·.1 == k) with | some (_, s) => numel s | none => 0
  let L := (ks.map valNumel).foldl (· + ·) 0
  let entries ← diagEntries keyShape L ks 0
  mkDict keyShape .jacs entries

mutual
/-- `t(d)`: key check, then `_compute` -/
def apply (keyShape : Key → Shape) : Term → Dict → Except Err Dict
  | .init ks, d => guardKeys (build (.init ks)) d fun _ =>
      mkDict keyShape .grads ((dedup ks).map fun k => (k, keyShape k))
  | .select ks req, d => guardKeys (build (.select ks req)) d fun _ =>
      mkDict keyShape d.ty ((dedup ks).filterMap fun k => d.entries.find? (·.1 == k))
  | .diag ks, d => guardKeys (build (.diag ks)) d fun _ => computeDiag keyShape ks d
  | .acc ks, d => guardKeys (build (.acc ks)) d fun _ =>
      -- keys of the universe are leaves requiring grad with `.grad = None`:
      -- `key.grad = value.clone()` needs the value to have the key's shape
      if d.entries.all (fun (k, s) => s == keyShape k) then mkDict keyShape .empty []
      else throw Err.runtime
  | .stack ts, d => guardKeys (build (.stack ts)) d fun _ => do
      let rs ← applyList keyShape ts d
      stackDicts keyShape rs
  | .conj ts, d => guardKeys (build (.conj ts)) d fun _ => do
      let rs ← applyList keyShape ts d
      unionDicts keyShape rs
  | .comp outer inner, d => guardKeys (build (.comp outer inner)) d fun _ => do
      let mid ← apply keyShape inner d
      apply keyShape outer mid
def applyList (keyShape : Key → Shape) : List Term → Dict → Except Err (List Dict)
  | [], _ => pure []
  | t :: ts, d => do
    let r ← apply keyShape t d
    let rs ← applyList keyShape ts d
    pure (r :: rs)
end

end Tjd.Typing
