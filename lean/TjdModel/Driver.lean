/-
  Line protocol driver: one S-expression request per line -> one S-expression reply per line.
-/
import TjdModel.SExp
import TjdModel.Basic
import TjdModel.Autojac.Typing
namespace Tjd.Driver
open Tjd SExp

def sortNats (xs : List Nat) : List Nat := (xs.toArray.qsort (· < ·)).toList

def errS (e : Err) : SExp := atom e.toStr

/-! ### C14 typing -/
namespace TypingD
open Tjd.Typing

partial def parseTerm : SExp → Option Term
  | list (atom "init" :: ks) => (ks.mapM nat?).map Term.init
  | list [atom "select", ks, req] => do pure (Term.select (← natList? ks) (← natList? req))
  | list (atom "diag" :: ks) => (ks.mapM nat?).map Term.diag
  | list (atom "acc" :: ks) => (ks.mapM nat?).map Term.acc
  | list (atom "stack" :: ts) => (ts.mapM parseTerm).map Term.stack
  | list (atom "conj" :: ts) => (ts.mapM parseTerm).map Term.conj
  | list [atom "comp", o, i] => do pure (Term.comp (← parseTerm o) (← parseTerm i))
  | _ => none

def parseDType : String → Option DType
  | "TensorDict" => some .td | "Gradients" => some .grads | "Jacobians" => some .jacs
  | "GradientVectors" => some .gvecs | "JacobianMatrices" => some .jmats
  | "EmptyTensorDict" => some .empty | _ => none

def parseEntries (e : SExp) : Option (List (Key × Shape)) := do
  let xs ← e.list?
  xs.mapM fun x => match x with
    | list [k, s] => do pure ((← k.nat?), (← natList? s))
    | _ => none

def dictS (d : Dict) : SExp :=
  let es := (d.entries.toArray.qsort (fun a b => a.1 < b.1)).toList
  list [atom "ok", atom d.ty.toStr, list (es.map fun (k, s) => list [ofNat k, ofNats s])]

def handle (req : SExp) : Option SExp := do
  let shapes ← (← req.field? "shapes").mapM natList?
  let keyShape : Key → Shape := fun k => shapes.getD k []
  match req.field1? "mk" with
  | some mk =>
    -- (mk TY ((k shape) ...)) : constructor of a dictionary class
    match mk with
    | list [atom ty, es] =>
      let ty ← parseDType ty
      let es ← parseEntries es
      match mkDict keyShape ty es with
      | .ok d => pure (list [atom "mk", dictS d])
      | .error e => pure (list [atom "mk", list [atom "err", errS e]])
    | _ => none
  | none =>
  let term ← parseTerm (← req.field1? "term")
  let buildR : SExp := match build term with
    | .ok sig => list [atom "ok", ofNats (sortNats (dedup sig.required)),
                       ofNats (sortNats (dedup sig.output))]
    | .error e => list [atom "err", errS e]
  let applyR : SExp ← match req.field? "input" with
    | some [atom ty, es] => do
      let ty ← parseDType ty
      let es ← parseEntries es
      match apply keyShape term ⟨ty, es⟩ with
      | .ok d => pure (dictS d)
      | .error e => pure (list [atom "err", errS e])
    | _ => pure (atom "skipped")
  pure (list [list [atom "build", buildR], list [atom "apply", applyR]])

end TypingD

def handlers : List (String × (SExp → Option SExp)) :=
  [("typing", TypingD.handle)]

def handleLine (line : String) : String :=
  match SExp.parse line with
  | none => "(bad-request parse)"
  | some req =>
    match req with
    | list (atom name :: _) =>
      match handlers.lookup name with
      | none => "(bad-request unknown " ++ name ++ ")"
      | some h =>
        match h req with
        | some r => r.toStr
        | none => "(bad-request malformed " ++ name ++ ")"
    | _ => "(bad-request shape)"

end Tjd.Driver
