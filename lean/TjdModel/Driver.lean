/-
  Line protocol driver: one S-expression request per line -> one S-expression reply per line.
-/
import TjdModel.SExp
import TjdModel.Basic
import TjdModel.Agg.AsAggregator
import TjdModel.Autojac.Typing
import TjdModel.Autojac.Pipeline
import TjdModel.Autojac.Prog
import TjdModel.Autojac.Spec
import TjdModel.Autojac.Heap
import TjdModel.Autojac.Leaves
import TjdModel.Autojac.Liveness
import TjdModel.Agg.Others
import TjdModel.Agg.Simplex
import TjdModel.Agg.Nash
namespace Tjd.Driver
open Tjd SExp

def sortNats (xs : List Nat) : List Nat := (xs.toArray.qsort (· < ·)).toList

def errS (e : Err) : SExp := atom e.toStr

/-! ### C14 typing -/
namespace TypingD
open Tjd.Typing

partial def parseTerm : SExp → Option Term
  | list (atom "init" :: ks) => (ks.mapM nat?).map Term.init
  | list [atom "select", ks, req] => do pure (Term.select (← natList? ks) (← natList? req))
  | list (atom "diag" :: ks) => (ks.mapM nat?).map Term.diag
  | list (atom "acc" :: ks) => (ks.mapM nat?).map Term.acc
  | list (atom "stack" :: ts) => (ts.mapM parseTerm).map Term.stack
  | list (atom "conj" :: ts) => (ts.mapM parseTerm).map Term.conj
  | list [atom "comp", o, i] => do pure (Term.comp (← parseTerm o) (← parseTerm i))
  | _ => none

def parseDType : String → Option DType
  | "TensorDict" => some .td | "Gradients" => some .grads | "Jacobians" => some .jacs
  | "GradientVectors" => some .gvecs | "JacobianMatrices" => some .jmats
  | "EmptyTensorDict" => some .empty | _ => none

def parseEntries (e : SExp) : Option (List (Key × Shape)) := do
  let xs ← e.list?
  xs.mapM fun x => match x with
    | list [k, s] => do pure ((← k.nat?), (← natList? s))
    | _ => none

def dictS (d : Dict) : SExp :=
  let es := (d.entries.toArray.qsort (fun a b => a.1 < b.1)).toList
  list [atom "ok", atom d.ty.toStr, list (es.map fun (k, s) => list [ofNat k, ofNats s])]

def handle (req : SExp) : Option SExp := do
  let shapes ← (← req.field? "shapes").mapM natList?
  let keyShape : Key → Shape := fun k => shapes.getD k []
  match req.field1? "mk" with
  | some mk =>
    -- (mk TY ((k shape) ...)) : constructor of a dictionary class
    match mk with
    | list [atom ty, es] =>
      let ty ← parseDType ty
      let es ← parseEntries es
      match mkDict keyShape ty es with
      | .ok d => pure (list [atom "mk", dictS d])
      | .error e => pure (list [atom "mk", list [atom "err", errS e]])
    | _ => none
  | none =>
  let term ← parseTerm (← req.field1? "term")
  let buildR : SExp := match build term with
    | .ok sig => list [atom "ok", ofNats (sortNats (dedup sig.required)),
                       ofNats (sortNats (dedup sig.output))]
    | .error e => list [atom "err", errS e]
  let applyR : SExp ← match req.field? "input" with
    | some [atom ty, es] => do
      let ty ← parseDType ty
      let es ← parseEntries es
      match apply keyShape term ⟨ty, es⟩ with
      | .ok d => pure (dictS d)
      | .error e => pure (list [atom "err", errS e])
    | _ => pure (atom "skipped")
  pure (list [list [atom "build", buildR], list [atom "apply", applyR]])

end TypingD


/-! ### autojac on P-int programs (C01, C02, C05, C06, C07, C15, C20) -/
namespace AutojacD
open Tjd.Autojac

def parseNode : SExp → Option (PNode Rat)
  | list [atom "leaf", n, d, rg, vals] => do
    pure (.leaf (← n.nat?) (← d.nat?) (← rg.bool?) (← ratList? vals))
  | list [atom "aff", n, d, list srcs, c] => do
    let ss ← srcs.mapM fun s => match s with
      | list [i, m] => do pure ((← i.nat?), (← ratMat? m))
      | _ => none
    pure (.aff (← n.nat?) (← d.nat?) ss (← ratList? c))
  | list [atom "mul", a, b] => do pure (.mul (← a.nat?) (← b.nat?))
  | list [atom "detach", a] => do pure (.detach (← a.nat?))
  | _ => none

def parseProg (req : SExp) : Option (Prog Rat) := do
  let nodes ← req.field? "prog"
  nodes.mapM parseNode

/-- aggregators available to the model side of the autojac correspondence -/
def parseAgg : List SExp → Option (Mat Rat → Except Err (Vec Rat))
  | [atom "sum"] => some sumAgg
  | [atom "mean"] => some meanAgg
  | [atom "const", w] => do
      let w ← ratList? w
      pure (constAgg w)
  | [atom "probe", w] => do
      -- non-linear, couples all columns through the Gramian:  Jᵀ (w ⊙ (1 + G·(1,2,3,...)))
      let w ← ratList? w
      pure fun J =>
        if J.length ≠ w.length then .error Err.value else
        let G := gram J
        let ramp : Vec Rat := (List.range J.length).map fun i => ((i + 1 : Nat) : Rat)
        let u := List.zipWith (fun wi gi => wi * (1 + gi)) w (matVec G ramp)
        .ok (combine (ncols J) J u)
  | [atom "upgrad", sv, ne, re, u] => do
      -- `UPGrad(pref_vector = u, norm_eps, reg_eps)` as `backward` is handed it (TjdModel/Agg/AsAggregator.lean); the SVD
      -- kernel's value on the Jacobian is supplied by the harness
      let s ← sv.rat?
      pure (Tjd.Agg.upgradAgg (fun _ => s) (← ne.rat?) (← re.rat?) (← ratList? u))
  | [atom "dualproj", sv, ne, re, u] => do
      let s ← sv.rat?
      pure (Tjd.Agg.dualprojAgg (fun _ => s) (← ne.rat?) (← re.rat?) (← ratList? u))
  | [atom "badlen", k] => do
      -- an aggregator returning a vector of the wrong length (for `_disunite`'s check)
      let k ← k.nat?
      pure fun _ => .ok (zeros k)
  | _ => none

def parseChunk : SExp → Option (Option Int)
  | atom "none" => some none
  | e => e.int?.map some

def parseGrads (es : List SExp) : Option (Grads Rat) := do
  let kvs ← es.mapM fun e => match e with
    | list [k, atom "none"] => do pure ((← k.nat?), (none : Option (Vec Rat)))
    | list [k, v] => do pure ((← k.nat?), some (← ratList? v))
    | _ => none
  pure fun k => match kvs.find? (·.1 == k) with
    | some (_, v) => v
    | none => none

def gradsS (g : Grads Rat) (report : List Nat) : SExp :=
  list (report.map fun k => list [ofNat k, match g k with | none => atom "none" | some v => ofRats v])

def sweepsS (sw : List Sweep) : SExp :=
  list (sw.map fun s => list [ofNat s.rows, ofBool s.vmap, ofBool s.retain])

def outcomeS (o : Outcome Rat) (report : List Nat) : SExp :=
  list [list [atom "err", match o.err with | none => atom "none" | some e => errS e],
        list [atom "grads", gradsS o.grads report],
        list [atom "sweeps", sweepsS o.sweeps]]

/-- optional request field `(frozen k…)`: leaves switched to `requires_grad=False` after the forward pass -/
def parseFrozen (req : SExp) : List Nat :=
  match req.field1? "frozen" with
  | some e => (natList? e).getD []
  | none => []

def handleBackward (req : SExp) : Option SExp := do
  let p ← parseProg req
  let E := (p.engine.1).freeze (parseFrozen req)
  let tensors ← natList? (← req.field1? "tensors")
  let inputs ← natList? (← req.field1? "inputs")
  let A ← parseAgg (← req.field? "agg")
  let chunk ← parseChunk (← req.field1? "chunk")
  let retain ← (← req.field1? "retain").bool?
  let h ← parseGrads (← req.field? "grads")
  let report ← natList? (← req.field1? "report")
  pure (outcomeS (backward E tensors inputs A chunk retain h) report)

def handleMtl (req : SExp) : Option SExp := do
  let p ← parseProg req
  let (E0, ndim) := p.engine
  let E := E0.freeze (parseFrozen req)
  let losses ← natList? (← req.field1? "losses")
  let features ← natList? (← req.field1? "features")
  let tps ← (← req.field? "tasks").mapM natList?
  let shared ← natList? (← req.field1? "shared")
  let A ← parseAgg (← req.field? "agg")
  let chunk ← parseChunk (← req.field1? "chunk")
  let retain ← (← req.field1? "retain").bool?
  let h ← parseGrads (← req.field? "grads")
  let report ← natList? (← req.field1? "report")
  pure (outcomeS (mtlBackward E ndim losses features tps shared A chunk retain h) report)

/-- values and the full Jacobian of a program (diagnostics / C15) -/
def handleJacobian (req : SExp) : Option SExp := do
  let p ← parseProg req
  let (E, _) := p.engine
  let outs ← natList? (← req.field1? "outs")
  let ins ← natList? (← req.field1? "ins")
  let blocks := outs.map fun o => list (ins.map fun i =>
    match E.jac o i with | none => atom "none" | some M => ofRatMat M)
  pure (list [list [atom "vals", list (p.infos.map fun i => ofRats i.vals)],
              list (atom "jac" :: blocks)])

/-! ### C06 histories on the heap with storage identities -/
def heapS (H : Heap Rat) (report : List Nat) : SExp :=
  list (report.map fun k => list [ofNat k, match H.grad k with
    | none => atom "none"
    | some (s, v) => list [ofNat s, ofRats v]])

/-- deposit of a call = its result on the all-`None` state; it is then accumulated through the heap by
    `accumulateH true` (sources live in a storage allocated by the call: the aggregator's output) -/
def depositOnHeap (o : Outcome Rat) (keys : List Nat) (H : Heap Rat) : Heap Rat × Option Err :=
  match o.err with
  | some e => (H, some e)
  | none =>
    let src := H.next
    let H1 : Heap Rat := { H with next := H.next + 1 }
    let g := keys.filterMap fun k => (o.grads k).map fun v => (k, src, v)
    (accumulateH true g H1, none)

def handleHistory (req : SExp) : Option SExp := do
  let p ← parseProg req
  let (E, ndim) := p.engine
  let report ← natList? (← req.field1? "report")
  let ops ← req.field? "ops"
  let empty : Grads Rat := fun _ => none
  let mut H : Heap Rat := { grad := fun _ => none, next := 0 }
  let mut out : List SExp := []
  for op in ops do
    let mut err : Option Err := none
    match op with
    | list [atom "zero", k] => H := H.user (.zero (← k.nat?))
    | list [atom "none", k] => H := H.user (.setNone (← k.nat?))
    | list [atom "add", k, v] => H := H.user (.addConst (← k.nat?) (← ratList? v))
    | list [atom "set", k, v] =>      -- the user assigns a new tensor: k.grad = tensor(v)
      let k ← k.nat?
      let v ← ratList? v
      let H0 := H
      H := { grad := fun j => if j = k then some (H0.next, v) else H0.grad j, next := H0.next + 1 }
    | list [atom "alias", k1, k2] =>  -- the user makes two parameters share ONE gradient tensor: k2.grad = k1.grad
      let k1 ← k1.nat?
      let k2 ← k2.nat?
      let H0 := H
      H := { H0 with grad := fun j => if j = k2 then H0.grad k1 else H0.grad j }
    | list (atom "backward" :: _) =>
      let tensors ← natList? (← op.field1? "tensors")
      let inputs ← natList? (← op.field1? "inputs")
      let A ← parseAgg (← op.field? "agg")
      let chunk ← parseChunk (← op.field1? "chunk")
      let o := backward E tensors inputs A chunk true empty
      let (H', e) := depositOnHeap o inputs H
      H := H'
      err := e
    | list (atom "mtl" :: _) =>
      let losses ← natList? (← op.field1? "losses")
      let features ← natList? (← op.field1? "features")
      let tps ← (← op.field? "tasks").mapM natList?
      let shared ← natList? (← op.field1? "shared")
      let A ← parseAgg (← op.field? "agg")
      let chunk ← parseChunk (← op.field1? "chunk")
      let o := mtlBackward E ndim losses features tps shared A chunk true empty
      let keys := (tps.flatten ++ shared).eraseDups
      let (H', e) := depositOnHeap o keys H
      H := H'
      err := e
    | _ => none
    out := out ++ [list [list [atom "err", match err with | none => atom "none" | some e => errS e],
                         list [atom "grads", heapS H report]]]
  pure (list out)

/-! ### C15: individual transforms driven directly -/
def parseGDict (es : List SExp) : Option (GDict Rat) :=
  es.mapM fun e => match e with
    | list [k, v] => do pure ((← k.nat?), (← ratList? v))
    | _ => none

def parseJDict (es : List SExp) : Option (JDict Rat) :=
  es.mapM fun e => match e with
    | list [k, m] => do pure ((← k.nat?), (← ratMat? m))
    | _ => none

def gdictS (d : GDict Rat) : SExp :=
  list ((d.toArray.qsort (fun a b => a.1 < b.1)).toList.map fun (k, v) => list [ofNat k, ofRats v])

def jdictS (d : JDict Rat) : SExp :=
  list ((d.toArray.qsort (fun a b => a.1 < b.1)).toList.map fun (k, m) => list [ofNat k, ofRatMat m])

def handleTransform (req : SExp) : Option SExp := do
  let p ← parseProg req
  let (E, _) := p.engine
  let op ← req.field? "op"
  let okG (d : GDict Rat) : SExp := list [atom "ok", gdictS d]
  let okJ (d : JDict Rat) : SExp := list [atom "ok", jdictS d]
  let err (e : Err) : SExp := list [atom "err", errS e]
  match op with
  | [atom "init", ks] => pure (okG (initT E (← natList? ks)))
  | [atom "diag", ks] =>
    let g ← parseGDict (← req.field? "input")
    pure (okJ (diagonalizeT E (← natList? ks) g))
  | [atom "grad", outs, ins] =>
    let g ← parseGDict (← req.field? "input")
    match gradT E (← natList? outs) (← natList? ins) g with
    | .ok d => pure (okG d)
    | .error e => pure (err e)
  | [atom "jac", outs, ins, chunk] =>
    let j ← parseJDict (← req.field? "input")
    let c ← parseChunk chunk
    match jacT E (← natList? outs) (← natList? ins) (c.map Int.toNat) false j with
    | .ok (d, _) => pure (okJ d)
    | .error e => pure (err e)
  | [atom "stack"] =>
    let ds ← (← req.field? "inputs").mapM fun e => e.list? >>= parseGDict
    pure (okJ (stackT E ds))
  | [atom "select", ks] =>
    let g ← parseGDict (← req.field? "input")
    pure (okG (selectT (← natList? ks) g))
  | (atom "aggregate" :: ks :: agg) =>
    let j ← parseJDict (← req.field? "input")
    let A ← parseAgg agg
    match aggregateT E A (← natList? ks) j with
    | .ok d => pure (okG d)
    | .error e => pure (err e)
  | _ => none

end AutojacD

/-! ### C12 default parameter discovery on an extracted autograd graph -/
namespace LeavesD
open Tjd.Leaves

def parseGNode : SExp → Option GNode
  | list [acc, list nxt] => do
    let a ← acc.bool?
    let es ← nxt.mapM fun e => match e with
      | atom "none" => some (none : Option (Nat × Nat))
      | list [c, nr] => do pure (some ((← c.nat?), (← nr.nat?)))
      | _ => none
    pure ⟨a, es⟩
  | _ => none

def parsePairs (es : List SExp) : Option (List (Nat × Nat)) :=
  es.mapM fun e => match e with
    | list [a, b] => do pure ((← a.nat?), (← b.nat?))
    | _ => none

def handle (req : SExp) : Option SExp := do
  let G ← (← req.field? "graph").mapM parseGNode
  let roots ← parsePairs (← req.field? "roots")
  let excl ← parsePairs (← req.field? "excluded")
  let bfs := descendantAccs G roots excl
  let tl := reachAvoidingTensors G roots excl
  pure (list [list [atom "bfs", ofNats (sortNats bfs)], list [atom "tensorlevel", ofNats (sortNats tl)]])

end LeavesD

/-! ### C13 liveness histories on an extracted autograd graph -/
namespace LivenessD
open Tjd.Liveness

def parseLNode : SExp → Option LNode
  | list [sv, list nxt] => do
    let a ← sv.bool?
    let es ← nxt.mapM fun e => match e with
      | atom "none" => some (none : Option (Nat × Nat))
      | list [c, nr] => do pure (some ((← c.nat?), (← nr.nat?)))
      | _ => none
    pure ⟨a, es⟩
  | _ => none

def pairs (e : SExp) : Option (List (Nat × Nat)) := do LeavesD.parsePairs (← e.list?)

def parseOp : SExp → Option (List Call)
  | list [atom "grad", outs, targets, retain] => do
    pure [⟨← natList? outs, ← pairs targets, ← retain.bool?⟩]
  | list [atom "backward", tensors, inputs, m, chunk, retain] => do
    let c ← AutojacD.parseChunk chunk
    pure (backwardCalls (← natList? tensors) (← pairs inputs) (← m.nat?) (c.map Int.toNat) (← retain.bool?))
  | list [atom "mtl", list tasks, features, shared, chunk, retain] => do
    let ts ← tasks.mapM fun t => match t with
      | list [l, tg] => do pure ((← l.nat?), (← pairs tg))
      | _ => none
    let c ← AutojacD.parseChunk chunk
    pure (mtlCalls ts (← pairs features) (← pairs shared) (c.map Int.toNat) (← retain.bool?))
  | _ => none

def handle (req : SExp) : Option SExp := do
  let G ← (← req.field? "graph").mapM parseLNode
  let ops ← req.field? "ops"
  let mut dead : Option (List Nat) := some []
  let mut out : List SExp := []
  for op in ops do
    let calls ← parseOp op
    match dead with
    | none => out := out ++ [atom "undefined"]
    | some d =>
      match runCalls G calls d with
      | none => dead := none; out := out ++ [atom "err"]
      | some d' => dead := some d'; out := out ++ [list [atom "ok", ofNats (sortNats d')]]
  pure (list out)

end LivenessD

/-! ### aggregators -/
namespace AggD
open Tjd.Agg

def optVecMargin (r : Option (Vec Rat × Rat)) (J : Mat Rat) : SExp :=
  match r with
  | none => list [atom "none"]
  | some (w, mg) => list [atom "ok", ofRats w, ofRats (combine (ncols J) J w), ofRat mg]

def optVec (r : Option (Vec Rat)) : SExp :=
  match r with
  | none => list [atom "none"]
  | some v => list [atom "ok", ofRats v]

/-- rational enclosure of a square root: `lo ≤ sqrt q ≤ lo + 1/(den·S)` -/
def sqrtLoHi (q : Rat) : Rat × Rat :=
  if q ≤ 0 then (0, 0) else
  let S : Nat := 10 ^ 30
  let n := q.num.toNat
  let d := q.den
  let r := Nat.sqrt (n * d * S * S)
  (((r : Nat) : Rat) / ((d * S : Nat) : Rat), (((r + 1 : Nat)) : Rat) / ((d * S : Nat) : Rat))

def handle (req : SExp) : Option SExp := do
  let name ← (← req.field1? "agg").sym?
  let J ← ratMat? (← req.field1? "J")
  let q (k : String) : Option Rat := do (← req.field1? k).rat?
  let v (k : String) : Option (Vec Rat) := do ratList? (← req.field1? k)
  match name with
  | "upgrad" => pure (optVecMargin (upgradWeights J (← q "s") (← q "normeps") (← q "regeps") (← v "u")) J)
  | "dualproj" => pure (optVecMargin (dualprojWeights J (← q "s") (← q "normeps") (← q "regeps") (← v "u")) J)
  | "mgda" =>
    let m := J.length
    let r := mgdaWeights (gram J) m (1 / (m : Rat)) (← q "eps") (← (← req.field1? "iters").nat?)
    pure (optVecMargin (some r) J)
  | "pcgrad" =>
    let perms ← (← (← req.field1? "perms").list?).mapM natList?
    pure (optVecMargin (some (pcgradWeights (gram J) perms)) J)
  | "graddrop" => pure (optVec (some (graddrop J (← v "leak") (← v "U") (ncols J))))
  | "trimmed" => pure (optVec (some (trimmedMean (← (← req.field1? "b").nat?) (ncols J) J)))
  | "krum" =>
    let f ← (← req.field1? "f").nat?
    let k ← (← req.field1? "k").nat?
    let sq : Mat Rat := J.map fun a => J.map fun b => sqnorm (vsub a b)
    let Dlo := sq.map (·.map fun x => (sqrtLoHi x).1)
    let Dhi := sq.map (·.map fun x => (sqrtLoHi x).2)
    let (wlo, glo) := krumWeights Dlo f k
    let (whi, _) := krumWeights Dhi f k
    -- the selection is certified only if both enclosures agree and the score gap dominates the
    -- enclosure width (2 m / 10^30 per score)
    if wlo = whi then pure (optVecMargin (some (wlo, glo)) J) else pure (list [atom "none"])
  | "imtlg" => pure (match imtlgWeights J (← v "d") (← q "guard") with
      | none => list [atom "none"]
      | some w => list [atom "ok", ofRats w, ofRats (combine (ncols J) J w)])
  | "config" => pure (optVec (configVec J (← v "d") (← v "w") (ncols J)))
  | "imtlgp" => pure (match imtlgWeightsP J (← v "d") (← q "guard") with
      | none => list [atom "none"]
      | some w => list [atom "ok", ofRats w, ofRats (combine (ncols J) J w)])
  | "configp" => pure (optVec (configVecP J (← v "d") (← v "w") (ncols J)))
  | "pinv" => pure (optVec (pinvApply J (← v "d")))
  | "aligned" =>
    let vecs ← ratMat? (← req.field1? "vecs")
    pure (match alignedWeights J vecs (← v "sigma") (← v "w") with
      | none => list [atom "none"]
      | some w => list [atom "ok", ofRats w, ofRats (combine (ncols J) J w)])
  | "matvec" => pure (list [atom "ok", ofRats (matVec J (← v "x"))])
  | "minnorm" => pure (match minNorm (gram J) with
      | none => list [atom "none"]
      | some (a, val) => list [atom "ok", ofRats a, ofRat val])
  | "nonconflict" =>
    -- slack of the Lean predicate `NonConflictUpTo J x allow`: (J x)_i + allow_i, must be ≥ 0
    let x ← v "x"
    let allow ← v "allow"
    pure (list [atom "ok", ofRats (List.zipWith (· + ·) (matVec J x) allow)])
  | "gram" => pure (list [atom "ok", ofRatMat (gram J)])
  | "upgradunreg" =>
    -- C09b: un-regularised UPGrad rows (certified) and the three `Σ_i |w₀ᵢ(cc)|²` of `upgrad_defect_bound_computed`
    let u ← v "u"
    let c ← v "c"
    let c1 ← v "c1"
    let c2 ← v "c2"
    pure (match upgradRows (gram J) u with
      | none => list [atom "none"]
      | some ws => list [atom "ok", ofRats [unregSumsq ws c, unregSumsq ws c1, unregSumsq ws c2]])
  | _ => none

/-- C11 validation table -/
def handleRejects (req : SExp) : Option SExp := do
  let shape ← natList? (← req.field1? "shape")
  let finite ← (← req.field1? "finite").bool?
  let optNat (e : SExp) : Option (Option Nat) := match e with
    | atom "none" => some none
    | e => e.nat?.map some
  let kind ← match ← req.field? "kind" with
    | [atom "weighted", r] => do pure (AggKind.weighted (← optNat r))
    | [atom "graddrop", r] => do pure (AggKind.graddrop (← optNat r))
    | [atom "trimmed", b] => do pure (AggKind.trimmedMean (← b.nat?))
    | [atom "krum", f, k] => do pure (AggKind.krum (← f.nat?) (← k.nat?))
    | _ => none
  pure (ofBool (rejects kind shape finite))

/-- C11 constructor validation -/
def handleCtor (req : SExp) : Option SExp := do
  let optNat (e : SExp) : Option (Option Nat) := match e with
    | atom "none" => some none
    | e => e.nat?.map some
  let spec ← match ← req.field? "spec" with
    | [atom "pref", d] => do pure (CtorSpec.prefVector (← optNat d))
    | [atom "constant", d] => do pure (CtorSpec.constant (← d.nat?))
    | [atom "graddrop", d] => do pure (CtorSpec.graddrop (← optNat d))
    | [atom "cagrad", neg] => do pure (CtorSpec.cagrad (← neg.bool?))
    | [atom "krum", f, k] => do pure (CtorSpec.krum (← f.int?) (← k.int?))
    | [atom "trimmed", b] => do pure (CtorSpec.trimmedMean (← b.int?))
    | _ => none
  pure (ofBool (ctorRejects spec))

/-- C19: NashMTL schedule.  The harness supplies the solver's answers in the order the solver is invoked
    (`oracle`); matrices are referred to by index.  Reply: per call, `(recomputed? oracle-index-or-reused-weights)`.
    The model is run with a "solver" that reads the oracle by counting previous invocations, which is a
    legitimate instance of `solve` as long as the harness feeds the answers in order. -/
def handleNash (req : SExp) : Option SExp := do
  let k ← (← req.field1? "k").nat?
  let m ← (← req.field1? "m").nat?
  let ops ← req.field? "ops"
  -- weights are represented symbolically: [i] = answer of the i-th solver invocation, [] = initial ones
  let mut st : NashState Rat := nashFresh m
  let mut inv : Nat := 0
  let mut out : List SExp := []
  -- symbolic run: prvs holds [index] (as a rational) of the last solver answer, or the initial ones
  for op in ops do
    match op with
    | atom "reset" => st := nashFresh m
    | list [atom "call", _] =>
      let idx := inv
      let (st', a, invoked) := nashStep (fun _ _ => [((idx : Nat) : Rat)]) k st []
      st := st'
      if invoked then inv := inv + 1
      out := out ++ [list [ofBool invoked, ofRats a]]
    | _ => none
  pure (list out)

end AggD

def handlers : List (String × (SExp → Option SExp)) :=
  [("typing", TypingD.handle), ("backward", AutojacD.handleBackward),
   ("mtl", AutojacD.handleMtl), ("jacobian", AutojacD.handleJacobian),
   ("history", AutojacD.handleHistory), ("transform", AutojacD.handleTransform), ("leaves", LeavesD.handle), ("liveness", LivenessD.handle), ("agg", AggD.handle),
   ("rejects", AggD.handleRejects), ("ctor", AggD.handleCtor), ("nash", AggD.handleNash)]

def handleLine (line : String) : String :=
  match SExp.parse line with
  | none => "(bad-request parse)"
  | some req =>
    match req with
    | list (atom name :: _) =>
      match handlers.lookup name with
      | none => "(bad-request unknown " ++ name ++ ")"
      | some h =>
        match h req with
        | some r => r.toStr
        | none => "(bad-request malformed " ++ name ++ ")"
    | _ => "(bad-request shape)"

end Tjd.Driver
