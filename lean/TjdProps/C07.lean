/-
  C07 — parallel_chunk_size is a pure performance knob.

  PROPERTY THEOREMS ONLY (statements fixed; helper lemmas in TjdLemmas/C07Lemmas.lean).
  `chunkRanges` is the literal index arithmetic of `Jac._differentiate`; all theorems hold for every
  row count `m ≥ 1` and every chunk size (no bound).
-/
import TjdModel.Autojac.Pipeline
import TjdLemmas.C07Lemmas
namespace Tjd.Props.C07
open Tjd Tjd.Autojac

/-- the row indices covered by a list of `[s, e)` ranges, in order -/
def rangesFlatten (rs : List (Nat × Nat)) : List Nat :=
  rs.flatMap fun se => (List.range (se.2 - se.1)).map (· + se.1)

/-- valid values of `parallel_chunk_size` after `_check_optional_positive_chunk_size` -/
def ValidChunk (c : Option Nat) : Prop := ∀ k, c = some k → 0 < k

/-- the blocks tile `[0, m)` exactly once, in order: every row is differentiated exactly once -/
theorem chunks_partition (m : Nat) (c : Option Nat) (hm : 0 < m) (hc : ValidChunk c) :
    rangesFlatten (chunkRanges m c) = List.range m := by
  sorry

/-- exactly `ceil(m / k)` sweeps: `n` is the unique number with `(n-1)·k < m ≤ n·k` -/
theorem chunks_count (m k : Nat) (hm : 0 < m) (hk : 0 < k) :
    let n := (chunkRanges m (some k)).length
    (n - 1) * k < m ∧ m ≤ n * k := by
  sorry

/-- `None` and every `k ≥ m` give a single sweep over all rows -/
theorem chunks_single (m : Nat) (c : Option Nat) (hm : 0 < m)
    (hc : c = none ∨ ∃ k, c = some k ∧ m ≤ k) : chunkRanges m c = [(0, m)] := by
  sorry

/-- every sweep has between 1 and `k` rows and stays inside `[0, m)` -/
theorem chunks_size (m : Nat) (c : Option Nat) (hm : 0 < m) (hc : ValidChunk c) :
    ∀ r ∈ chunkRanges m c, r.1 < r.2 ∧ r.2 ≤ m ∧ (∀ k, c = some k → r.2 - r.1 ≤ k) := by
  sorry

/-- with `parallel_chunk_size = 1` every sweep has exactly one row -/
theorem chunk_one_rows (m : Nat) (hm : 0 < m) : ∀ r ∈ chunkRanges m (some 1), r.2 - r.1 = 1 := by
  sorry

/-- the sweeps `Jac` performs: one per block, batched (vmap) iff the block has more than one row, all
    but the last retaining the graph, the last one using the caller's flag -/
theorem jac_sweeps (α : Type) [Zero α] [Add α] [Mul α] (E : Engine α) (outs ins : List Key)
    (c : Option Nat) (retain : Bool) (j j' : JDict α) (sw : List Sweep)
    (h : jacT E outs ins c retain j = .ok (j', sw)) (hi : ins ≠ []) (ho : outs ≠ []) :
    let m := (lookupD j (outs.headD 0) []).length
    sw.map (·.rows) = (chunkRanges m c).map (fun r => r.2 - r.1) ∧
    (∀ s ∈ sw, s.vmap = true ↔ s.rows ≠ 1) ∧
    (∀ s ∈ sw.dropLast, s.retain = true) ∧
    (∀ s, sw.getLast? = some s → s.retain = retain) := by
  sorry

/-- strictly sequential differentiation: with chunk size 1, or with a single row, no sweep is
    batched -/
theorem no_vmap_when_sequential (α : Type) [Zero α] [Add α] [Mul α] (E : Engine α)
    (outs ins : List Key) (c : Option Nat) (retain : Bool) (j j' : JDict α) (sw : List Sweep)
    (h : jacT E outs ins c retain j = .ok (j', sw))
    (hseq : c = some 1 ∨ (lookupD j (outs.headD 0) []).length = 1) :
    ∀ s ∈ sw, s.vmap = false := by
  sorry

/-- the Jacobians computed by `Jac` do not depend on the chunk size (nor on the retain flag) -/
theorem jac_chunk_irrelevant (α : Type) [Zero α] [Add α] [Mul α] (E : Engine α)
    (outs ins : List Key) (c₁ c₂ : Option Nat) (r₁ r₂ : Bool) (j : JDict α)
    (h₁ : ValidChunk c₁) (h₂ : ValidChunk c₂) :
    (jacT E outs ins c₁ r₁ j).map (·.1) = (jacT E outs ins c₂ r₂ j).map (·.1) := by
  sorry

/-- `backward`: same `.grad` update and same outcome for every valid `parallel_chunk_size` -/
theorem backward_chunk_irrelevant (α : Type) [Zero α] [One α] [Add α] [Mul α] (E : Engine α)
    (tensors inputs : List Key) (A : Mat α → Except Err (Vec α)) (c₁ c₂ : Option Int) (retain : Bool)
    (h : Grads α) (h₁ : ∀ k, c₁ = some k → 0 < k) (h₂ : ∀ k, c₂ = some k → 0 < k) :
    (backward E tensors inputs A c₁ retain h).grads = (backward E tensors inputs A c₂ retain h).grads ∧
    (backward E tensors inputs A c₁ retain h).err = (backward E tensors inputs A c₂ retain h).err := by
  sorry

/-- `mtl_backward`: same `.grad` update and same outcome for every valid `parallel_chunk_size` -/
theorem mtl_chunk_irrelevant (α : Type) [Zero α] [One α] [Add α] [Mul α] (E : Engine α)
    (ndim : Key → Nat) (losses features : List Key) (tps : List (List Key)) (shared : List Key)
    (A : Mat α → Except Err (Vec α)) (c₁ c₂ : Option Int) (retain : Bool) (h : Grads α)
    (h₁ : ∀ k, c₁ = some k → 0 < k) (h₂ : ∀ k, c₂ = some k → 0 < k) :
    (mtlBackward E ndim losses features tps shared A c₁ retain h).grads =
      (mtlBackward E ndim losses features tps shared A c₂ retain h).grads ∧
    (mtlBackward E ndim losses features tps shared A c₁ retain h).err =
      (mtlBackward E ndim losses features tps shared A c₂ retain h).err := by
  sorry

/-- non-positive chunk sizes are rejected before anything happens -/
theorem backward_rejects_nonpositive_chunk (α : Type) [Zero α] [One α] [Add α] [Mul α]
    (E : Engine α) (tensors inputs : List Key) (A : Mat α → Except Err (Vec α)) (k : Int) (hk : k ≤ 0)
    (retain : Bool) (h : Grads α) :
    (backward E tensors inputs A (some k) retain h).err = some Err.value ∧
    (backward E tensors inputs A (some k) retain h).grads = h ∧
    (backward E tensors inputs A (some k) retain h).sweeps = [] := by
  sorry

/-! non-vacuity: concrete instances -/
example : chunkRanges 7 (some 3) = [(0, 3), (3, 6), (6, 7)] := by decide
example : chunkRanges 6 (some 3) = [(0, 3), (3, 6)] := by decide
example : chunkRanges 5 (some 9) = [(0, 5)] := by decide
example : rangesFlatten (chunkRanges 7 (some 3)) = List.range 7 := by decide

end Tjd.Props.C07
