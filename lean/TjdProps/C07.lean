/-
  C07 — parallel_chunk_size is a pure performance knob.

  PROPERTY THEOREMS ONLY (statements fixed; helper lemmas in TjdLemmas/C07Lemmas.lean).
  `chunkRanges` is the literal index arithmetic of `Jac._differentiate`; all theorems hold for every
  row count `m ≥ 1` and every chunk size (no bound).
-/
import TjdModel.Autojac.Pipeline
import TjdLemmas.C07Lemmas
namespace Tjd.Props.C07
open Tjd Tjd.Autojac

/-- the row indices covered by a list of `[s, e)` ranges, in order -/
def rangesFlatten (rs : List (Nat × Nat)) : List Nat :=
  rs.flatMap fun se => (List.range (se.2 - se.1)).map (· + se.1)

/-- valid values of `parallel_chunk_size` after `_check_optional_positive_chunk_size` -/
def ValidChunk (c : Option Nat) : Prop := ∀ k, c = some k → 0 < k

/-- the blocks tile `[0, m)` exactly once, in order: every row is differentiated exactly once -/
theorem chunks_partition (m : Nat) (c : Option Nat) (hm : 0 < m) (hc : ValidChunk c) :
    rangesFlatten (chunkRanges m c) = List.range m := by
  exact chunkRanges_flatten m c hm hc

/-- exactly `ceil(m / k)` sweeps: `n` is the unique number with `(n-1)·k < m ≤ n·k` -/
theorem chunks_count (m k : Nat) (hm : 0 < m) (hk : 0 < k) :
    let n := (chunkRanges m (some k)).length
    (n - 1) * k < m ∧ m ≤ n * k := by
  intro n
  have hl : n = (m + k - 1) / k := chunkRanges_length m k hm hk
  obtain ⟨_, h2, h3⟩ := ceil_bounds m k hm hk
  rw [hl]
  exact ⟨h2, h3⟩

/-- `None` and every `k ≥ m` give a single sweep over all rows -/
theorem chunks_single (m : Nat) (c : Option Nat) (hm : 0 < m)
    (hc : c = none ∨ ∃ k, c = some k ∧ m ≤ k) : chunkRanges m c = [(0, m)] := by
  rcases hc with rfl | ⟨k, rfl, hk⟩
  · rw [chunkRanges_none]
    exact chunkRanges_single m m hm (Nat.le_refl m)
  · exact chunkRanges_single m k hm hk

/-- every sweep has between 1 and `k` rows and stays inside `[0, m)` -/
theorem chunks_size (m : Nat) (c : Option Nat) (hm : 0 < m) (hc : ValidChunk c) :
    ∀ r ∈ chunkRanges m c, r.1 < r.2 ∧ r.2 ≤ m ∧ (∀ k, c = some k → r.2 - r.1 ≤ k) := by
  intro r hr
  cases c with
  | none =>
    rw [chunkRanges_none] at hr
    obtain ⟨a, b, _⟩ := chunkRanges_size m m hm hm r hr
    exact ⟨a, b, fun k hk => by cases hk⟩
  | some k =>
    obtain ⟨a, b, d⟩ := chunkRanges_size m k hm (hc k rfl) r hr
    exact ⟨a, b, fun k' hk => by cases hk; exact d⟩

/-- with `parallel_chunk_size = 1` every sweep has exactly one row -/
theorem chunk_one_rows (m : Nat) (hm : 0 < m) : ∀ r ∈ chunkRanges m (some 1), r.2 - r.1 = 1 := by
  intro r hr
  obtain ⟨a, _, d⟩ := chunkRanges_size m 1 hm Nat.one_pos r hr
  omega

/-- the sweeps `Jac` performs: one per block, batched (vmap) iff the block has more than one row, all
    but the last retaining the graph, the last one using the caller's flag -/
theorem jac_sweeps (α : Type) [Zero α] [Add α] [Mul α] (E : Engine α) (outs ins : List Key)
    (c : Option Nat) (retain : Bool) (j j' : JDict α) (sw : List Sweep)
    (h : jacT E outs ins c retain j = .ok (j', sw)) (hi : ins ≠ []) (ho : outs ≠ []) :
    let m := (lookupD j (outs.headD 0) []).length
    sw.map (·.rows) = (chunkRanges m c).map (fun r => r.2 - r.1) ∧
    (∀ s ∈ sw, s.vmap = true ↔ s.rows ≠ 1) ∧
    (∀ s ∈ sw.dropLast, s.retain = true) ∧
    (∀ s, sw.getLast? = some s → s.retain = retain) := by
  intro m
  rcases jacT_ok_sweeps E outs ins c retain j j' sw h with ⟨h0 | h0, _⟩ | ⟨_, _, _, _, hsw⟩
  · exact absurd h0 hi
  · exact absurd h0 ho
  · rw [hsw]
    exact ⟨sweepsOf_rows _ _, sweepsOf_vmap _ _, sweepsOf_dropLast _ _, sweepsOf_getLast _ _⟩

/-- strictly sequential differentiation: with chunk size 1, or with a single row, no sweep is
    batched -/
theorem no_vmap_when_sequential (α : Type) [Zero α] [Add α] [Mul α] (E : Engine α)
    (outs ins : List Key) (c : Option Nat) (retain : Bool) (j j' : JDict α) (sw : List Sweep)
    (h : jacT E outs ins c retain j = .ok (j', sw))
    (hseq : c = some 1 ∨ (lookupD j (outs.headD 0) []).length = 1) :
    ∀ s ∈ sw, s.vmap = false := by
  rcases jacT_ok_sweeps E outs ins c retain j j' sw h with ⟨_, hsw⟩ | ⟨_, _, hm, hc0, hsw⟩
  · rw [hsw]; intro s hs; cases hs
  · rw [hsw]
    apply sweepsOf_no_vmap
    intro x hx
    rcases hseq with rfl | h1
    · obtain ⟨a, _, d⟩ := chunkRanges_size _ 1 (Nat.pos_of_ne_zero hm) Nat.one_pos x hx
      omega
    · rw [h1] at hx
      have hs : chunkRanges 1 c = [(0, 1)] := by
        cases c with
        | none => exact chunkRanges_single 1 1 Nat.one_pos (Nat.le_refl 1)
        | some k =>
          have : k ≠ 0 := fun hk => hc0 (by rw [hk])
          exact chunkRanges_single 1 k Nat.one_pos (by omega)
      rw [hs, List.mem_singleton] at hx
      rw [hx]
      rfl

/-- the Jacobians computed by `Jac` do not depend on the chunk size (nor on the retain flag) -/
theorem jac_chunk_irrelevant (α : Type) [Zero α] [Add α] [Mul α] (E : Engine α)
    (outs ins : List Key) (c₁ c₂ : Option Nat) (r₁ r₂ : Bool) (j : JDict α)
    (h₁ : ValidChunk c₁) (h₂ : ValidChunk c₂) :
    (jacT E outs ins c₁ r₁ j).map (·.1) = (jacT E outs ins c₂ r₂ j).map (·.1) := by
  rw [jacT_fst E outs ins c₁ r₁ j h₁, jacT_fst E outs ins c₂ r₂ j h₂]

/-- `backward`: same `.grad` update and same outcome for every valid `parallel_chunk_size` -/
theorem backward_chunk_irrelevant (α : Type) [Zero α] [One α] [Add α] [Mul α] (E : Engine α)
    (tensors inputs : List Key) (A : Mat α → Except Err (Vec α)) (c₁ c₂ : Option Int) (retain : Bool)
    (h : Grads α) (h₁ : ∀ k, c₁ = some k → 0 < k) (h₂ : ∀ k, c₂ = some k → 0 < k) :
    (backward E tensors inputs A c₁ retain h).grads = (backward E tensors inputs A c₂ retain h).grads ∧
    (backward E tensors inputs A c₁ retain h).err = (backward E tensors inputs A c₂ retain h).err := by
  exact backward_congr E tensors inputs A c₁ c₂ retain h h₁ h₂

/-- `mtl_backward`: same `.grad` update and same outcome for every valid `parallel_chunk_size` -/
theorem mtl_chunk_irrelevant (α : Type) [Zero α] [One α] [Add α] [Mul α] (E : Engine α)
    (ndim : Key → Nat) (losses features : List Key) (tps : List (List Key)) (shared : List Key)
    (A : Mat α → Except Err (Vec α)) (c₁ c₂ : Option Int) (retain : Bool) (h : Grads α)
    (h₁ : ∀ k, c₁ = some k → 0 < k) (h₂ : ∀ k, c₂ = some k → 0 < k) :
    (mtlBackward E ndim losses features tps shared A c₁ retain h).grads =
      (mtlBackward E ndim losses features tps shared A c₂ retain h).grads ∧
    (mtlBackward E ndim losses features tps shared A c₁ retain h).err =
      (mtlBackward E ndim losses features tps shared A c₂ retain h).err := by
  obtain ⟨a₁, b₁⟩ := mtl_vs_none E ndim losses features tps shared A c₁ retain h h₁
  obtain ⟨a₂, b₂⟩ := mtl_vs_none E ndim losses features tps shared A c₂ retain h h₂
  exact ⟨a₁.trans a₂.symm, b₁.trans b₂.symm⟩

/-- non-positive chunk sizes are rejected before anything happens -/
theorem backward_rejects_nonpositive_chunk (α : Type) [Zero α] [One α] [Add α] [Mul α]
    (E : Engine α) (tensors inputs : List Key) (A : Mat α → Except Err (Vec α)) (k : Int) (hk : k ≤ 0)
    (retain : Bool) (h : Grads α) :
    (backward E tensors inputs A (some k) retain h).err = some Err.value ∧
    (backward E tensors inputs A (some k) retain h).grads = h ∧
    (backward E tensors inputs A (some k) retain h).sweeps = [] := by
  rw [backward_rejects E tensors inputs A k hk retain h]
  exact ⟨rfl, rfl, rfl⟩

/-! non-vacuity: concrete instances -/
example : chunkRanges 7 (some 3) = [(0, 3), (3, 6), (6, 7)] := by decide
example : chunkRanges 6 (some 3) = [(0, 3), (3, 6)] := by decide
example : chunkRanges 5 (some 9) = [(0, 5)] := by decide
example : rangesFlatten (chunkRanges 7 (some 3)) = List.range 7 := by decide

end Tjd.Props.C07
