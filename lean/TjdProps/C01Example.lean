/-
  Non-vacuity of the C01 / C05 hypotheses: a concrete engine meeting `ValidCall`.
  Two outputs (numel 1 and 2), three inputs (numel 1, 2, 3), the third one unreachable;
  Constant weights [1, 2, -3]; chunk size 2.
-/
import Mathlib.Algebra.Ring.Int.Defs
import TjdProps.C01
import TjdProps.C05
namespace Tjd.Props.C01Example
open Tjd Tjd.Autojac Tjd.Props.C01

/-- keys: outputs 10 (numel 1), 11 (numel 2); inputs 0 (numel 1), 1 (numel 2), 2 (numel 3, unused) -/
def E : Engine Int where
  numel := fun k => if k = 10 then 1 else if k = 11 then 2 else if k = 0 then 1 else if k = 1 then 2
                    else if k = 2 then 3 else 0
  jac := fun o i =>
    if o = 10 ∧ i = 0 then some [[2]]
    else if o = 10 ∧ i = 1 then some [[3, 4]]
    else if o = 11 ∧ i = 1 then some [[5, 6], [7, 8]]
    else none
  requiresGrad := fun _ => true
  expectsGrad := fun k => k < 3

theorem valid : ValidCall E [10, 11] [0, 1, 2] (some 2) := by
  refine ⟨?_, by decide, by decide, by decide, ?_, fun _ _ => rfl, ?_⟩
  · intro o i M h
    simp only [E] at h ⊢
    split at h
    · rename_i hc; obtain ⟨rfl, rfl⟩ := hc; cases h; decide
    · split at h
      · rename_i hc; obtain ⟨rfl, rfl⟩ := hc; cases h; decide
      · split at h
        · rename_i hc; obtain ⟨rfl, rfl⟩ := hc; cases h; decide
        · cases h
  · intro c hc
    cases hc
    decide
  · intro i hi
    simp only [List.mem_cons, List.not_mem_nil, or_false] at hi
    rcases hi with rfl | rfl | rfl <;> exact ⟨rfl, by decide⟩

/-- the true Jacobian of the example -/
example : fullJac E [10, 11] [0, 1, 2] =
    [[2, 3, 4, 0, 0, 0], [0, 5, 6, 0, 0, 0], [0, 7, 8, 0, 0, 0]] := by
  decide

/-- and what `backward` deposits with `Constant([1, 2, -3])`, chunk size 2, starting from
    `.grad = None` everywhere except input 1 which holds [10, 20] -/
example :
    let h : Grads Int := fun k => if k = 1 then some [10, 20] else none
    let o := backward E [10, 11] [0, 1, 2] (constAgg [1, 2, -3]) (some 2) false h
    o.err = none ∧ o.grads 0 = some [2] ∧ o.grads 1 = some [10 + 3 + 10 - 21, 20 + 4 + 12 - 24] ∧
      o.grads 2 = some [0, 0, 0] ∧ o.grads 10 = none := by
  decide

end Tjd.Props.C01Example
