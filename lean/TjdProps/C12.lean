import TjdModel.Autojac.Leaves
namespace Tjd.Props.C12
open Tjd.Leaves

theorem loop_zero (G : Graph) (ex : List (Nat × Nat)) (q e r : List Nat) : loop G ex 0 q e r = r := rfl

end Tjd.Props.C12
