/-
  C12 — Default parameter discovery finds exactly the leaves that matter.

  PROPERTY THEOREMS ONLY (statements fixed; helper lemmas in TjdLemmas/C12Lemmas.lean).
  `descendantAccs` is the breadth-first walk of `_get_descendant_accumulate_grads` (tensors identified
  by `(grad_fn, output_nr)`), over an arbitrary graph: cycles, diamonds, any depth, multi-output nodes.
-/
import TjdModel.Autojac.Leaves
import TjdLemmas.C12Lemmas
import TjdLemmas.C12Extra
namespace Tjd.Props.C12
open Tjd.Leaves

/-- `n` is reachable from a start node by a path none of whose edges enters an excluded tensor -/
inductive Reach (G : Graph) (excl : List (Nat × Nat)) : Nat → Nat → Prop where
  | refl (n : Nat) : Reach G excl n n
  | step (a b c : Nat) (nr : Nat) : Reach G excl a b → (c, nr) ∈ edgesOf G b → (c, nr) ∉ excl →
      Reach G excl a c

/-- start nodes: the `grad_fn` of every root tensor that is not itself excluded -/
def startNodes (roots excl : List (Nat × Nat)) : List Nat :=
  (roots.filter (fun r => !excl.contains r)).map (·.1)

/-- all node ids occurring in the graph are valid indices (edges point inside the graph) -/
def Closed (G : Graph) : Prop := ∀ n, n < G.length → ∀ e ∈ edgesOf G n, e.1 < G.length

/-- CORRECTNESS OF THE WALK: the result is exactly the set of `AccumulateGrad` nodes reachable from the
    non-excluded roots without entering an excluded tensor.  (The fuel `|roots| + |G| + 1` built into
    `descendantAccs` always suffices: termination of the `while` loop.) -/
theorem bfs_eq_reach (G : Graph) (roots excl : List (Nat × Nat)) (hG : Closed G)
    (hr : ∀ r ∈ roots, r.1 < G.length) (n : Nat) :
    n ∈ descendantAccs G roots excl ↔
      isAcc G n = true ∧ ∃ r ∈ startNodes roots excl, Reach G excl r n := by
  have hbridge : ∀ a b, Reach G excl a b ↔ Reaches G excl a b := by
    intro a b
    constructor
    · intro h
      induction h with
      | refl => exact Reaches.refl _
      | step b c nr _ he hex ih => exact Reaches.step _ b c nr ih he hex
    · intro h
      induction h with
      | refl => exact Reach.refl _
      | step b c nr _ he hex ih => exact Reach.step _ b c nr ih he hex
  rw [descendantAccs_spec G roots excl hG hr n]
  simp only [hbridge]
  rfl

/-- the result contains no duplicates (it is a set) -/
theorem bfs_nodup (G : Graph) (roots excl : List (Nat × Nat)) :
    (descendantAccs G roots excl).Nodup := by
  exact descendantAccs_nodup G roots excl

/-- the executable tensor-level reachability used as the oracle by the harness agrees with the walk -/
theorem bfs_eq_tensorlevel (G : Graph) (roots excl : List (Nat × Nat)) (hG : Closed G)
    (hr : ∀ r ∈ roots, r.1 < G.length) (n : Nat) :
    n ∈ descendantAccs G roots excl ↔ n ∈ reachAvoidingTensors G roots excl := by
  rw [descendantAccs_spec G roots excl hG hr n, reachAvoidingTensors_spec G roots excl hG hr n]

/-- an excluded root contributes nothing by itself -/
theorem excluded_root_ignored (G : Graph) (r : Nat × Nat) (excl : List (Nat × Nat)) (h : r ∈ excl) :
    descendantAccs G [r] excl = [] := by
  have hf : [r].filter (fun r => !excl.contains r) = [] := by simp [h]
  simp only [descendantAccs, hf, List.map_nil, dedup, List.length_nil]
  rfl

/-- more roots find more leaves (monotone), fewer exclusions too -/
theorem bfs_mono_roots (G : Graph) (roots roots' excl : List (Nat × Nat)) (hG : Closed G)
    (hr : ∀ r ∈ roots', r.1 < G.length) (hsub : ∀ r ∈ roots, r ∈ roots') (n : Nat)
    (hn : n ∈ descendantAccs G roots excl) : n ∈ descendantAccs G roots' excl := by
  have hr0 : ∀ r ∈ roots, r.1 < G.length := fun r h => hr r (hsub r h)
  rw [descendantAccs_spec G roots excl hG hr0 n] at hn
  rw [descendantAccs_spec G roots' excl hG hr n]
  obtain ⟨hacc, r, hrs, hreach⟩ := hn
  refine ⟨hacc, r, ?_, hreach⟩
  obtain ⟨t, ht, rfl⟩ := List.mem_map.1 hrs
  obtain ⟨ht1, ht2⟩ := List.mem_filter.1 ht
  exact List.mem_map.2 ⟨t, List.mem_filter.2 ⟨hsub t ht1, ht2⟩, rfl⟩

/-- WHY TENSORS AND NOT NODES: a feature that is one output of a two-output node whose sibling output
    is used by the loss.  Excluding the tensor `(1, 0)` still finds the leaf `2` through the sibling
    edge `(1, 1)`; excluding the whole node would not. Graph: 0 = loss node with edges to outputs 0 and 1
    of node 1 (the split), 1 -> 2 (AccumulateGrad of the shared leaf). -/
example :
    let G : Graph := [⟨false, [some (1, 0), some (1, 1)]⟩, ⟨false, [some (2, 0)]⟩, ⟨true, []⟩]
    descendantAccs G [(0, 0)] [(1, 0)] = [2] ∧ descendantAccs G [(0, 0)] [(1, 0), (1, 1)] = [] := by
  decide

/-- A LOSS THAT DOES NOT PASS THROUGH THE FEATURES (a pure regulariser, a head reading `features.detach()`): if no root is
    excluded and no node reachable from the roots has an edge into an excluded tensor, the exclusion list is irrelevant — the
    default task parameters are ALL the leaves of the loss (and the call is legal: nothing requires a loss to meet a feature) -/
theorem exclusion_irrelevant_when_never_met (G : Graph) (roots excl : List (Nat × Nat)) (hG : Closed G)
    (hr : ∀ r ∈ roots, r.1 < G.length) (hroots : ∀ r ∈ roots, r ∉ excl)
    (hmeet : ∀ r ∈ roots, ∀ b, Reaches G [] r.1 b → ∀ e ∈ edgesOf G b, e ∉ excl) (n : Nat) :
    n ∈ descendantAccs G roots excl ↔ n ∈ descendantAccs G roots [] := by
  exact exclusion_irrelevant_c12x G roots excl hG hr hroots hmeet n

end Tjd.Props.C12
