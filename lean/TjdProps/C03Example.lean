/-
  Non-vacuity for C03: the model finds the projection on a concrete conflicting matrix over ℚ.
-/
import TjdModel.Agg.Spec
namespace Tjd.Props.C03Example
open Tjd Tjd.Agg

/-- two conflicting rows, s = 3/2 is NOT the singular value here (any positive s ≥ norm_eps is admitted
    by the theorems); the returned weights satisfy the KKT system exactly -/
example :
    let J : Mat Rat := [[1, 0], [-1, 1]]
    match dualprojWeights J (3/2) (1/10000) (1/10000) [1/2, 1/2] with
    | some (w, _) => kktCheck (regNormGram J (3/2) (1/10000) (1/10000)) [1/2, 1/2] w = true ∧ w ≠ [1/2, 1/2]
    | none => False := by
  sorry

end Tjd.Props.C03Example
