/-
  Non-vacuity for C03: the model finds the projection on a concrete conflicting matrix over ℚ, and the
  projection differs from the plain preference vector (the rows conflict: ⟨j₁, j₂⟩ = -2 < 0).
-/
import TjdModel.Agg.Spec
namespace Tjd.Props.C03Example
open Tjd Tjd.Agg

theorem dualproj_eval :
    dualprojWeights ([[1, 0], [-2, 1]] : Mat Rat) (3/2) (1/10000) (1/10000) [1/2, 1/2] =
      some ([40000/40009, 1/2], 1602160081/7201620000) := by
  decide +kernel

/-- the returned weights satisfy the KKT system exactly and are not the preference vector -/
theorem dualproj_example :
    kktCheck (regNormGram ([[1, 0], [-2, 1]] : Mat Rat) (3/2) (1/10000) (1/10000)) [1/2, 1/2]
      [40000/40009, 1/2] = true ∧ ([40000/40009, 1/2] : Vec Rat) ≠ [1/2, 1/2] := by
  decide +kernel

end Tjd.Props.C03Example
