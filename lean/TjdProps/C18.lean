import TjdModel.Agg.Simplex
namespace Tjd.Props.C18
open Tjd Tjd.Agg

theorem oneHot_length {α : Type} [Zero α] [One α] (m i : Nat) : (oneHot m i : Vec α).length = m := by
  simp [oneHot]

end Tjd.Props.C18
