/-
  C18 — MGDA, PCGrad, CAGrad, GradDrop and Random satisfy their published definitions.

  PROPERTY THEOREMS ONLY (statements fixed; helper lemmas in TjdLemmas/FWLemmas.lean, PCLemmas.lean).
  Over an arbitrary linearly ordered field.  Random draws (projection orders, the uniform sample) are
  explicit arguments: the theorems hold for EVERY draw.
-/
import Mathlib.Algebra.Order.Field.Basic
import TjdModel.Agg.Spec2
import TjdLemmas.FWLemmas
import TjdLemmas.PCLemmas
namespace Tjd.Props.C18
open Tjd Tjd.Agg

variable {α : Type} [Field α] [LinearOrder α] [IsStrictOrderedRing α]

/-! ### MGDA (Frank–Wolfe with exact line search) -/

/-- the step size is always in `[0, 1]` -/
theorem fwStep_gamma_range (G : Mat α) (m : Nat) (hG : SymmSquare G m) (hpsd : PosSemidef G m)
    (a : Vec α) (ha : InSimplex a m) :
    0 ≤ (fwStep G a).2.1 ∧ (fwStep G a).2.1 ≤ 1 := by
  rw [fwStep_snd]
  exact fwG_range G a

/-- every iterate stays in the simplex: MGDA returns a convex combination of the rows -/
theorem fwStep_simplex (G : Mat α) (m : Nat) (hm : 0 < m) (hG : SymmSquare G m)
    (hpsd : PosSemidef G m) (a : Vec α) (ha : InSimplex a m) : InSimplex (fwStep G a).1 m := by
  exact fwStep_inSimplex G m hm hG.1 a ha

/-- every iteration decreases `|Jᵀα|² = αᵀGα` (exact line search on the segment towards `e_t`) -/
theorem fwStep_monotone (G : Mat α) (m : Nat) (hm : 0 < m) (hG : SymmSquare G m)
    (hpsd : PosSemidef G m) (a : Vec α) (ha : InSimplex a m) : qf G (fwStep G a).1 ≤ qf G a := by
  exact fwStep_mono G m hG hpsd a ha.1

/-- MGDA's weights: a convex combination, never longer than the mean (the starting point), for every
    iteration budget and every `epsilon` -/
theorem mgda_simplex_and_shorter_than_mean (G : Mat α) (m : Nat) (hm : 0 < m) (hG : SymmSquare G m)
    (hpsd : PosSemidef G m) (epsilon : α) (K : Nat) :
    InSimplex (mgdaWeights G m (1 / (m : α)) epsilon K).1 m ∧
    qf G (mgdaWeights G m (1 / (m : α)) epsilon K).1 ≤ qf G (List.replicate m (1 / (m : α))) := by
  exact mgda_simplex_mono G m hm hG hpsd epsilon K

/-- two rows: after one iteration the result is the exact minimum-norm point of the segment, and
    further iterations keep it optimal -/
theorem mgda_two_rows_exact (G : Mat α) (hG : SymmSquare G 2) (hpsd : PosSemidef G 2) (epsilon : α)
    (K : Nat) (hK : 1 ≤ K) (b : Vec α) (hb : InSimplex b 2) :
    qf G (mgdaWeights G 2 (1 / 2) epsilon K).1 ≤ qf G b := by
  exact mgda_two_rows G hG hpsd epsilon K hK b hb

/-! ### PCGrad -/

/-- REFINEMENT: the weights the code computes in Gramian space (double loop over `inner_products`)
    combine to the sum over `i` of row `i` successively projected, in VECTOR space, off every other row it
    conflicts with at that moment — for whatever projection orders are drawn.  In particular the test
    for a later projection uses the already-projected vector, not the original row. -/
theorem pcgrad_refines (J : Mat α) (m n : Nat) (hJ : MatWF J m n) (perms : List (List Nat))
    (hp : ∀ p ∈ perms, ∀ j ∈ p, j < m) :
    combine n J (pcgradWeights (gram J) perms).1 =
      vsum n ((List.range m).map fun i => pcRow J i (perms.getD i [])) := by
  exact pcgrad_refines' J m n hJ perms hp

/-- when no two rows conflict, PCGrad is the plain sum of the rows -/
theorem pcgrad_no_conflict_sum (J : Mat α) (m n : Nat) (hJ : MatWF J m n) (perms : List (List Nat))
    (hp : ∀ p ∈ perms, ∀ j ∈ p, j < m)
    (hnc : ∀ a b, a < m → b < m → 0 ≤ dot (J.getD a []) (J.getD b [])) :
    (pcgradWeights (gram J) perms).1 = List.replicate m 1 := by
  exact pcgrad_noconflict J m n hJ perms hp hnc

/-! ### GradDrop -/

/-- each coordinate is the sum of either the positive or the negative entries of the column plus the
    leaked share of the others, according to the sign purity `P_c` versus the uniform sample `U_c` -/
theorem graddrop_coordinate [Inhabited α] (J : Mat α) (m n : Nat) (hJ : MatWF J m n) (leak U : Vec α)
    (c : Nat) (hc : c < n) :
    let column := col J c
    let s := column.sum
    let a := (column.map absV).sum
    let P := (1 + s / a) / (1 + 1)
    (graddrop J leak U n).getD c 0 =
      (column.zipIdx.map fun (xi : α × Nat) =>
        let keep : α :=
          if a = 0 then 0
          else if U.getD c 0 < P then (if 0 < xi.1 then 1 else 0)
          else if P < U.getD c 0 then (if xi.1 < 0 then 1 else 0)
          else 0
        (leak.getD xi.2 0 + (1 - leak.getD xi.2 0) * keep) * xi.1).sum := by
  exact graddrop_coord J leak U n c hc

/-! ### CAGrad (closed form given the dual optimum `w`; the conic programme is a kernel) -/

/-- `A(J) = g_0 + (c |g_0| / |g_w|) g_w` in the non-stationary branch, the zero vector at
    stationarity (`|g_w| < norm_eps`); in particular the mean for `c = 0` -/
theorem cagrad_closed_form (J : Mat α) (m n : Nat) (hm : 0 < m) (hJ : MatWF J m n)
    (c g0n gwn normEps : α) (w : Vec α) (hw : w.length = m) :
    combine n J (cagradWeights m c g0n gwn normEps w) =
      if normEps ≤ gwn then vadd (meanRow n J) (smul (c * g0n / gwn) (combine n J w))
      else zeros n := by
  exact cagrad_closed J m n hm hJ c g0n gwn normEps w hw

/-- hence `|A(J) - g_0|² = c² |g_0|²` whenever `g0n`, `gwn` are the norms of `g_0`, `g_w` up to the common
    normalisation factor `s` -/
theorem cagrad_distance (J : Mat α) (m n : Nat) (hm : 0 < m) (hJ : MatWF J m n)
    (c g0n gwn normEps s : α) (w : Vec α) (hw : w.length = m) (hge : normEps ≤ gwn) (hgw : 0 < gwn)
    (hs : 0 < s)
    (h0 : dot (meanRow n J) (meanRow n J) = s * s * (g0n * g0n))
    (h1 : dot (combine n J w) (combine n J w) = s * s * (gwn * gwn)) :
    let d := vsub (combine n J (cagradWeights m c g0n gwn normEps w)) (meanRow n J)
    dot d d = c * c * dot (meanRow n J) (meanRow n J) := by
  exact cagrad_dist J m n hm hJ c g0n gwn normEps s w hw hge hgw hs h0 h1

/-! ### Random -/

/-- softmax of anything is a strictly positive convex combination -/
theorem softmax_positive_sum_one (e : α → α) (he : ∀ x, 0 < e x) (xs : Vec α) (hx : xs ≠ []) :
    (∀ w ∈ softmaxW e xs, 0 < w) ∧ (softmaxW e xs).sum = 1 ∧ (softmaxW e xs).length = xs.length := by
  exact softmax_spec e he xs hx

end Tjd.Props.C18
