/-
  C15 (continued) — chaining two differentiations through intermediate tensors equals differentiating
  end to end; and the P-int program engine (the oracle of the correspondence) is a well-formed engine,
  so that the C01/C02/C05/C15 theorems apply to it.

  PROPERTY THEOREMS ONLY (statements fixed; helper lemmas in TjdLemmas/ProgLemmas.lean).
-/
import Mathlib.Algebra.Ring.Defs
import TjdModel.Autojac.ProgSpec
import TjdLemmas.AutojacLemmas
import TjdLemmas.ProgLemmas
import TjdProps.C15
namespace Tjd.Props.C15
open Tjd Tjd.Autojac

variable {α : Type} [Semiring α] [Inhabited α]

/-- JAC CHAIN: if the intermediate tensors `mids` cut the graph between `outs` and `ins` (chain rule:
    every derivative block factors through them), then pulling the cotangents back to `mids` and from
    there to an input `i` gives exactly what differentiating end to end gives. -/
theorem vjp_chain (E : Engine α) (hE : E.WF) (outs mids ins : List Key) (hcut : E.CutBy outs mids ins)
    (cots : List (Vec α)) (hc : cots.length = outs.length)
    (hlen : ∀ oc ∈ List.zip outs cots, oc.2.length = E.numel oc.1) (i : Key) (hi : i ∈ ins) :
    materialize E i (E.vjp1 mids (mids.map fun f => materialize E f (E.vjp1 outs cots f)) i) =
      materialize E i (E.vjp1 outs cots i) := by
  have _ := hc
  have _ := hlen
  have _ : Inhabited α := inferInstance
  exact ProgL.vjp_chain' E hE outs mids ins hcut cots i hi

/-- the engine derived from a well-formed program is a well-formed engine: its derivative blocks have
    the dimensions `numel o × numel i` -/
theorem prog_engine_wf (p : Prog α) (hp : p.WF) : (p.engine).1.WF := by
  have _ : Inhabited α := inferInstance
  exact ProgL.engine_wf p hp

/-- in the program engine a tensor is reachable from itself with the identity derivative -/
theorem prog_engine_self (p : Prog α) (hp : p.WF) (i : Nat) (hi : i < p.length) :
    (p.engine).1.jac i i = some (ident ((p.engine).1.numel i)) := by
  have _ := hp
  have _ : Inhabited α := inferInstance
  exact ProgL.engine_self p i hi

/-- and nothing is reachable from a leaf except the leaf itself -/
theorem prog_engine_leaf (p : Prog α) (hp : p.WF) (o i : Nat) (ho : o < p.length) (hne : o ≠ i)
    (hleaf : ∃ n d rg vals, p.getD o (.detach 0) = .leaf n d rg vals) :
    (p.engine).1.jac o i = none := by
  have _ := hp
  have _ : Inhabited α := inferInstance
  exact ProgL.engine_leaf p o i ho hne hleaf

end Tjd.Props.C15
