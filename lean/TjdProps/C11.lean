import TjdModel.Agg.Others
namespace Tjd.Props.C11
open Tjd Tjd.Agg

theorem rejects_not_matrix (k : AggKind) (shape : List Nat) (f : Bool) (h : shape.length ≠ 2) :
    rejects k shape f = true := by
  simp [rejects, h]

end Tjd.Props.C11
