/-
  C11 — Aggregators are total, pure, stateless and positively homogeneous.

  PROPERTY THEOREMS ONLY (statements fixed; helper lemmas in TjdLemmas/HomogLemmas.lean).
  What Lean carries: (a) the input-validation decision table; (b) positive homogeneity `A(tJ) = t A(J)` of
  the model aggregators (the models are pure functions: statelessness and purity hold by construction).
  What it cannot carry (observed by the check, not proved): finiteness of float results over 27 orders of
  magnitude, dtype preservation, history independence of the Python objects.
-/
import Mathlib.Algebra.Order.Field.Basic
import TjdModel.Agg.Spec2
import TjdLemmas.HomogLemmas
namespace Tjd.Props.C11
open Tjd Tjd.Agg

variable {α : Type} [Field α] [LinearOrder α] [IsStrictOrderedRing α]

/-! ### (a) validation table -/

/-- anything that is not 2-d is rejected by every aggregator kind -/
theorem rejects_not_matrix (k : AggKind) (shape : List Nat) (f : Bool) (h : shape.length ≠ 2) :
    rejects k shape f = true := by
  simp [rejects, h]

/-- weighted aggregators reject exactly: non-finite entries, or a row count contradicting the configured
    weights / preference vector -/
theorem rejects_weighted_iff (req : Option Nat) (m n : Nat) (finite : Bool) :
    rejects (.weighted req) [m, n] finite = true ↔ (finite = false ∨ ∃ r, req = some r ∧ m ≠ r) := by
  cases req <;> cases finite <;> simp [rejects]

/-- GradDrop rejects exactly: non-finite entries, or a row count contradicting the leak vector -/
theorem rejects_graddrop_iff (req : Option Nat) (m n : Nat) (finite : Bool) :
    rejects (.graddrop req) [m, n] finite = true ↔ (finite = false ∨ ∃ r, req = some r ∧ m ≠ r) := by
  cases req <;> cases finite <;> simp [rejects]

/-- TrimmedMean rejects exactly: non-finite entries or fewer than `2b+1` rows; Krum: non-finite entries
    or fewer than `f+3` or `k` rows -/
theorem rejects_robust_iff (b f k m n : Nat) (finite : Bool) :
    (rejects (.trimmedMean b) [m, n] finite = true ↔ (finite = false ∨ m < 2 * b + 1)) ∧
    (rejects (.krum f k) [m, n] finite = true ↔ (finite = false ∨ m < f + 3 ∨ m < k)) := by
  cases finite <;> simp [rejects]

/-- configurations refused at construction: a preference / weight / leak tensor that is not 1-d, a negative
    `c` (CAGrad), a negative `n_byzantine` or `n_selected < 1` (Krum), a negative `trim_number` — and nothing else -/
theorem ctor_rejects_iff (d : Nat) (od : Option Nat) (neg : Bool) (f k b : Int) :
    (ctorRejects (.prefVector od) = true ↔ ∃ e, od = some e ∧ e ≠ 1) ∧
    (ctorRejects (.constant d) = true ↔ d ≠ 1) ∧
    (ctorRejects (.graddrop od) = true ↔ ∃ e, od = some e ∧ e ≠ 1) ∧
    (ctorRejects (.cagrad neg) = true ↔ neg = true) ∧
    (ctorRejects (.krum f k) = true ↔ (f < 0 ∨ k < 1)) ∧
    (ctorRejects (.trimmedMean b) = true ↔ b < 0) := by
  cases od <;> simp [ctorRejects]

/-- every configuration the forward-time table `rejects` speaks about is one the constructor accepts: the two tables
    compose (a configured row count comes from a 1-d tensor; `f, k, b` are the accepted naturals) -/
theorem accepted_configurations (f k b : Nat) :
    ctorRejects (.prefVector (some 1)) = false ∧ ctorRejects (.prefVector none) = false ∧
    ctorRejects (.constant 1) = false ∧ ctorRejects (.graddrop (some 1)) = false ∧
    ctorRejects (.graddrop none) = false ∧ ctorRejects (.trimmedMean (b : Int)) = false ∧
    (1 ≤ k → ctorRejects (.krum (f : Int) (k : Int)) = false) := by
  simp [ctorRejects]
  omega

/-! ### (b) positive homogeneity -/

/-- every weighted combination is homogeneous once the weights are scale-invariant -/
theorem combine_scale (J : Mat α) (n : Nat) (w : Vec α) (t : α) :
    combine n (J.map (smul t)) w = smul t (combine n J w) := by
  exact Homog.combine_map_smul J n w t

/-- UPGrad / DualProj: the regularised normalised Gramian is scale-invariant as long as the largest
    singular value stays `≥ norm_eps` on both sides, hence so are the weights -/
theorem qp_weights_scale_invariant (J : Mat α) (m n : Nat) (hJ : MatWF J m n) (s normEps regEps t : α)
    (ht : 0 < t) (hs : normEps ≤ s) (hts : normEps ≤ t * s) (u : Vec α) :
    upgradWeights (J.map (smul t)) (t * s) normEps regEps u = upgradWeights J s normEps regEps u ∧
    dualprojWeights (J.map (smul t)) (t * s) normEps regEps u = dualprojWeights J s normEps regEps u := by
  have _ := hJ
  unfold upgradWeights dualprojWeights
  rw [Homog.regNormGram_scale J s normEps regEps t ht hs hts]
  exact ⟨rfl, rfl⟩

/-- the hypothesis is needed: below the threshold they average by design.  Witness: `J = [[1],[-1/2]]`
    has `s² = 5/4`; with `norm_eps = 1` the matrix is above the threshold but `J/2` is below, and the
    DualProj weights differ -/
theorem qp_threshold_witness :
    let J : Mat Rat := [[1], [-1/2]]
    (dualprojWeights J (9/8) 1 (1/100) [1/2, 1/2]).map (·.1) ≠
      (dualprojWeights (J.map (smul (1/2))) (9/16) 1 (1/100) [1/2, 1/2]).map (·.1) := by
  intro J
  decide +kernel

/-- MGDA: one Frank–Wolfe step sees only ratios of Gramian entries: scaling the Gramian by `t² > 0`
    changes neither the new weights nor the step size -/
theorem fwStep_scale_invariant (G : Mat α) (a : Vec α) (c : α) (hc : 0 < c) :
    (fwStep (G.map (smul c)) a).1 = (fwStep G a).1 ∧ (fwStep (G.map (smul c)) a).2.1 = (fwStep G a).2.1 := by
  exact Homog.fwStep_scale G a c hc

theorem mgda_weights_scale_invariant (G : Mat α) (m : Nat) (mInv epsilon c : α) (hc : 0 < c) (K : Nat) :
    (mgdaWeights (G.map (smul c)) m mInv epsilon K).1 = (mgdaWeights G m mInv epsilon K).1 := by
  exact Homog.mgda_go_scale G (G.map (smul c)) epsilon (fun a => Homog.fwStep_scale G a c hc) K _ _ _

/-- PCGrad: weights are ratios of Gramian entries -/
theorem pcgrad_weights_scale_invariant (G : Mat α) (c : α) (hc : 0 < c) (perms : List (List Nat)) :
    (pcgradWeights (G.map (smul c)) perms).1 = (pcgradWeights G perms).1 := by
  exact Homog.pcgrad_scale G c hc perms

/-- TrimmedMean: sorting commutes with positive scaling -/
theorem trimmedMean_homogeneous [Inhabited α] (b m n : Nat) (J : Mat α) (hJ : MatWF J m n) (t : α)
    (ht : 0 < t) : trimmedMean b n (J.map (smul t)) = smul t (trimmedMean b n J) := by
  exact Homog.trimmedMean_scale b m n J hJ t ht

/-- GradDrop (same uniform sample): the sign purity is scale-invariant -/
theorem graddrop_homogeneous [Inhabited α] (m n : Nat) (J : Mat α) (hJ : MatWF J m n) (leak U : Vec α)
    (t : α) (ht : 0 < t) : graddrop (J.map (smul t)) leak U n = smul t (graddrop J leak U n) := by
  exact Homog.graddrop_scale m n J hJ leak U t ht

/-- ConFIG: unit rows are scale-invariant, the length factor is linear (row norms scale along) -/
theorem config_homogeneous (J : Mat α) (m n : Nat) (hJ : MatWF J m n) (d w : Vec α) (hd : d.length = m)
    (t : α) (ht : 0 < t) :
    configVec (J.map (smul t)) (d.map (t * ·)) w n = (configVec J d w n).map (smul t) := by
  have _ := hJ; have _ := hd
  exact Homog.configVec_scale J d w n t ht

/-- IMTL-G with the guard RELATIVE to the magnitude of `v` (the code after the `fix:` commit): for
    independent rows (`G v = d` has a unique solution) the weights are scale-invariant -/
theorem imtlg_weights_scale_invariant (J : Mat α) (m n : Nat) (hJ : MatWF J m n) (d : Vec α)
    (hd : d.length = m) (guard t : α) (ht : 0 < t)
    (huniq : ∀ v v' : Vec α, v.length = m → v'.length = m → matVec (gram J) v = d →
        matVec (gram J) v' = d → v = v')
    (w w' : Vec α) (h : imtlgWeights J d guard = some w)
    (h' : imtlgWeights (J.map (smul t)) (d.map (t * ·)) guard = some w') : w' = w := by
  have _ := hJ
  exact Homog.imtlg_scale J m d hd guard t ht huniq w w' h h'

/-- BEFORE the fix the guard was absolute (`|Σv| < 1e-12`), and homogeneity failed: `J = [[1]]` gives
    weight 1, `10¹³ · J` gives weight 0 -/
def imtlgWeightsOld (J : Mat Rat) (d : Vec Rat) : Option (Vec Rat) :=
  match solve (gram J) d d.length with
  | none => none
  | some v =>
    if matVec (gram J) v = d then
      let s := v.sum
      if absV s < 1 / 1000000000000 then some (zeros d.length) else some (v.map (· / s))
    else none

theorem imtlg_old_not_homogeneous :
    imtlgWeightsOld [[1]] [1] = some [1] ∧
    imtlgWeightsOld [[10000000000000]] [10000000000000] = some [0] ∧
    imtlgWeights ([[10000000000000]] : Mat Rat) [10000000000000] (1 / 1000000000000) = some [1] := by
  decide +kernel

/-- Aligned-MTL: the balance transformation is scale-invariant (eigenvalues scale by `t²`, their square
    roots by `t`) -/
theorem aligned_weights_scale_invariant (J : Mat α) (m n : Nat) (hJ : MatWF J m n) (vecs : Mat α)
    (sigma w : Vec α) (t : α) (ht : 0 < t) (hs : sigma ≠ [])
    (hcert : alignedCert (gram J) vecs sigma = true) :
    alignedWeights (J.map (smul t)) vecs (sigma.map (t * ·)) w = alignedWeights J vecs sigma w := by
  have _ := hJ; have _ := hcert
  exact Homog.alignedWeights_scale J vecs sigma w t ht hs

end Tjd.Props.C11
