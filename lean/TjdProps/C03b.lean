/-
  C03 / C04 (continued).

  * C03: for `reg_eps = 0` the KKT point of the (un-normalised) Gramian QP gives the EUCLIDEAN PROJECTION
    of `Jᵀu` onto the dual cone `{x | J x ≥ 0}` of the rows — "the projection of Jᵀu onto the dual cone"
    of the property statement (Proposition 1 of the Jacobian-descent paper).
  * C04: CAGrad with `c ≥ 1` does not conflict with any row as soon as the conic solver's answer satisfies
    the first-order optimality condition of its programme (the solver is a kernel: that condition is the
    hypothesis; everything else — the closed form of the weights — is the code's).

  PROPERTY THEOREMS ONLY (statements fixed; helper lemmas in TjdLemmas/ConeLemmas.lean).
-/
import Mathlib.Algebra.Order.Field.Basic
import TjdModel.Agg.Spec2
import TjdLemmas.ConeLemmas
namespace Tjd.Props.C03
open Tjd Tjd.Agg

variable {α : Type} [Field α] [LinearOrder α] [IsStrictOrderedRing α]

/-- squared Euclidean distance -/
def sqdist (x y : Vec α) : α := dot (vsub x y) (vsub x y)

/-- `x` lies in the dual cone of the rows: it conflicts with none of them -/
def InDualCone (J : Mat α) (x : Vec α) : Prop := ∀ i, i < J.length → 0 ≤ dot (J.getD i []) x

/-- DUAL-CONE PROJECTION.  If `w` satisfies the KKT system of `min vᵀ(J Jᵀ)v, v ≥ u`, then `x = Jᵀw`
    is in the dual cone and is at least as close to `Jᵀu` as any other point of the dual cone. -/
theorem kkt_gives_dualcone_projection (J : Mat α) (m n : Nat) (hJ : MatWF J m n) (u w : Vec α)
    (hu : u.length = m) (hk : kktCheck (gram J) u w = true) :
    InDualCone J (combine n J w) ∧
    ∀ y : Vec α, y.length = n → InDualCone J y →
      sqdist (combine n J w) (combine n J u) ≤ sqdist y (combine n J u) := by
  exact ⟨Cone.kkt_dualcone J m n hJ u w hu hk,
    fun y hy hcone => Cone.kkt_projection J m n hJ u w hu hk y hy hcone⟩

/-- and the projection is unique: two KKT points give the same vector (even when the weights differ,
    as they may for a singular Gramian) -/
theorem dualcone_projection_unique (J : Mat α) (m n : Nat) (hJ : MatWF J m n) (u w w' : Vec α)
    (hu : u.length = m) (hk : kktCheck (gram J) u w = true) (hk' : kktCheck (gram J) u w' = true) :
    combine n J w = combine n J w' := by
  exact Cone.kkt_unique J m n hJ u w w' hu hk hk'

/-- C04 (CAGrad).  `G` = normalised Gramian (PSD), `e` = uniform weights, `w` the solver's answer in the
    simplex, `n0² = eᵀGe`, `nw² = wᵀGw > 0`.  If `w` satisfies the first-order optimality condition of
    `min_w eᵀGw + c·n0·sqrt(wᵀGw)` on the simplex — stated on the final weights `ω = e + (c·n0/nw) w` as
    `(Gω)·w ≤ (Gω)_i` for all `i` — and `c ≥ 1`, then `(Gω)_i ≥ 0` for every `i`: no conflict. -/
theorem cagrad_nonconflict_of_optimality (G : Mat α) (m : Nat) (hm : 0 < m) (hG : SymmSquare G m)
    (hpsd : PosSemidef G m) (c n0 nw normEps : α) (hc : 1 ≤ c) (w : Vec α) (hw : InSimplex w m)
    (hn0 : 0 ≤ n0) (hn0sq : n0 * n0 = qf G (List.replicate m (1 / (m : α))))
    (hnw : 0 < nw) (hnwsq : nw * nw = qf G w) (hge : normEps ≤ nw)
    (hopt : ∀ i, i < m →
      dot (matVec G (cagradWeights m c n0 nw normEps w)) w ≤
        (matVec G (cagradWeights m c n0 nw normEps w)).getD i 0) :
    ∀ i, i < m → 0 ≤ (matVec G (cagradWeights m c n0 nw normEps w)).getD i 0 := by
  intro i hi
  exact le_trans
    (Cone.cagrad_nonconflict G m hm hG hpsd c n0 nw normEps hc w hw.1 hn0 hn0sq hnw hnwsq hge)
    (hopt i hi)

end Tjd.Props.C03
