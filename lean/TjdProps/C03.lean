/-
  C03 — UPGrad / DualProj return the exact (regularised) dual-cone projection.

  PROPERTY THEOREMS ONLY (statements fixed; helper lemmas in TjdLemmas/QP*.lean).
  Over an arbitrary linearly ordered field (ℚ: what the driver runs; ℝ: what floats approximate).
  The QP solver (quadprog) and the SVD are kernels: `qpProject` returns a vector only after the exact
  KKT check, `s` (largest singular value) is an input.  Everything else — which Gramian, normalisation,
  thresholds, regularisation, WHICH vectors are projected, how weights are combined — is the code's.
-/
import Mathlib.Algebra.Order.Field.Basic
import TjdModel.Agg.Spec
import TjdLemmas.QPLemmas
import TjdLemmas.C12Extra
namespace Tjd.Props.C03
open Tjd Tjd.Agg

variable {α : Type} [Field α] [LinearOrder α] [IsStrictOrderedRing α]

/-- KKT ⇒ global minimiser (for symmetric positive semi-definite `G`) -/
theorem kkt_minimizer (G : Mat α) (m : Nat) (hG : SymmSquare G m)
    (hpsd : ∀ v : Vec α, v.length = m → 0 ≤ qf G v) (u w : Vec α) (hu : u.length = m)
    (hk : kktCheck G u w = true) : IsQPMin G u w := by
  exact isQPMin_of_kktCheck G m hG hpsd u w hu hk

/-- for positive definite `G` the minimiser is unique -/
theorem qp_min_unique (G : Mat α) (m : Nat) (hG : SymmSquare G m) (hpd : PosDef G m)
    (u w w' : Vec α) (hu : u.length = m) (h : IsQPMin G u w) (h' : IsQPMin G u w') : w = w' := by
  exact isQPMin_unique G m hG hpd u w w' hu h h'

/-- the certified search only ever returns KKT points -/
theorem qpProject_sound (G : Mat α) (u w : Vec α) (mg : α) (h : qpProject G u = some (w, mg)) :
    kktCheck G u w = true := by
  exact qpProject_kkt G u w mg h

/-- the regularised normalised Gramian is symmetric positive definite as soon as `reg_eps > 0`,
    whatever `J`, `s`, `norm_eps` -/
theorem regNormGram_posdef (J : Mat α) (m n : Nat) (hJ : MatWF J m n) (s normEps regEps : α)
    (hre : 0 < regEps) :
    SymmSquare (regNormGram J s normEps regEps) m ∧ PosDef (regNormGram J s normEps regEps) m := by
  exact ⟨regNormGram_symmSquare J m n hJ s normEps regEps,
    regNormGram_pd J m n hJ s normEps regEps hre⟩

/-- entries of the regularised normalised Gramian: `⟨j_a, j_b⟩ / s² + reg_eps·[a = b]` when
    `s ≥ norm_eps`, and `reg_eps·[a = b]` below -/
theorem regNormGram_entry (J : Mat α) (m n : Nat) (hJ : MatWF J m n) (s normEps regEps : α)
    (a b : Nat) (ha : a < m) (hb : b < m) :
    ((regNormGram J s normEps regEps).getD a []).getD b 0 =
      (if s < normEps then 0 else dot (J.getD a []) (J.getD b []) / (s * s)) +
        (if a = b then regEps else 0) := by
  exact regNormGram_getD J s normEps regEps a b (by rw [hJ.1]; exact ha) (by rw [hJ.1]; exact hb)

/-- DualProj: the returned weights are THE minimiser of `vᵀ (J Jᵀ/s² + reg_eps I) v` subject to
    `v ≥ u` -/
theorem dualproj_is_projection (J : Mat α) (m n : Nat) (hJ : MatWF J m n) (s normEps regEps : α)
    (hre : 0 < regEps) (u w : Vec α) (hu : u.length = m) (mg : α)
    (h : dualprojWeights J s normEps regEps u = some (w, mg)) :
    IsQPMin (regNormGram J s normEps regEps) u w ∧
    ∀ w', IsQPMin (regNormGram J s normEps regEps) u w' → w' = w := by
  exact dualproj_proj J m n hJ s normEps regEps hre u w hu mg h

/-- UPGrad: the returned weights are the sum over `i` of the minimisers for `u_i e_i` -/
theorem upgrad_is_sum_of_projections (J : Mat α) (m n : Nat) (hJ : MatWF J m n)
    (s normEps regEps : α) (hre : 0 < regEps) (u w : Vec α) (hu : u.length = m) (mg : α)
    (h : upgradWeights J s normEps regEps u = some (w, mg)) :
    ∃ ws : List (Vec α), ws.length = m ∧ w = vsum m ws ∧
      ∀ i, i < m →
        IsQPMin (regNormGram J s normEps regEps)
          ((List.range m).map fun j => if j = i then u.getD i 0 else 0) (ws.getD i []) := by
  exact upgrad_sum_proj J m n hJ s normEps regEps hre u w hu mg h

/-- when no two rows conflict (`J Jᵀ ≥ 0` entrywise) and `u ≥ 0`, both aggregators return exactly
    `Jᵀ u` (the mean by default) -/
theorem no_conflict_identity (J : Mat α) (m n : Nat) (hJ : MatWF J m n) (s normEps regEps : α)
    (hre : 0 < regEps) (u : Vec α) (hu : u.length = m) (hu0 : ∀ x ∈ u, 0 ≤ x)
    (hnc : ∀ a b, a < m → b < m → 0 ≤ dot (J.getD a []) (J.getD b [])) (w : Vec α) (mg : α) :
    (dualprojWeights J s normEps regEps u = some (w, mg) → w = u) ∧
    (upgradWeights J s normEps regEps u = some (w, mg) → w = u) := by
  exact identity_both J m n hJ s normEps regEps hre u hu hu0 (Or.inr hnc) w mg

/-- below the normalisation threshold (`s < norm_eps`) the Gramian is ignored: `Jᵀ u` again -/
theorem below_norm_eps_identity (J : Mat α) (m n : Nat) (hJ : MatWF J m n) (s normEps regEps : α)
    (hre : 0 < regEps) (hs : s < normEps) (u : Vec α) (hu : u.length = m) (hu0 : ∀ x ∈ u, 0 ≤ x)
    (w : Vec α) (mg : α) :
    (dualprojWeights J s normEps regEps u = some (w, mg) → w = u) ∧
    (upgradWeights J s normEps regEps u = some (w, mg) → w = u) := by
  exact identity_both J m n hJ s normEps regEps hre u hu hu0 (Or.inl hs) w mg

/-- C04(a): primal feasibility `0 ≤ G w` of the projection gives non-conflict up to the stated
    allowance `reg_eps · s² · w_i`, for DualProj … -/
theorem dualproj_nonconflict (J : Mat α) (m n : Nat) (hJ : MatWF J m n) (s normEps regEps : α)
    (hs : normEps ≤ s) (hs0 : 0 < s) (u w : Vec α) (hu : u.length = m) (mg : α)
    (h : dualprojWeights J s normEps regEps u = some (w, mg)) :
    NonConflictUpTo J (combine n J w) (w.map fun wi => regEps * (s * s) * wi) := by
  exact dualproj_nc J m n hJ s normEps regEps hs hs0 u w hu mg h

/-- … and for UPGrad (sum of the feasibility conditions of the `m` projections) -/
theorem upgrad_nonconflict (J : Mat α) (m n : Nat) (hJ : MatWF J m n) (s normEps regEps : α)
    (hs : normEps ≤ s) (hs0 : 0 < s) (u w : Vec α) (hu : u.length = m) (mg : α)
    (h : upgradWeights J s normEps regEps u = some (w, mg)) :
    NonConflictUpTo J (combine n J w) (w.map fun wi => regEps * (s * s) * wi) := by
  exact upgrad_nc J m n hJ s normEps regEps hs hs0 u w hu mg h

/-- the minimiser of the projection QP does not change when the matrix is multiplied by a positive number — so
    `(1 - e) G + e I` (a "shrinkage" regulariser) has the minimiser of `G + (e / (1 - e)) I`, not of `G + e I`: the
    regularisation the property speaks of is the ADDITIVE one -/
theorem isQPMin_scale (G : Mat α) (u w : Vec α) (c : α) (hc : 0 < c) :
    IsQPMin (G.map (smul c)) u w ↔ IsQPMin G u w := by
  exact isQPMin_scale_c12x G u w c hc

end Tjd.Props.C03
