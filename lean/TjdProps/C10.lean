/-
  C10 — The order of the objectives does not matter.

  PROPERTY THEOREMS ONLY (statements fixed; helper lemmas in TjdLemmas/EquivLemmas.lean).
  `permV p` reorders rows / vectors by the index list `p`.  MGDA and Krum (argmin / top-k tie breaking by
  index) and CAGrad (conic solver) are covered by the check only (property excludes exact ties).
-/
import Mathlib.Algebra.Order.Field.Basic
import TjdModel.Agg.Spec2
import TjdLemmas.EquivLemmas
import TjdProps.C03
import TjdProps.C16
namespace Tjd.Props.C10
open Tjd Tjd.Agg

variable {α : Type} [Field α] [LinearOrder α] [IsStrictOrderedRing α]

/-- permuting the rows together with the weights leaves the combination unchanged (Mean, Sum, Constant
    with its weight vector permuted along, and the last step of every weighted aggregator) -/
theorem combine_row_perm [Inhabited α] (J : Mat α) (m n : Nat) (hJ : MatWF J m n) (w : Vec α)
    (hw : w.length = m) (p : List Nat) (hp : p.Perm (List.range m)) :
    combine n (permV p J) (permV p w) = combine n J w := by
  exact Eqv.combine_row_perm' J m n hJ w hw p hp

/-- the Gramian of the permuted matrix is the Gramian with rows and columns permuted -/
theorem gram_row_perm [Inhabited α] (J : Mat α) (m n : Nat) (hJ : MatWF J m n) (p : List Nat)
    (hp : ∀ i ∈ p, i < m) :
    gram (permV p J) = permV p ((gram J).map (permV p)) := by
  exact Eqv.gram_row_perm' J m n hJ p hp

/-- a minimiser of the projection QP stays a minimiser after permuting everything consistently -/
theorem isQPMin_perm [Inhabited α] (G : Mat α) (m : Nat) (hG : SymmSquare G m) (u w : Vec α)
    (hu : u.length = m) (p : List Nat) (hp : p.Perm (List.range m)) (h : IsQPMin G u w) :
    IsQPMin (permV p (G.map (permV p))) (permV p u) (permV p w) := by
  exact Eqv.isQPMin_perm' G m hG u w hu p hp h

/-- DualProj: permuting the rows and the preference vector together does not change the result -/
theorem dualproj_row_perm [Inhabited α] (J : Mat α) (m n : Nat) (hJ : MatWF J m n)
    (s normEps regEps : α) (hre : 0 < regEps) (u : Vec α) (hu : u.length = m) (p : List Nat)
    (hp : p.Perm (List.range m)) (w w' : Vec α) (mg mg' : α)
    (h : dualprojWeights J s normEps regEps u = some (w, mg))
    (h' : dualprojWeights (permV p J) s normEps regEps (permV p u) = some (w', mg')) :
    combine n (permV p J) w' = combine n J w := by
  exact Eqv.dualproj_row_perm' J m n hJ s normEps regEps hre u hu p hp w w' mg mg' h h'

/-- UPGrad likewise -/
theorem upgrad_row_perm [Inhabited α] (J : Mat α) (m n : Nat) (hJ : MatWF J m n)
    (s normEps regEps : α) (hre : 0 < regEps) (u : Vec α) (hu : u.length = m) (p : List Nat)
    (hp : p.Perm (List.range m)) (w w' : Vec α) (mg mg' : α)
    (h : upgradWeights J s normEps regEps u = some (w, mg))
    (h' : upgradWeights (permV p J) s normEps regEps (permV p u) = some (w', mg')) :
    combine n (permV p J) w' = combine n J w := by
  exact Eqv.upgrad_row_perm' J m n hJ s normEps regEps hre u hu p hp w w' mg mg' h h'

/-- TrimmedMean: sorting forgets the order of the rows -/
theorem trimmedMean_row_perm [Inhabited α] (b m n : Nat) (J : Mat α) (hJ : MatWF J m n)
    (p : List Nat) (hp : p.Perm (List.range m)) :
    trimmedMean b n (permV p J) = trimmedMean b n J := by
  simp only [trimmedMean]
  apply List.map_congr_left
  intro c _
  exact Tjd.Props.C16.trimmedMeanCol_perm b _ _ (Eqv.col_permV_perm J m hJ.1 p hp c)

/-- GradDrop (same uniform sample, leak vector permuted along): finite sums commute -/
theorem graddrop_row_perm [Inhabited α] (m n : Nat) (J : Mat α) (hJ : MatWF J m n) (leak U : Vec α)
    (hl : leak.length = m) (p : List Nat) (hp : p.Perm (List.range m)) :
    graddrop (permV p J) (permV p leak) U n = graddrop J leak U n := by
  exact Eqv.graddrop_row_perm' m n J hJ leak U hl p hp

end Tjd.Props.C10
