/-
  C10 — The order of the objectives does not matter.

  PROPERTY THEOREMS ONLY (statements fixed; helper lemmas in TjdLemmas/EquivLemmas.lean).
  `permV p` reorders rows / vectors by the index list `p`.  Krum (top-k tie breaking by index) and CAGrad (conic
  solver) are covered by the check only (property excludes exact ties).  MGDA: its Frank–Wolfe ITERATES depend on the
  row order (argmin tie breaking, path), but its TARGET — the minimum-norm point of the hull — does not: it is unique
  as a vector and invariant under row permutations (`minnorm_point_unique`, `minnorm_point_row_perm`), and the iterates
  approach it at the proved rate, so two runs on permuted inputs differ by at most `mgda_perm_defect`.
-/
import Mathlib.Algebra.Order.Field.Basic
import TjdModel.Agg.Spec2
import TjdLemmas.EquivLemmas
import TjdLemmas.MinNormUnique
import TjdProps.C03
import TjdProps.C16
namespace Tjd.Props.C10
open Tjd Tjd.Agg

variable {α : Type} [Field α] [LinearOrder α] [IsStrictOrderedRing α]

/-- permuting the rows together with the weights leaves the combination unchanged (Mean, Sum, Constant
    with its weight vector permuted along, and the last step of every weighted aggregator) -/
theorem combine_row_perm [Inhabited α] (J : Mat α) (m n : Nat) (hJ : MatWF J m n) (w : Vec α)
    (hw : w.length = m) (p : List Nat) (hp : p.Perm (List.range m)) :
    combine n (permV p J) (permV p w) = combine n J w := by
  exact Eqv.combine_row_perm' J m n hJ w hw p hp

/-- the Gramian of the permuted matrix is the Gramian with rows and columns permuted -/
theorem gram_row_perm [Inhabited α] (J : Mat α) (m n : Nat) (hJ : MatWF J m n) (p : List Nat)
    (hp : ∀ i ∈ p, i < m) :
    gram (permV p J) = permV p ((gram J).map (permV p)) := by
  exact Eqv.gram_row_perm' J m n hJ p hp

/-- a minimiser of the projection QP stays a minimiser after permuting everything consistently -/
theorem isQPMin_perm [Inhabited α] (G : Mat α) (m : Nat) (hG : SymmSquare G m) (u w : Vec α)
    (hu : u.length = m) (p : List Nat) (hp : p.Perm (List.range m)) (h : IsQPMin G u w) :
    IsQPMin (permV p (G.map (permV p))) (permV p u) (permV p w) := by
  exact Eqv.isQPMin_perm' G m hG u w hu p hp h

/-- DualProj: permuting the rows and the preference vector together does not change the result -/
theorem dualproj_row_perm [Inhabited α] (J : Mat α) (m n : Nat) (hJ : MatWF J m n)
    (s normEps regEps : α) (hre : 0 < regEps) (u : Vec α) (hu : u.length = m) (p : List Nat)
    (hp : p.Perm (List.range m)) (w w' : Vec α) (mg mg' : α)
    (h : dualprojWeights J s normEps regEps u = some (w, mg))
    (h' : dualprojWeights (permV p J) s normEps regEps (permV p u) = some (w', mg')) :
    combine n (permV p J) w' = combine n J w := by
  exact Eqv.dualproj_row_perm' J m n hJ s normEps regEps hre u hu p hp w w' mg mg' h h'

/-- UPGrad likewise -/
theorem upgrad_row_perm [Inhabited α] (J : Mat α) (m n : Nat) (hJ : MatWF J m n)
    (s normEps regEps : α) (hre : 0 < regEps) (u : Vec α) (hu : u.length = m) (p : List Nat)
    (hp : p.Perm (List.range m)) (w w' : Vec α) (mg mg' : α)
    (h : upgradWeights J s normEps regEps u = some (w, mg))
    (h' : upgradWeights (permV p J) s normEps regEps (permV p u) = some (w', mg')) :
    combine n (permV p J) w' = combine n J w := by
  exact Eqv.upgrad_row_perm' J m n hJ s normEps regEps hre u hu p hp w w' mg mg' h h'

/-- TrimmedMean: sorting forgets the order of the rows -/
theorem trimmedMean_row_perm [Inhabited α] (b m n : Nat) (J : Mat α) (hJ : MatWF J m n)
    (p : List Nat) (hp : p.Perm (List.range m)) :
    trimmedMean b n (permV p J) = trimmedMean b n J := by
  simp only [trimmedMean]
  apply List.map_congr_left
  intro c _
  exact Tjd.Props.C16.trimmedMeanCol_perm b _ _ (Eqv.col_permV_perm J m hJ.1 p hp c)

/-- GradDrop (same uniform sample, leak vector permuted along): finite sums commute -/
theorem graddrop_row_perm [Inhabited α] (m n : Nat) (J : Mat α) (hJ : MatWF J m n) (leak U : Vec α)
    (hl : leak.length = m) (p : List Nat) (hp : p.Perm (List.range m)) :
    graddrop (permV p J) (permV p leak) U n = graddrop J leak U n := by
  exact Eqv.graddrop_row_perm' m n J hJ leak U hl p hp

/-! ### MGDA: the target is order-independent -/

/-- the minimum-norm point of the hull is unique AS A VECTOR (the weights need not be): two certified weight vectors
    give the same combination -/
theorem minnorm_point_unique (J : Mat α) (m n : Nat) (hJ : MatWF J m n) (a b : Vec α)
    (ha : minNormCheck (gram J) a = true) (hb : minNormCheck (gram J) b = true) :
    combine n J a = combine n J b := by
  exact minnorm_unique_mnu J m n hJ a b ha hb

/-- … and it does not depend on the order of the rows -/
theorem minnorm_point_row_perm [Inhabited α] (J : Mat α) (m n : Nat) (hJ : MatWF J m n) (p : List Nat)
    (hp : p.Perm (List.range m)) (a a' : Vec α) (h : minNormCheck (gram J) a = true)
    (h' : minNormCheck (gram (permV p J)) a' = true) :
    combine n (permV p J) a' = combine n J a := by
  exact minnorm_perm_mnu J m n hJ p hp a a' h h'

/-- any convex combination is at least as far from the origin as its distance to the target allows:
    `|Jᵀa − g*|² ≤ |Jᵀa|² − |g*|²` (so the sub-optimality bounds the distance to the target) -/
theorem distance_to_target_le_gap (J : Mat α) (m n : Nat) (hJ : MatWF J m n) (a astar : Vec α)
    (ha : InSimplex a m) (hstar : minNormCheck (gram J) astar = true) :
    dot (vsub (combine n J a) (combine n J astar)) (vsub (combine n J a) (combine n J astar)) ≤
      qf (gram J) a - qf (gram J) astar := by
  exact dist_le_gap_mnu J m n hJ a astar ha hstar

/-- hence C10 for MGDA with `epsilon = 0`, quantitatively: the results of `K ≥ 1` Frank–Wolfe iterations on `J` and on the
    row-permuted `J` differ by at most `|x − x'|² ≤ 32 s² / (K + 2)` (`s²` bounds both Gramians), whatever the tie
    breaking and the path of the two runs -/
theorem mgda_perm_defect [Inhabited α] (J : Mat α) (m n : Nat) (hm : 0 < m) (hJ : MatWF J m n) (p : List Nat)
    (hp : p.Perm (List.range m)) (s2 : α)
    (hs : ∀ v : Vec α, v.length = m → qf (gram J) v ≤ s2 * dot v v)
    (hs' : ∀ v : Vec α, v.length = m → qf (gram (permV p J)) v ≤ s2 * dot v v) (K : Nat) (hK : 1 ≤ K) :
    let x := combine n J (mgdaWeights (gram J) m (1 / (m : α)) 0 K).1
    let x' := combine n (permV p J) (mgdaWeights (gram (permV p J)) m (1 / (m : α)) 0 K).1
    dot (vsub x x') (vsub x x') ≤ 32 * s2 / ((K : α) + 2) := by
  exact mgda_perm_defect_mnu J m n hm hJ p hp s2 hs hs' K hK

end Tjd.Props.C10
