/-
  C17 / C08 / C10 / C11 for the pseudo-inverse based aggregators at ANY rank.

  PROPERTY THEOREMS ONLY (statements fixed before the proofs; helper lemmas in TjdLemmas/PinvLemmas.lean).
  IMTL-G and ConFIG call `torch.linalg.pinv` (a kernel).  The first model (`imtlgWeights`, `configVec`) covered the
  full-row-rank case through the certificate `G v = d`; the theorems about it that need uniqueness carry it as a
  hypothesis.  `pinvApply` covers every rank through the certificate of the minimum-norm least-squares solution
      x = G u   and   G (G x - d) = 0                                  (G symmetric)
  and here that certificate is shown to determine the answer (so no uniqueness hypothesis is left), to mean what the
  pseudo-inverse means (least squares, minimum norm, equal to `P d` for every matrix `P` satisfying the four Penrose
  equations, equal to the solution of `G v = d` when `G` is positive definite), and the invariances of C08 / C10 / C11
  are derived from it for `imtlgWeightsP` / `configVecP`.
-/
import Mathlib.Algebra.Order.Field.Basic
import Mathlib.Data.Matrix.Mul
import TjdModel.Agg.Spec2
import TjdLemmas.PinvLemmas
import TjdLemmas.PinvComplete
import TjdLemmas.ConfigTotal
namespace Tjd.Props.C17b
open Tjd Tjd.Agg Matrix

variable {α : Type} [Field α] [LinearOrder α] [IsStrictOrderedRing α]

/-! ### the certificate -/

/-- the certified search only returns certified vectors -/
theorem pinvApply_sound (G : Mat α) (d x : Vec α) (h : pinvApply G d = some x) :
    ∃ u, x = matVec G u ∧ matVec G (vsub (matVec G x) d) = zeros d.length := by
  exact pinvApply_cert G d x h

/-- the certificate determines the vector: for a symmetric `G`, two vectors of the range of `G` whose residuals are
    orthogonal to the range are equal (no rank assumption) -/
theorem pinv_cert_unique (G : Mat α) (m : Nat) (hG : SymmSquare G m) (d u u' : Vec α) (hd : d.length = m)
    (hu : u.length = m) (hu' : u'.length = m)
    (hr : matVec G (vsub (matVec G (matVec G u)) d) = zeros m)
    (hr' : matVec G (vsub (matVec G (matVec G u')) d) = zeros m) :
    matVec G u = matVec G u' := by
  exact pinv_cert_unique_list G m hG d u u' hd hu hu' hr hr'

/-- least squares: a certified `x` minimises `|G z - d|²` over all `z` -/
theorem pinv_cert_least_squares (G : Mat α) (m : Nat) (hG : SymmSquare G m) (d x : Vec α) (hd : d.length = m)
    (hx : x.length = m) (hr : matVec G (vsub (matVec G x) d) = zeros m) (z : Vec α) (hz : z.length = m) :
    sqnorm (vsub (matVec G x) d) ≤ sqnorm (vsub (matVec G z) d) := by
  exact pinv_least_squares_list G m hG d x hd hx hr z hz

/-- minimum norm: among all least-squares solutions the certified one (in the range of `G`) is the shortest -/
theorem pinv_cert_min_norm (G : Mat α) (m : Nat) (hG : SymmSquare G m) (d u z : Vec α) (hd : d.length = m)
    (hu : u.length = m) (hz : z.length = m)
    (hr : matVec G (vsub (matVec G (matVec G u)) d) = zeros m)
    (hrz : matVec G (vsub (matVec G z) d) = zeros m) :
    sqnorm (matVec G u) ≤ sqnorm z := by
  exact pinv_min_norm_list G m hG d u z hd hu hz hr hrz

/-- the Moore–Penrose contract of the kernel: for EVERY matrix `P` satisfying the four Penrose equations with the
    symmetric `G`, the certified vector is `P d` — what `torch.linalg.pinv(G) @ d` denotes -/
theorem pinv_cert_eq_penrose (G : Mat α) (m : Nat) (hG : SymmSquare G m) (P : Matrix (Fin m) (Fin m) α)
    (h1 : toMat m m G * P * toMat m m G = toMat m m G) (h2 : P * toMat m m G * P = P)
    (h3 : (toMat m m G * P)ᵀ = toMat m m G * P) (h4 : (P * toMat m m G)ᵀ = P * toMat m m G)
    (d x : Vec α) (hd : d.length = m) (h : pinvApply G d = some x) :
    toFn m x = P *ᵥ toFn m d := by
  exact pinv_eq_penrose_list G m hG P h1 h2 h3 h4 d x hd h

/-- for a positive definite `G` the certified vector is the solution of `G v = d` (the first model's certificate) -/
theorem pinv_cert_eq_solution (G : Mat α) (m : Nat) (hG : SymmSquare G m) (hpd : PosDef G m) (d v x : Vec α)
    (hd : d.length = m) (hv : v.length = m) (hs : matVec G v = d) (h : pinvApply G d = some x) : x = v := by
  exact pinv_eq_solution_list G m hG hpd d v x hd hv hs h

/-- COMPLETENESS of the certified search: for every symmetric matrix (any rank) and every right-hand side of the right
    length the search RETURNS (the system `G³ u = G d` it solves is always consistent and the model's Gauss–Jordan routine finds
    a solution of every consistent system), so — with `pinvApply_sound` and `pinv_cert_unique` — `pinvApply` is total and its
    value is THE minimum-norm least-squares solution -/
theorem pinvApply_total (G : Mat α) (m : Nat) (hG : SymmSquare G m) (d : Vec α) (hd : d.length = m) :
    ∃ x, pinvApply G d = some x := by
  exact pinvApply_complete G m hG d hd

/-- hence the any-rank IMTL-G model returns weights for every matrix and every vector of row norms of the right length -/
theorem imtlgWeightsP_total (J : Mat α) (m n : Nat) (hJ : MatWF J m n) (d : Vec α) (hd : d.length = m) (guard : α) :
    ∃ w, imtlgWeightsP J d guard = some w := by
  exact imtlgWeightsP_complete J m n hJ d hd guard

/-- … and so does the any-rank ConFIG model, for every matrix, every vector of row norms and every preference vector of the
    right length (zero rows included: their unit row is zero) -/
theorem configVecP_total (J : Mat α) (m n : Nat) (hJ : MatWF J m n) (d w : Vec α) (hd : d.length = m) (hw : w.length = m) :
    ∃ x, configVecP J d w n = some x := by
  exact configVecP_complete J m n hJ d w hd hw

/-! ### IMTL-G at any rank -/

/-- C08: the weights depend on `J` through `J Jᵀ` only (row norms `d` are invariant under an orthogonal `Q`) -/
theorem imtlgP_orthogonal_invariant (J Q : Mat α) (m n : Nat) (hJ : MatWF J m n) (hQ : Orthogonal Q n)
    (d : Vec α) (guard : α) :
    imtlgWeightsP (mulRight n J Q) d guard = imtlgWeightsP J d guard := by
  exact imtlgP_mulRight J Q m n hJ hQ d guard

/-- C10: permuting the rows (and the row norms along) does not change the aggregation — no uniqueness hypothesis -/
theorem imtlgP_row_perm [Inhabited α] (J : Mat α) (m n : Nat) (hJ : MatWF J m n) (d : Vec α) (hd : d.length = m) (guard : α)
    (p : List Nat) (hp : p.Perm (List.range m)) (w w' : Vec α)
    (h : imtlgWeightsP J d guard = some w)
    (h' : imtlgWeightsP (permV p J) (permV p d) guard = some w') :
    combine n (permV p J) w' = combine n J w := by
  exact imtlgP_perm J m n hJ d hd guard p hp w w' h h'

/-- C11: the weights are invariant under a positive rescaling of the matrix (the row norms scale along) -/
theorem imtlgP_scale_invariant (J : Mat α) (m n : Nat) (hJ : MatWF J m n) (d : Vec α) (hd : d.length = m)
    (guard t : α) (ht : 0 < t) (hg : 0 ≤ guard) (w w' : Vec α) (h : imtlgWeightsP J d guard = some w)
    (h' : imtlgWeightsP (J.map (smul t)) (d.map (t * ·)) guard = some w') : w' = w := by
  exact imtlgP_scale J m n hJ d hd guard t ht hg w w' h h'

/-- on independent rows the two models agree -/
theorem imtlgP_agrees_full_rank (J : Mat α) (m n : Nat) (hJ : MatWF J m n) (hpd : PosDef (gram J) m)
    (d : Vec α) (hd : d.length = m) (guard : α) (w w' : Vec α) (h : imtlgWeights J d guard = some w)
    (h' : imtlgWeightsP J d guard = some w') : w' = w := by
  exact imtlgP_agrees J m n hJ hpd d hd guard w w' h h'

/-! ### ConFIG at any rank -/

/-- C10 for ConFIG: permuting rows, row norms and preference weights together does not change the result -/
theorem configP_row_perm [Inhabited α] (J : Mat α) (m n : Nat) (hJ : MatWF J m n) (d w : Vec α) (hd : d.length = m)
    (hw : w.length = m) (p : List Nat) (hp : p.Perm (List.range m)) (x x' : Vec α)
    (h : configVecP J d w n = some x)
    (h' : configVecP (permV p J) (permV p d) (permV p w) n = some x') : x' = x := by
  exact configP_perm J m n hJ d w hd hw p hp x x' h h'

/-- non-vacuity: a rank-deficient instance on which the search succeeds (row 3 = row 1 + row 2) -/
example : imtlgWeightsP ([[1, 0, 0], [0, 1, 0], [1, 1, 0]] : Mat Rat) [1, 1, 2] (1 / 1000000000000) =
    some [1 / 4, 1 / 4, 1 / 2] := by
  decide +kernel

end Tjd.Props.C17b
