/-
  C02 — mtl_backward(): own-task gradients for heads, aggregated Jacobian for the trunk.

  PROPERTY THEOREMS ONLY (statements fixed; helper lemmas in TjdLemmas/).
  `mtlBackward` models `torchjd.autojac.mtl_backward` (per-task Init→Grad→(Select | Accumulate∘Select),
  Stack, Jac(features→shared), Aggregate, Accumulate).  Quantified over all engines, losses, feature
  lists, task parameter lists (empty, overlapping between tasks), shared orders, aggregators, chunk
  sizes and initial `.grad`s.
-/
import Mathlib.Algebra.Ring.Defs
import Mathlib.Algebra.Field.Defs
import TjdModel.Autojac.MtlSpec
import TjdLemmas.AutojacLemmas
import TjdLemmas.MtlLemmas
namespace Tjd.Props.C02
open Tjd Tjd.Autojac

variable {α : Type} [Semiring α]

/-- a call that passes all argument checks -/
structure ValidMtl (E : Engine α) (ndim : Key → Nat) (losses features : List Key)
    (tps : List (List Key)) (shared : List Key) (chunk : Option Int) : Prop where
  wf : E.WF
  feat_ne : features ≠ []
  losses_ne : losses ≠ []
  len : losses.length = tps.length
  scalar : ∀ l ∈ losses, ndim l = 0 ∧ E.numel l = 1
  no_overlap : ∀ tp ∈ tps, ∀ p ∈ tp, p ∉ shared
  tp_nodup : ∀ tp ∈ tps, (tp ++ features).Nodup
  feat_nodup : features.Nodup
  shared_nodup : shared.Nodup
  chunk_pos : ∀ c, chunk = some c → 0 < c
  params_ok : ∀ p ∈ shared ++ tps.flatten, E.expectsGrad p = true ∧ E.requiresGrad p = true
  feats_rg : ∀ f ∈ features, E.requiresGrad f = true
  losses_rg : ∀ l ∈ losses, E.requiresGrad l = true

/-- MAIN THEOREM.  On a valid call, if the aggregator maps the matrix whose `i`-th row is the gradient
    of `losses[i]` w.r.t. the shared parameters back-propagated through the features (`mtlJac`) to `v`:
    * every shared parameter `k` has `.grad` increased by its slice of `v`;
    * every task parameter `p` receives, once per task that lists it, the gradient of that task's loss
      w.r.t. `p` (so a parameter shared by two tasks receives the sum);
    * nothing else changes. -/
theorem mtl_eq_spec (E : Engine α) (ndim : Key → Nat) (losses features : List Key)
    (tps : List (List Key)) (shared : List Key) (A : Mat α → Except Err (Vec α))
    (chunk : Option Int) (retain : Bool) (h : Grads α)
    (hv : ValidMtl E ndim losses features tps shared chunk) (hs : shared ≠ [])
    (v : Vec α) (hA : A (mtlJac E losses features shared) = .ok v)
    (hlen : v.length = (shared.map E.numel).sum) :
    let o := mtlBackward E ndim losses features tps shared A chunk retain h
    o.err = none ∧
    ∀ k, o.grads k =
      if k ∈ shared then accum (h k) (sliceOf E.numel shared k v)
      else taskAccum E (List.zip tps losses) k (h k) := by
  have hchecks : MtlChecks E ndim losses features tps shared chunk :=
    ⟨hv.chunk_pos, hv.feat_ne, fun p hp hps => by
        obtain ⟨tp, htp, hptp⟩ := List.mem_flatten.mp hp
        exact hv.no_overlap tp htp p hptp hps,
      fun l hl => (hv.scalar l hl).1, hv.losses_ne, hv.len,
      fun p hp => (hv.params_ok p hp).1, hv.tp_nodup, hv.feat_nodup, hv.shared_nodup⟩
  have hcore : mtlBackward E ndim losses features tps shared A chunk retain h =
      mtlCore E losses features tps shared A chunk retain h := by
    rcases mtlBackward_cases E ndim losses features tps shared A chunk retain h with
      ⟨hn, -⟩ | ⟨-, heq⟩
    · exact absurd hchecks hn
    · exact heq
  have hok : ∀ tl ∈ List.zip tps losses, TaskOk E features tl := by
    intro tl htl
    have htp := (List.of_mem_zip htl).1
    have hl := (List.of_mem_zip htl).2
    refine ⟨?_, (hv.scalar tl.2 hl).2, (List.nodup_append.mp (hv.tp_nodup tl.1 htp)).1, ?_⟩
    · apply callOk_of
      · intro t ht
        rw [List.mem_singleton] at ht
        subst ht
        exact hv.losses_rg _ hl
      · intro i hi
        rcases List.mem_append.mp hi with hi | hi
        · exact (hv.params_ok i (List.mem_append_right _
            (List.mem_flatten.mpr ⟨tl.1, htp, hi⟩))).2
        · exact hv.feats_rg i hi
    · intro p hp
      exact (hv.params_ok p (List.mem_append_right _ (List.mem_flatten.mpr ⟨tl.1, htp, hp⟩))).1
  intro o
  have ho : o = mtlCore E losses features tps shared A chunk retain h := hcore
  rw [ho]
  exact mtlCore_spec E hv.wf losses features tps shared A chunk retain h hv.feat_ne hs
    hv.losses_ne hv.len hv.chunk_pos hv.shared_nodup hv.feats_rg
    (fun p hp => hv.params_ok p (List.mem_append_left _ hp)) hv.no_overlap hok v hA hlen

/-- row `i` always belongs to `losses[i]`: the matrix handed to the aggregator has one row per loss,
    in the order of `losses`, whatever the tasks' parameter lists -/
theorem mtl_rows_in_loss_order (E : Engine α) (losses features shared : List Key) (i : Nat)
    (hi : i < losses.length) :
    (mtlJac E losses features shared).getD i [] = mtlRow E features shared (losses.getD i 0) ∧
    (mtlJac E losses features shared).length = losses.length := by
  unfold mtlJac
  refine ⟨?_, by simp⟩
  exact getD_map_of_lt _ losses i 0 [] hi

/-- task parameters receive their own-task gradients whatever the aggregator does, even when it
    rejects the matrix (the shared parameters are then untouched) -/
theorem mtl_task_params_any_aggregator (E : Engine α) (ndim : Key → Nat) (losses features : List Key)
    (tps : List (List Key)) (shared : List Key) (A : Mat α → Except Err (Vec α))
    (chunk : Option Int) (retain : Bool) (h : Grads α)
    (hv : ValidMtl E ndim losses features tps shared chunk) (k : Key) (hk : k ∉ shared) :
    (mtlBackward E ndim losses features tps shared A chunk retain h).grads k =
      taskAccum E (List.zip tps losses) k (h k) := by
  have hchecks : MtlChecks E ndim losses features tps shared chunk :=
    ⟨hv.chunk_pos, hv.feat_ne, fun p hp hps => by
        obtain ⟨tp, htp, hptp⟩ := List.mem_flatten.mp hp
        exact hv.no_overlap tp htp p hptp hps,
      fun l hl => (hv.scalar l hl).1, hv.losses_ne, hv.len,
      fun p hp => (hv.params_ok p hp).1, hv.tp_nodup, hv.feat_nodup, hv.shared_nodup⟩
  have hcore : mtlBackward E ndim losses features tps shared A chunk retain h =
      mtlCore E losses features tps shared A chunk retain h := by
    rcases mtlBackward_cases E ndim losses features tps shared A chunk retain h with
      ⟨hn, -⟩ | ⟨-, heq⟩
    · exact absurd hchecks hn
    · exact heq
  have hok : ∀ tl ∈ List.zip tps losses, TaskOk E features tl := by
    intro tl htl
    have htp := (List.of_mem_zip htl).1
    have hl := (List.of_mem_zip htl).2
    refine ⟨?_, (hv.scalar tl.2 hl).2, (List.nodup_append.mp (hv.tp_nodup tl.1 htp)).1, ?_⟩
    · apply callOk_of
      · intro t ht
        rw [List.mem_singleton] at ht
        subst ht
        exact hv.losses_rg _ hl
      · intro i hi
        rcases List.mem_append.mp hi with hi | hi
        · exact (hv.params_ok i (List.mem_append_right _
            (List.mem_flatten.mpr ⟨tl.1, htp, hi⟩))).2
        · exact hv.feats_rg i hi
    · intro p hp
      exact (hv.params_ok p (List.mem_append_right _ (List.mem_flatten.mpr ⟨tl.1, htp, hp⟩))).1
  obtain ⟨h1, hrun, hh1⟩ := runTasks_spec E features hv.feat_ne (List.zip tps losses) h hok
  rw [hcore, mtlCore_not_shared E losses features tps shared A chunk retain h h1 _ hrun k hk, hh1 k]

/-- a parameter listed by no task and not shared is untouched -/
theorem taskAccum_unlisted (E : Engine α) (tasks : List (List Key × Key)) (p : Key)
    (g : Option (Vec α)) (hp : ∀ tl ∈ tasks, p ∉ tl.1) : taskAccum E tasks p g = g := by
  exact taskAccum_unlisted' E tasks p g hp

/-- shared/task overlap is rejected before anything changes -/
theorem mtl_rejects_overlap (E : Engine α) (ndim : Key → Nat) (losses features : List Key)
    (tps : List (List Key)) (shared : List Key) (A : Mat α → Except Err (Vec α))
    (chunk : Option Int) (retain : Bool) (h : Grads α)
    (p : Key) (hp : p ∈ tps.flatten) (hps : p ∈ shared) :
    (mtlBackward E ndim losses features tps shared A chunk retain h).err = some Err.value ∧
    (mtlBackward E ndim losses features tps shared A chunk retain h).grads = h := by
  rcases mtlBackward_cases E ndim losses features tps shared A chunk retain h with
    ⟨-, heq⟩ | ⟨hok, -⟩
  · rw [heq]
    exact ⟨rfl, rfl⟩
  · exact absurd hps (hok.2.2.1 p hp)

/-- with a linear aggregator the shared parameters receive what PyTorch would give: for
    `Constant(w)`, the gradient of `Σ_i w_i · losses[i]` back-propagated through the features -/
theorem mtl_constant_row_combination (E : Engine α) (losses features shared : List Key) (w : Vec α)
    (hw : w.length = losses.length) (hl : losses ≠ []) (hE : E.WF) :
    constAgg w (mtlJac E losses features shared) =
      .ok (vsum ((shared.map E.numel).sum)
            (List.zipWith (fun wi l => smul wi (mtlRow E features shared l)) w losses)) := by
  have hrows : ∀ row ∈ mtlJac E losses features shared, row.length = (shared.map E.numel).sum := by
    intro row hrow
    unfold mtlJac at hrow
    obtain ⟨l, _, rfl⟩ := List.mem_map.mp hrow
    exact mtlRow_length E hE features shared l
  have hne : mtlJac E losses features shared ≠ [] := by
    unfold mtlJac
    simpa using hl
  have hlen : (mtlJac E losses features shared).length = w.length := by
    unfold mtlJac
    simp [hw]
  unfold constAgg
  rw [if_neg (by simpa using hlen), ncols_of_rows _ _ hne hrows, combine_def]
  unfold mtlJac
  rw [List.zipWith_map_right]

/-- `Mean()` on the shared parameters: the gradient of the mean of the losses, `(1/T) Σ_i ∇ losses[i]`,
    back-propagated through the features -/
theorem mtl_mean_row_combination {β : Type} [DivisionRing β] (E : Engine β) (losses features shared : List Key)
    (hl : losses ≠ []) (hE : E.WF) :
    meanAgg (mtlJac E losses features shared) =
      .ok (vsum ((shared.map E.numel).sum)
            (losses.map fun l => smul (1 / ((losses.length : Nat) : β)) (mtlRow E features shared l))) := by
  have h := mtl_constant_row_combination E losses features shared
    (List.replicate losses.length (1 / ((losses.length : Nat) : β))) (by simp) hl hE
  have hlen : (mtlJac E losses features shared).length = losses.length := by
    unfold mtlJac
    simp
  have hm : meanAgg (mtlJac E losses features shared) =
      constAgg (List.replicate losses.length (1 / ((losses.length : Nat) : β)))
        (mtlJac E losses features shared) := by
    unfold meanAgg constAgg
    rw [if_neg (by simp [hlen]), hlen]
  rw [hm, h]
  congr 2
  apply List.ext_getElem
  · simp
  · intro i h1 h2
    simp

end Tjd.Props.C02
