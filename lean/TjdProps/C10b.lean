/-
  C10 (continued) — row-permutation invariance for the remaining aggregators of the property:
  MGDA (when no argmin / threshold decision is tied: the model's decision margin is positive), IMTL-G and
  ConFIG (independent rows), Aligned-MTL; and C11 (continued): Krum is positively homogeneous.

  PROPERTY THEOREMS ONLY (statements fixed; helper lemmas in TjdLemmas/PermLemmas.lean).
-/
import Mathlib.Algebra.Order.Field.Basic
import TjdModel.Agg.Spec2
import TjdLemmas.PermLemmas
import TjdLemmas.KrumPermLemmas
import TjdProps.C10
namespace Tjd.Props.C10
open Tjd Tjd.Agg

variable {α : Type} [Field α] [LinearOrder α] [IsStrictOrderedRing α]

/-- one Frank–Wolfe step commutes with a simultaneous permutation of the Gramian and the weights as soon
    as its argmin is not tied (`torch.argmin` breaks ties by index, so equivariance genuinely fails at
    ties, which the property excludes) -/
theorem fwStep_row_perm [Inhabited α] (G : Mat α) (m : Nat) (hG : SymmSquare G m) (a : Vec α)
    (ha : a.length = m) (p : List Nat) (hp : p.Perm (List.range m))
    (hgap : 0 < (argminGap (matVec G a)).2) :
    (fwStep (permV p (G.map (permV p))) (permV p a)).1 = permV p (fwStep G a).1 ∧
    (fwStep (permV p (G.map (permV p))) (permV p a)).2.1 = (fwStep G a).2.1 := by
  exact PermL.fwStep_row_perm' G m hG a ha p hp hgap

/-- MGDA: if the decision margin reported by the model for the run on `G` is positive (no tie in any
    argmin, no equality in any branch test), the weights for the permuted problem are the permuted weights -/
theorem mgda_row_perm_of_margin [Inhabited α] (G : Mat α) (m : Nat) (hm : 0 < m) (hG : SymmSquare G m)
    (epsilon : α) (K : Nat) (p : List Nat) (hp : p.Perm (List.range m))
    (hmargin : 0 < (mgdaWeights G m (1 / (m : α)) epsilon K).2) :
    (mgdaWeights (permV p (G.map (permV p))) m (1 / (m : α)) epsilon K).1 =
      permV p (mgdaWeights G m (1 / (m : α)) epsilon K).1 := by
  have _ := hm
  exact PermL.mgda_row_perm' G m hG (1 / (m : α)) epsilon K p hp hmargin

/-- IMTL-G (independent rows: `G v = d` has a unique solution) -/
theorem imtlg_row_perm [Inhabited α] (J : Mat α) (m n : Nat) (hJ : MatWF J m n) (d : Vec α)
    (hd : d.length = m) (guard : α) (p : List Nat) (hp : p.Perm (List.range m))
    (huniq : ∀ v v' : Vec α, v.length = m → v'.length = m → matVec (gram J) v = d →
        matVec (gram J) v' = d → v = v')
    (w w' : Vec α) (h : imtlgWeights J d guard = some w)
    (h' : imtlgWeights (permV p J) (permV p d) guard = some w') :
    combine n (permV p J) w' = combine n J w := by
  exact PermL.imtlg_row_perm' J m n hJ d hd guard p hp huniq w w' h h'

/-- ConFIG (independent rows: the unit-row Gramian system has a unique solution) -/
theorem config_row_perm [Inhabited α] (J : Mat α) (m n : Nat) (hJ : MatWF J m n) (d w : Vec α)
    (hd : d.length = m) (hw : w.length = m) (p : List Nat) (hp : p.Perm (List.range m))
    (huniq : ∀ y y' : Vec α, y.length = m → y'.length = m →
        matVec (gram (List.zipWith (fun row di => row.map (· / di)) J d)) y = w →
        matVec (gram (List.zipWith (fun row di => row.map (· / di)) J d)) y' = w → y = y')
    (x x' : Vec α) (h : configVec J d w n = some x)
    (h' : configVec (permV p J) (permV p d) (permV p w) n = some x') : x' = x := by
  exact PermL.config_row_perm' J m n hJ d w hd hw p hp huniq x x' h h'

/-- Aligned-MTL: permuting the rows permutes the entries of the eigenvectors; the balance
    transformation is conjugated by the permutation -/
theorem aligned_row_perm [Inhabited α] (J : Mat α) (m n : Nat) (hJ : MatWF J m n) (vecs : Mat α)
    (sigma w : Vec α) (hv : ∀ v ∈ vecs, v.length = m) (hw : w.length = m) (p : List Nat)
    (hp : p.Perm (List.range m)) (hcert : alignedCert (gram J) vecs sigma = true) (hs : sigma ≠ []) :
    alignedWeights (permV p J) (vecs.map (permV p)) sigma (permV p w) =
      (alignedWeights J vecs sigma w).map (permV p) := by
  exact PermL.aligned_row_perm' J m n hJ vecs sigma w hv hw p hp hcert hs

/-- Krum: permuting the rows permutes rows and columns of the distance matrix.  If the `k`-th and `(k+1)`-th lowest
    scores differ (the gap reported by the model is positive — `topk` breaks exact ties by index, and the property
    excludes them), the weights of the permuted problem are the permuted weights. -/
theorem krum_row_perm_of_gap [Inhabited α] (D : Mat α) (m : Nat) (hD : D.length = m)
    (hrows : ∀ r ∈ D, r.length = m) (f k : Nat) (hk : 1 ≤ k) (hkm : k < m) (p : List Nat)
    (hp : p.Perm (List.range m)) (hgap : 0 < (krumWeights D f k).2) :
    (krumWeights (permV p (D.map (permV p))) f k).1 = permV p (krumWeights D f k).1 := by
  exact PermL.krum_row_perm' D m hD hrows f k hk hkm p hp hgap

/-- C11 (continued): Krum's selection is invariant under positive scaling of the distances, hence Krum is
    positively homogeneous -/
theorem krum_weights_scale_invariant (D : Mat α) (f k : Nat) (t : α) (ht : 0 < t) :
    (krumWeights (D.map (smul t)) f k).1 = (krumWeights D f k).1 := by
  exact PermL.krumWeights_scale D f k t ht

end Tjd.Props.C10
