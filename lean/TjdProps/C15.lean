/-
  C15 — Each building-block transform computes its specified linear map, for all shapes.

  PROPERTY THEOREMS ONLY.  Statements about the individual model transforms (the pieces C01/C02 are
  assembled from), for all key counts, numels, batch sizes, chunk sizes and cotangent values.
-/
import Mathlib.Algebra.Ring.Defs
import TjdModel.Autojac.Spec
import TjdLemmas.AutojacLemmas
namespace Tjd.Props.C15
open Tjd Tjd.Autojac

variable {α : Type} [Semiring α]

/-- Init yields ones -/
theorem init_ones (E : Engine α) (ks : List Key) :
    initT E ks = ks.map fun k => (k, List.replicate (E.numel k) (1 : α)) := by
  rfl

/-- Grad returns, for each input, the vector–Jacobian product of the given cotangents: the sum over
    the outputs of `cotᵀ · block`, the block being zero for unreachable pairs -/
theorem grad_is_vjp (E : Engine α) (hE : E.WF) (outs : List Key) (cots : List (Vec α)) (i : Key)
    (hc : cots.length = outs.length)
    (hlen : ∀ oc ∈ List.zip outs cots, oc.2.length = E.numel oc.1) :
    materialize E i (E.vjp1 outs cots i) =
      vsum (E.numel i) ((List.zip outs cots).map fun oc => vecMat (E.numel i) oc.2 (E.block oc.1 i)) := by
  have _ := hc
  have _ := hlen
  exact vjp1_spec E hE outs cots i

/-- zeros for unreachable inputs -/
theorem grad_unreachable_zero (E : Engine α) (outs : List Key) (cots : List (Vec α)) (i : Key)
    (hk : ∀ o ∈ outs, E.jac o i = none) :
    materialize E i (E.vjp1 outs cots i) = zeros (E.numel i) := by
  have h : E.vjp1 outs cots i = none := by
    apply vjp1_unreachable
    intro oc hoc
    exact hk oc.1 (List.of_mem_zip hoc).1
  rw [h]; rfl

/-- the VJP is additive in the cotangents … -/
theorem vjp_add (E : Engine α) (hE : E.WF) (outs : List Key) (c₁ c₂ : List (Vec α)) (i : Key)
    (h₁ : c₁.length = outs.length) (h₂ : c₂.length = outs.length)
    (hl₁ : ∀ oc ∈ List.zip outs c₁, oc.2.length = E.numel oc.1)
    (hl₂ : ∀ oc ∈ List.zip outs c₂, oc.2.length = E.numel oc.1) :
    materialize E i (E.vjp1 outs (List.zipWith vadd c₁ c₂) i) =
      vadd (materialize E i (E.vjp1 outs c₁ i)) (materialize E i (E.vjp1 outs c₂ i)) := by
  rw [vjp1_spec E hE, vjp1_spec E hE, vjp1_spec E hE]
  have key : ∀ (outs : List Key) (c₁ c₂ : List (Vec α)),
      c₁.length = outs.length → c₂.length = outs.length →
      (∀ oc ∈ List.zip outs c₁, oc.2.length = E.numel oc.1) →
      (∀ oc ∈ List.zip outs c₂, oc.2.length = E.numel oc.1) →
      (List.zip outs (List.zipWith vadd c₁ c₂)).map
          (fun oc => vecMat (E.numel i) oc.2 (E.block oc.1 i)) =
        List.zipWith vadd
          ((List.zip outs c₁).map fun oc => vecMat (E.numel i) oc.2 (E.block oc.1 i))
          ((List.zip outs c₂).map fun oc => vecMat (E.numel i) oc.2 (E.block oc.1 i)) := by
    intro outs
    induction outs with
    | nil => intro c₁ c₂ _ _ _ _; simp
    | cons o outs ih =>
      intro c₁ c₂ h₁ h₂ hl₁ hl₂
      cases c₁ with
      | nil => simp at h₁
      | cons a c₁ =>
        cases c₂ with
        | nil => simp at h₂
        | cons b c₂ =>
          simp only [List.zipWith_cons_cons, List.zip_cons_cons, List.map_cons]
          congr 1
          · have ha := hl₁ (o, a) (by simp)
            have hb := hl₂ (o, b) (by simp)
            exact combine_vadd _ _ _ _ (by simp at ha hb; omega) (block_rows E hE o i)
          · exact ih c₁ c₂ (by simpa using h₁) (by simpa using h₂)
              (fun oc hoc => hl₁ oc (by simp [hoc])) (fun oc hoc => hl₂ oc (by simp [hoc]))
  rw [key outs c₁ c₂ h₁ h₂ hl₁ hl₂]
  apply vsum_zipWith_vadd
  · simp [h₁, h₂]
  · intro x hx
    obtain ⟨oc, _, rfl⟩ := List.mem_map.mp hx
    exact vecMat_length E hE _ _ _
  · intro x hx
    obtain ⟨oc, _, rfl⟩ := List.mem_map.mp hx
    exact vecMat_length E hE _ _ _

/-- … and homogeneous -/
theorem vjp_smul {β : Type} [CommSemiring β] (E : Engine β) (hE : E.WF) (outs : List Key)
    (c : List (Vec β)) (t : β) (i : Key) (h : c.length = outs.length)
    (hl : ∀ oc ∈ List.zip outs c, oc.2.length = E.numel oc.1) :
    materialize E i (E.vjp1 outs (c.map (smul t)) i) = smul t (materialize E i (E.vjp1 outs c i)) := by
  have _ := h
  have _ := hl
  rw [vjp1_spec E hE, vjp1_spec E hE]
  have key : (List.zip outs (c.map (smul t))).map
          (fun oc => vecMat (E.numel i) oc.2 (E.block oc.1 i)) =
        ((List.zip outs c).map fun oc => vecMat (E.numel i) oc.2 (E.block oc.1 i)).map (smul t) := by
    rw [List.zip_map_right, List.map_map, List.map_map]
    apply List.map_congr_left
    intro oc _
    exact combine_smul _ _ _ _ (block_rows E hE oc.1 i)
  rw [key]
  apply vsum_map_smul
  intro x hx
  obtain ⟨oc, _, rfl⟩ := List.mem_map.mp hx
  exact vecMat_length E hE _ _ _

/-- Jac = Grad row by row, for every chunk size: row `r` of the Jacobian of input `i` is what `Grad`
    returns for the `r`-th row of cotangents -/
theorem jac_rows_are_grads (E : Engine α) (hE : E.WF) (outs ins : List Key) (c : Option Nat) (retain : Bool)
    (j j' : JDict α) (sw : List Sweep) (hins : ins.Nodup) (hc : ∀ k, c = some k → 0 < k)
    (h : jacT E outs ins c retain j = .ok (j', sw)) (ho : outs ≠ [])
    (r : Nat) (hr : r < (lookupD j (outs.headD 0) []).length) (i : Key) (hi : i ∈ ins) :
    (lookupD j' i []).getD r [] = materialize E i (E.vjp1 outs (cotRow outs j r) i) := by
  have _ := hins
  have hne : ins ≠ [] := by intro h0; rw [h0] at hi; simp at hi
  have hm : 0 < (lookupD j (outs.headD 0) []).length := by omega
  have hcall := jacT_callOk_of_ok E outs ins c retain j hne ho hm hc _ h
  obtain ⟨sw', hok⟩ := jacT_ok E outs ins c retain j hne ho hm hc hcall
  rw [hok] at h
  injection h with h
  injection h with hj' _
  rw [← hj', lookupD_zip_subMatrices E.numel ins _ i hi,
    getD_map_of_lt _ _ r [] [] (by simpa using hr)]
  have hrow : ((List.range (lookupD j (outs.headD 0) []).length).map (jacRow E outs ins j)).getD r []
      = jacRow E outs ins j r := range_map_getD_lt _ _ r [] hr
  rw [hrow]
  unfold jacRow
  exact sliceOf_flatMap E.numel ins i _ hi (fun k _ => materialize_vjp1_length E hE outs _ k)

/-- Diagonalize: one row per scalar (in key order) holding that scalar's gradient entry at its own
    position and zeros elsewhere -/
theorem diagonalize_spec (E : Engine α) (considered : List Key) (g : GDict α)
    (hnd : considered.Nodup) (hlen : ∀ k ∈ considered, (lookupD g k []).length = E.numel k)
    (k : Key) (hk : k ∈ considered) :
    let L := (considered.map E.numel).sum
    let Jk := lookupD (diagonalizeT E considered g) k []
    Jk.length = L ∧
    ∀ r, r < L → (Jk.getD r []).length = E.numel k ∧
      ∀ c, c < E.numel k →
        (Jk.getD r []).getD c 0 =
          if r = offsetOf E.numel considered k + c then (lookupD g k []).getD c 0 else 0 := by
  have _ := hnd
  intro L Jk
  have hflat : (considered.flatMap fun k => lookupD g k []).length = L :=
    length_flatMap_eq E.numel considered _ hlen
  have hJk : Jk = (diagMat (considered.flatMap fun k => lookupD g k [])).map fun row =>
      (row.drop (offsetOf E.numel considered k)).take (E.numel k) :=
    lookupD_diagonalizeT E considered g k hk
  have hoff := offsetOf_add_le E.numel considered k hk
  refine ⟨by rw [hJk, List.length_map, diagMat_length, hflat], ?_⟩
  intro r hr
  have hrow : Jk.getD r [] = (List.range (E.numel k)).map fun c =>
      if r = offsetOf E.numel considered k + c then
        (considered.flatMap fun k => lookupD g k []).getD r 0 else 0 := by
    have hr' : r < (diagMat (considered.flatMap fun k => lookupD g k [])).length := by
      rw [diagMat_length, hflat]; exact hr
    rw [hJk, getD_map_of_lt _ _ r [] [] hr', diagMat_getD _ r (by rw [hflat]; exact hr), hflat]
    exact range_map_drop_take _ L _ _ hoff
  refine ⟨by rw [hrow]; simp, ?_⟩
  intro c hc
  rw [hrow, List.getD_eq_getElem?_getD, List.getElem?_map, List.getElem?_range hc]
  simp only [Option.map_some, Option.getD_some]
  by_cases hrc : r = offsetOf E.numel considered k + c
  · simp only [hrc, if_true]
    exact flatMap_getD_offset E.numel considered k _ hk hlen c hc 0
  · simp only [hrc, if_false]

/-- Stack stacks per-key gradients with zeros where a key is absent -/
theorem stack_spec (E : Engine α) (ds : List (GDict α)) (k : Key)
    (hk : ∃ d ∈ ds, ∃ v, (k, v) ∈ d) :
    lookupD (stackT E ds) k [] =
      ds.map fun d => match d.find? (·.1 == k) with
                      | some (_, v) => v
                      | none => zeros (E.numel k) := by
  have hk' : k ∈ unionKeys ds := (mem_unionKeys ds k).mpr hk
  unfold stackT
  exact lookupD_map_self _ (unionKeys ds) k [] hk'

theorem stack_keys (E : Engine α) (ds : List (GDict α)) (k : Key) :
    k ∈ (stackT E ds).map (·.1) ↔ ∃ d ∈ ds, ∃ v, (k, v) ∈ d := by
  rw [stackT_keys, mem_unionKeys]

/-- Aggregate applies the aggregator to the column-wise concatenation of the per-key matrices (in
    key order) and returns each key its own slice -/
theorem aggregate_spec (E : Engine α) (A : Mat α → Except Err (Vec α)) (keyOrder : List Key)
    (j : JDict α) (hnd : keyOrder.Nodup) (hne : keyOrder ≠ []) (v : Vec α)
    (hA : A (unite ((lookupD j (keyOrder.headD 0) []).length)
              (keyOrder.map fun k => lookupD j k [])) = .ok v)
    (hlen : v.length = (keyOrder.map E.numel).sum) :
    ∃ g, aggregateT E A keyOrder j = .ok g ∧ g.map (·.1) = keyOrder ∧
      ∀ k ∈ keyOrder, lookupD g k [] = sliceOf E.numel keyOrder k v := by
  have _ := hnd
  have _ : Semiring α := inferInstance
  refine ⟨_, aggregateT_ok E A keyOrder j hne v hA hlen, zip_splitCols_keys E.numel keyOrder v, ?_⟩
  intro k hk
  exact lookupD_zip_splitCols E.numel keyOrder k v hk

/-- Select keeps exactly the requested entries -/
theorem select_spec {β : Type} (keys : List Key) (d : List (Key × β)) (k : Key) (v : β)
    (hd : (d.map (·.1)).Nodup) :
    (k, v) ∈ selectT keys d ↔ k ∈ keys ∧ (k, v) ∈ d := by
  exact mem_selectT keys d k v hd

/-- splitting the columns of a matrix per key and concatenating the blocks again is the identity
    (`_extract_sub_matrices` followed by `_unite`) -/
theorem unite_subMatrices (lengths : List Nat) (M : Mat α)
    (hrow : ∀ row ∈ M, row.length = lengths.sum) :
    unite M.length (subMatrices lengths M) = M := by
  have _ : Semiring α := inferInstance
  exact unite_subMatrices_eq lengths M hrow

end Tjd.Props.C15
