/-
  C15 — Each building-block transform computes its specified linear map, for all shapes.

  PROPERTY THEOREMS ONLY.  Statements about the individual model transforms (the pieces C01/C02 are
  assembled from), for all key counts, numels, batch sizes, chunk sizes and cotangent values.
-/
import Mathlib.Algebra.Ring.Defs
import TjdModel.Autojac.Spec
import TjdLemmas.AutojacLemmas
namespace Tjd.Props.C15
open Tjd Tjd.Autojac

variable {α : Type} [Semiring α]

/-- Init yields ones -/
theorem init_ones (E : Engine α) (ks : List Key) :
    initT E ks = ks.map fun k => (k, List.replicate (E.numel k) (1 : α)) := by
  sorry

/-- Grad returns, for each input, the vector–Jacobian product of the given cotangents: the sum over
    the outputs of `cotᵀ · block`, the block being zero for unreachable pairs -/
theorem grad_is_vjp (E : Engine α) (hE : E.WF) (outs : List Key) (cots : List (Vec α)) (i : Key)
    (hc : cots.length = outs.length)
    (hlen : ∀ oc ∈ List.zip outs cots, oc.2.length = E.numel oc.1) :
    materialize E i (E.vjp1 outs cots i) =
      vsum (E.numel i) ((List.zip outs cots).map fun oc => vecMat (E.numel i) oc.2 (E.block oc.1 i)) := by
  sorry

/-- zeros for unreachable inputs -/
theorem grad_unreachable_zero (E : Engine α) (outs : List Key) (cots : List (Vec α)) (i : Key)
    (hk : ∀ o ∈ outs, E.jac o i = none) :
    materialize E i (E.vjp1 outs cots i) = zeros (E.numel i) := by
  sorry

/-- the VJP is additive in the cotangents … -/
theorem vjp_add (E : Engine α) (hE : E.WF) (outs : List Key) (c₁ c₂ : List (Vec α)) (i : Key)
    (h₁ : c₁.length = outs.length) (h₂ : c₂.length = outs.length)
    (hl₁ : ∀ oc ∈ List.zip outs c₁, oc.2.length = E.numel oc.1)
    (hl₂ : ∀ oc ∈ List.zip outs c₂, oc.2.length = E.numel oc.1) :
    materialize E i (E.vjp1 outs (List.zipWith vadd c₁ c₂) i) =
      vadd (materialize E i (E.vjp1 outs c₁ i)) (materialize E i (E.vjp1 outs c₂ i)) := by
  sorry

/-- … and homogeneous -/
theorem vjp_smul {β : Type} [CommSemiring β] (E : Engine β) (hE : E.WF) (outs : List Key)
    (c : List (Vec β)) (t : β) (i : Key) (h : c.length = outs.length)
    (hl : ∀ oc ∈ List.zip outs c, oc.2.length = E.numel oc.1) :
    materialize E i (E.vjp1 outs (c.map (smul t)) i) = smul t (materialize E i (E.vjp1 outs c i)) := by
  sorry

/-- Jac = Grad row by row, for every chunk size: row `r` of the Jacobian of input `i` is what `Grad`
    returns for the `r`-th row of cotangents -/
theorem jac_rows_are_grads (E : Engine α) (hE : E.WF) (outs ins : List Key) (c : Option Nat) (retain : Bool)
    (j j' : JDict α) (sw : List Sweep) (hins : ins.Nodup) (hc : ∀ k, c = some k → 0 < k)
    (h : jacT E outs ins c retain j = .ok (j', sw)) (ho : outs ≠ [])
    (r : Nat) (hr : r < (lookupD j (outs.headD 0) []).length) (i : Key) (hi : i ∈ ins) :
    (lookupD j' i []).getD r [] = materialize E i (E.vjp1 outs (cotRow outs j r) i) := by
  sorry

/-- Diagonalize: one row per scalar (in key order) holding that scalar's gradient entry at its own
    position and zeros elsewhere -/
theorem diagonalize_spec (E : Engine α) (considered : List Key) (g : GDict α)
    (hnd : considered.Nodup) (hlen : ∀ k ∈ considered, (lookupD g k []).length = E.numel k)
    (k : Key) (hk : k ∈ considered) :
    let L := (considered.map E.numel).sum
    let Jk := lookupD (diagonalizeT E considered g) k []
    Jk.length = L ∧
    ∀ r, r < L → (Jk.getD r []).length = E.numel k ∧
      ∀ c, c < E.numel k →
        (Jk.getD r []).getD c 0 =
          if r = offsetOf E.numel considered k + c then (lookupD g k []).getD c 0 else 0 := by
  sorry

/-- Stack stacks per-key gradients with zeros where a key is absent -/
theorem stack_spec (E : Engine α) (ds : List (GDict α)) (k : Key)
    (hk : ∃ d ∈ ds, ∃ v, (k, v) ∈ d) :
    lookupD (stackT E ds) k [] =
      ds.map fun d => match d.find? (·.1 == k) with
                      | some (_, v) => v
                      | none => zeros (E.numel k) := by
  sorry

theorem stack_keys (E : Engine α) (ds : List (GDict α)) (k : Key) :
    k ∈ (stackT E ds).map (·.1) ↔ ∃ d ∈ ds, ∃ v, (k, v) ∈ d := by
  sorry

/-- Aggregate applies the aggregator to the column-wise concatenation of the per-key matrices (in
    key order) and returns each key its own slice -/
theorem aggregate_spec (E : Engine α) (A : Mat α → Except Err (Vec α)) (keyOrder : List Key)
    (j : JDict α) (hnd : keyOrder.Nodup) (hne : keyOrder ≠ []) (v : Vec α)
    (hA : A (unite ((lookupD j (keyOrder.headD 0) []).length)
              (keyOrder.map fun k => lookupD j k [])) = .ok v)
    (hlen : v.length = (keyOrder.map E.numel).sum) :
    ∃ g, aggregateT E A keyOrder j = .ok g ∧ g.map (·.1) = keyOrder ∧
      ∀ k ∈ keyOrder, lookupD g k [] = sliceOf E.numel keyOrder k v := by
  sorry

/-- Select keeps exactly the requested entries -/
theorem select_spec {β : Type} (keys : List Key) (d : List (Key × β)) (k : Key) (v : β)
    (hd : (d.map (·.1)).Nodup) :
    (k, v) ∈ selectT keys d ↔ k ∈ keys ∧ (k, v) ∈ d := by
  sorry

/-- splitting the columns of a matrix per key and concatenating the blocks again is the identity
    (`_extract_sub_matrices` followed by `_unite`) -/
theorem unite_subMatrices (lengths : List Nat) (M : Mat α)
    (hrow : ∀ row ∈ M, row.length = lengths.sum) :
    unite M.length (subMatrices lengths M) = M := by
  sorry

end Tjd.Props.C15
