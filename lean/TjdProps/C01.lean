/-
  C01 — backward() deposits the aggregation of the true Jacobian into .grad.

  PROPERTY THEOREMS ONLY (statements fixed; helper lemmas in TjdLemmas/AutojacLemmas.lean).
  `backward` is the model of `torchjd.autojac.backward` (TjdModel/Autojac/Pipeline.lean):
  Accumulate ∘ Aggregate ∘ Jac ∘ Diagonalize ∘ Init, with chunked differentiation.
  Everything is quantified over all engines (= all autograd graphs), all tensor lists, all input
  orderings, all aggregators `A`, all chunk sizes, all initial `.grad` contents.
-/
import Mathlib.Algebra.Ring.Defs
import TjdModel.Autojac.Spec
import TjdLemmas.AutojacLemmas
namespace Tjd.Props.C01
open Tjd Tjd.Autojac

variable {α : Type} [Semiring α]

/-- hypotheses under which `backward` is specified by the property (valid call) -/
structure ValidCall (E : Engine α) (tensors inputs : List Key) (chunk : Option Int) : Prop where
  wf : E.WF
  tensors_nodup : tensors.Nodup
  inputs_nodup : inputs.Nodup
  rows_pos : 0 < (tensors.map E.numel).sum                 -- at least one scalar to differentiate
  chunk_pos : ∀ c, chunk = some c → 0 < c
  outs_rg : ∀ t ∈ tensors, E.requiresGrad t = true
  ins_ok : ∀ i ∈ inputs, E.requiresGrad i = true ∧ E.expectsGrad i = true

/-- MAIN THEOREM.  On a valid call, if the aggregator maps the true Jacobian `J(tensors, inputs)` to
    `v` (of the right length), then `backward` succeeds, every input `k` has its `.grad` increased by
    exactly its own slice of `v`, and no other `.grad` changes. -/
theorem backward_eq_spec (E : Engine α) (tensors inputs : List Key)
    (A : Mat α → Except Err (Vec α)) (chunk : Option Int) (retain : Bool) (h : Grads α)
    (hv : ValidCall E tensors inputs chunk) (hne : inputs ≠ [])
    (v : Vec α) (hA : A (fullJac E tensors inputs) = .ok v)
    (hlen : v.length = (inputs.map E.numel).sum) :
    (backward E tensors inputs A chunk retain h).err = none ∧
    ∀ k, (backward E tensors inputs A chunk retain h).grads k =
      if k ∈ inputs then accum (h k) (sliceOf E.numel inputs k v) else h k := by
  rw [backward_eq_go E tensors inputs A chunk retain h hv.chunk_pos]
  exact go_ok E hv.wf tensors inputs A _ retain h hv.tensors_nodup hv.inputs_nodup hv.rows_pos
    (toNat_chunk_pos chunk hv.chunk_pos) hne hv.outs_rg hv.ins_ok v hA hlen

/-- the matrix handed to the aggregator IS the true Jacobian (this is what the value theorem above
    rests on; stated separately because C15 and C05 use it): on a valid call, `Jac ∘ Diagonalize ∘
    Init` followed by `_unite` yields `fullJac` -/
theorem backward_matrix_is_jacobian (E : Engine α) (tensors inputs : List Key) (chunk : Option Int)
    (retain : Bool) (hv : ValidCall E tensors inputs chunk) (hne : inputs ≠ []) :
    ∃ j sw, jacT E tensors inputs (chunk.map Int.toNat) retain
        (diagonalizeT E tensors (initT E tensors)) = .ok (j, sw) ∧
      unite ((tensors.map E.numel).sum) (inputs.map fun k => lookupD j k []) =
        fullJac E tensors inputs := by
  obtain ⟨sw, hsw⟩ := jacT_backward E hv.wf tensors inputs (chunk.map Int.toNat) retain
    hv.tensors_nodup hv.rows_pos (toNat_chunk_pos chunk hv.chunk_pos) hne hv.outs_rg
    (fun i hi => (hv.ins_ok i hi).1)
  refine ⟨_, sw, hsw, ?_⟩
  rw [map_lookupD_zip inputs _ [] hv.inputs_nodup (by simp [subMatrices_length]),
    ← fullJac_length E tensors inputs]
  exact unite_subMatrices_eq _ _ (fullJac_row_length E hv.wf tensors inputs)

/-- if the aggregator rejects the Jacobian, `backward` reports that error and no `.grad` changes -/
theorem backward_aggregator_error (E : Engine α) (tensors inputs : List Key)
    (A : Mat α → Except Err (Vec α)) (chunk : Option Int) (retain : Bool) (h : Grads α)
    (hv : ValidCall E tensors inputs chunk) (hne : inputs ≠ [])
    (e : Err) (hA : A (fullJac E tensors inputs) = .error e) :
    (backward E tensors inputs A chunk retain h).err = some e ∧
    (backward E tensors inputs A chunk retain h).grads = h := by
  rw [backward_eq_go E tensors inputs A chunk retain h hv.chunk_pos]
  exact go_agg_error E hv.wf tensors inputs A _ retain h hv.tensors_nodup hv.inputs_nodup
    hv.rows_pos (toNat_chunk_pos chunk hv.chunk_pos) hne hv.outs_rg
    (fun i hi => (hv.ins_ok i hi).1) e hA

/-- an aggregator returning a vector of the wrong length is rejected (`_disunite`), nothing changes -/
theorem backward_wrong_length (E : Engine α) (tensors inputs : List Key)
    (A : Mat α → Except Err (Vec α)) (chunk : Option Int) (retain : Bool) (h : Grads α)
    (hv : ValidCall E tensors inputs chunk) (hne : inputs ≠ [])
    (v : Vec α) (hA : A (fullJac E tensors inputs) = .ok v)
    (hlen : v.length ≠ (inputs.map E.numel).sum) :
    (backward E tensors inputs A chunk retain h).err = some Err.value ∧
    (backward E tensors inputs A chunk retain h).grads = h := by
  rw [backward_eq_go E tensors inputs A chunk retain h hv.chunk_pos]
  exact go_wrong_length E hv.wf tensors inputs A _ retain h hv.tensors_nodup hv.inputs_nodup
    hv.rows_pos (toNat_chunk_pos chunk hv.chunk_pos) hne hv.outs_rg
    (fun i hi => (hv.ins_ok i hi).1) v hA hlen

/-- with no inputs nothing is differentiated and nothing changes -/
theorem backward_no_inputs (E : Engine α) (tensors : List Key) (A : Mat α → Except Err (Vec α))
    (chunk : Option Int) (retain : Bool) (h : Grads α)
    (hc : ∀ c, chunk = some c → 0 < c) (ht : tensors ≠ []) (hnd : tensors.Nodup) :
    (backward E tensors [] A chunk retain h).err = none ∧
    (backward E tensors [] A chunk retain h).grads = h := by
  rw [backward_eq_go E tensors [] A chunk retain h hc]
  exact go_no_inputs E tensors A _ retain h ht hnd

/-- an input that no listed tensor depends on contributes an all-zero column block to the Jacobian -/
theorem fullJac_unreachable_zero (E : Engine α) (tensors inputs : List Key) (k : Key)
    (hk : ∀ t ∈ tensors, E.jac t k = none) (row : Vec α) (hrow : row ∈ fullJac E tensors (k :: inputs)) :
    row.take (E.numel k) = zeros (E.numel k) := by
  unfold fullJac at hrow
  obtain ⟨t, ht, hrow⟩ := List.mem_flatMap.mp hrow
  unfold fullJacRows at hrow
  obtain ⟨r, hr, rfl⟩ := List.mem_map.mp hrow
  have hr' : r < E.numel t := List.mem_range.mp hr
  have hb : (E.block t k).getD r [] = zeros (E.numel k) := by
    rw [block_of_none E t k (hk t ht)]
    simp [List.getD_eq_getElem?_getD, hr']
  rw [List.flatMap_cons, hb]
  simp [zeros]

/-- ORDER INDEPENDENCE.  Reordering the inputs permutes the columns of the Jacobian; if the
    aggregator commutes with column permutations (every aggregator of the library does: C08), each
    input receives the same slice whatever the order.  `permCols p` reorders a row by the index list
    `p`. -/
def permCols (p : List Nat) (row : Vec α) : Vec α := p.map fun c => row.getD c 0

def ColumnEquivariant (A : Mat α → Except Err (Vec α)) : Prop :=
  ∀ (J : Mat α) (n : Nat) (p : List Nat), J ≠ [] → p.Perm (List.range n) →
    (∀ row ∈ J, row.length = n) → A (J.map (permCols p)) = (A J).map (permCols p)

theorem backward_order_indep (E : Engine α) (tensors I I' : List Key)
    (A : Mat α → Except Err (Vec α)) (hA : ColumnEquivariant A) (hE : E.WF)
    (hI : I.Nodup) (hperm : I.Perm I') (hrows : 0 < (tensors.map E.numel).sum)
    (v : Vec α) (hv : A (fullJac E tensors I) = .ok v) (hlen : v.length = (I.map E.numel).sum) :
    ∃ v', A (fullJac E tensors I') = .ok v' ∧
      ∀ k ∈ I, sliceOf E.numel I k v = sliceOf E.numel I' k v' := by
  have hpc : ∀ p : List Nat, (permCols p : Vec α → Vec α) = pc p := fun _ => rfl
  have hsub : ∀ k ∈ I', k ∈ I := fun k hk => hperm.mem_iff.mpr hk
  have hJ : fullJac E tensors I ≠ [] := by
    intro h0
    have := fullJac_length E tensors I
    rw [h0] at this
    simp at this
    omega
  have hJ' : fullJac E tensors I' =
      (fullJac E tensors I).map (permCols (colPerm E.numel I I')) := by
    rw [hpc]; exact fullJac_colPerm E hE tensors I I' hsub
  have hApp := hA (fullJac E tensors I) ((I.map E.numel).sum) (colPerm E.numel I I') hJ
    (colPerm_perm E.numel I I' hI hperm) (fullJac_row_length E hE tensors I)
  refine ⟨permCols (colPerm E.numel I I') v, ?_, ?_⟩
  · rw [hJ', hApp, hv]; rfl
  · intro k hk
    exact (sliceOf_colPerm E.numel I I' v 0 k hk (hperm.mem_iff.mp hk) hlen).symm

/-- the hypothesis of `backward_order_indep` is satisfiable: `Sum()` and `Constant(w)` commute with
    column permutations -/
theorem sumAgg_columnEquivariant : ColumnEquivariant (sumAgg : Mat α → Except Err (Vec α)) := by
  intro J n p hJ hp hrows
  have hpc : (permCols p : Vec α → Vec α) = pc p := rfl
  have hpl : p.length = n := by rw [hp.length_eq]; simp
  simp only [sumAgg, Except.map]
  rw [hpc, ncols_map_pc p J hJ, ncols_of_rows n J hJ hrows, List.length_map,
    pc_combine p n J _ hrows]

theorem constAgg_columnEquivariant (w : Vec α) : ColumnEquivariant (constAgg w) := by
  intro J n p hJ hp hrows
  have hpc : (permCols p : Vec α → Vec α) = pc p := rfl
  have hpl : p.length = n := by rw [hp.length_eq]; simp
  simp only [constAgg, List.length_map]
  by_cases hl : J.length ≠ w.length
  · rw [if_pos hl, if_pos hl]; rfl
  · rw [if_neg hl, if_neg hl]
    simp only [Except.map]
    rw [hpc, ncols_map_pc p J hJ, ncols_of_rows n J hJ hrows, pc_combine p n J _ hrows]

/-! non-vacuity: a concrete engine over ℤ-like scalars meeting `ValidCall` is exhibited in
    TjdProps/C01Example.lean (two outputs of shapes [] and [2], three inputs of shapes [], [2,1], [3],
    one of them unreachable, Constant weights [1,2,-3], chunk 2). -/

end Tjd.Props.C01
