import TjdModel.Autojac.Pipeline
namespace Tjd.Props.C01
open Tjd Tjd.Autojac

theorem chunkRanges_none_single (m : Nat) (hm : 0 < m) : chunkRanges m none = [(0, m)] := by
  simp [chunkRanges]
  have : (m + m - 1) / m = 1 := by
    rw [Nat.div_eq_iff (by omega)]; omega
  simp [this]

end Tjd.Props.C01
