/-
  C01 — backward() deposits the aggregation of the true Jacobian into .grad.

  PROPERTY THEOREMS ONLY (statements fixed; helper lemmas in TjdLemmas/AutojacLemmas.lean).
  `backward` is the model of `torchjd.autojac.backward` (TjdModel/Autojac/Pipeline.lean):
  Accumulate ∘ Aggregate ∘ Jac ∘ Diagonalize ∘ Init, with chunked differentiation.
  Everything is quantified over all engines (= all autograd graphs), all tensor lists, all input
  orderings, all aggregators `A`, all chunk sizes, all initial `.grad` contents.
-/
import Mathlib.Algebra.Ring.Defs
import TjdModel.Autojac.Spec
import TjdLemmas.AutojacLemmas
namespace Tjd.Props.C01
open Tjd Tjd.Autojac

variable {α : Type} [Semiring α]

/-- hypotheses under which `backward` is specified by the property (valid call) -/
structure ValidCall (E : Engine α) (tensors inputs : List Key) (chunk : Option Int) : Prop where
  wf : E.WF
  tensors_nodup : tensors.Nodup
  inputs_nodup : inputs.Nodup
  rows_pos : 0 < (tensors.map E.numel).sum                 -- at least one scalar to differentiate
  chunk_pos : ∀ c, chunk = some c → 0 < c
  outs_rg : ∀ t ∈ tensors, E.requiresGrad t = true
  ins_ok : ∀ i ∈ inputs, E.requiresGrad i = true ∧ E.expectsGrad i = true

/-- MAIN THEOREM.  On a valid call, if the aggregator maps the true Jacobian `J(tensors, inputs)` to
    `v` (of the right length), then `backward` succeeds, every input `k` has its `.grad` increased by
    exactly its own slice of `v`, and no other `.grad` changes. -/
theorem backward_eq_spec (E : Engine α) (tensors inputs : List Key)
    (A : Mat α → Except Err (Vec α)) (chunk : Option Int) (retain : Bool) (h : Grads α)
    (hv : ValidCall E tensors inputs chunk) (hne : inputs ≠ [])
    (v : Vec α) (hA : A (fullJac E tensors inputs) = .ok v)
    (hlen : v.length = (inputs.map E.numel).sum) :
    (backward E tensors inputs A chunk retain h).err = none ∧
    ∀ k, (backward E tensors inputs A chunk retain h).grads k =
      if k ∈ inputs then accum (h k) (sliceOf E.numel inputs k v) else h k := by
  sorry

/-- the matrix handed to the aggregator IS the true Jacobian (this is what the value theorem above
    rests on; stated separately because C15 and C05 use it): on a valid call, `Jac ∘ Diagonalize ∘
    Init` followed by `_unite` yields `fullJac` -/
theorem backward_matrix_is_jacobian (E : Engine α) (tensors inputs : List Key) (chunk : Option Int)
    (retain : Bool) (hv : ValidCall E tensors inputs chunk) (hne : inputs ≠ []) :
    ∃ j sw, jacT E tensors inputs (chunk.map Int.toNat) retain
        (diagonalizeT E tensors (initT E tensors)) = .ok (j, sw) ∧
      unite ((tensors.map E.numel).sum) (inputs.map fun k => lookupD j k []) =
        fullJac E tensors inputs := by
  sorry

/-- if the aggregator rejects the Jacobian, `backward` reports that error and no `.grad` changes -/
theorem backward_aggregator_error (E : Engine α) (tensors inputs : List Key)
    (A : Mat α → Except Err (Vec α)) (chunk : Option Int) (retain : Bool) (h : Grads α)
    (hv : ValidCall E tensors inputs chunk) (hne : inputs ≠ [])
    (e : Err) (hA : A (fullJac E tensors inputs) = .error e) :
    (backward E tensors inputs A chunk retain h).err = some e ∧
    (backward E tensors inputs A chunk retain h).grads = h := by
  sorry

/-- an aggregator returning a vector of the wrong length is rejected (`_disunite`), nothing changes -/
theorem backward_wrong_length (E : Engine α) (tensors inputs : List Key)
    (A : Mat α → Except Err (Vec α)) (chunk : Option Int) (retain : Bool) (h : Grads α)
    (hv : ValidCall E tensors inputs chunk) (hne : inputs ≠ [])
    (v : Vec α) (hA : A (fullJac E tensors inputs) = .ok v)
    (hlen : v.length ≠ (inputs.map E.numel).sum) :
    (backward E tensors inputs A chunk retain h).err = some Err.value ∧
    (backward E tensors inputs A chunk retain h).grads = h := by
  sorry

/-- with no inputs nothing is differentiated and nothing changes -/
theorem backward_no_inputs (E : Engine α) (tensors : List Key) (A : Mat α → Except Err (Vec α))
    (chunk : Option Int) (retain : Bool) (h : Grads α)
    (hc : ∀ c, chunk = some c → 0 < c) (ht : tensors ≠ []) (hnd : tensors.Nodup) :
    (backward E tensors [] A chunk retain h).err = none ∧
    (backward E tensors [] A chunk retain h).grads = h := by
  sorry

/-- an input that no listed tensor depends on contributes an all-zero column block to the Jacobian -/
theorem fullJac_unreachable_zero (E : Engine α) (tensors inputs : List Key) (k : Key)
    (hk : ∀ t ∈ tensors, E.jac t k = none) (row : Vec α) (hrow : row ∈ fullJac E tensors (k :: inputs)) :
    row.take (E.numel k) = zeros (E.numel k) := by
  sorry

/-- ORDER INDEPENDENCE.  Reordering the inputs permutes the columns of the Jacobian; if the
    aggregator commutes with column permutations (every aggregator of the library does: C08), each
    input receives the same slice whatever the order.  `permCols p` reorders a row by the index list
    `p`. -/
def permCols (p : List Nat) (row : Vec α) : Vec α := p.map fun c => row.getD c 0

def ColumnEquivariant (A : Mat α → Except Err (Vec α)) : Prop :=
  ∀ (J : Mat α) (n : Nat) (p : List Nat), J ≠ [] → p.Perm (List.range n) →
    (∀ row ∈ J, row.length = n) → A (J.map (permCols p)) = (A J).map (permCols p)

theorem backward_order_indep (E : Engine α) (tensors I I' : List Key)
    (A : Mat α → Except Err (Vec α)) (hA : ColumnEquivariant A) (hE : E.WF)
    (hI : I.Nodup) (hperm : I.Perm I') (hrows : 0 < (tensors.map E.numel).sum)
    (v : Vec α) (hv : A (fullJac E tensors I) = .ok v) (hlen : v.length = (I.map E.numel).sum) :
    ∃ v', A (fullJac E tensors I') = .ok v' ∧
      ∀ k ∈ I, sliceOf E.numel I k v = sliceOf E.numel I' k v' := by
  sorry

/-- the hypothesis of `backward_order_indep` is satisfiable: `Sum()` and `Constant(w)` commute with
    column permutations -/
theorem sumAgg_columnEquivariant : ColumnEquivariant (sumAgg : Mat α → Except Err (Vec α)) := by
  sorry

theorem constAgg_columnEquivariant (w : Vec α) : ColumnEquivariant (constAgg w) := by
  sorry

/-! non-vacuity: a concrete engine over ℤ-like scalars meeting `ValidCall` is exhibited in
    TjdProps/C01Example.lean (two outputs of shapes [] and [2], three inputs of shapes [], [2,1], [3],
    one of them unreachable, Constant weights [1,2,-3], chunk 2). -/

end Tjd.Props.C01
