/-
  C04 — Non-conflicting aggregators never oppose any objective.

  PROPERTY THEOREMS ONLY.  UPGrad / DualProj: see `dualproj_nonconflict`, `upgrad_nonconflict` in
  TjdProps/C03.lean (primal feasibility of the projection gives the allowance `reg_eps·s²·w_i`).
  Here: MGDA (allowance in terms of the sub-optimality, and the Frank–Wolfe rate 8 s²/(K+2)), and the existence of
  the minimum-norm point of the hull together with the COMPLETENESS of the certified search that computes it
  (`minNorm_total`, helper lemmas in TjdLemmas/MinNormTotal.lean): the oracle behind the allowance never fails.
  CAGrad: non-conflict for `c ≥ 1` is proved from the first-order optimality of the conic solver's answer in
  TjdProps/C03b.lean (`cagrad_nonconflict_of_optimality`); that the solver's answer satisfies that condition is a
  kernel contract, measured by the check (see DESIGN §8, §10.3).
-/
import Mathlib.Algebra.Order.Field.Basic
import TjdModel.Agg.Spec2
import TjdLemmas.FWLemmas
import TjdLemmas.MinNormTotal
import TjdLemmas.NashScale
namespace Tjd.Props.C04
open Tjd Tjd.Agg

variable {α : Type} [Field α] [LinearOrder α] [IsStrictOrderedRing α]

/-- the certificate of the min-norm search characterises the minimum of `αᵀGα` on the simplex -/
theorem minnorm_certificate (G : Mat α) (m : Nat) (hG : SymmSquare G m) (hpsd : PosSemidef G m)
    (a : Vec α) (h : minNormCheck G a = true) :
    InSimplex a m ∧ ∀ b, InSimplex b m → qf G a ≤ qf G b := by
  exact minnorm_cert G m hG hpsd a h

/-- MGDA, allowance: for ANY convex combination `x = Jᵀα` and the minimum-norm point `g* = Jᵀa*` of the
    hull, `⟨j_i, x⟩ ≥ -|j_i| sqrt(|x|² - |g*|²)`; stated without square roots. (`|j_i| ≤ s`.) -/
theorem mgda_nonconflict (J : Mat α) (m n : Nat) (hJ : MatWF J m n) (a astar : Vec α)
    (ha : InSimplex a m) (hstar : minNormCheck (gram J) astar = true) (i : Nat) (hi : i < m)
    (hneg : dot (J.getD i []) (combine n J a) < 0) :
    dot (J.getD i []) (combine n J a) * dot (J.getD i []) (combine n J a) ≤
      dot (J.getD i []) (J.getD i []) * (qf (gram J) a - qf (gram J) astar) := by
  exact mgda_nonconflict' J m n hJ a astar ha hstar i hi hneg

/-- FRANK–WOLFE RATE: with `epsilon = 0` (no early stop), after `K ≥ 1` iterations the sub-optimality is
    at most `8 s² / (K + 2)`, where `s²` bounds the Gramian (`vᵀGv ≤ s² |v|²`: `s` = largest singular
    value of `J`) -/
theorem mgda_fw_rate (G : Mat α) (m : Nat) (hm : 0 < m) (hG : SymmSquare G m) (hpsd : PosSemidef G m)
    (s2 : α) (hs : ∀ v : Vec α, v.length = m → qf G v ≤ s2 * dot v v) (K : Nat) (hK : 1 ≤ K)
    (b : Vec α) (hb : InSimplex b m) :
    qf G (mgdaWeights G m (1 / (m : α)) 0 K).1 - qf G b ≤ 8 * s2 / ((K : α) + 2) := by
  exact mgda_rate G m hm hG hpsd s2 hs K hK b hb

/-- the abstract recurrence behind the rate -/
theorem fw_recurrence (h : Nat → α) (C : α) (hC : 0 ≤ C)
    (hstep : ∀ k, ∀ γ : α, 0 ≤ γ → γ ≤ 1 → h (k + 1) ≤ (1 - γ) * h k + γ * γ * C / 2)
    (k : Nat) (hk : 1 ≤ k) : h k ≤ 2 * C / ((k : α) + 2) := by
  exact fw_rec h C hC hstep k hk

/-- COMPLETENESS of the certified min-norm search (the oracle behind MGDA's allowance in C04 and the stationarity margin
    in C18): for the Gramian of EVERY matrix with at least one row, over every linearly ordered field, `minNorm` RETURNS,
    and what it returns carries the certificate (hence, by `minnorm_certificate`, is a minimiser of `αᵀGα` on the simplex)
    together with its value.  So the minimum-norm point of the hull exists over ℚ as over ℝ and the correspondence can
    never lose a case to "no support found". -/
theorem minNorm_total [Inhabited α] (J : Mat α) (m n : Nat) (hJ : MatWF J m n) (hm : 0 < m) :
    ∃ a v, minNorm (gram J) = some (a, v) ∧ minNormCheck (gram J) a = true ∧ v = qf (gram J) a := by
  exact minNorm_complete_mnt J m n hJ hm

/-- existence alone, in the vocabulary of the property: the simplex has a point of minimum `αᵀGα` -/
theorem minnorm_point_exists (J : Mat α) (m n : Nat) (hJ : MatWF J m n) (hm : 0 < m) :
    ∃ a, InSimplex a m ∧ ∀ b, InSimplex b m → qf (gram J) a ≤ qf (gram J) b := by
  exact minnorm_exists_mnt J m n hJ hm

/-- the shape of the per-objective allowance used for solver-based aggregators (CAGrad): a perturbation `dw` of the
    weights moves `(J A(J))_i = ⟨j_i, Jᵀ w⟩` by at most `|j_i| · Σ_k |dw_k| |j_k|` (squared form, no square roots; with
    `|j_k| ≤ s` this is `|j_i| s |dw|₁`) — an objective with a short row is owed a proportionally small allowance -/
theorem weights_perturbation_row_bound (J : Mat α) (m n : Nat) (hJ : MatWF J m n) (dw : Vec α) (hd : dw.length = m)
    (r : Vec α) (hr : r.length = m) (hrn : ∀ k, k < m → 0 ≤ r.getD k 0 ∧ dot (J.getD k []) (J.getD k []) = r.getD k 0 * r.getD k 0)
    (i : Nat) (hi : i < m) :
    dot (J.getD i []) (combine n J dw) * dot (J.getD i []) (combine n J dw) ≤
      dot (J.getD i []) (J.getD i []) *
        (((List.range m).map fun k => |dw.getD k 0| * r.getD k 0).sum * ((List.range m).map fun k => |dw.getD k 0| * r.getD k 0).sum) := by
  exact perturbation_row_bound_ns J m n hJ dw hd r hr hrn i hi

end Tjd.Props.C04
