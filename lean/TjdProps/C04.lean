import TjdModel.Agg.Simplex
namespace Tjd.Props.C04
open Tjd Tjd.Agg

theorem minNormCheck_len {α : Type} [Zero α] [Add α] [Mul α] [One α] [LE α] [DecidableLE α] [DecidableEq α]
    (G : Mat α) (a : Vec α) (h : minNormCheck G a = true) : a.length = G.length := by
  simp [minNormCheck] at h
  exact h.1.1.1

end Tjd.Props.C04
