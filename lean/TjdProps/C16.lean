/-
  C16 — Byzantine-robust aggregators ignore a bounded number of arbitrary rows.

  PROPERTY THEOREMS ONLY (statements fixed; helper lemmas in TjdLemmas/RobustLemmas.lean).
  Over an arbitrary linearly ordered field.  Krum's distances (square roots) are a kernel: `D` is any
  matrix of distances.
-/
import Mathlib.Algebra.Order.Field.Basic
import TjdModel.Agg.Spec2
import TjdLemmas.RobustLemmas
import TjdLemmas.ExtraLemmas
namespace Tjd.Props.C16
open Tjd Tjd.Agg

variable {α : Type} [Field α] [LinearOrder α] [IsStrictOrderedRing α]

/-- the sorted column is a permutation of the column, in non-decreasing order -/
theorem sortAsc_perm_sorted (xs : List α) :
    (sortAsc xs).Perm xs ∧ (sortAsc xs).Pairwise (· ≤ ·) := by
  exact ⟨sortAsc_perm xs, sortAsc_sorted xs⟩

/-- ROBUSTNESS of the trimmed mean of one column.  `good[i]` marks the untouched rows; at most `b`
    rows are corrupted (arbitrary values); `m ≥ 2b+1`.  If all untouched entries lie in `[lo, hi]`, so does
    the output — whatever the corrupted values are. -/
theorem trimmedMeanCol_robust (b : Nat) (column : List α) (good : List Bool) (lo hi : α)
    (hlen : good.length = column.length) (hm : 2 * b + 1 ≤ column.length)
    (hbad : (good.filter (· = false)).length ≤ b)
    (hrange : ∀ i, i < column.length → good.getD i false = true →
        lo ≤ column.getD i 0 ∧ column.getD i 0 ≤ hi) :
    lo ≤ trimmedMeanCol b column ∧ trimmedMeanCol b column ≤ hi := by
  exact trimmedMeanCol_robust' b column good lo hi hlen hm hbad hrange

/-- the matrix version: every output coordinate stays between the minimum and maximum of the untouched
    rows' entries of that column -/
theorem trimmedMean_robust [Inhabited α] (b m n : Nat) (J : Mat α) (hJ : MatWF J m n)
    (good : List Bool) (hlen : good.length = m) (hm : 2 * b + 1 ≤ m)
    (hbad : (good.filter (· = false)).length ≤ b) (c : Nat) (hc : c < n) (lo hi : α)
    (hrange : ∀ i, i < m → good.getD i false = true →
        lo ≤ (J.getD i []).getD c 0 ∧ (J.getD i []).getD c 0 ≤ hi) :
    lo ≤ (trimmedMean b n J).getD c 0 ∧ (trimmedMean b n J).getD c 0 ≤ hi := by
  exact trimmedMean_robust' b m n J hJ good hlen hm hbad c hc lo hi hrange

/-- the trimmed mean of a column does not depend on the order of its entries (C10 for TrimmedMean) -/
theorem trimmedMeanCol_perm (b : Nat) (c₁ c₂ : List α) (h : c₁.Perm c₂) :
    trimmedMeanCol b c₁ = trimmedMeanCol b c₂ := by
  exact trimmedMeanCol_perm' b h

/-- with `b = 0` it is the plain mean -/
theorem trimmedMeanCol_zero (column : List α) :
    trimmedMeanCol 0 column = column.sum / (column.length : α) := by
  exact trimmedMeanCol_zero' column

/-- too few rows are rejected: exactly when `m < 2b + 1` (for finite 2-d input) -/
theorem trimmed_rejects_iff (b m n : Nat) :
    rejects (.trimmedMean b) [m, n] true = true ↔ m < 2 * b + 1 := by
  simp [rejects]

/-! ### Krum -/

/-- Krum's weights are the plain average of exactly `k` distinct rows -/
theorem krum_average_of_k_rows (D : Mat α) (f k : Nat) (hk : 1 ≤ k) (hkm : k ≤ D.length) :
    ∃ sel : List Nat, sel.Nodup ∧ sel.length = k ∧ (∀ i ∈ sel, i < D.length) ∧
      (krumWeights D f k).1 =
        (List.range D.length).map fun i => if i ∈ sel then (1 : α) / (k : α) else 0 := by
  have _ := hk  -- hypothesis not needed
  exact krum_average' D f k hkm

/-- … namely rows with the smallest scores: every selected row scores no more than every other row -/
theorem krum_selects_lowest_scores (D : Mat α) (f k : Nat) (hk : 1 ≤ k) (hkm : k ≤ D.length)
    (i j : Nat) (hi : i < D.length) (hj : j < D.length)
    (hsel : (krumWeights D f k).1.getD i 0 ≠ 0) (hnot : (krumWeights D f k).1.getD j 0 = 0) :
    (krumScores D f).getD i 0 ≤ (krumScores D f).getD j 0 := by
  have _ := hkm  -- hypothesis not needed
  exact krum_selects' D f k hk i j hi hj hsel hnot

/-- the score of a row is the sum of its `m - f - 2` smallest distances to OTHER rows (the zero
    self-distance is the one dropped), when distances are non-negative with zero diagonal -/
theorem krum_neighbourhood (D : Mat α) (f : Nat) (i : Nat) (hi : i < D.length)
    (hrow : (D.getD i []).length = D.length) (hnn : ∀ x ∈ D.getD i [], 0 ≤ x)
    (hdiag : (D.getD i []).getD i 0 = 0) (hf : f + 3 ≤ D.length) :
    (krumScores D f).getD i 0 =
      (smallest (D.length - f - 2) ((D.getD i []).eraseIdx i)).sum := by
  have _ := hf  -- hypothesis not needed
  exact krum_neighbourhood' D f i hi hrow hnn hdiag

/-- too few rows are rejected: exactly when `m < f + 3` or `m < k` -/
theorem krum_rejects_iff (f k m n : Nat) :
    rejects (.krum f k) [m, n] true = true ↔ (m < f + 3 ∨ m < k) := by
  simp [rejects]

/-- `TrimmedMean(trim_number = 0)` is the plain mean of every column (nothing is trimmed; the sort does not matter) -/
theorem trimmedMean_zero_is_mean [Inhabited α] (n : Nat) (J : Mat α) :
    trimmedMean 0 n J = (List.range n).map fun c => (col J c).sum / ((J.length : Nat) : α) := by
  exact trimmedMean_zero_mean n J

end Tjd.Props.C16
