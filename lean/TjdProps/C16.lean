import TjdModel.Agg.Others
namespace Tjd.Props.C16
open Tjd Tjd.Agg

theorem trimmedMean_length {α : Type} [Zero α] [Add α] [Div α] [NatCast α] [LE α] [DecidableLE α] [Inhabited α]
    (b n : Nat) (J : Mat α) : (trimmedMean b n J).length = n := by
  simp [trimmedMean]

end Tjd.Props.C16
