/-
  C17 — Impartial aggregators treat every objective alike.

  PROPERTY THEOREMS ONLY (statements fixed; helper lemmas in TjdLemmas/ImpartialLemmas.lean).
  Over an arbitrary linearly ordered field; row norms `d` (IMTL-G, ConFIG) and the eigen-decomposition
  (Aligned-MTL) are kernels whose answers are certificate-checked by the model.
-/
import Mathlib.Algebra.Order.Field.Basic
import TjdModel.Agg.Spec2
import TjdLemmas.ImpartialLemmas
namespace Tjd.Props.C17
open Tjd Tjd.Agg

variable {α : Type} [Field α] [LinearOrder α] [IsStrictOrderedRing α]

/-! ### IMTL-G -/

/-- outside the guard branch the weights sum to one … -/
theorem imtlg_sum_one (J : Mat α) (d : Vec α) (guard : α) (hg : 0 ≤ guard) (w : Vec α)
    (h : imtlgWeights J d guard = some w) (hnz : ∃ x ∈ w, x ≠ 0) : w.sum = 1 := by
  have _ := hg
  unfold imtlgWeights at h
  simp only at h
  split at h
  · simp at h
  · rename_i v _
    split at h
    · split at h
      · rw [← Option.some.inj h] at hnz
        exact absurd hnz (zeros_no_nonzero _)
      · rw [← Option.some.inj h] at hnz ⊢
        have hs : v.sum ≠ 0 := by
          intro h0
          obtain ⟨x, hx, hx0⟩ := hnz
          rw [h0] at hx
          simp at hx
          exact hx0 hx.2
        simp only [div_eq_mul_inv]
        rw [List.sum_map_mul_right]
        simp [hs]
    · simp at h

/-- … and the result has the same projection onto the direction of every row: `⟨j_i, A(J)⟩ / |j_i|` is
    the same number for all `i` (`d_i = |j_i|`) -/
theorem imtlg_equal_projections (J : Mat α) (m n : Nat) (hJ : MatWF J m n) (d : Vec α)
    (hd : d.length = m) (guard : α) (hg : 0 ≤ guard) (w : Vec α)
    (h : imtlgWeights J d guard = some w) (hnz : ∃ x ∈ w, x ≠ 0) :
    ∃ κ : α, ∀ i, i < m → dot (J.getD i []) (combine n J w) = κ * d.getD i 0 := by
  have _ := hg
  have _ := hd
  unfold imtlgWeights at h
  simp only at h
  split at h
  · simp at h
  · rename_i v _
    split at h
    · rename_i hc
      split at h
      · rw [← Option.some.inj h] at hnz
        exact absurd hnz (zeros_no_nonzero _)
      · rw [← Option.some.inj h]
        exact ⟨(v.sum)⁻¹, fun i hi => imtlg_proj J m n hJ d v hc _ i hi⟩
    · simp at h

/-- on the all-zero matrix every weighted aggregator (IMTL-G, Aligned-MTL, …) returns the zero vector,
    whatever weights it computes -/
theorem zero_matrix_zero_vector (m n : Nat) (w : Vec α) :
    combine n (List.replicate m (zeros n : Vec α)) w = zeros n := by
  exact combine_zero_matrix n m w

/-! ### ConFIG -/

/-- the returned vector is a positive multiple of `best = Uᵀ (U Uᵀ)⁻¹ w`, whose inner product with every
    unit row `u_i = j_i / d_i` is exactly the weight `w_i`: same positive cosine to every row by default,
    cosines proportional to the preference vector otherwise -/
theorem config_cosines (J : Mat α) (m n : Nat) (hJ : MatWF J m n) (d w : Vec α) (hd : d.length = m)
    (hw : w.length = m) (hdpos : ∀ x ∈ d, 0 < x) (hwpos : ∀ x ∈ w, 0 < x) (x : Vec α)
    (h : configVec J d w n = some x) (hx : ∃ c ∈ x, c ≠ 0) :
    ∃ t : α, 0 < t ∧ ∀ i, i < m →
      dot ((J.getD i []).map (· / d.getD i 0)) x = t * w.getD i 0 := by
  unfold configVec at h
  simp only at h
  split at h
  · simp at h
  · rename_i y _
    split at h
    · rename_i hc
      split at h
      · rw [← Option.some.inj h] at hx
        exact absurd hx (zeros_no_nonzero _)
      · rename_i hbb
        rw [← Option.some.inj h]
        exact ⟨_, config_cosines_aux J m n hJ d w hd hw hdpos hwpos _ rfl y hc _ rfl hbb⟩
    · simp at h

/-- the length of the returned vector equals the sum of its projections on the rows:
    `|x| = Σ_i ⟨j_i, x/|x|⟩`, i.e. (multiplying by `|x|`, no square root) `⟨x, x⟩ = Σ_i ⟨j_i, x⟩` -/
theorem config_length (J : Mat α) (m n : Nat) (hJ : MatWF J m n) (d w : Vec α) (hd : d.length = m)
    (hw : w.length = m) (x : Vec α) (h : configVec J d w n = some x) :
    dot x x = (J.map fun row => dot row x).sum := by
  have _ := hJ
  have _ := hd
  have _ := hw
  unfold configVec at h
  simp only at h
  split at h
  · simp at h
  · split at h
    · split at h
      · rw [← Option.some.inj h]
        exact config_length_zero J n
      · rename_i hbb
        rw [← Option.some.inj h]
        exact config_length_aux J _ hbb _ rfl
    · simp at h

/-- on the all-zero matrix (unit rows replaced by zeros as `nan_to_num` does) ConFIG returns zero;
    in the model: whenever `best` vanishes the output is the zero vector -/
theorem config_zero_best (J : Mat α) (d w : Vec α) (n : Nat) (x : Vec α)
    (h : configVec J d w n = some x)
    (hz : ∀ y, combine n (List.zipWith (fun row di => row.map (· / di)) J d) y = zeros n) :
    x = zeros n := by
  unfold configVec at h
  simp only at h
  split at h
  · simp at h
  · split at h
    · rw [hz] at h
      split at h
      · exact (Option.some.inj h).symm
      · rw [← Option.some.inj h, smul_zeros]
    · simp at h

/-! ### Aligned-MTL -/

/-- with a full set of orthonormal eigenvectors (independent rows), the balance transformation `B`
    (column `b` of `B` = the weights returned for the one-hot preference `e_b`) satisfies
    `B (J Jᵀ) B = σ_min² I`: the re-balanced rows `B J` are mutually orthogonal and all as long as the
    smallest singular value of `J` -/
theorem aligned_balanced (J : Mat α) (m n : Nat) (hJ : MatWF J m n) (vecs : Mat α) (sigma : Vec α)
    (hfull : vecs.length = m) (hm : 0 < m) (hv : ∀ v ∈ vecs, v.length = m)
    (hcert : alignedCert (gram J) vecs sigma = true) (a b : Nat) (ha : a < m) (hb : b < m)
    (wa wb : Vec α)
    (h₁ : alignedWeights J vecs sigma (oneHot m a) = some wa)
    (h₂ : alignedWeights J vecs sigma (oneHot m b) = some wb) :
    dot (combine n J wa) (combine n J wb) =
      if a = b then vmin sigma 1 * vmin sigma 1 else 0 := by
  have hc := alignedCert_spec _ _ _ hcert
  have hse : sigma.isEmpty = false := by
    have hl : sigma.length = m := by rw [← hc.1]; exact hfull
    cases sigma with
    | nil => simp at hl; omega
    | cons _ _ => rfl
  unfold alignedWeights at h₁ h₂
  simp only [hse, Bool.false_eq_true, if_false, hcert, if_true, gram_length, hJ.1] at h₁ h₂
  rw [← Option.some.inj h₁, ← Option.some.inj h₂]
  exact aligned_balanced_aux J m n hJ vecs sigma hfull hv hcert _ a b ha hb

/-- the result is the preference-weighted combination of the re-balanced rows: the weights are linear in
    the preference vector -/
theorem aligned_linear_in_pref (J : Mat α) (vecs : Mat α) (sigma : Vec α) (m : Nat)
    (hJ : J.length = m) (hv : ∀ v ∈ vecs, v.length = m) (w₁ w₂ : Vec α) (h₁ : w₁.length = m)
    (h₂ : w₂.length = m) (r₁ r₂ r : Vec α) (hs : sigma ≠ [])
    (e₁ : alignedWeights J vecs sigma w₁ = some r₁) (e₂ : alignedWeights J vecs sigma w₂ = some r₂)
    (e : alignedWeights J vecs sigma (vadd w₁ w₂) = some r) : r = vadd r₁ r₂ := by
  have hse : sigma.isEmpty = false := by
    cases sigma with
    | nil => exact absurd rfl hs
    | cons _ _ => rfl
  unfold alignedWeights at e₁ e₂ e
  simp only [hse, Bool.false_eq_true, if_false, gram_length, hJ] at e₁ e₂ e
  split at e₁
  · rename_i hc
    simp only [hc, if_true] at e₂ e
    obtain ⟨hl, _⟩ := alignedCert_spec _ _ _ hc
    rw [← Option.some.inj e₁, ← Option.some.inj e₂, ← Option.some.inj e]
    exact alignedB_add vecs sigma m hl hv _ w₁ w₂ (by omega)
  · simp at e₁

/-- rank 0 (all-zero matrix): identity transformation, hence the zero vector -/
theorem aligned_zero_matrix (m n : Nat) (w : Vec α) (hw : w.length = m) :
    alignedWeights (List.replicate m (zeros n : Vec α)) [] [] w = some w ∧
    combine n (List.replicate m (zeros n : Vec α)) w = zeros n := by
  have _ := hw
  exact ⟨by simp [alignedWeights], combine_zero_matrix n m w⟩

end Tjd.Props.C17
