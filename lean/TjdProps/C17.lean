import TjdModel.Agg.Others
namespace Tjd.Props.C17
open Tjd Tjd.Agg

theorem rejects_ndim (k : AggKind) (f : Bool) : rejects k [3] f = true := by
  simp [rejects]

end Tjd.Props.C17
