/-
  C19 — NashMTL's state: reset() means fresh, weights are reused as scheduled.

  PROPERTY THEOREMS ONLY (statements fixed; helper lemmas in TjdLemmas/NashLemmas.lean).
  `solve` (the cvxpy/ECOS iteration) and `norm` are arbitrary functions (kernels): the theorems hold for
  every solver.  All histories of calls and resets, all `k = update_weights_every ≥ 1`.
-/
import Mathlib.Algebra.Order.Field.Basic
import TjdModel.Agg.Nash
import TjdLemmas.NashLemmas
import TjdLemmas.SeqLemmas
import TjdLemmas.NashScale
namespace Tjd.Props.C19
open Tjd Tjd.Agg

variable {α : Type} [Field α] [LinearOrder α] [IsStrictOrderedRing α]

/-- RESET MEANS FRESH: after any history, a `reset()` followed by a continuation produces exactly what
    a newly constructed instance produces on the continuation -/
theorem reset_eq_fresh (solve : Mat α → Vec α → Vec α) (norm : Mat α → Vec α → α) (m k : Nat)
    (maxNorm : α) (st : NashState α) (cont : List (NashOp α)) :
    nashRun solve norm m k maxNorm st (.reset :: cont) =
      nashRun solve norm m k maxNorm (nashFresh m) cont := by
  exact nashRun_reset solve norm m k maxNorm st cont

/-- … in particular whatever happened before the reset is irrelevant -/
theorem history_before_reset_irrelevant (solve : Mat α → Vec α → Vec α) (norm : Mat α → Vec α → α)
    (m k : Nat) (maxNorm : α) (h₁ h₂ cont : List (NashOp α)) :
    (nashRun solve norm m k maxNorm (nashFresh m) (h₁ ++ .reset :: cont)).drop
        (h₁.filter (fun o => match o with | .call _ => true | .reset => false)).length =
    (nashRun solve norm m k maxNorm (nashFresh m) (h₂ ++ .reset :: cont)).drop
        (h₂.filter (fun o => match o with | .call _ => true | .reset => false)).length := by
  have e : (fun o : NashOp α => match o with | .call _ => true | .reset => false) = isCall := by
    funext o; cases o <;> rfl
  rw [e, nashRun_append_reset_drop, nashRun_append_reset_drop]

/-- SCHEDULE: on a history of calls only, the solver is invoked exactly on calls `0, k, 2k, …` -/
theorem schedule (solve : Mat α → Vec α → Vec α) (norm : Mat α → Vec α → α) (m k : Nat) (hk : 0 < k)
    (maxNorm : α) (Js : List (Mat α)) (i : Nat) (hi : i < Js.length) :
    ((nashRun solve norm m k maxNorm (nashFresh m) (Js.map NashOp.call)).getD i ([], [], false)).2.2 =
      decide (i % k = 0) := by
  rw [nashRun_calls_getD solve norm m k maxNorm Js (nashFresh m) i hi]
  simp [nashFresh]

/-- REUSE: between recomputations the (pre-rescaling) weights are those of the last recomputation,
    unchanged -/
theorem reuse_unchanged (solve : Mat α → Vec α → Vec α) (norm : Mat α → Vec α → α) (m k : Nat)
    (hk : 0 < k) (maxNorm : α) (Js : List (Mat α)) (i : Nat) (hi : i < Js.length) :
    ((nashRun solve norm m k maxNorm (nashFresh m) (Js.map NashOp.call)).getD i ([], [], false)).1 =
      ((nashRun solve norm m k maxNorm (nashFresh m) (Js.map NashOp.call)).getD (i / k * k)
        ([], [], false)).1 := by
  have hi' : i / k * k < Js.length := lt_of_le_of_lt (Nat.div_mul_le_self i k) hi
  rw [nashRun_calls_getD solve norm m k maxNorm Js (nashFresh m) i hi,
    nashRun_calls_getD solve norm m k maxNorm Js (nashFresh m) (i / k * k) hi']
  exact nashOutN_reuse solve k hk _ _ rfl i

/-- SUB-SAMPLING: an instance with `update_weights_every = k` fed `M_0 … M_t` computes, at its
    recomputation calls, exactly the weights an instance with `update_weights_every = 1` computes when
    fed `M_0, M_k, M_2k, …` only -/
theorem subsampled_equiv (solve : Mat α → Vec α → Vec α) (norm : Mat α → Vec α → α) (m k : Nat)
    (hk : 0 < k) (maxNorm : α) (Js : List (Mat α)) (q : Nat) (hq : q * k < Js.length) :
    ((nashRun solve norm m k maxNorm (nashFresh m) (Js.map NashOp.call)).getD (q * k)
        ([], [], false)).1 =
    ((nashRun solve norm m 1 maxNorm (nashFresh m)
        (((List.range ((Js.length + k - 1) / k)).map fun j => Js.getD (j * k) []).map NashOp.call)).getD q
        ([], [], false)).1 := by
  have hlen : q < (Js.length + k - 1) / k := by
    apply (Nat.le_div_iff_mul_le hk).mpr
    rw [Nat.succ_mul]
    omega
  rw [nashRun_calls_getD solve norm m k maxNorm Js (nashFresh m) (q * k) hq,
    nashRun_calls_getD solve norm m 1 maxNorm _ (nashFresh m) q (by simpa using hlen)]
  show nashOutN solve k _ _ (q * k) = nashOutN solve 1 _ _ q
  rw [nashOutN_subsample solve k hk _ _ rfl q]
  apply nashOutN_congr
  intro j hj
  have hj' : j < (Js.length + k - 1) / k := lt_of_le_of_lt hj hlen
  simp [List.getD_eq_getElem?_getD, hj']

/-- NORM BOUND: whenever `max_norm > 0` the returned weights give a vector of norm at most `max_norm`
    (`norm` is non-negative and positively homogeneous in the weights: the contract of `‖αᵀJ‖`) -/
theorem max_norm_bound (norm : Mat α → Vec α → α) (maxNorm : α) (hmax : 0 < maxNorm) (J : Mat α)
    (a : Vec α) (hnn : 0 ≤ norm J a)
    (hhom : ∀ t : α, 0 ≤ t → norm J (a.map fun x => x / norm J a * t) = t) :
    norm J (nashRescale norm maxNorm J a) ≤ maxNorm := by
  unfold nashRescale
  rw [if_pos hmax]
  by_cases h : maxNorm < norm J a
  · simp only [h, if_true]
    exact le_of_eq (hhom maxNorm hmax.le)
  · simp only [h, if_false]
    exact not_lt.mp h

/-- the rescaling only changes the length: the returned weights are a non-negative multiple of the
    scheduled ones -/
theorem rescale_is_scaling (norm : Mat α → Vec α → α) (maxNorm : α) (J : Mat α) (a : Vec α)
    (hnn : 0 ≤ norm J a) :
    ∃ t : α, 0 ≤ t ∧ nashRescale norm maxNorm J a = a.map (t * ·) := by
  unfold nashRescale
  by_cases hmax : 0 < maxNorm
  · by_cases h : maxNorm < norm J a
    · have hpos : 0 < norm J a := lt_trans hmax h
      refine ⟨maxNorm / norm J a, div_nonneg hmax.le hnn, ?_⟩
      simp only [hmax, h, if_true]
      apply List.map_congr_left
      intro x _
      field_simp
    · exact ⟨1, zero_le_one, by simp [hmax, h]⟩
  · exact ⟨1, zero_le_one, by simp [hmax]⟩

/-- every call returns (the state machine has no failing transition): one output per call -/
theorem one_output_per_call (solve : Mat α → Vec α → Vec α) (norm : Mat α → Vec α → α) (m k : Nat)
    (maxNorm : α) (st : NashState α) (ops : List (NashOp α)) :
    (nashRun solve norm m k maxNorm st ops).length =
      (ops.filter (fun o => match o with | .call _ => true | .reset => false)).length := by
  have e : (fun o : NashOp α => match o with | .call _ => true | .reset => false) = isCall := by
    funext o; cases o <;> rfl
  rw [e]
  exact nashRun_length solve norm m k maxNorm st ops

/-- CLIPPING DOES NOT TOUCH THE STATE: on every history, the instance with `max_norm` runs through exactly the same unclipped
    weights and solver invocations as the instance without clipping, and returns their clipped version — in particular the
    clip of one call never leaks into the weights a later call reuses -/
theorem clipped_run_eq_clip_of_unclipped (solve : Mat α → Vec α → Vec α) (norm : Mat α → Vec α → α) (m k : Nat)
    (maxNorm : α) (st : NashState α) (ops : List (NashOp α)) :
    (nashRun solve norm m k maxNorm st ops).map (fun o => (o.1, o.2.2)) =
      (nashRun solve norm m k 0 st ops).map (fun o => (o.1, o.2.2)) ∧
    ∀ i, i < (nashRun solve norm m k maxNorm st ops).length →
      ∃ J, ((nashRun solve norm m k maxNorm st ops).getD i ([], [], false)).2.1 =
        nashRescale norm maxNorm J ((nashRun solve norm m k 0 st ops).getD i ([], [], false)).2.1 := by
  exact nashRun_clip solve norm m k maxNorm st ops

/-! ### the bargaining condition and the scale of the matrix (what the check tests at a scheduled recomputation that follows
      one on a proportional matrix, DESIGN §10.19) -/

/-- the products `α_i (J Jᵀ α)_i` of the bargaining condition, for the matrix `c J` and the SAME weights, are `c²` times those
    for `J`: weights carried over from `J` to `c J` (instead of recomputed) miss the condition `= 1` by the factor `c²` -/
theorem nash_products_scale (J : Mat α) (m n : Nat) (hJ : MatWF J m n) (a : Vec α) (ha : a.length = m) (c : α) (i : Nat) (hi : i < m) :
    a.getD i 0 * (matVec (gram (J.map (smul c))) a).getD i 0 = c * c * (a.getD i 0 * (matVec (gram J) a).getD i 0) := by
  exact nash_products_scale_ns J m n hJ a ha c i hi

/-- … while the weights divided by `c` meet it again: the bargaining solution of `c J` is `α / c` -/
theorem nash_solution_scale (J : Mat α) (m n : Nat) (hJ : MatWF J m n) (a : Vec α) (ha : a.length = m) (c : α) (hc : c ≠ 0)
    (h : ∀ i, i < m → a.getD i 0 * (matVec (gram J) a).getD i 0 = 1) (i : Nat) (hi : i < m) :
    (a.map (· / c)).getD i 0 * (matVec (gram (J.map (smul c))) (a.map (· / c))).getD i 0 = 1 := by
  exact nash_solution_scale_ns J m n hJ a ha c hc h i hi

end Tjd.Props.C19
