import TjdModel.Agg.Nash
namespace Tjd.Props.C19
open Tjd Tjd.Agg

theorem fresh_step {α : Type} [One α] (m : Nat) : (nashFresh m : NashState α).step = 0 := rfl

end Tjd.Props.C19
