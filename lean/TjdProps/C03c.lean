/-
  C03 (existence) — the projection UPGrad / DualProj are defined by EXISTS, over every linearly ordered field.

  PROPERTY THEOREMS ONLY (statements fixed before the proofs; helper lemmas in TjdLemmas/QPExist.lean).
  C03.lean characterises the answer (`kkt_minimizer`) and shows it unique (`qp_min_unique`); what was only measured
  until now ("the certified search always finds a certificate") is the EXISTENCE of the minimiser.  Here it is
  proved, algebraically (no completeness of the scalars is used, so it holds over ℚ — what the driver runs — as
  well as over ℝ): for a symmetric positive definite `G` the problem  min vᵀGv s.t. v ≥ u  has a solution, it is a
  KKT point, and with C03 it is the only one.  Hence "the unique minimiser" in the statement of C03 denotes
  something for every matrix, every preference vector and every `reg_eps > 0`.
-/
import Mathlib.Algebra.Order.Field.Basic
import TjdModel.Agg.Spec
import TjdLemmas.QPExist
import TjdLemmas.QPComplete
namespace Tjd.Props.C03c
open Tjd Tjd.Agg

variable {α : Type} [Field α] [LinearOrder α] [IsStrictOrderedRing α]

/-- existence of the KKT point / minimiser for a symmetric positive definite matrix, any lower bound `u` -/
theorem qp_min_exists (G : Mat α) (m : Nat) (hG : SymmSquare G m) (hpd : PosDef G m) (u : Vec α)
    (hu : u.length = m) : ∃ w, kktCheck G u w = true ∧ IsQPMin G u w := by
  exact qp_exists_list G m hG hpd u hu

/-- existence and uniqueness together -/
theorem qp_min_exists_unique (G : Mat α) (m : Nat) (hG : SymmSquare G m) (hpd : PosDef G m) (u : Vec α)
    (hu : u.length = m) : ∃ w, IsQPMin G u w ∧ ∀ w', IsQPMin G u w' → w' = w := by
  exact qp_exists_unique_list G m hG hpd u hu

/-- DualProj: the projection it is specified to return exists and is unique, for every matrix, every `s`,
    `norm_eps`, every `reg_eps > 0` and every preference vector of the right length -/
theorem dualproj_projection_exists_unique (J : Mat α) (m n : Nat) (hJ : MatWF J m n) (s normEps regEps : α)
    (hre : 0 < regEps) (u : Vec α) (hu : u.length = m) :
    ∃ w, IsQPMin (regNormGram J s normEps regEps) u w ∧
      ∀ w', IsQPMin (regNormGram J s normEps regEps) u w' → w' = w := by
  exact dualproj_exists_unique J m n hJ s normEps regEps hre u hu

/-- UPGrad: each of the `m` projections it sums exists and is unique -/
theorem upgrad_projections_exist_unique (J : Mat α) (m n : Nat) (hJ : MatWF J m n) (s normEps regEps : α)
    (hre : 0 < regEps) (u : Vec α) (hu : u.length = m) (i : Nat) (_hi : i < m) :
    ∃ w, IsQPMin (regNormGram J s normEps regEps) (prefRow m i (u.getD i 0)) w ∧
      ∀ w', IsQPMin (regNormGram J s normEps regEps) (prefRow m i (u.getD i 0)) w' → w' = w := by
  exact upgrad_exists_unique J m n hJ s normEps regEps hre u hu i

/-- a minimiser of the QP is always a KKT point (the converse of `C03.kkt_minimizer`): the Boolean certificate the
    model checks is not only sufficient but necessary, so a correct solver's answer is never refused -/
theorem qp_min_is_kkt (G : Mat α) (m : Nat) (hG : SymmSquare G m) (hpd : PosDef G m) (u w : Vec α)
    (hu : u.length = m) (h : IsQPMin G u w) : kktCheck G u w = true := by
  exact kktCheck_of_isQPMin G m hG hpd u w hu h

/-! ### completeness of the model's certified search (the function the driver executes): on every valid input it
      FINDS the certificate, so the theorems of C03 of the form `… = some (w, mg) → …` are never vacuous and the
      correspondence can never lose a case to "no certificate found".  Rests on a correctness proof of the model's
      Gauss–Jordan routine `solve` for systems with trivial kernel (`solve_complete_qpc`). -/

/-- total correctness of `qpProject`: it returns, and what it returns is THE minimiser -/
theorem qpProject_total (G : Mat α) (m : Nat) (hG : SymmSquare G m) (hpd : PosDef G m) (u : Vec α)
    (hu : u.length = m) :
    ∃ w mg, qpProject G u = some (w, mg) ∧ IsQPMin G u w ∧ ∀ w', IsQPMin G u w' → w' = w := by
  exact qpProject_total_qpc G m hG hpd u hu

/-- the DualProj and UPGrad weight models return an answer for every matrix, every `s`, `norm_eps`, every
    `reg_eps > 0`, every preference vector of the right length -/
theorem dualproj_upgrad_models_total (J : Mat α) (m n : Nat) (hJ : MatWF J m n) (s normEps regEps : α)
    (hre : 0 < regEps) (u : Vec α) (hu : u.length = m) :
    (∃ w mg, dualprojWeights J s normEps regEps u = some (w, mg)) ∧
    (∃ w mg, upgradWeights J s normEps regEps u = some (w, mg)) := by
  exact ⟨dualprojWeights_complete J m n hJ s normEps regEps hre u hu,
    upgradWeights_complete J m n hJ s normEps regEps hre u hu⟩

/-- non-vacuity: the hypotheses are met by a concrete conflicting instance -/
example : SymmSquare ([[2, -1], [-1, 2]] : Mat Rat) 2 ∧ ([1, 0] : Vec Rat).length = 2 := by
  refine ⟨⟨rfl, ?_, ?_⟩, rfl⟩
  · intro row hr
    simp only [List.mem_cons, List.not_mem_nil, or_false] at hr
    rcases hr with rfl | rfl <;> rfl
  · intro i j hi hj
    have hi' : i = 0 ∨ i = 1 := by omega
    have hj' : j = 0 ∨ j = 1 := by omega
    rcases hi' with rfl | rfl <;> rcases hj' with rfl | rfl <;> rfl

end Tjd.Props.C03c
