/-
  C04 end to end — `backward(tensors, UPGrad(...))` / `backward(tensors, DualProj(...))` on ANY program succeeds and
  deposits an update that conflicts with no objective beyond the stated allowance.

  PROPERTY THEOREMS ONLY (statements fixed before the proofs; helper lemmas in TjdLemmas/E2ELemmas.lean).
  This composes the two halves of the model: C01 (`backward` deposits the slices of A(J) for the true Jacobian J of the
  program) with C04/C03 (A = UPGrad / DualProj returns `Jᵀ w` with `J Jᵀ w ≥ -reg_eps s² w`) and C03c (the projection
  exists and the model finds it, so the call cannot fail).  Quantified over all engines (= all autograd programs), tensor
  lists, input lists, chunk sizes, initial `.grad` contents, preference vectors, `norm_eps`, `reg_eps > 0`, and every SVD
  kernel `sv` whose value on the Jacobian is positive and at least `norm_eps`.
-/
import Mathlib.Algebra.Order.Field.Basic
import TjdModel.Agg.AsAggregator
import TjdProps.C01
import TjdProps.C02
import TjdLemmas.E2ELemmas
namespace Tjd.Props.C04b
open Tjd Tjd.Autojac Tjd.Agg Tjd.Props.C01 Tjd.Props.C02

variable {α : Type} [Field α] [LinearOrder α] [IsStrictOrderedRing α]

/-- the vector an aggregator call deposits: `.grad` of every input grows by its slice of ONE vector `v = Jᵀ w`, and
    `v` does not conflict with any row of the program's Jacobian beyond `reg_eps · s² · w_i` -/
def DepositsNonConflicting (E : Engine α) (tensors inputs : List Key) (h : Grads α) (R : Outcome α) (s regEps : α) :
    Prop :=
  R.err = none ∧
  ∃ v w : Vec α,
    v = combine ((inputs.map E.numel).sum) (fullJac E tensors inputs) w ∧
    (∀ k, R.grads k = if k ∈ inputs then accum (h k) (sliceOf E.numel inputs k v) else h k) ∧
    NonConflictUpTo (fullJac E tensors inputs) v (w.map fun wi => regEps * (s * s) * wi)

/-- UPGrad, end to end -/
theorem backward_upgrad_nonconflict (E : Engine α) (tensors inputs : List Key) (sv : Mat α → α)
    (normEps regEps : α) (u : Vec α) (chunk : Option Int) (retain : Bool) (h : Grads α)
    (hv : ValidCall E tensors inputs chunk) (hne : inputs ≠ [])
    (hu : u.length = (tensors.map E.numel).sum) (hre : 0 < regEps)
    (hs : normEps ≤ sv (fullJac E tensors inputs)) (hs0 : 0 < sv (fullJac E tensors inputs)) :
    DepositsNonConflicting E tensors inputs h
      (backward E tensors inputs (upgradAgg sv normEps regEps u) chunk retain h)
      (sv (fullJac E tensors inputs)) regEps := by
  exact e2e_upgrad E tensors inputs sv normEps regEps u chunk retain h hv.wf hv.tensors_nodup hv.inputs_nodup
    hv.rows_pos hv.chunk_pos hv.outs_rg hv.ins_ok hne hu hre hs hs0

/-- DualProj, end to end -/
theorem backward_dualproj_nonconflict (E : Engine α) (tensors inputs : List Key) (sv : Mat α → α)
    (normEps regEps : α) (u : Vec α) (chunk : Option Int) (retain : Bool) (h : Grads α)
    (hv : ValidCall E tensors inputs chunk) (hne : inputs ≠ [])
    (hu : u.length = (tensors.map E.numel).sum) (hre : 0 < regEps)
    (hs : normEps ≤ sv (fullJac E tensors inputs)) (hs0 : 0 < sv (fullJac E tensors inputs)) :
    DepositsNonConflicting E tensors inputs h
      (backward E tensors inputs (dualprojAgg sv normEps regEps u) chunk retain h)
      (sv (fullJac E tensors inputs)) regEps := by
  exact e2e_dualproj E tensors inputs sv normEps regEps u chunk retain h hv.wf hv.tensors_nodup hv.inputs_nodup
    hv.rows_pos hv.chunk_pos hv.outs_rg hv.ins_ok hne hu hre hs hs0

/-- a preference vector of the wrong length is refused and nothing changes (C20 for the aggregator's own rejection) -/
theorem backward_upgrad_wrong_pref_length (E : Engine α) (tensors inputs : List Key) (sv : Mat α → α)
    (normEps regEps : α) (u : Vec α) (chunk : Option Int) (retain : Bool) (h : Grads α)
    (hv : ValidCall E tensors inputs chunk) (hne : inputs ≠ [])
    (hu : u.length ≠ (tensors.map E.numel).sum) :
    (backward E tensors inputs (upgradAgg sv normEps regEps u) chunk retain h).err = some Err.value ∧
    (backward E tensors inputs (upgradAgg sv normEps regEps u) chunk retain h).grads = h := by
  exact e2e_upgrad_wrong_length E tensors inputs sv normEps regEps u chunk retain h hv.wf hv.tensors_nodup
    hv.inputs_nodup hv.rows_pos hv.chunk_pos hv.outs_rg hv.ins_ok hne hu

/-! ### the same for `mtl_backward`: the shared parameters receive a non-conflicting combination of the rows of the
      feature-level Jacobian `mtlJac` (row `i` = gradient of `losses[i]` w.r.t. the shared parameters, back-propagated through
      the features), while every task parameter receives its own-task gradients -/

/-- UPGrad through `mtl_backward`, end to end -/
theorem mtl_upgrad_nonconflict (E : Engine α) (ndim : Key → Nat) (losses features : List Key)
    (tps : List (List Key)) (shared : List Key) (sv : Mat α → α) (normEps regEps : α) (u : Vec α)
    (chunk : Option Int) (retain : Bool) (h : Grads α)
    (hv : ValidMtl E ndim losses features tps shared chunk) (hs : shared ≠ [])
    (hu : u.length = losses.length) (hre : 0 < regEps)
    (hsv : normEps ≤ sv (mtlJac E losses features shared)) (hs0 : 0 < sv (mtlJac E losses features shared)) :
    let o := mtlBackward E ndim losses features tps shared (upgradAgg sv normEps regEps u) chunk retain h
    o.err = none ∧
    ∃ v w : Vec α,
      v = combine ((shared.map E.numel).sum) (mtlJac E losses features shared) w ∧
      (∀ k, o.grads k = if k ∈ shared then accum (h k) (sliceOf E.numel shared k v)
                        else taskAccum E (List.zip tps losses) k (h k)) ∧
      NonConflictUpTo (mtlJac E losses features shared) v
        (w.map fun wi => regEps * (sv (mtlJac E losses features shared) * sv (mtlJac E losses features shared)) * wi) := by
  exact e2e_mtl_upgrad E ndim losses features tps shared sv normEps regEps u chunk retain h hv hs hu hre hsv hs0

/-- DualProj through `mtl_backward`, end to end -/
theorem mtl_dualproj_nonconflict (E : Engine α) (ndim : Key → Nat) (losses features : List Key)
    (tps : List (List Key)) (shared : List Key) (sv : Mat α → α) (normEps regEps : α) (u : Vec α)
    (chunk : Option Int) (retain : Bool) (h : Grads α)
    (hv : ValidMtl E ndim losses features tps shared chunk) (hs : shared ≠ [])
    (hu : u.length = losses.length) (hre : 0 < regEps)
    (hsv : normEps ≤ sv (mtlJac E losses features shared)) (hs0 : 0 < sv (mtlJac E losses features shared)) :
    let o := mtlBackward E ndim losses features tps shared (dualprojAgg sv normEps regEps u) chunk retain h
    o.err = none ∧
    ∃ v w : Vec α,
      v = combine ((shared.map E.numel).sum) (mtlJac E losses features shared) w ∧
      (∀ k, o.grads k = if k ∈ shared then accum (h k) (sliceOf E.numel shared k v)
                        else taskAccum E (List.zip tps losses) k (h k)) ∧
      NonConflictUpTo (mtlJac E losses features shared) v
        (w.map fun wi => regEps * (sv (mtlJac E losses features shared) * sv (mtlJac E losses features shared)) * wi) := by
  exact e2e_mtl_dualproj E ndim losses features tps shared sv normEps regEps u chunk retain h hv hs hu hre hsv hs0

end Tjd.Props.C04b
