/-
  C05 — With linear aggregators, Jacobian descent coincides with PyTorch autograd.

  PROPERTY THEOREMS ONLY.  `autogradDeposit E outs w i` is what
  `torch.autograd.backward(outs, grad_tensors = w split per tensor, inputs = …)` adds to `i.grad`
  (contract of the engine, DESIGN §3).  No sign hypothesis on the weights.
-/
import Mathlib.Algebra.Ring.Defs
import Mathlib.Algebra.Field.Defs
import TjdModel.Autojac.Spec
import TjdLemmas.AutojacLemmas
import TjdProps.C01
namespace Tjd.Props.C05
open Tjd Tjd.Autojac Tjd.Props.C01

variable {α : Type} [Semiring α]

/-- the algebraic core: `wᵀ J(outs, ins)` is the concatenation over the inputs of the vector–Jacobian
    products with cotangents `w` split per output tensor -/
theorem constant_fullJac_eq_vjp (E : Engine α) (hE : E.WF) (outs ins : List Key) (w : Vec α)
    (hw : w.length = (outs.map E.numel).sum) :
    combine ((ins.map E.numel).sum) (fullJac E outs ins) w =
      (ins.map fun i => autogradDeposit E outs w i).flatten := by
  have _ := hw
  rw [combine_fullJac E hE, List.flatMap_def]

/-- `backward(tensors, Constant(w))` leaves in every `.grad` exactly what
    `torch.autograd.backward(tensors, grad_tensors = w split per tensor)` leaves -/
theorem backward_constant_eq_autograd (E : Engine α) (tensors inputs : List Key) (w : Vec α)
    (chunk : Option Int) (retain : Bool) (h : Grads α)
    (hv : ValidCall E tensors inputs chunk) (hne : inputs ≠ [])
    (hw : w.length = (tensors.map E.numel).sum) :
    (backward E tensors inputs (constAgg w) chunk retain h).err = none ∧
    ∀ k, (backward E tensors inputs (constAgg w) chunk retain h).grads k =
      if k ∈ inputs then accum (h k) (autogradDeposit E tensors w k) else h k := by
  have hA := constAgg_fullJac E hv.wf tensors inputs w hv.rows_pos hw
  have hs := backward_eq_spec E tensors inputs (constAgg w) chunk retain h hv hne _ hA
    (deposits_length E hv.wf tensors inputs w)
  refine ⟨hs.1, fun k => ?_⟩
  rw [hs.2 k]
  by_cases hk : k ∈ inputs
  · rw [if_pos hk, if_pos hk, sliceOf_deposits E hv.wf tensors inputs w k hk]
  · rw [if_neg hk, if_neg hk]

/-- `Sum()` is `Constant(1,…,1)`: the gradient of the sum of all output scalars -/
theorem backward_sum_eq_autograd (E : Engine α) (tensors inputs : List Key)
    (chunk : Option Int) (retain : Bool) (h : Grads α)
    (hv : ValidCall E tensors inputs chunk) (hne : inputs ≠ []) :
    (backward E tensors inputs sumAgg chunk retain h).err = none ∧
    ∀ k, (backward E tensors inputs sumAgg chunk retain h).grads k =
      if k ∈ inputs then
        accum (h k) (autogradDeposit E tensors (onesV ((tensors.map E.numel).sum)) k)
      else h k := by
  have hA := sumAgg_fullJac E hv.wf tensors inputs hv.rows_pos
  have hs := backward_eq_spec E tensors inputs sumAgg chunk retain h hv hne _ hA
    (deposits_length E hv.wf tensors inputs _)
  refine ⟨hs.1, fun k => ?_⟩
  rw [hs.2 k]
  by_cases hk : k ∈ inputs
  · rw [if_pos hk, if_pos hk, sliceOf_deposits E hv.wf tensors inputs _ k hk]
  · rw [if_neg hk, if_neg hk]

/-- a row-count mismatch between `Constant`'s weights and the Jacobian is rejected, nothing changes -/
theorem backward_constant_wrong_rows (E : Engine α) (tensors inputs : List Key) (w : Vec α)
    (chunk : Option Int) (retain : Bool) (h : Grads α)
    (hv : ValidCall E tensors inputs chunk) (hne : inputs ≠ [])
    (hw : w.length ≠ (tensors.map E.numel).sum) :
    (backward E tensors inputs (constAgg w) chunk retain h).err = some Err.value ∧
    (backward E tensors inputs (constAgg w) chunk retain h).grads = h := by
  exact backward_aggregator_error E tensors inputs (constAgg w) chunk retain h hv hne Err.value
    (constAgg_fullJac_wrong E tensors inputs w hw)

section mean
variable {β : Type} [DivisionRing β]

/-- `Mean()` is `Constant(1/m, …, 1/m)` with `m` the number of output scalars: `backward(tensors, Mean())` leaves
    what `torch.autograd.backward(tensors, grad_tensors = (1/m) split per tensor)` leaves — the gradient of the mean
    of all output scalars.  (`1/m` is the field's; for `m = 0` the call is not valid.) -/
theorem backward_mean_eq_autograd (E : Engine β) (tensors inputs : List Key)
    (chunk : Option Int) (retain : Bool) (h : Grads β)
    (hv : ValidCall E tensors inputs chunk) (hne : inputs ≠ []) :
    (backward E tensors inputs meanAgg chunk retain h).err = none ∧
    ∀ k, (backward E tensors inputs meanAgg chunk retain h).grads k =
      if k ∈ inputs then
        accum (h k) (autogradDeposit E tensors
          (List.replicate ((tensors.map E.numel).sum) (1 / (((tensors.map E.numel).sum : Nat) : β))) k)
      else h k := by
  have hm : meanAgg (fullJac E tensors inputs) =
      constAgg (List.replicate ((tensors.map E.numel).sum) (1 / (((tensors.map E.numel).sum : Nat) : β)))
        (fullJac E tensors inputs) := by
    unfold meanAgg constAgg
    rw [if_neg (by rw [fullJac_length]; simp), fullJac_length]
  have hA := constAgg_fullJac E hv.wf tensors inputs
    (List.replicate ((tensors.map E.numel).sum) (1 / (((tensors.map E.numel).sum : Nat) : β))) hv.rows_pos (by simp)
  rw [← hm] at hA
  have hs := backward_eq_spec E tensors inputs meanAgg chunk retain h hv hne _ hA
    (deposits_length E hv.wf tensors inputs _)
  refine ⟨hs.1, fun k => ?_⟩
  rw [hs.2 k]
  by_cases hk : k ∈ inputs
  · rw [if_pos hk, if_pos hk, sliceOf_deposits E hv.wf tensors inputs _ k hk]
  · rw [if_neg hk, if_neg hk]

end mean

end Tjd.Props.C05
