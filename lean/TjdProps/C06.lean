/-
  C06 — Gradients accumulate; nothing but the requested .grad fields is touched.

  PROPERTY THEOREMS ONLY (statements fixed; helper lemmas in TjdLemmas/C06Lemmas.lean).
  Two layers: the heap with storage identities (TjdModel/Autojac/Heap.lean: aliasing, `clone()`), and
  the abstract `.grad` state `Key → Option (Vec α)` on which `backward`/`mtlBackward` are defined.
-/
import Mathlib.Algebra.Ring.Defs
import Mathlib.Logic.Function.Iterate
import TjdModel.Autojac.Heap
import TjdModel.Autojac.MtlSpec
import TjdLemmas.C06Lemmas
import TjdLemmas.ExtraLemmas
import TjdLemmas.SeqLemmas
import TjdProps.C01
namespace Tjd.Props.C06
open Tjd Tjd.Autojac Tjd.Props.C01

section heap
variable {α : Type} [Add α]

/-- REFINEMENT: on a heap where no two `.grad`s share storage, accumulation through storages computes
    exactly the abstract update: `+=` where a `.grad` exists, creation where it does not, nothing else -/
theorem accumulate_refines (g : List (Key × Sid × Vec α)) (H : Heap α) (hU : H.Unaliased)
    (hnd : (g.map (·.1)).Nodup) :
    (accumulateH true g H).abs =
      fun k => match g.find? (·.1 == k) with
               | some e => accum (H.abs k) e.2.2
               | none => H.abs k := by
  funext k
  exact accumulateH_abs g H hU hnd k

/-- the invariant is preserved: after the call no two `.grad`s share storage -/
theorem accumulate_preserves_unaliased (g : List (Key × Sid × Vec α)) (H : Heap α)
    (hU : H.Unaliased) : (accumulateH true g H).Unaliased := by
  exact accumulateH_unaliased g H hU

/-- a freshly created `.grad` lives in a storage that did not exist before the call: it shares memory
    with no other tensor — in particular not with the aggregator's output or the engine's gradients
    (whose storages were allocated earlier, i.e. have ids `< H.next`) -/
theorem created_grad_is_fresh (g : List (Key × Sid × Vec α)) (H : Heap α) (hU : H.Unaliased)
    (hnd : (g.map (·.1)).Nodup) (e : Key × Sid × Vec α) (he : e ∈ g) (hnone : H.grad e.1 = none) :
    ∃ s v, (accumulateH true g H).grad e.1 = some (s, v) ∧ H.next ≤ s := by
  have _ := hnd   -- not needed: freshness holds even with repeated keys
  exact accumulateH_created_fresh g H hU e he hnone

/-- an existing `.grad` is updated in place: same storage before and after -/
theorem existing_grad_keeps_storage (g : List (Key × Sid × Vec α)) (H : Heap α) (hU : H.Unaliased)
    (k : Key) (s : Sid) (v : Vec α) (hk : H.grad k = some (s, v)) :
    ∃ v', (accumulateH true g H).grad k = some (s, v') := by
  exact accumulateH_keeps_storage g H hU k s v hk

/-- FRAME on the heap: a `.grad` that is not requested keeps storage and content -/
theorem frame_heap (g : List (Key × Sid × Vec α)) (H : Heap α) (hU : H.Unaliased) (k : Key)
    (hk : k ∉ g.map (·.1)) : (accumulateH true g H).grad k = H.grad k := by
  exact accumulateH_frame g H hU k hk

/-- WHY `clone()` IS NEEDED: without it, two parameters whose gradients are views of the same
    aggregated vector end up sharing storage -/
theorem noclone_aliases :
    let H : Heap Int := { grad := fun _ => none, next := 5 }
    let g : List (Key × Sid × Vec Int) := [(0, 4, [1, 2]), (1, 4, [3])]
    (accumulateH true g H).Unaliased ∧ ¬ (accumulateH false g H).Unaliased := by
  intro H g
  refine ⟨?_, ?_⟩
  · apply accumulateH_unaliased
    exact ⟨fun j k s v s' v' hj => (by cases hj), fun j s v hj => (by cases hj)⟩
  · intro hU
    have h0 : (accumulateH false g H).grad 0 = some (4, [1, 2]) := by decide
    have h1 : (accumulateH false g H).grad 1 = some (4, [3]) := by decide
    exact absurd (hU.1 0 1 4 _ 4 _ h0 h1 rfl) (by decide)

/-- user operations on a non-aliased heap touch only the `.grad` they name -/
theorem user_op_frame [Zero α] (H : Heap α) (hU : H.Unaliased) (op : UserOp α) (k : Key)
    (hk : match op with | .zero j => j ≠ k | .setNone j => j ≠ k | .addConst j _ => j ≠ k) :
    (H.user op).grad k = H.grad k ∧ (H.user op).Unaliased := by
  exact user_frame H hU op k hk

end heap

section abstract
variable {α : Type} [Semiring α]

/-- FRAME for `backward`, unconditionally (whatever the engine, the aggregator, the outcome): the
    `.grad` of a tensor that is not a requested input is unchanged -/
theorem backward_frame (E : Engine α) (tensors inputs : List Key) (A : Mat α → Except Err (Vec α))
    (chunk : Option Int) (retain : Bool) (h : Grads α) (k : Key) (hk : k ∉ inputs) :
    (backward E tensors inputs A chunk retain h).grads k = h k := by
  exact backward_frame' E tensors inputs A chunk retain h k hk

/-- FRAME for `mtl_backward`, unconditionally -/
theorem mtl_frame (E : Engine α) (ndim : Key → Nat) (losses features : List Key)
    (tps : List (List Key)) (shared : List Key) (A : Mat α → Except Err (Vec α))
    (chunk : Option Int) (retain : Bool) (h : Grads α) (k : Key)
    (hk : k ∉ shared) (hk' : k ∉ tps.flatten) :
    (mtlBackward E ndim losses features tps shared A chunk retain h).grads k = h k := by
  exact mtl_frame' E ndim losses features tps shared A chunk retain h k hk hk'

/-- REPEAT: `n` identical calls on a retained graph with a deterministic aggregator yield the
    single-call update accumulated `n` times, for every `n` and every initial `.grad` -/
theorem backward_repeat (E : Engine α) (tensors inputs : List Key)
    (A : Mat α → Except Err (Vec α)) (chunk : Option Int) (retain : Bool) (h : Grads α)
    (hv : ValidCall E tensors inputs chunk) (hne : inputs ≠ [])
    (v : Vec α) (hA : A (fullJac E tensors inputs) = .ok v)
    (hlen : v.length = (inputs.map E.numel).sum) (n : Nat) (k : Key) :
    (Nat.iterate (fun g => (backward E tensors inputs A chunk retain g).grads) n h) k =
      if k ∈ inputs then Nat.iterate (fun g => accum g (sliceOf E.numel inputs k v)) n (h k)
      else h k := by
  exact iterate_accum (fun g => (backward E tensors inputs A chunk retain g).grads) inputs
    (fun k => sliceOf E.numel inputs k v)
    (fun g k => (backward_eq_spec E tensors inputs A chunk retain g hv hne v hA hlen).2 k) n h k

/-- A HISTORY THROUGH A STATEFUL AGGREGATOR: call `j` of the history is made with whatever aggregator the (stateful) object
    is at that moment, `As[j]`; if each maps the Jacobian to `vs[j]`, every requested `.grad` ends as the initial one with the
    slices of `vs[0]`, `vs[1]`, … accumulated in that order, and nothing else changes (`backward_repeat` is the case of a constant
    list) -/
theorem backward_sequence (E : Engine α) (tensors inputs : List Key)
    (As : List (Mat α → Except Err (Vec α))) (vs : List (Vec α)) (chunk : Option Int) (retain : Bool) (h : Grads α)
    (hv : ValidCall E tensors inputs chunk) (hne : inputs ≠ []) (hl : As.length = vs.length)
    (hA : ∀ j, j < As.length → (As.getD j (fun _ => .error Err.value)) (fullJac E tensors inputs) = .ok (vs.getD j []) ∧
      (vs.getD j []).length = (inputs.map E.numel).sum) (k : Key) :
    (As.foldl (fun g A => (backward E tensors inputs A chunk retain g).grads) h) k =
      if k ∈ inputs then vs.foldl (fun g v => accum g (sliceOf E.numel inputs k v)) (h k) else h k := by
  exact backward_sequence' E tensors inputs As vs chunk retain h hv hne hl hA k

/-- accumulation adds to an existing `.grad` and creates an absent one (never replaces) -/
theorem accum_spec (old : Option (Vec α)) (v : Vec α) :
    accum old v = match old with | some g => some (vadd g v) | none => some v := by
  rfl

end abstract

section aliased
variable {α : Type} [Add α]

/-- two parameters whose `.grad` is ONE tensor (the user made them share a common accumulator): a call that requests both
    adds BOTH contributions to it, one after the other, and each of the two `.grad` fields shows the total — no update
    is lost, whatever the two values are -/
theorem aliased_grads_receive_both (H : Heap α) (a b : Key) (hab : a ≠ b) (s sa sb : Sid) (old ga gb : Vec α)
    (ha : H.grad a = some (s, old)) (hb : H.grad b = some (s, old)) :
    (accumulateH true [(a, sa, ga), (b, sb, gb)] H).grad a = some (s, vadd (vadd old ga) gb) ∧
    (accumulateH true [(a, sa, ga), (b, sb, gb)] H).grad b = some (s, vadd (vadd old ga) gb) := by
  exact aliased_accumulate_both H a b hab s sa sb old ga gb ha hb

end aliased

end Tjd.Props.C06
