/-
  C13 — retain_graph means what it means in torch.autograd.

  PROPERTY THEOREMS ONLY (statements fixed; helper lemmas in TjdLemmas/C13Lemmas.lean).
  Relative to the liveness contract of the torch engine (TjdModel/Autojac/Liveness.lean, DESIGN §3),
  which the correspondence check validates against real torch on every run.  All graphs, all row
  counts `m ≥ 1`, all chunk sizes, both flag values, any initial liveness state.
-/
import TjdModel.Autojac.Liveness
import TjdLemmas.C13Lemmas
namespace Tjd.Props.C13
open Tjd.Liveness

def ValidChunk (c : Option Nat) : Prop := ∀ k, c = some k → 0 < k

/-- `backward` issues several engine calls (one per chunk) on the same graph; as far as the liveness of
    the graph is concerned this is EXACTLY one call `torch.autograd.backward(tensors, inputs=…,
    retain_graph=…)`: same success/failure, same released buffers — for every chunk size. -/
theorem backward_liveness_eq_single (G : LGraph) (dead : List Nat) (tensors : List Nat)
    (inputs : List (Nat × Nat)) (m : Nat) (chunk : Option Nat) (retain : Bool)
    (hm : 0 < m) (hc : ValidChunk chunk) (hi : inputs ≠ []) :
    runCalls G (backwardCalls tensors inputs m chunk retain) dead =
      engineCall G dead ⟨tensors, inputs, retain⟩ := by
  -- `hm`, `hc` are not needed: `chunkRanges` always yields at least one block
  have _ := hm; have _ := hc
  have he : inputs.isEmpty = false := by
    cases inputs with
    | nil => exact absurd rfl hi
    | cons _ _ => rfl
  simp only [backwardCalls, he, Bool.false_eq_true, if_false]
  exact runCalls_jacCalls G tensors inputs m chunk retain dead

/-- in particular a call that would succeed as a single sweep succeeds for every chunk size: no
    "freed buffer" failure between the internal sweeps when `retain_graph = False` -/
theorem backward_succeeds_all_chunks (G : LGraph) (dead : List Nat) (tensors : List Nat)
    (inputs : List (Nat × Nat)) (m : Nat) (c₁ c₂ : Option Nat) (retain : Bool)
    (hm : 0 < m) (h₁ : ValidChunk c₁) (h₂ : ValidChunk c₂) (hi : inputs ≠ []) :
    runCalls G (backwardCalls tensors inputs m c₁ retain) dead =
      runCalls G (backwardCalls tensors inputs m c₂ retain) dead := by
  rw [backward_liveness_eq_single G dead tensors inputs m c₁ retain hm h₁ hi,
    backward_liveness_eq_single G dead tensors inputs m c₂ retain hm h₂ hi]

/-- with `retain_graph = True` the graph stays fully usable: the liveness state is unchanged -/
theorem retain_true_identity (G : LGraph) (dead d : List Nat) (outs : List Nat)
    (targets : List (Nat × Nat)) (h : engineCall G dead ⟨outs, targets, true⟩ = some d) : d = dead := by
  exact engineCall_retain_some G dead d ⟨outs, targets, true⟩ rfl h

/-- hence an identical second call behaves identically -/
theorem retain_true_repeat (G : LGraph) (dead : List Nat) (tensors : List Nat)
    (inputs : List (Nat × Nat)) (m : Nat) (chunk : Option Nat) (hm : 0 < m) (hc : ValidChunk chunk)
    (hi : inputs ≠ []) (d : List Nat)
    (h : runCalls G (backwardCalls tensors inputs m chunk true) dead = some d) :
    d = dead ∧ runCalls G (backwardCalls tensors inputs m chunk true) d = some d := by
  rw [backward_liveness_eq_single G dead tensors inputs m chunk true hm hc hi] at h
  have hd : d = dead := retain_true_identity G dead d tensors inputs h
  subst hd
  exact ⟨rfl, by rw [backward_liveness_eq_single G d tensors inputs m chunk true hm hc hi]; exact h⟩

/-- with `retain_graph = False` exactly the executed nodes are released -/
theorem free_releases_executed (G : LGraph) (dead d : List Nat) (outs : List Nat)
    (targets : List (Nat × Nat)) (h : engineCall G dead ⟨outs, targets, false⟩ = some d) (n : Nat) :
    n ∈ d ↔ n ∈ dead ∨ n ∈ executed G outs targets := by
  rw [engineCall_some_mem G dead d ⟨outs, targets, false⟩ h n]
  simp

/-- a call fails exactly when it has to execute a node whose saved tensors were already released -/
theorem call_fails_iff (G : LGraph) (dead : List Nat) (c : Call) :
    engineCall G dead c = none ↔
      ∃ n ∈ executed G c.outs c.targets, (G.getD n ⟨false, []⟩).hasSaved = true ∧ n ∈ dead := by
  rw [engineCall_none_iff, fails_iff]

/-- `mtl_backward` (per-task `Grad` calls with the caller's flag, then the chunked trunk sweeps) versus
    the joint call `torch.autograd.backward(losses, inputs = shared ∪ task params, retain_graph)`.
    Hypotheses of the property: the heads share no node holding buffers (`hdisj`), and the features cut
    the graph (`hcut`: what the joint call executes is what the per-task calls and the trunk sweeps
    execute together).  Then both succeed or fail together, and release the same buffers. -/
theorem mtl_liveness_eq_joint (G : LGraph) (dead : List Nat)
    (tasks : List (Nat × List (Nat × Nat))) (features shared : List (Nat × Nat))
    (chunk : Option Nat) (retain : Bool) (hc : ValidChunk chunk) (ht : tasks ≠ [])
    (hdisj : ∀ i j, i < j → j < tasks.length → ∀ n,
        n ∈ executed G [(tasks.getD i (0, [])).1] ((tasks.getD i (0, [])).2 ++ features) →
        n ∈ executed G [(tasks.getD j (0, [])).1] ((tasks.getD j (0, [])).2 ++ features) →
        (G.getD n ⟨false, []⟩).hasSaved = false)
    (hdisj' : ∀ t ∈ tasks, ∀ n, n ∈ executed G [t.1] (t.2 ++ features) →
        n ∈ executed G (features.map (·.1)) shared → (G.getD n ⟨false, []⟩).hasSaved = false)
    (hcut : ∀ n, n ∈ executed G (tasks.map (·.1)) (shared ++ tasks.flatMap (·.2)) ↔
        (∃ t ∈ tasks, n ∈ executed G [t.1] (t.2 ++ features)) ∨
        (shared ≠ [] ∧ n ∈ executed G (features.map (·.1)) shared)) :
    let joint := engineCall G dead ⟨tasks.map (·.1), shared ++ tasks.flatMap (·.2), retain⟩
    let split := runCalls G (mtlCalls tasks features shared chunk retain) dead
    (joint.isSome = split.isSome) ∧
    ∀ dj ds, joint = some dj → split = some ds → ∀ n, n ∈ dj ↔ n ∈ ds := by
  have _ := hc; have _ := ht
  intro joint split
  exact mtl_main G dead tasks features shared chunk retain hdisj hdisj' hcut

/-! non-vacuity: y = (a*x)*(a*x): node 0 = outer Mul (saved), node 1 = inner Mul (saved), nodes 2, 3 =
    AccumulateGrad of a and x.  Two sweeps with chunk size 1, no retain: succeeds, both Mul nodes released;
    a second call then fails. -/
example :
    let G : LGraph := [⟨true, [some (1, 0), some (1, 0)]⟩, ⟨true, [some (2, 0), some (3, 0)]⟩, ⟨false, []⟩, ⟨false, []⟩]
    let calls := backwardCalls [0] [(3, 0)] 2 (some 1) false
    calls.length = 2 ∧ runCalls G calls [] = some [0, 1] ∧ runCalls G calls [0, 1] = none ∧
      runCalls G (backwardCalls [0] [(3, 0)] 2 (some 1) true) [] = some [] := by
  decide

end Tjd.Props.C13
