/-
  C20 — A call rejected for its arguments changes nothing.

  PROPERTY THEOREMS ONLY (statements fixed; helper lemmas in TjdLemmas/MtlLemmas.lean).
  The model is the code after the `fix:` commits (validation of every parameter before the first write).
-/
import Mathlib.Algebra.Ring.Defs
import TjdModel.Autojac.MtlSpec
import TjdLemmas.AutojacLemmas
import TjdLemmas.MtlLemmas
namespace Tjd.Props.C20
open Tjd Tjd.Autojac

variable {α : Type} [Zero α] [One α] [Add α] [Mul α]

/-- `backward`: WHATEVER goes wrong (bad chunk size, empty or duplicate tensors, a parameter the engine
    refuses, an aggregator that rejects the Jacobian or returns a vector of the wrong length, a
    parameter that does not expect a gradient at any position), no `.grad` has been modified. -/
theorem backward_rejected_changes_nothing (E : Engine α) (tensors inputs : List Key)
    (A : Mat α → Except Err (Vec α)) (chunk : Option Int) (retain : Bool) (h : Grads α) (e : Err)
    (herr : (backward E tensors inputs A chunk retain h).err = some e) :
    (backward E tensors inputs A chunk retain h).grads = h := by
  unfold backward at herr ⊢
  cases chunk with
  | none => exact go_rejected E tensors inputs A none retain h e herr
  | some c =>
    by_cases hc : c ≤ 0
    · simp only [hc, if_true]
    · simp only [hc, if_false] at herr ⊢
      exact go_rejected E tensors inputs A _ retain h e herr

/-- a parameter that is neither a leaf requiring grad nor retains grad is always rejected, whatever its
    position among valid inputs -/
theorem backward_bad_param_rejected (E : Engine α) (tensors inputs : List Key)
    (A : Mat α → Except Err (Vec α)) (chunk : Option Int) (retain : Bool) (h : Grads α)
    (bad : Key) (hb : bad ∈ inputs) (hbad : E.expectsGrad bad = false) :
    (backward E tensors inputs A chunk retain h).err ≠ none ∧
    (backward E tensors inputs A chunk retain h).grads = h := by
  unfold backward
  cases chunk with
  | none => exact go_bad_param E tensors inputs A none retain h bad hb hbad
  | some c =>
    by_cases hc : c ≤ 0
    · simp only [hc, if_true]
      exact ⟨by simp, trivial⟩
    · simp only [hc, if_false]
      exact go_bad_param E tensors inputs A _ retain h bad hb hbad

/-- in particular a parameter frozen (`requires_grad_(False)`) after the forward pass — still in the graph, so
    also found by the default parameter discovery — is rejected and nothing changes -/
theorem backward_frozen_param_rejected (E : Engine α) (tensors inputs frozen : List Key)
    (A : Mat α → Except Err (Vec α)) (chunk : Option Int) (retain : Bool) (h : Grads α)
    (bad : Key) (hb : bad ∈ inputs) (hf : bad ∈ frozen) :
    (backward (E.freeze frozen) tensors inputs A chunk retain h).err ≠ none ∧
    (backward (E.freeze frozen) tensors inputs A chunk retain h).grads = h := by
  apply backward_bad_param_rejected (E.freeze frozen) tensors inputs A chunk retain h bad hb
  simp [Engine.freeze, hf]

/-- the argument faults of `mtl_backward` named by the property -/
def MtlArgFault (E : Engine α) (ndim : Key → Nat) (losses features : List Key)
    (tps : List (List Key)) (shared : List Key) (chunk : Option Int) : Prop :=
  (∃ c, chunk = some c ∧ c ≤ 0) ∨ features = [] ∨ losses = [] ∨ (∃ l ∈ losses, 0 < ndim l) ∨
  losses.length ≠ tps.length ∨ (∃ p ∈ tps.flatten, p ∈ shared) ∨
  (∃ tp ∈ tps, ¬ (tp ++ features).Nodup) ∨ ¬ features.Nodup ∨ ¬ shared.Nodup ∨
  (∃ p ∈ shared ++ tps.flatten, E.expectsGrad p = false)

/-- `mtl_backward`: every argument fault is reported as `ValueError` before any `.grad` is modified and
    before the graph is traversed, whatever the position of the offending argument -/
theorem mtl_rejected_changes_nothing (E : Engine α) (ndim : Key → Nat) (losses features : List Key)
    (tps : List (List Key)) (shared : List Key) (A : Mat α → Except Err (Vec α))
    (chunk : Option Int) (retain : Bool) (h : Grads α)
    (hf : MtlArgFault E ndim losses features tps shared chunk) :
    (mtlBackward E ndim losses features tps shared A chunk retain h).err = some Err.value ∧
    (mtlBackward E ndim losses features tps shared A chunk retain h).grads = h ∧
    (mtlBackward E ndim losses features tps shared A chunk retain h).sweeps = [] := by
  rcases mtlBackward_cases E ndim losses features tps shared A chunk retain h with ⟨-, heq⟩ | ⟨hok, -⟩
  · rw [heq]
    exact ⟨rfl, rfl, rfl⟩
  · exfalso
    obtain ⟨h1, h2, h3, h4, h5, h6, h7, h8, h9, h10⟩ := hok
    rcases hf with ⟨c, hc, hc0⟩ | hf | hf | ⟨l, hl, hd⟩ | hf | ⟨p, hp, hps⟩ | ⟨tp, htp, hd⟩ | hf | hf |
      ⟨p, hp, hpe⟩
    · have := h1 c hc; omega
    · exact h2 hf
    · exact h5 hf
    · have := h4 l hl; omega
    · exact hf h6
    · exact h3 p hp hps
    · exact hd (h8 tp htp)
    · exact hf h9
    · exact hf h10
    · have := h7 p hp
      rw [hpe] at this
      cases this

/-- the faults of `backward` named by the property are all reported as `ValueError` -/
theorem backward_arg_faults (E : Engine α) (tensors inputs : List Key)
    (A : Mat α → Except Err (Vec α)) (chunk : Option Int) (retain : Bool) (h : Grads α)
    (hf : (∃ c, chunk = some c ∧ c ≤ 0) ∨ tensors = [] ∨ ¬ tensors.Nodup) :
    (backward E tensors inputs A chunk retain h).err = some Err.value ∧
    (backward E tensors inputs A chunk retain h).sweeps = [] := by
  unfold backward
  rcases hf with ⟨c, rfl, hc⟩ | hf
  · simp only [hc, if_true]
    exact ⟨trivial, trivial⟩
  · have hgo : ∀ cn, (backward.go E tensors inputs A retain h cn).err = some Err.value ∧
        (backward.go E tensors inputs A retain h cn).sweeps = [] := by
      intro cn
      unfold backward.go
      rcases hf with hf | hf
      · subst hf
        exact ⟨rfl, rfl⟩
      · have hd : hasDup tensors = true := by
          cases hh : hasDup tensors with
          | true => rfl
          | false => exact absurd ((hasDup_eq_false_iff tensors).mp hh) hf
        cases hte : tensors.isEmpty with
        | true => exact ⟨rfl, rfl⟩
        | false =>
          simp only [hd, Bool.false_eq_true, if_false, if_true]
          exact ⟨trivial, trivial⟩
    cases chunk with
    | none => exact hgo none
    | some c =>
      by_cases hc : c ≤ 0
      · simp only [hc, if_true]
        exact ⟨trivial, trivial⟩
      · simp only [hc, if_false]
        exact hgo _

/-- `Accumulate` alone: if any key does not expect a gradient, nothing is written -/
theorem accumulate_rejected_unchanged (E : Engine α) (g : GDict α) (h : Grads α)
    (hbad : ∃ kv ∈ g, E.expectsGrad kv.1 = false) :
    accumulateT E g h = (h, some Err.value) := by
  exact accumulateT_rejected E g h hbad

/-- non-vacuity / history: BEFORE the fix the property was false.  `accumulateOld` is the code as it
    was (check and write key by key): a bad key after a good one leaves the good one written. -/
def accumulateOld (E : Engine α) (g : GDict α) (h : Grads α) : Grads α × Option Err :=
  g.foldl (fun (st : Grads α × Option Err) (kv : Key × Vec α) =>
    match st.2 with
    | some _ => st
    | none =>
      if !E.expectsGrad kv.1 then (st.1, some Err.value)
      else match st.1 kv.1 with
        | some old => (st.1.set kv.1 (some (vadd old kv.2)), none)
        | none => (st.1.set kv.1 (some kv.2), none))
    (h, none)

theorem old_accumulate_partial_write :
    let E : Engine Int := { numel := fun _ => 1, jac := fun _ _ => none, requiresGrad := fun _ => true,
                            expectsGrad := fun k => k == 0 }
    let r := accumulateOld E [(0, [5]), (1, [7])] (fun _ => none)
    r.2 = some Err.value ∧ r.1 0 = some [5] := by
  decide

/-- `mtl_backward` with a parameter (shared or task-specific, explicit or discovered) frozen after the forward
    pass: `ValueError` before any `.grad` is modified and before the graph is traversed -/
theorem mtl_frozen_param_rejected (E : Engine α) (ndim : Key → Nat) (losses features : List Key)
    (tps : List (List Key)) (shared frozen : List Key) (A : Mat α → Except Err (Vec α))
    (chunk : Option Int) (retain : Bool) (h : Grads α)
    (bad : Key) (hb : bad ∈ shared ++ tps.flatten) (hf : bad ∈ frozen) :
    (mtlBackward (E.freeze frozen) ndim losses features tps shared A chunk retain h).err = some Err.value ∧
    (mtlBackward (E.freeze frozen) ndim losses features tps shared A chunk retain h).grads = h ∧
    (mtlBackward (E.freeze frozen) ndim losses features tps shared A chunk retain h).sweeps = [] := by
  apply mtl_rejected_changes_nothing
  right; right; right; right; right; right; right; right; right
  exact ⟨bad, hb, by simp [Engine.freeze, hf]⟩

end Tjd.Props.C20
