import TjdModel.Autojac.Spec
namespace Tjd.Props.C20
open Tjd Tjd.Autojac

theorem accumulate_rejected_unchanged {α : Type} [Add α] (E : Engine α) (g : GDict α) (h : Grads α)
    (hbad : ∃ kv ∈ g, E.expectsGrad kv.1 = false) :
    accumulateT E g h = (h, some Err.value) := by
  unfold accumulateT
  have : g.all (fun kv => E.expectsGrad kv.1) = false := by
    rw [List.all_eq_false]
    obtain ⟨kv, hm, hk⟩ := hbad
    exact ⟨kv, hm, by simp [hk]⟩
  simp [this]

end Tjd.Props.C20
