/-
  C20 — A call rejected for its arguments changes nothing.

  PROPERTY THEOREMS ONLY (statements fixed; helper lemmas in TjdLemmas/MtlLemmas.lean).
  The model is the code after the `fix:` commits (validation of every parameter before the first write).
-/
import Mathlib.Algebra.Ring.Defs
import TjdModel.Autojac.MtlSpec
import TjdLemmas.AutojacLemmas
import TjdLemmas.MtlLemmas
namespace Tjd.Props.C20
open Tjd Tjd.Autojac

variable {α : Type} [Zero α] [One α] [Add α] [Mul α]

/-- `backward`: WHATEVER goes wrong (bad chunk size, empty or duplicate tensors, a parameter the engine
    refuses, an aggregator that rejects the Jacobian or returns a vector of the wrong length, a
    parameter that does not expect a gradient at any position), no `.grad` has been modified. -/
theorem backward_rejected_changes_nothing (E : Engine α) (tensors inputs : List Key)
    (A : Mat α → Except Err (Vec α)) (chunk : Option Int) (retain : Bool) (h : Grads α) (e : Err)
    (herr : (backward E tensors inputs A chunk retain h).err = some e) :
    (backward E tensors inputs A chunk retain h).grads = h := by
  sorry

/-- a parameter that is neither a leaf requiring grad nor retains grad is always rejected, whatever its
    position among valid inputs -/
theorem backward_bad_param_rejected (E : Engine α) (tensors inputs : List Key)
    (A : Mat α → Except Err (Vec α)) (chunk : Option Int) (retain : Bool) (h : Grads α)
    (bad : Key) (hb : bad ∈ inputs) (hbad : E.expectsGrad bad = false) :
    (backward E tensors inputs A chunk retain h).err ≠ none ∧
    (backward E tensors inputs A chunk retain h).grads = h := by
  sorry

/-- the argument faults of `mtl_backward` named by the property -/
def MtlArgFault (E : Engine α) (ndim : Key → Nat) (losses features : List Key)
    (tps : List (List Key)) (shared : List Key) (chunk : Option Int) : Prop :=
  (∃ c, chunk = some c ∧ c ≤ 0) ∨ features = [] ∨ losses = [] ∨ (∃ l ∈ losses, 0 < ndim l) ∨
  losses.length ≠ tps.length ∨ (∃ p ∈ tps.flatten, p ∈ shared) ∨
  (∃ tp ∈ tps, ¬ (tp ++ features).Nodup) ∨ ¬ features.Nodup ∨ ¬ shared.Nodup ∨
  (∃ p ∈ shared ++ tps.flatten, E.expectsGrad p = false)

/-- `mtl_backward`: every argument fault is reported as `ValueError` before any `.grad` is modified and
    before the graph is traversed, whatever the position of the offending argument -/
theorem mtl_rejected_changes_nothing (E : Engine α) (ndim : Key → Nat) (losses features : List Key)
    (tps : List (List Key)) (shared : List Key) (A : Mat α → Except Err (Vec α))
    (chunk : Option Int) (retain : Bool) (h : Grads α)
    (hf : MtlArgFault E ndim losses features tps shared chunk) :
    (mtlBackward E ndim losses features tps shared A chunk retain h).err = some Err.value ∧
    (mtlBackward E ndim losses features tps shared A chunk retain h).grads = h ∧
    (mtlBackward E ndim losses features tps shared A chunk retain h).sweeps = [] := by
  sorry

/-- the faults of `backward` named by the property are all reported as `ValueError` -/
theorem backward_arg_faults (E : Engine α) (tensors inputs : List Key)
    (A : Mat α → Except Err (Vec α)) (chunk : Option Int) (retain : Bool) (h : Grads α)
    (hf : (∃ c, chunk = some c ∧ c ≤ 0) ∨ tensors = [] ∨ ¬ tensors.Nodup) :
    (backward E tensors inputs A chunk retain h).err = some Err.value ∧
    (backward E tensors inputs A chunk retain h).sweeps = [] := by
  sorry

/-- `Accumulate` alone: if any key does not expect a gradient, nothing is written -/
theorem accumulate_rejected_unchanged (E : Engine α) (g : GDict α) (h : Grads α)
    (hbad : ∃ kv ∈ g, E.expectsGrad kv.1 = false) :
    accumulateT E g h = (h, some Err.value) := by
  sorry

/-- non-vacuity / history: BEFORE the fix the property was false.  `accumulateOld` is the code as it
    was (check and write key by key): a bad key after a good one leaves the good one written. -/
def accumulateOld (E : Engine α) (g : GDict α) (h : Grads α) : Grads α × Option Err :=
  g.foldl (fun (st : Grads α × Option Err) (kv : Key × Vec α) =>
    match st.2 with
    | some _ => st
    | none =>
      if !E.expectsGrad kv.1 then (st.1, some Err.value)
      else match st.1 kv.1 with
        | some old => (st.1.set kv.1 (some (vadd old kv.2)), none)
        | none => (st.1.set kv.1 (some kv.2), none))
    (h, none)

theorem old_accumulate_partial_write :
    let E : Engine Int := { numel := fun _ => 1, jac := fun _ _ => none, requiresGrad := fun _ => true,
                            expectsGrad := fun k => k == 0 }
    let r := accumulateOld E [(0, [5]), (1, [7])] (fun _ => none)
    r.2 = some Err.value ∧ r.1 0 = some [5] := by
  sorry

end Tjd.Props.C20
