import TjdModel.Agg.Others
namespace Tjd.Props.C09
open Tjd Tjd.Agg

theorem placeholder_rejects (k : AggKind) (f : Bool) : rejects k [] f = true := by simp [rejects]

end Tjd.Props.C09
