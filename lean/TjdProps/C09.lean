/-
  C09 — Linear under scaling: each gradient weighs in proportionally to its norm.

  PROPERTY THEOREMS ONLY (statements fixed; helper lemmas in TjdLemmas/EquivLemmas.lean).
  `scaleRows c J = diag(c) J`.  UPGrad's quantitative defect bound (const·sqrt(reg_eps)·s·|w|) is NOT
  proved: it is measured by the check (DESIGN §8).
-/
import Mathlib.Algebra.Order.Field.Basic
import TjdModel.Agg.Spec2
import TjdLemmas.EquivLemmas
import TjdProps.C18
namespace Tjd.Props.C09
open Tjd Tjd.Agg

variable {α : Type} [Field α] [LinearOrder α] [IsStrictOrderedRing α]

/-- a combination of the rows of `diag(c) J` with weights `w` is the combination of the rows of `J` with
    weights `c ⊙ w` -/
theorem combine_scaleRows (J : Mat α) (m n : Nat) (hJ : MatWF J m n) (c w : Vec α) (hc : c.length = m)
    (hw : w.length = m) :
    combine n (scaleRows c J) w = combine n J (List.zipWith (· * ·) c w) := by
  have _ := And.intro hJ (And.intro hc hw)
  exact Eqv.combine_scaleRows' J n c w

/-- aggregators whose weights do not depend on the matrix (Mean, Sum, Constant, Random for a fixed
    draw) are linear under scaling: `A(diag(a c₁ + b c₂) J) = a A(diag(c₁) J) + b A(diag(c₂) J)` -/
theorem fixed_weights_linear (J : Mat α) (m n : Nat) (hJ : MatWF J m n) (w c₁ c₂ : Vec α) (a b : α)
    (hw : w.length = m) (h₁ : c₁.length = m) (h₂ : c₂.length = m) :
    combine n (scaleRows (vadd (smul a c₁) (smul b c₂)) J) w =
      vadd (smul a (combine n (scaleRows c₁ J) w)) (smul b (combine n (scaleRows c₂ J) w)) := by
  exact Eqv.fixed_weights_linear' J m n hJ w c₁ c₂ a b hw h₁ h₂

/-- PCGrad in vector space: scaling row `i` by `c_i > 0` (and the other rows by positive factors) scales
    the `i`-th projected gradient by `c_i` — conflict tests are sign-invariant, projections direction-only -/
theorem pcRow_scale (J : Mat α) (m n : Nat) (hJ : MatWF J m n) (c : Vec α) (hc : c.length = m)
    (hpos : ∀ x ∈ c, 0 < x) (i : Nat) (hi : i < m) (perm : List Nat) (hp : ∀ j ∈ perm, j < m) :
    pcRow (scaleRows c J) i perm = smul (c.getD i 0) (pcRow J i perm) := by
  exact Eqv.pcRow_scale' J m hJ.1 c hc hpos i hi perm hp

/-- hence PCGrad (for fixed projection orders) is linear under scaling -/
theorem pcgrad_linear_under_scaling (J : Mat α) (m n : Nat) (hJ : MatWF J m n) (c : Vec α)
    (hc : c.length = m) (hpos : ∀ x ∈ c, 0 < x) (perms : List (List Nat))
    (hp : ∀ p ∈ perms, ∀ j ∈ p, j < m) :
    combine n (scaleRows c J) (pcgradWeights (gram (scaleRows c J)) perms).1 =
      vsum n ((List.range m).map fun i => smul (c.getD i 0) (pcRow J i (perms.getD i []))) := by
  rw [Tjd.Props.C18.pcgrad_refines (scaleRows c J) m n (Eqv.scaleRows_matWF J m n hJ c hc) perms hp]
  congr 1
  apply List.map_congr_left
  intro i hi
  exact Eqv.pcRow_scale' J m hJ.1 c hc hpos i (List.mem_range.mp hi) _ (Eqv.getD_perms_lt perms m hp i)

/-- ConFIG: the unit rows, hence `best`, do not change under positive row scaling (row norms scale along);
    the length factor `Σ_i c_i ⟨j_i, û⟩` is linear in `c` -/
theorem config_linear_under_scaling (J : Mat α) (m n : Nat) (hJ : MatWF J m n) (d w c₁ c₂ : Vec α)
    (a b : α) (hd : d.length = m) (h₁ : c₁.length = m) (h₂ : c₂.length = m)
    (hp₁ : ∀ x ∈ c₁, 0 < x) (hp₂ : ∀ x ∈ c₂, 0 < x) (ha : 0 < a) (hb : 0 < b)
    (x₁ x₂ x₃ : Vec α)
    (e₁ : configVec (scaleRows c₁ J) (List.zipWith (· * ·) c₁ d) w n = some x₁)
    (e₂ : configVec (scaleRows c₂ J) (List.zipWith (· * ·) c₂ d) w n = some x₂)
    (e₃ : configVec (scaleRows (vadd (smul a c₁) (smul b c₂)) J)
            (List.zipWith (· * ·) (vadd (smul a c₁) (smul b c₂)) d) w n = some x₃) :
    x₃ = vadd (smul a x₁) (smul b x₂) := by
  exact Eqv.config_linear' J m n hJ d w c₁ c₂ a b hd h₁ h₂ hp₁ hp₂ ha hb x₁ x₂ x₃ e₁ e₂ e₃

end Tjd.Props.C09
