/-
  C14 — Transform pipelines are key-typed: ill-formed ones cannot be built or run.

  PROPERTY THEOREMS ONLY (statements are fixed; helper lemmas live in TjdLemmas/C14Lemmas.lean).
  All theorems quantify over *all* terms (any nesting depth, any key universe, any key shapes).
-/
import TjdModel.Autojac.Typing
import TjdLemmas.C14Lemmas
namespace Tjd.Props.C14
open Tjd Tjd.Typing

/-- the dictionary type a transform produces from an input of type `τ`: "the most specific dictionary
    type common to the parts" -/
def tyOf : Term → DType → DType
  | .init _, _ => .grads
  | .select _ _, τ => τ
  | .diag _, _ => .jacs
  | .acc _, _ => .empty
  | .stack _, _ => .jacs
  | .conj ts, τ => tyOfList ts τ .empty
  | .comp o i, τ => tyOf o (tyOf i τ)
where
  tyOfList : List Term → DType → DType → DType
  | [], _, acc => acc
  | t :: ts, τ, acc => tyOfList ts τ (lca acc (tyOf t τ))

/-! ### set semantics of the key lists -/

theorem seteq_iff (a b : List Key) : seteq a b = true ↔ ∀ k, k ∈ a ↔ k ∈ b := by
  exact seteq_iff' a b

/-- every constructor failure is a `ValueError` -/
theorem build_error_is_value (t : Term) (e : Err) (h : build t = .error e) : e = .value := by
  exact build_error_value t e h

/-- declared output keys never contain a key twice (they are Python sets) -/
theorem build_output_nodup (t : Term) (σ : Sig) (h : build t = .ok σ) : σ.output.Nodup := by
  exact build_output_nodup' t σ h

/-! ### construction succeeds exactly when the key sets match -/

/-- Composition: succeeds iff both parts can be built and the outer one requires exactly the keys
    the inner one outputs; the composite requires what the inner requires and outputs what the outer
    outputs. -/
theorem comp_builds_iff (o i : Term) (σ : Sig) :
    build (.comp o i) = .ok σ ↔
      ∃ σo σi, build o = .ok σo ∧ build i = .ok σi ∧ (∀ k, k ∈ σo.required ↔ k ∈ σi.output) ∧
        σ = ⟨σi.required, σo.output⟩ := by
  exact build_comp_ok_iff o i σ

/-- Conjunction: succeeds iff all members can be built, all require the same keys, and their output
    key sets are pairwise disjoint; it then outputs the union. -/
theorem conj_builds_iff (ts : List Term) :
    (∃ σ, build (.conj ts) = .ok σ) ↔
      ∃ sigs, buildList ts = .ok sigs ∧
        (∀ s ∈ sigs, ∀ s' ∈ sigs, ∀ k, k ∈ s.required ↔ k ∈ s'.required) ∧
        (sigs.flatMap (·.output)).Nodup := by
  constructor
  · rintro ⟨σ, h⟩
    obtain ⟨sigs, hs, hreq, hnd, _⟩ := (build_conj_ok_iff ts σ).1 h
    exact ⟨sigs, hs, hreq, hnd⟩
  · rintro ⟨sigs, hs, hreq, hnd⟩
    exact ⟨_, (build_conj_ok_iff ts _).2 ⟨sigs, hs, hreq, hnd, rfl⟩⟩

theorem conj_sig (ts : List Term) (σ : Sig) (sigs : List Sig) (h : build (.conj ts) = .ok σ)
    (hs : buildList ts = .ok sigs) :
    (∀ k, k ∈ σ.output ↔ ∃ s ∈ sigs, k ∈ s.output) ∧
    (∀ k, k ∈ σ.required ↔ ∃ s ∈ sigs, k ∈ s.required) := by
  obtain ⟨sigs', hs', _, _, rfl⟩ := (build_conj_ok_iff ts σ).1 h
  rw [hs] at hs'
  cases hs'
  constructor
  · intro k; simp only [List.mem_flatMap]
  · intro k; simp only [mem_dedup, List.mem_flatMap]

/-! ### application -/

/-- applying any (buildable) transform to a dictionary whose key set differs from its required keys
    raises `ValueError` -/
theorem apply_wrong_keys_rejected (ks : Key → Shape) (t : Term) (σ : Sig) (d : Dict)
    (hb : build t = .ok σ) (hk : ¬ ∀ k, k ∈ σ.required ↔ k ∈ d.keys) :
    apply ks t d = .error .value := by
  exact apply_wrong_keys' ks t σ d hb hk

/-- a transform that cannot be built cannot be applied -/
theorem apply_unbuildable (ks : Key → Shape) (t : Term) (e : Err) (d : Dict)
    (hb : build t = .error e) : apply ks t d = .error e := by
  exact apply_unbuildable' ks t e d hb

/-- TYPE SOUNDNESS (keys): whenever construction and application succeed, the input had exactly the
    required keys and the result has exactly the declared output keys -/
theorem apply_ok_keys (ks : Key → Shape) (t : Term) (σ : Sig) (d d' : Dict)
    (hb : build t = .ok σ) (ha : apply ks t d = .ok d') :
    (∀ k, k ∈ d.keys ↔ k ∈ σ.required) ∧ (∀ k, k ∈ d'.keys ↔ k ∈ σ.output) := by
  exact ⟨fun k => (apply_ok_required ks t σ d d' hb ha k).symm, apply_ok_output ks t σ d d' hb ha⟩

/-- TYPE SOUNDNESS (dictionary class): the result has the most specific dictionary type common to
    the parts -/
theorem apply_ok_type (ks : Key → Shape) (t : Term) (d d' : Dict)
    (ha : apply ks t d = .ok d') : d'.ty = tyOf t d.ty := by
  exact apply_ok_type_gen ks tyOf tyOf.tyOfList (fun _ _ => rfl) (fun _ _ _ => rfl) (fun _ _ => rfl)
    (fun _ _ => rfl) (fun _ _ => rfl) (fun _ _ => by rw [tyOf]) (fun _ _ _ => by rw [tyOf])
    (fun _ _ => by rw [tyOf.tyOfList]) (fun _ _ _ _ => by rw [tyOf.tyOfList]) t d d' ha

/-! ### the union type is the join of the class lattice -/

theorem lca_comm (a b : DType) : lca a b = lca b a := by
  cases a <;> cases b <;> rfl

theorem lca_assoc (a b c : DType) : lca (lca a b) c = lca a (lca b c) := by
  cases a <;> cases b <;> cases c <;> rfl

theorem lca_idem (a : DType) : lca a a = a := by cases a <;> rfl

theorem lca_empty_left (a : DType) : lca .empty a = a := by cases a <;> rfl

/-- `lca a b` is the least class (w.r.t. `issubclass`) that both `a` and `b` inherit from -/
theorem lca_is_join (a b c : DType) :
    a.isSub (lca a b) = true ∧ b.isSub (lca a b) = true ∧
      (a.isSub c = true → b.isSub c = true → (lca a b).isSub c = true) := by
  cases a <;> cases b <;> cases c <;> decide

/-! ### algebraic laws -/

/-- composition is associative: as constructors ... -/
theorem comp_assoc_build (a b c : Term) :
    build (.comp (.comp a b) c) = build (.comp a (.comp b c)) := by
  exact comp_assoc_build' a b c

/-- ... and as functions (including which error is raised) -/
theorem comp_assoc_apply (ks : Key → Shape) (a b c : Term) (d : Dict) :
    apply ks (.comp (.comp a b) c) d = apply ks (.comp a (.comp b c)) d := by
  exact comp_assoc_apply' ks a b c d

/-- conjunction is commutative: both orders build or fail together, with the same key sets -/
theorem conj_comm_build (a b : Term) :
    (∀ σ, build (.conj [a, b]) = .ok σ → ∃ σ', build (.conj [b, a]) = .ok σ' ∧
        (∀ k, k ∈ σ.required ↔ k ∈ σ'.required) ∧ (∀ k, k ∈ σ.output ↔ k ∈ σ'.output)) ∧
    (∀ e, build (.conj [a, b]) = .error e → build (.conj [b, a]) = .error e) := by
  exact ⟨fun σ h => conj_comm_ok a b σ h, fun e h => conj_comm_error a b e h⟩

/-- conjunction is associative on the level of constructors -/
theorem conj_assoc_build (a b c : Term) :
    (∀ σ, build (.conj [.conj [a, b], c]) = .ok σ → ∃ σ', build (.conj [a, .conj [b, c]]) = .ok σ' ∧
        (∀ k, k ∈ σ.required ↔ k ∈ σ'.required) ∧ (∀ k, k ∈ σ.output ↔ k ∈ σ'.output)) ∧
    (∀ σ', build (.conj [a, .conj [b, c]]) = .ok σ' → ∃ σ, build (.conj [.conj [a, b], c]) = .ok σ) := by
  exact ⟨fun σ h => conj_assoc_ok_left a b c σ h, fun σ' h => conj_assoc_ok_right a b c σ' h⟩

/-- commutativity on the level of results: same type, same entries up to order -/
theorem conj_comm_apply (ks : Key → Shape) (a b : Term) (d r : Dict)
    (h : apply ks (.conj [a, b]) d = .ok r) :
    ∃ r', apply ks (.conj [b, a]) d = .ok r' ∧ r'.ty = r.ty ∧ r'.entries.Perm r.entries := by
  exact conj_comm_apply' ks a b d r h

/-! ### dictionaries cannot be created with values whose shapes contradict their type -/

theorem mk_grads_iff (ks : Key → Shape) (es : List (Key × Shape)) :
    (∃ d, mkDict ks .grads es = .ok d) ↔ ∀ e ∈ es, e.2 = ks e.1 := by
  exact mkDict_grads_iff ks es

theorem mk_gvecs_iff (ks : Key → Shape) (es : List (Key × Shape)) :
    (∃ d, mkDict ks .gvecs es = .ok d) ↔ ∀ e ∈ es, e.2 = [numel (ks e.1)] := by
  exact mkDict_gvecs_iff ks es

theorem mk_jacs_iff (ks : Key → Shape) (es : List (Key × Shape)) :
    (∃ d, mkDict ks .jacs es = .ok d) ↔
      ∃ m : Nat, ∀ e ∈ es, e.2 = m :: ks e.1 := by
  exact mkDict_jacs_iff ks es

theorem mk_jmats_iff (ks : Key → Shape) (es : List (Key × Shape)) :
    (∃ d, mkDict ks .jmats es = .ok d) ↔
      ∃ m : Nat, ∀ e ∈ es, e.2 = [m, numel (ks e.1)] := by
  exact mkDict_jmats_iff ks es

theorem mk_empty_iff (ks : Key → Shape) (es : List (Key × Shape)) :
    (∃ d, mkDict ks .empty es = .ok d) ↔ es = [] := by
  exact mkDict_empty_iff ks es

theorem mk_ok_preserves (ks : Key → Shape) (ty : DType) (es : List (Key × Shape)) (d : Dict)
    (h : mkDict ks ty es = .ok d) : d.ty = ty ∧ d.entries = es := by
  rw [mkDict_preserves ks ty es d h]
  exact ⟨rfl, rfl⟩

/-! ### non-vacuity: a concrete well-formed pipeline in the style of `backward`
    (Accumulate ∘ Select ∘ Diagonalize-free part omitted: Aggregate/Jac are not in C14's term language) -/

example :
    let ks : Key → Shape := fun k => if k = 0 then [] else if k = 1 then [2] else [2, 3]
    let t := Term.comp (.diag [1, 0]) (.conj [.init [0], .init [1]])
    (∃ σ, build t = .ok σ ∧ σ.required = [] ∧ σ.output = [1, 0]) ∧
    (∃ d', apply ks t ⟨.empty, []⟩ = .ok d' ∧ d'.ty = .jacs ∧ d'.keys = [1, 0]) := by
  intro ks t
  refine ⟨⟨⟨[], [1, 0]⟩, rfl, rfl, rfl⟩, ⟨⟨.jacs, [(1, [3, 2]), (0, [3])]⟩, ?_, rfl, rfl⟩⟩
  with_unfolding_all rfl

end Tjd.Props.C14
