import TjdModel.Autojac.Typing
namespace Tjd.Props.C14
open Tjd.Typing

theorem lca_idem (a : DType) : lca a a = a := by cases a <;> rfl

end Tjd.Props.C14
