/-
  C08 — Weighted aggregators stay in the row span and only look at the Gramian.

  PROPERTY THEOREMS ONLY (statements fixed; helper lemmas in TjdLemmas/EquivLemmas.lean).
  Over an arbitrary linearly ordered field.  `mulRight n J Q` is `J Q`; `Orthogonal Q n` says `Q Qᵀ = I`.
-/
import Mathlib.Algebra.Order.Field.Basic
import TjdModel.Agg.Spec2
import TjdLemmas.EquivLemmas
namespace Tjd.Props.C08
open Tjd Tjd.Agg

variable {α : Type} [Field α] [LinearOrder α] [IsStrictOrderedRing α]

/-- the Gramian does not see an orthogonal change of coordinates: `(JQ)(JQ)ᵀ = J Jᵀ` -/
theorem gram_mulRight_orthogonal (J Q : Mat α) (m n : Nat) (hJ : MatWF J m n) (hQ : Orthogonal Q n) :
    gram (mulRight n J Q) = gram J := by
  exact Eqv.gram_mulRight J Q m n hJ hQ

/-- a combination of the rows of `JQ` is the same combination of the rows of `J`, times `Q` -/
theorem combine_mulRight (J Q : Mat α) (m n : Nat) (hJ : MatWF J m n) (hQ : MatWF Q n n) (w : Vec α)
    (hw : w.length = m) :
    combine n (mulRight n J Q) w = combine n Q (combine n J w) := by
  exact Eqv.combine_mulRight' J Q m n hJ hQ w hw

/-- GENERIC EQUIVARIANCE: any aggregator of the form `A(J) = Jᵀ W(J Jᵀ)` — weights computed from the
    Gramian only — commutes with every orthogonal change of coordinates: `A(J Q) = A(J) Q` -/
theorem gramian_aggregator_equivariant (W : Mat α → Vec α) (J Q : Mat α) (m n : Nat)
    (hJ : MatWF J m n) (hQ : Orthogonal Q n) (hW : (W (gram J)).length = m) :
    combine n (mulRight n J Q) (W (gram (mulRight n J Q))) =
      combine n Q (combine n J (W (gram J))) := by
  rw [Eqv.gram_mulRight J Q m n hJ hQ]
  exact Eqv.combine_mulRight' J Q m n hJ (Eqv.orthogonal_matWF Q n hQ) _ hW

/-- instances: MGDA … -/
theorem mgda_equivariant (J Q : Mat α) (m n : Nat) (hm : 0 < m) (hJ : MatWF J m n)
    (hQ : Orthogonal Q n) (epsilon : α) (K : Nat) :
    combine n (mulRight n J Q) (mgdaWeights (gram (mulRight n J Q)) m (1 / (m : α)) epsilon K).1 =
      combine n Q (combine n J (mgdaWeights (gram J) m (1 / (m : α)) epsilon K).1) := by
  have _ := hm
  rw [Eqv.gram_mulRight J Q m n hJ hQ]
  exact Eqv.combine_mulRight' J Q m n hJ (Eqv.orthogonal_matWF Q n hQ) _ (Eqv.mgdaWeights_length _ m _ _ K)

/-- … PCGrad (for every draw of the projection orders) … -/
theorem pcgrad_equivariant (J Q : Mat α) (m n : Nat) (hJ : MatWF J m n) (hQ : Orthogonal Q n)
    (perms : List (List Nat)) :
    combine n (mulRight n J Q) (pcgradWeights (gram (mulRight n J Q)) perms).1 =
      combine n Q (combine n J (pcgradWeights (gram J) perms).1) := by
  rw [Eqv.gram_mulRight J Q m n hJ hQ]
  exact Eqv.combine_mulRight' J Q m n hJ (Eqv.orthogonal_matWF Q n hQ) _
    (by rw [Eqv.pcgradWeights_length, Eqv.gram_length, hJ.1])

/-- … UPGrad and DualProj: the weights are unchanged (`s`, the largest singular value, is invariant) -/
theorem qp_weights_invariant (J Q : Mat α) (m n : Nat) (hJ : MatWF J m n) (hQ : Orthogonal Q n)
    (s normEps regEps : α) (u : Vec α) :
    upgradWeights (mulRight n J Q) s normEps regEps u = upgradWeights J s normEps regEps u ∧
    dualprojWeights (mulRight n J Q) s normEps regEps u = dualprojWeights J s normEps regEps u := by
  simp only [upgradWeights, dualprojWeights, Eqv.regNormGram_mulRight J Q m n hJ hQ, and_self]

/-- … IMTL-G (row norms `d` are invariant) -/
theorem imtlg_weights_invariant (J Q : Mat α) (m n : Nat) (hJ : MatWF J m n) (hQ : Orthogonal Q n)
    (d : Vec α) (guard : α) :
    imtlgWeights (mulRight n J Q) d guard = imtlgWeights J d guard := by
  simp only [imtlgWeights, Eqv.gram_mulRight J Q m n hJ hQ]

/-- ConFIG is not written as `weights @ matrix`, but its result IS a linear combination of the rows -/
theorem config_in_rowspan (J : Mat α) (m n : Nat) (hJ : MatWF J m n) (d w : Vec α)
    (hd : d.length = m) (x : Vec α) (h : configVec J d w n = some x) :
    ∃ c : Vec α, c.length = m ∧ x = combine n J c := by
  exact Eqv.config_rowspan J m n hJ d w hd x h

/-! ### column layout: permutations and all-zero columns -/

/-- appending an all-zero column changes neither the Gramian (hence no Gramian-based weights) … -/
theorem gram_append_zero_col (J : Mat α) : gram (J.map (· ++ [0])) = gram J := by
  exact Eqv.gram_append_zero J

/-- … nor the other coordinates of a combination of rows; the new coordinate is zero -/
theorem combine_append_zero_col (J : Mat α) (m n : Nat) (hJ : MatWF J m n) (w : Vec α)
    (hw : w.length = m) :
    combine (n + 1) (J.map (· ++ [0])) w = combine n J w ++ [0] := by
  exact Eqv.combine_append_zero J m n hJ w hw

/-- TrimmedMean is column-wise: permuting the columns permutes the result … -/
theorem trimmedMean_col_perm [Inhabited α] (b m n : Nat) (J : Mat α) (hJ : MatWF J m n)
    (p : List Nat) (hp : p.length = n) (hlt : ∀ i ∈ p, i < n) :
    trimmedMean b n (J.map (permV p)) = permV p (trimmedMean b n J) := by
  exact Eqv.trimmedMean_col_perm' b m n J hJ p hp hlt

/-- … and an all-zero column yields a zero coordinate without touching the others -/
theorem trimmedMean_append_zero_col [Inhabited α] (b m n : Nat) (J : Mat α) (hJ : MatWF J m n) :
    trimmedMean b (n + 1) (J.map (· ++ [0])) = trimmedMean b n J ++ [0] := by
  exact Eqv.trimmedMean_append_zero b m n J hJ

/-- GradDrop is column-wise too (the uniform sample being permuted along with the columns) -/
theorem graddrop_col_perm [Inhabited α] (m n : Nat) (J : Mat α) (hJ : MatWF J m n) (leak U : Vec α)
    (hU : U.length = n) (p : List Nat) (hp : p.length = n) (hlt : ∀ i ∈ p, i < n) :
    graddrop (J.map (permV p)) leak (permV p U) n = permV p (graddrop J leak U n) := by
  exact Eqv.graddrop_col_perm' m n J hJ leak U hU p hp hlt

/-- combinations of rows commute with column permutations (weights held fixed) -/
theorem combine_col_perm [Inhabited α] (m n : Nat) (J : Mat α) (hJ : MatWF J m n) (w : Vec α)
    (hw : w.length = m) (p : List Nat) (hp : p.length = n) (hlt : ∀ i ∈ p, i < n) :
    combine n (J.map (permV p)) w = permV p (combine n J w) := by
  exact Eqv.combine_col_perm' m n J hJ w hw p hp hlt

/-- the Gramian does not see a permutation of the columns -/
theorem gram_col_perm [Inhabited α] (m n : Nat) (J : Mat α) (hJ : MatWF J m n) (p : List Nat)
    (hp : p.Perm (List.range n)) : gram (J.map (permV p)) = gram J := by
  exact Eqv.gram_col_perm' m n J hJ p hp

end Tjd.Props.C08
