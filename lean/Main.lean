import TjdModel.Driver
open Tjd.Driver

partial def loop (hin hout : IO.FS.Stream) : IO Unit := do
  let line ← hin.getLine
  if line.isEmpty then return ()
  let t := line.trimAscii.toString
  if t.isEmpty then
    hout.putStrLn ""
  else
    hout.putStrLn (handleLine t)
  hout.flush
  loop hin hout

def main : IO Unit := do
  loop (← IO.getStdin) (← IO.getStdout)
