/- the bargaining products `α_i (J Jᵀ α)_i` under a rescaling `J ↦ c J` of the matrix (helper for
   TjdProps/C19.lean), and the per-row bound on what a perturbation of the weights does to
   `⟨j_i, Jᵀ w⟩` (helper for TjdProps/C04.lean).  All helper names carry the suffix `_ns`. -/
import Mathlib.Algebra.Order.Field.Basic
import Mathlib.Algebra.Order.Ring.Abs
import Mathlib.Algebra.Order.BigOperators.Group.Finset
import Mathlib.Algebra.Order.BigOperators.Ring.Finset
import Mathlib.Algebra.BigOperators.Fin
import Mathlib.Tactic.Ring
import Mathlib.Tactic.Linarith
import Mathlib.Tactic.FieldSimp
import TjdModel.Agg.Spec2
import TjdLemmas.QPLemmas
import TjdLemmas.GramLemmas
import TjdLemmas.HomogLemmas
import TjdLemmas.ImpartialLemmas
namespace Tjd.Agg
open Tjd Matrix
set_option linter.unusedSectionVars false
set_option linter.unusedSimpArgs false
set_option linter.unusedVariables false

variable {α : Type} [Field α] [LinearOrder α] [IsStrictOrderedRing α]

/-! ### the scale of the matrix in the bargaining condition -/

/-- `(c J)(c J)ᵀ v = c² (J Jᵀ v)`, entry by entry -/
theorem matVec_gram_scale_ns (J : Mat α) (c : α) (v : Vec α) (i : Nat) :
    (matVec (gram (J.map (smul c))) v).getD i 0 = c * c * (matVec (gram J) v).getD i 0 := by
  rw [Homog.gram_map_smul, Homog.matVec_map_smul, smul_getD]

theorem nash_products_scale_ns (J : Mat α) (m n : Nat) (hJ : MatWF J m n) (a : Vec α)
    (ha : a.length = m) (c : α) (i : Nat) (hi : i < m) :
    a.getD i 0 * (matVec (gram (J.map (smul c))) a).getD i 0 =
      c * c * (a.getD i 0 * (matVec (gram J) a).getD i 0) := by
  rw [matVec_gram_scale_ns]; ring

theorem map_div_eq_smul_ns (a : Vec α) (c : α) : a.map (· / c) = smul c⁻¹ a := by
  unfold smul
  apply List.map_congr_left
  intro x _
  rw [div_eq_mul_inv, mul_comm]

theorem nash_solution_scale_ns (J : Mat α) (m n : Nat) (hJ : MatWF J m n) (a : Vec α)
    (ha : a.length = m) (c : α) (hc : c ≠ 0)
    (h : ∀ i, i < m → a.getD i 0 * (matVec (gram J) a).getD i 0 = 1) (i : Nat) (hi : i < m) :
    (a.map (· / c)).getD i 0 * (matVec (gram (J.map (smul c))) (a.map (· / c))).getD i 0 = 1 := by
  rw [matVec_gram_scale_ns, map_div_eq_smul_ns, Homog.matVec_smul, smul_getD, smul_getD]
  have e := h i hi
  calc c⁻¹ * a.getD i 0 * (c * c * (c⁻¹ * (matVec (gram J) a).getD i 0))
      = (c⁻¹ * c) * (c⁻¹ * c) * (a.getD i 0 * (matVec (gram J) a).getD i 0) := by ring
    _ = 1 := by rw [e, inv_mul_cancel₀ hc]; ring

/-! ### a perturbation of the weights, row by row -/

/-- Cauchy–Schwarz for `dot` on lists -/
theorem dot_sq_le_ns (x y : Vec α) : dot x y * dot x y ≤ dot x x * dot y y := by
  have hx : x.length ≤ max x.length y.length := le_max_left _ _
  have hy : y.length ≤ max x.length y.length := le_max_right _ _
  rw [dot_eq_left _ x y hx, dot_eq_left _ x x hx, dot_eq_left _ y y hy]
  have := Finset.sum_mul_sq_le_sq_mul_sq Finset.univ
    (toFn (max x.length y.length) x) (toFn (max x.length y.length) y)
  simpa [dotProduct, pow_two] using this

/-- `⟨r, Jᵀ w⟩ = Σ_k w_k ⟨r, j_k⟩` -/
theorem dot_combine_sum_ns (J : Mat α) (m n : Nat) (hJ : MatWF J m n) (w : Vec α)
    (hw : w.length = m) (r : Vec α) :
    dot r (combine n J w) = ∑ k ∈ Finset.range m, w.getD k 0 * dot r (J.getD k []) := by
  rw [← dot_matVec_combine n r J w hJ.2, dot_eq_right m _ w hw.le, Finset.sum_range]
  unfold dotProduct
  apply Finset.sum_congr rfl
  intro k _
  rw [toFn_apply, toFn_apply, matVec_getD, dot_comm' _ r, mul_comm]

/-- the scalar inequality behind the row bound -/
theorem sum_sq_le_ns (m : Nat) (d g r : Nat → α) (ri : α) (hri : 0 ≤ ri)
    (hr : ∀ k, k < m → 0 ≤ r k) (hg : ∀ k, k < m → g k * g k ≤ ri * ri * (r k * r k)) :
    (∑ k ∈ Finset.range m, d k * g k) * (∑ k ∈ Finset.range m, d k * g k) ≤
      ri * ri * ((∑ k ∈ Finset.range m, |d k| * r k) * (∑ k ∈ Finset.range m, |d k| * r k)) := by
  have hgk : ∀ k, k < m → |g k| ≤ ri * r k := by
    intro k hk
    apply abs_le_of_sq_le_sq _ (mul_nonneg hri (hr k hk))
    have := hg k hk
    calc g k ^ 2 = g k * g k := by ring
      _ ≤ ri * ri * (r k * r k) := this
      _ = (ri * r k) ^ 2 := by ring
  have hS : 0 ≤ ∑ k ∈ Finset.range m, |d k| * r k :=
    Finset.sum_nonneg fun k hk => mul_nonneg (abs_nonneg _) (hr k (Finset.mem_range.mp hk))
  have hT : |∑ k ∈ Finset.range m, d k * g k| ≤ ri * ∑ k ∈ Finset.range m, |d k| * r k := by
    calc |∑ k ∈ Finset.range m, d k * g k|
        ≤ ∑ k ∈ Finset.range m, |d k * g k| := Finset.abs_sum_le_sum_abs _ _
      _ ≤ ∑ k ∈ Finset.range m, ri * (|d k| * r k) := by
          apply Finset.sum_le_sum
          intro k hk
          rw [abs_mul]
          have := mul_le_mul_of_nonneg_left (hgk k (Finset.mem_range.mp hk)) (abs_nonneg (d k))
          calc |d k| * |g k| ≤ |d k| * (ri * r k) := this
            _ = ri * (|d k| * r k) := by ring
      _ = ri * ∑ k ∈ Finset.range m, |d k| * r k := by rw [Finset.mul_sum]
  have := mul_self_le_mul_self (abs_nonneg _) hT
  rw [abs_mul_abs_self] at this
  calc _ ≤ _ := this
    _ = _ := by ring

theorem sum_map_range_ns (g : Nat → α) : ∀ (m : Nat),
    ((List.range m).map g).sum = ∑ j ∈ Finset.range m, g j
  | 0 => by simp
  | m + 1 => by
    rw [List.range_succ, List.map_append, List.sum_append, Finset.sum_range_succ,
      sum_map_range_ns g m]
    simp

theorem perturbation_row_bound_ns (J : Mat α) (m n : Nat) (hJ : MatWF J m n) (dw : Vec α)
    (hd : dw.length = m) (r : Vec α) (hr : r.length = m)
    (hrn : ∀ k, k < m → 0 ≤ r.getD k 0 ∧
      dot (J.getD k []) (J.getD k []) = r.getD k 0 * r.getD k 0)
    (i : Nat) (hi : i < m) :
    dot (J.getD i []) (combine n J dw) * dot (J.getD i []) (combine n J dw) ≤
      dot (J.getD i []) (J.getD i []) *
        (((List.range m).map fun k => |dw.getD k 0| * r.getD k 0).sum *
          ((List.range m).map fun k => |dw.getD k 0| * r.getD k 0).sum) := by
  rw [dot_combine_sum_ns J m n hJ dw hd, sum_map_range_ns, (hrn i hi).2]
  apply sum_sq_le_ns m (fun k => dw.getD k 0) (fun k => dot (J.getD i []) (J.getD k []))
    (fun k => r.getD k 0) (r.getD i 0) (hrn i hi).1 (fun k hk => (hrn k hk).1)
  intro k hk
  have := dot_sq_le_ns (J.getD i []) (J.getD k [])
  rw [(hrn i hi).2, (hrn k hk).2] at this
  exact this

end Tjd.Agg
