/- helper lemmas for TjdProps/C12.lean -/
import Mathlib.Data.List.Perm.Subperm
import Mathlib.Data.List.Nodup
import TjdModel.Autojac.Leaves
namespace Tjd.Leaves

/-! ### basic list helpers -/

theorem nodup_length_le_of_lt {l : List Nat} {n : Nat} (hnd : l.Nodup) (hlt : ∀ x ∈ l, x < n) :
    l.length ≤ n := by
  have hsub : l ⊆ List.range n := fun x hx => List.mem_range.2 (hlt x hx)
  have := (hnd.subperm hsub).length_le
  simpa using this

theorem mem_dedup (xs : List Nat) (x : Nat) : x ∈ dedup xs ↔ x ∈ xs := by
  induction xs with
  | nil => simp [dedup]
  | cons y ys ih =>
    unfold dedup
    by_cases h : ys.contains y = true
    · rw [if_pos h, ih]
      have hy : y ∈ ys := by simpa using h
      constructor
      · exact fun hx => List.mem_cons_of_mem _ hx
      · intro hx
        rcases List.mem_cons.1 hx with rfl | hx
        · exact hy
        · exact hx
    · rw [if_neg h, List.mem_cons, List.mem_cons, ih]

theorem nodup_dedup (xs : List Nat) : (dedup xs).Nodup := by
  induction xs with
  | nil => simp [dedup]
  | cons y ys ih =>
    unfold dedup
    by_cases h : ys.contains y = true
    · rw [if_pos h]; exact ih
    · rw [if_neg h]
      have hy : y ∉ ys := by simpa using h
      exact List.nodup_cons.2 ⟨fun hm => hy ((mem_dedup ys y).1 hm), ih⟩

theorem mem_insertIfNew (xs : List Nat) (x y : Nat) :
    y ∈ insertIfNew xs x ↔ y ∈ xs ∨ y = x := by
  unfold insertIfNew
  by_cases h : xs.contains x = true
  · rw [if_pos h]
    have hx : x ∈ xs := by simpa using h
    constructor
    · exact fun hy => Or.inl hy
    · rintro (hy | rfl)
      · exact hy
      · exact hx
  · rw [if_neg h]; simp

theorem nodup_insertIfNew (xs : List Nat) (x : Nat) (h : xs.Nodup) : (insertIfNew xs x).Nodup := by
  unfold insertIfNew
  by_cases hc : xs.contains x = true
  · rw [if_pos hc]; exact h
  · rw [if_neg hc]
    have hx : x ∉ xs := by simpa using hc
    rw [List.nodup_append]
    refine ⟨h, by simp, ?_⟩
    intro a ha b hb
    have : b = x := by simpa using hb
    subst this
    intro hab; subst hab; exact hx ha

/-! ### `visitEdges` -/

theorem visitEdges_spec (excl : List (Nat × Nat)) (es : List (Nat × Nat)) :
    ∀ (q v : List Nat), ∃ new : List Nat,
      visitEdges excl es q v = (q ++ new, new.reverse ++ v) ∧ new.Nodup ∧
      (∀ x, x ∈ new ↔ x ∉ v ∧ ∃ e ∈ es, e ∉ excl ∧ e.1 = x) := by
  induction es with
  | nil =>
    intro q v
    exact ⟨[], by simp [visitEdges], List.nodup_nil, by simp⟩
  | cons e es ih =>
    intro q v
    by_cases hc : (excl.contains e || v.contains e.1) = true
    · obtain ⟨new, heq, hnd, hmem⟩ := ih q v
      refine ⟨new, ?_, hnd, ?_⟩
      · rw [visitEdges, if_pos hc, heq]
      · intro x
        rw [hmem x]
        constructor
        · rintro ⟨hxv, e', he', hex, rfl⟩
          exact ⟨hxv, e', List.mem_cons_of_mem _ he', hex, rfl⟩
        · rintro ⟨hxv, e', he', hex, rfl⟩
          refine ⟨hxv, e', ?_, hex, rfl⟩
          rcases List.mem_cons.1 he' with rfl | he'
          · exfalso
            rw [Bool.or_eq_true] at hc
            rcases hc with hc | hc
            · exact hex (by simpa using hc)
            · exact hxv (by simpa using hc)
          · exact he'
    · obtain ⟨new, heq, hnd, hmem⟩ := ih (q ++ [e.1]) (e.1 :: v)
      have hc' : e ∉ excl ∧ e.1 ∉ v := by
        rw [Bool.or_eq_true, not_or] at hc
        exact ⟨by simpa using hc.1, by simpa using hc.2⟩
      refine ⟨e.1 :: new, ?_, ?_, ?_⟩
      · rw [visitEdges, if_neg hc, heq]
        simp
      · refine List.nodup_cons.2 ⟨?_, hnd⟩
        intro hm
        exact ((hmem _).1 hm).1 (List.mem_cons_self)
      · intro x
        rw [List.mem_cons, hmem x]
        constructor
        · rintro (rfl | ⟨hxv, e', he', hex, rfl⟩)
          · exact ⟨hc'.2, e, List.mem_cons_self, hc'.1, rfl⟩
          · exact ⟨fun h => hxv (List.mem_cons_of_mem _ h), e', List.mem_cons_of_mem _ he', hex, rfl⟩
        · rintro ⟨hxv, e', he', hex, rfl⟩
          by_cases hx : e'.1 = e.1
          · exact Or.inl hx
          · right
            refine ⟨?_, e', ?_, hex, rfl⟩
            · intro h
              rcases List.mem_cons.1 h with h | h
              · exact hx h
              · exact hxv h
            · rcases List.mem_cons.1 he' with rfl | he'
              · exact absurd rfl hx
              · exact he'

/-! ### reachability and the loop invariant -/

/-- `n` is reachable from a start node by a path none of whose edges enters an excluded tensor -/
inductive Reaches (G : Graph) (excl : List (Nat × Nat)) : Nat → Nat → Prop where
  | refl (n : Nat) : Reaches G excl n n
  | step (a b c : Nat) (nr : Nat) : Reaches G excl a b → (c, nr) ∈ edgesOf G b → (c, nr) ∉ excl →
      Reaches G excl a c

def starts (roots excl : List (Nat × Nat)) : List Nat :=
  (roots.filter (fun r => !excl.contains r)).map (·.1)

def ClosedG (G : Graph) : Prop := ∀ n, n < G.length → ∀ e ∈ edgesOf G n, e.1 < G.length

structure Inv (G : Graph) (excl : List (Nat × Nat)) (S queue visited result : List Nat) : Prop where
  qsub : ∀ x ∈ queue, x ∈ visited
  qnd : queue.Nodup
  vnd : visited.Nodup
  vlt : ∀ x ∈ visited, x < G.length
  vreach : ∀ x ∈ visited, ∃ r ∈ S, Reaches G excl r x
  ssub : ∀ r ∈ S, r ∈ visited
  res : ∀ x, x ∈ result ↔ (x ∈ visited ∧ x ∉ queue ∧ isAcc G x = true)
  closed : ∀ b ∈ visited, b ∉ queue → ∀ e ∈ edgesOf G b, e ∉ excl → e.1 ∈ visited

theorem loop_cons (G : Graph) (excl : List (Nat × Nat)) (fuel node : Nat)
    (queue visited result : List Nat) :
    loop G excl (fuel + 1) (node :: queue) visited result =
      loop G excl fuel (visitEdges excl (edgesOf G node) queue visited).1
        (visitEdges excl (edgesOf G node) queue visited).2
        (if isAcc G node then insertIfNew result node else result) := rfl

/-- closure under non-excluded edges + contains the start nodes ⇒ contains everything reachable -/
theorem reaches_mem_of_closed {G : Graph} {excl : List (Nat × Nat)} {S visited : List Nat}
    (ssub : ∀ r ∈ S, r ∈ visited)
    (closed : ∀ b ∈ visited, ∀ e ∈ edgesOf G b, e ∉ excl → e.1 ∈ visited)
    {r n : Nat} (hr : r ∈ S) (h : Reaches G excl r n) : n ∈ visited := by
  induction h with
  | refl => exact ssub _ hr
  | step b c nr _ he hex ih => exact closed b ih (c, nr) he hex

theorem Inv.step {G : Graph} {excl : List (Nat × Nat)} (hG : ClosedG G) {S queue visited result : List Nat}
    {node : Nat} (h : Inv G excl S (node :: queue) visited result) :
    Inv G excl S (visitEdges excl (edgesOf G node) queue visited).1
        (visitEdges excl (edgesOf G node) queue visited).2
        (if isAcc G node then insertIfNew result node else result) ∧
    (visitEdges excl (edgesOf G node) queue visited).1.length + visited.length =
      queue.length + (visitEdges excl (edgesOf G node) queue visited).2.length := by
  obtain ⟨new, heq, hnd, hmem⟩ := visitEdges_spec excl (edgesOf G node) queue visited
  rw [heq]
  have hnode_v : node ∈ visited := h.qsub node List.mem_cons_self
  have hnode_q : node ∉ queue := (List.nodup_cons.1 h.qnd).1
  have hqnd : queue.Nodup := (List.nodup_cons.1 h.qnd).2
  have hqsub : ∀ x ∈ queue, x ∈ visited := fun x hx => h.qsub x (List.mem_cons_of_mem _ hx)
  refine ⟨⟨?_, ?_, ?_, ?_, ?_, ?_, ?_, ?_⟩, ?_⟩
  · intro x hx
    rcases List.mem_append.1 hx with hx | hx
    · exact List.mem_append_right _ (hqsub x hx)
    · exact List.mem_append_left _ (List.mem_reverse.2 hx)
  · rw [List.nodup_append]
    refine ⟨hqnd, hnd, ?_⟩
    intro a ha b hb hab
    subst hab
    exact ((hmem a).1 hb).1 (hqsub a ha)
  · rw [List.nodup_append]
    refine ⟨List.nodup_reverse.2 hnd, h.vnd, ?_⟩
    intro a ha b hb hab
    subst hab
    exact ((hmem a).1 (List.mem_reverse.1 ha)).1 hb
  · intro x hx
    rcases List.mem_append.1 hx with hx | hx
    · obtain ⟨_, e, he, _, rfl⟩ := (hmem x).1 (List.mem_reverse.1 hx)
      exact hG node (h.vlt node hnode_v) e he
    · exact h.vlt x hx
  · intro x hx
    rcases List.mem_append.1 hx with hx | hx
    · obtain ⟨_, e, he, hex, rfl⟩ := (hmem x).1 (List.mem_reverse.1 hx)
      obtain ⟨r, hr, hreach⟩ := h.vreach node hnode_v
      exact ⟨r, hr, Reaches.step r node e.1 e.2 hreach he hex⟩
    · exact h.vreach x hx
  · intro r hr
    exact List.mem_append_right _ (h.ssub r hr)
  · intro x
    have hres : x ∈ (if isAcc G node then insertIfNew result node else result) ↔
        x ∈ result ∨ (x = node ∧ isAcc G node = true) := by
      by_cases ha : isAcc G node = true
      · rw [if_pos ha, mem_insertIfNew]; simp [ha]
      · rw [if_neg ha]; simp [ha]
    rw [hres, h.res x]
    constructor
    · rintro (⟨hxv, hxq, hacc⟩ | ⟨rfl, hacc⟩)
      · refine ⟨List.mem_append_right _ hxv, ?_, hacc⟩
        intro hx
        rcases List.mem_append.1 hx with hx | hx
        · exact hxq (List.mem_cons_of_mem _ hx)
        · exact ((hmem x).1 hx).1 hxv
      · refine ⟨List.mem_append_right _ hnode_v, ?_, hacc⟩
        intro hx
        rcases List.mem_append.1 hx with hx | hx
        · exact hnode_q hx
        · exact ((hmem x).1 hx).1 hnode_v
    · rintro ⟨hxv, hxq, hacc⟩
      have hxq' : x ∉ queue := fun hx => hxq (List.mem_append_left _ hx)
      have hxn : x ∉ new := fun hx => hxq (List.mem_append_right _ hx)
      have hxv' : x ∈ visited := by
        rcases List.mem_append.1 hxv with hx | hx
        · exact absurd (List.mem_reverse.1 hx) hxn
        · exact hx
      by_cases hx : x = node
      · right; exact ⟨hx, hx ▸ hacc⟩
      · left
        refine ⟨hxv', ?_, hacc⟩
        intro hm
        rcases List.mem_cons.1 hm with hm | hm
        · exact hx hm
        · exact hxq' hm
  · intro b hbv hbq e he hex
    have hbq' : b ∉ queue := fun hx => hbq (List.mem_append_left _ hx)
    have hbn : b ∉ new := fun hx => hbq (List.mem_append_right _ hx)
    have hbv' : b ∈ visited := by
      rcases List.mem_append.1 hbv with hx | hx
      · exact absurd (List.mem_reverse.1 hx) hbn
      · exact hx
    by_cases hb : b = node
    · subst hb
      by_cases hv : e.1 ∈ visited
      · exact List.mem_append_right _ hv
      · exact List.mem_append_left _ (List.mem_reverse.2 ((hmem e.1).2 ⟨hv, e, he, hex, rfl⟩))
    · refine List.mem_append_right _ (h.closed b hbv' ?_ e he hex)
      intro hm
      rcases List.mem_cons.1 hm with hm | hm
      · exact hb hm
      · exact hbq' hm
  · simp only [List.length_append, List.length_reverse]
    omega

theorem loop_spec {G : Graph} {excl : List (Nat × Nat)} (hG : ClosedG G) {S : List Nat} :
    ∀ (fuel : Nat) (queue visited result : List Nat), Inv G excl S queue visited result →
      queue.length + (G.length - visited.length) + 1 ≤ fuel →
      ∀ n, n ∈ loop G excl fuel queue visited result ↔
        (isAcc G n = true ∧ ∃ r ∈ S, Reaches G excl r n) := by
  intro fuel
  induction fuel with
  | zero => intro queue visited result _ hf; omega
  | succ fuel ih =>
    intro queue visited result h hf n
    cases queue with
    | nil =>
      rw [loop, h.res n]
      constructor
      · rintro ⟨hv, _, hacc⟩
        exact ⟨hacc, h.vreach n hv⟩
      · rintro ⟨hacc, r, hr, hreach⟩
        refine ⟨?_, by simp, hacc⟩
        exact reaches_mem_of_closed h.ssub (fun b hb => h.closed b hb (by simp)) hr hreach
    | cons node queue =>
      rw [loop_cons]
      obtain ⟨hinv, hlen⟩ := h.step hG
      refine ih _ _ _ hinv ?_ n
      have h1 := nodup_length_le_of_lt hinv.vnd hinv.vlt
      have h2 := nodup_length_le_of_lt h.vnd h.vlt
      simp only [List.length_cons] at hf
      omega

theorem loop_nodup (G : Graph) (excl : List (Nat × Nat)) :
    ∀ (fuel : Nat) (queue visited result : List Nat), result.Nodup →
      (loop G excl fuel queue visited result).Nodup := by
  intro fuel
  induction fuel with
  | zero => intro queue visited result h; rw [loop]; exact h
  | succ fuel ih =>
    intro queue visited result h
    cases queue with
    | nil => rw [loop]; exact h
    | cons node queue =>
      rw [loop_cons]
      apply ih
      by_cases ha : isAcc G node = true
      · rw [if_pos ha]; exact nodup_insertIfNew _ _ h
      · rw [if_neg ha]; exact h

theorem descendantAccs_eq (G : Graph) (roots excl : List (Nat × Nat)) :
    descendantAccs G roots excl =
      loop G excl ((dedup (starts roots excl)).length + G.length + 1) (dedup (starts roots excl))
        (dedup (starts roots excl)) [] := rfl

theorem starts_lt {G : Graph} {roots excl : List (Nat × Nat)} (hr : ∀ r ∈ roots, r.1 < G.length) :
    ∀ x ∈ dedup (starts roots excl), x < G.length := by
  intro x hx
  rw [mem_dedup, starts, List.mem_map] at hx
  obtain ⟨r, hr', rfl⟩ := hx
  exact hr r (List.mem_filter.1 hr').1

theorem descendantAccs_nodup (G : Graph) (roots excl : List (Nat × Nat)) :
    (descendantAccs G roots excl).Nodup := by
  rw [descendantAccs_eq]
  exact loop_nodup _ _ _ _ _ _ List.nodup_nil

theorem descendantAccs_spec (G : Graph) (roots excl : List (Nat × Nat)) (hG : ClosedG G)
    (hr : ∀ r ∈ roots, r.1 < G.length) (n : Nat) :
    n ∈ descendantAccs G roots excl ↔
      isAcc G n = true ∧ ∃ r ∈ starts roots excl, Reaches G excl r n := by
  rw [descendantAccs_eq]
  have hinv : Inv G excl (starts roots excl) (dedup (starts roots excl))
      (dedup (starts roots excl)) [] := by
    refine ⟨fun x hx => hx, nodup_dedup _, nodup_dedup _, starts_lt hr, ?_, ?_, ?_, ?_⟩
    · intro x hx
      exact ⟨x, (mem_dedup _ _).1 hx, Reaches.refl x⟩
    · intro r hr
      exact (mem_dedup _ _).2 hr
    · intro x
      constructor
      · intro hx; cases hx
      · rintro ⟨h1, h2, _⟩; exact absurd h1 h2
    · intro b hb hb'
      exact absurd hb hb'
  refine loop_spec hG _ _ _ _ hinv ?_ n
  omega

/-! ### the round-based search `reachAvoidingTensors.go` -/

def nexts (G : Graph) (excl : List (Nat × Nat)) (frontier : List Nat) : List Nat :=
  dedup (frontier.flatMap fun n => ((edgesOf G n).filter (fun e => !excl.contains e)).map (·.1))

theorem mem_nexts (G : Graph) (excl : List (Nat × Nat)) (frontier : List Nat) (x : Nat) :
    x ∈ nexts G excl frontier ↔ ∃ n ∈ frontier, ∃ e ∈ edgesOf G n, e ∉ excl ∧ e.1 = x := by
  rw [nexts, mem_dedup, List.mem_flatMap]
  constructor
  · rintro ⟨n, hn, hx⟩
    obtain ⟨e, he, rfl⟩ := List.mem_map.1 hx
    obtain ⟨he1, he2⟩ := List.mem_filter.1 he
    exact ⟨n, hn, e, he1, by simpa using he2, rfl⟩
  · rintro ⟨n, hn, e, he, hex, rfl⟩
    exact ⟨n, hn, List.mem_map.2 ⟨e, List.mem_filter.2 ⟨he, by simpa using hex⟩, rfl⟩⟩

theorem go_zero (G : Graph) (excl : List (Nat × Nat)) (frontier visited : List Nat) :
    reachAvoidingTensors.go G excl 0 frontier visited = visited := rfl

theorem go_succ (G : Graph) (excl : List (Nat × Nat)) (fuel : Nat) (frontier visited : List Nat) :
    reachAvoidingTensors.go G excl (fuel + 1) frontier visited =
      if ((nexts G excl frontier).filter (fun n => !visited.contains n)).isEmpty then visited
      else reachAvoidingTensors.go G excl fuel
        ((nexts G excl frontier).filter (fun n => !visited.contains n))
        (visited ++ (nexts G excl frontier).filter (fun n => !visited.contains n)) := rfl

structure GInv (G : Graph) (excl : List (Nat × Nat)) (S frontier visited : List Nat) : Prop where
  fsub : ∀ x ∈ frontier, x ∈ visited
  vnd : visited.Nodup
  vlt : ∀ x ∈ visited, x < G.length
  vreach : ∀ x ∈ visited, ∃ r ∈ S, Reaches G excl r x
  ssub : ∀ r ∈ S, r ∈ visited
  closed : ∀ b ∈ visited, b ∉ frontier → ∀ e ∈ edgesOf G b, e ∉ excl → e.1 ∈ visited

theorem go_spec {G : Graph} {excl : List (Nat × Nat)} (hG : ClosedG G) {S : List Nat} :
    ∀ (fuel : Nat) (frontier visited : List Nat), GInv G excl S frontier visited →
      (G.length - visited.length) + 1 ≤ fuel →
      ∀ n, n ∈ reachAvoidingTensors.go G excl fuel frontier visited ↔
        ∃ r ∈ S, Reaches G excl r n := by
  intro fuel
  induction fuel with
  | zero => intro frontier visited _ hf; omega
  | succ fuel ih =>
    intro frontier visited h hf n
    rw [go_succ]
    have hfresh : ∀ x, x ∈ (nexts G excl frontier).filter (fun n => !visited.contains n) ↔
        x ∈ nexts G excl frontier ∧ x ∉ visited := by
      intro x; rw [List.mem_filter]; simp
    generalize hfr : (nexts G excl frontier).filter (fun n => !visited.contains n) = fresh at hfresh
    have hfnd : fresh.Nodup := by
      rw [← hfr]; exact (nodup_dedup _).filter _
    by_cases hemp : fresh.isEmpty = true
    · rw [if_pos hemp]
      have hnil : fresh = [] := by simpa using hemp
      subst hnil
      constructor
      · exact h.vreach n
      · rintro ⟨r, hr, hreach⟩
        refine reaches_mem_of_closed h.ssub ?_ hr hreach
        intro b hb e he hex
        by_cases hbf : b ∈ frontier
        · by_cases hv : e.1 ∈ visited
          · exact hv
          · have : e.1 ∈ ([] : List Nat) :=
              (hfresh e.1).2 ⟨(mem_nexts _ _ _ _).2 ⟨b, hbf, e, he, hex, rfl⟩, hv⟩
            cases this
        · exact h.closed b hb hbf e he hex
    · rw [if_neg hemp]
      have hne : 0 < fresh.length := by
        cases fresh with
        | nil => simp at hemp
        | cons a l => simp
      have hinv : GInv G excl S fresh (visited ++ fresh) := by
        refine ⟨?_, ?_, ?_, ?_, ?_, ?_⟩
        · intro x hx; exact List.mem_append_right _ hx
        · rw [List.nodup_append]
          refine ⟨h.vnd, hfnd, ?_⟩
          intro a ha b hb hab
          subst hab
          exact ((hfresh a).1 hb).2 ha
        · intro x hx
          rcases List.mem_append.1 hx with hx | hx
          · exact h.vlt x hx
          · obtain ⟨m, hm, e, he, _, rfl⟩ := (mem_nexts _ _ _ _).1 ((hfresh x).1 hx).1
            exact hG m (h.vlt m (h.fsub m hm)) e he
        · intro x hx
          rcases List.mem_append.1 hx with hx | hx
          · exact h.vreach x hx
          · obtain ⟨m, hm, e, he, hex, rfl⟩ := (mem_nexts _ _ _ _).1 ((hfresh x).1 hx).1
            obtain ⟨r, hr, hreach⟩ := h.vreach m (h.fsub m hm)
            exact ⟨r, hr, Reaches.step r m e.1 e.2 hreach he hex⟩
        · intro r hr; exact List.mem_append_left _ (h.ssub r hr)
        · intro b hb hbf e he hex
          have hbv : b ∈ visited := by
            rcases List.mem_append.1 hb with hb | hb
            · exact hb
            · exact absurd hb hbf
          by_cases hbfr : b ∈ frontier
          · by_cases hv : e.1 ∈ visited
            · exact List.mem_append_left _ hv
            · exact List.mem_append_right _
                ((hfresh e.1).2 ⟨(mem_nexts _ _ _ _).2 ⟨b, hbfr, e, he, hex, rfl⟩, hv⟩)
          · exact List.mem_append_left _ (h.closed b hbv hbfr e he hex)
      refine ih _ _ hinv ?_ n
      have h1 := nodup_length_le_of_lt hinv.vnd hinv.vlt
      rw [List.length_append] at h1 ⊢
      omega

theorem reachAvoidingTensors_eq (G : Graph) (roots excl : List (Nat × Nat)) :
    reachAvoidingTensors G roots excl =
      (reachAvoidingTensors.go G excl (G.length + 1) (dedup (starts roots excl))
        (dedup (starts roots excl))).filter (isAcc G) := rfl

theorem reachAvoidingTensors_spec (G : Graph) (roots excl : List (Nat × Nat)) (hG : ClosedG G)
    (hr : ∀ r ∈ roots, r.1 < G.length) (n : Nat) :
    n ∈ reachAvoidingTensors G roots excl ↔
      isAcc G n = true ∧ ∃ r ∈ starts roots excl, Reaches G excl r n := by
  rw [reachAvoidingTensors_eq, List.mem_filter]
  have hinv : GInv G excl (starts roots excl) (dedup (starts roots excl))
      (dedup (starts roots excl)) := by
    refine ⟨fun x hx => hx, nodup_dedup _, starts_lt hr, ?_, ?_, ?_⟩
    · intro x hx
      exact ⟨x, (mem_dedup _ _).1 hx, Reaches.refl x⟩
    · intro r hr
      exact (mem_dedup _ _).2 hr
    · intro b hb hb'
      exact absurd hb hb'
  rw [go_spec hG _ _ _ hinv (by omega) n]
  exact And.comm

end Tjd.Leaves
