/- helper lemmas for TjdProps/C12.lean -/
import TjdModel.Autojac.Leaves
namespace Tjd.Leaves

end Tjd.Leaves
