/- COMPLETENESS of the certified pseudo-inverse search `pinvApply` (and of `imtlgWeightsP`): for every symmetric
   matrix `G` (ANY rank, over any linearly ordered field) and every right-hand side of the right length the search
   returns.  Ingredients:
   * correctness of the Gauss–Jordan routine `solve` on EVERY CONSISTENT square system (`solve_consistent_pc`):
     the invariant of `solve.go` records the pivot list, that every pivot column is a unit vector, that the rows below
     the rank are zero on the processed columns and that the solution set of the augmented system is unchanged
     (this generalises `solve_complete_qpc` of QPComplete.lean, which needs a trivial kernel);
   * the system `G³ u = G d` is consistent for a symmetric `G` over an ordered field (`cube_range_pc`):
     `ker G³ = ker G` (sums of squares) and rank–nullity give `range G³ = range G`;
   * the list ↔ matrix bridge for `mulT` (`toMat_mulT_pc`) and the certificate algebra.
   Helper for TjdProps/C17b.lean.  All helper names carry the suffix `_pc`. -/
import Mathlib.Algebra.Order.Field.Basic
import Mathlib.Algebra.BigOperators.Fin
import Mathlib.Algebra.BigOperators.Intervals
import Mathlib.Algebra.Order.BigOperators.Group.Finset
import Mathlib.Data.Matrix.Mul
import Mathlib.LinearAlgebra.Matrix.ToLin
import Mathlib.LinearAlgebra.FiniteDimensional.Lemmas
import Mathlib.Tactic.Ring
import Mathlib.Tactic.Linarith
import TjdModel.Agg.Spec2
import TjdLemmas.QPComplete
import TjdLemmas.PinvLemmas
namespace Tjd.Agg
open Tjd
set_option linter.unusedSectionVars false
set_option linter.unusedSimpArgs false
set_option linter.unusedVariables false

/-! ### Part 1: Gauss–Jordan on an arbitrary consistent square system -/
section gauss_pc
variable {α : Type} [Field α] [DecidableEq α]

/-- the elimination step only performs row operations: the kernel does not shrink
    (converse of `stepRows_ker_qpc`) -/
theorem stepRows_ker_conv_pc (rows : List (List α)) (n col r pi : Nat)
    (hlen : ∀ row ∈ rows, row.length = n + 1) (hr : r ≤ pi) (hpi : pi < rows.length) (z : Nat → α)
    (hz : KerRows_qpc n rows z) : KerRows_qpc n (stepRows_qpc rows col r (rows.getD pi []) pi) z := by
  intro i hi
  rw [stepRows_length_qpc] at hi
  have e : ∑ j ∈ Finset.range (n + 1), ent_qpc (stepRows_qpc rows col r (rows.getD pi []) pi) i j * z j =
      ∑ j ∈ Finset.range (n + 1),
        (if i = r then ent_qpc rows pi j / ent_qpc rows pi col
        else (if i = pi then ent_qpc rows r j else ent_qpc rows i j) -
          (if i = pi then ent_qpc rows r col else ent_qpc rows i col) *
            (ent_qpc rows pi j / ent_qpc rows pi col)) * z j := by
    apply Finset.sum_congr rfl
    intro j hj
    rw [stepRows_ent_qpc rows n col r pi hlen hr hpi i j hi (Finset.mem_range.mp hj)]
  rw [e]
  by_cases h : i = r
  · simp only [h, if_true]
    rw [sum_norm_qpc, hz pi hpi, zero_div]
  · simp only [h, if_false]
    rw [sum_elim_qpc, hz pi hpi]
    by_cases h2 : i = pi
    · simp only [h2, if_true]
      rw [hz r (by omega)]
      simp
    · simp only [h2, if_false]
      rw [hz i hi]
      simp

/-- column `c` of `rows` is the unit vector `e_k` -/
def UnitCol_pc (rows : List (List α)) (c k : Nat) : Prop :=
  ∀ i, i < rows.length → ent_qpc rows i c = if i = k then 1 else 0

/-- after the step the pivot column is the unit vector `e_r` -/
theorem step_unit_new_pc (rows : List (List α)) (n col r pi : Nat)
    (hlen : ∀ row ∈ rows, row.length = n + 1) (hr : r ≤ pi) (hpi : pi < rows.length)
    (hcol : col < n + 1) (hpv : ent_qpc rows pi col ≠ 0) :
    UnitCol_pc (stepRows_qpc rows col r (rows.getD pi []) pi) col r := by
  intro i hi
  rw [stepRows_length_qpc] at hi
  rw [stepRows_ent_qpc rows n col r pi hlen hr hpi i col hi hcol]
  by_cases h : i = r
  · simp [h, div_self hpv]
  · simp [h, div_self hpv]

/-- a column in which the pivot row vanishes is only permuted by the step -/
theorem step_ent_zero_pc (rows : List (List α)) (n col r pi : Nat)
    (hlen : ∀ row ∈ rows, row.length = n + 1) (hr : r ≤ pi) (hpi : pi < rows.length) (i j : Nat)
    (hi : i < rows.length) (hj : j < n + 1) (h0 : ent_qpc rows pi j = 0) :
    ent_qpc (stepRows_qpc rows col r (rows.getD pi []) pi) i j =
      if i = r then 0 else if i = pi then ent_qpc rows r j else ent_qpc rows i j := by
  rw [stepRows_ent_qpc rows n col r pi hlen hr hpi i j hi hj, h0]
  by_cases h : i = r
  · simp [h]
  · simp [h]

/-- invariant of `solve.go` on an arbitrary system: `col` columns processed, `r` pivots found -/
structure GInv_pc (n : Nat) (aug : List (List α)) (col r : Nat) (rows : List (List α))
    (pivots : List (Nat × Nat)) : Prop where
  len : rows.length = n
  rowlen : ∀ row ∈ rows, row.length = n + 1
  kerTo : ∀ z, KerRows_qpc n rows z → KerRows_qpc n aug z
  kerFrom : ∀ z, KerRows_qpc n aug z → KerRows_qpc n rows z
  prow : pivots.map (·.2) = (List.range r).reverse
  pcol : ∀ p ∈ pivots, p.1 < col ∧ UnitCol_pc rows p.1 p.2
  nodup : (pivots.map (·.1)).Nodup
  below : ∀ i, r ≤ i → i < rows.length → ∀ j, j < col → ent_qpc rows i j = 0

theorem GInv_prow_lt_pc {n : Nat} {aug : List (List α)} {col r : Nat} {rows : List (List α)}
    {pivots : List (Nat × Nat)} (h : GInv_pc n aug col r rows pivots) (p : Nat × Nat)
    (hp : p ∈ pivots) : p.2 < r := by
  have : p.2 ∈ pivots.map (·.2) := List.mem_map.mpr ⟨p, hp, rfl⟩
  rw [h.prow] at this
  simpa using this

/-- a column without pivot: nothing changes -/
theorem GInv_skip_pc (n : Nat) (aug : List (List α)) (col r : Nat) (rows : List (List α))
    (pivots : List (Nat × Nat)) (h : GInv_pc n aug col r rows pivots)
    (hf : (rows.zipIdx.drop r).find? (fun p => p.1.getD col 0 ≠ 0) = none) :
    GInv_pc n aug (col + 1) r rows pivots := by
  refine ⟨h.len, h.rowlen, h.kerTo, h.kerFrom, h.prow, ?_, h.nodup, ?_⟩
  · intro p hp
    exact ⟨by have := (h.pcol p hp).1; omega, (h.pcol p hp).2⟩
  · intro i hri hi j hj
    by_cases hjc : j = col
    · rw [hjc]; exact find_none_qpc rows col r hf i hri hi
    · exact h.below i hri hi j (by omega)

/-- a column with a pivot -/
theorem GInv_step_pc (n : Nat) (aug : List (List α)) (col r : Nat) (rows : List (List α))
    (pivots : List (Nat × Nat)) (h : GInv_pc n aug col r rows pivots) (hcol : col < n) (pi : Nat)
    (hr : r ≤ pi) (hpi : pi < rows.length) (hpv : ent_qpc rows pi col ≠ 0) :
    GInv_pc n aug (col + 1) (r + 1) (stepRows_qpc rows col r (rows.getD pi []) pi)
      ((col, r) :: pivots) := by
  have hrl := h.rowlen
  have hrlen : r < rows.length := by omega
  refine ⟨by rw [stepRows_length_qpc, h.len], stepRows_rowlen_qpc rows n col r pi hrl hr hpi, ?_, ?_,
    ?_, ?_, ?_, ?_⟩
  · intro z hz
    exact h.kerTo z (stepRows_ker_qpc rows n col r pi hrl hr hpi hpv z hz)
  · intro z hz
    exact stepRows_ker_conv_pc rows n col r pi hrl hr hpi z (h.kerFrom z hz)
  · simp [List.range_succ, h.prow]
  · intro p hp
    rcases List.mem_cons.mp hp with rfl | hp
    · exact ⟨by simp, step_unit_new_pc rows n col r pi hrl hr hpi (by omega) hpv⟩
    · obtain ⟨hpc, hu⟩ := h.pcol p hp
      have hk := GInv_prow_lt_pc h p hp
      refine ⟨by omega, ?_⟩
      intro i hi
      rw [stepRows_length_qpc] at hi
      have h0 : ent_qpc rows pi p.1 = 0 := by
        rw [hu pi hpi, if_neg (by omega)]
      have h1 : ent_qpc rows r p.1 = 0 := by
        rw [hu r hrlen, if_neg (by omega)]
      rw [step_ent_zero_pc rows n col r pi hrl hr hpi i p.1 hi (by omega) h0]
      by_cases hir : i = r
      · rw [if_pos hir, if_neg (by omega)]
      · rw [if_neg hir]
        by_cases hip : i = pi
        · rw [if_pos hip, h1, if_neg (by omega)]
        · rw [if_neg hip]; exact hu i hi
  · rw [List.map_cons, List.nodup_cons]
    refine ⟨?_, h.nodup⟩
    intro hmem
    obtain ⟨p, hp, hpe⟩ := List.mem_map.mp hmem
    have := (h.pcol p hp).1
    simp only at hpe
    omega
  · intro i hri hi j hj
    rw [stepRows_length_qpc] at hi
    by_cases hjc : j = col
    · rw [hjc, step_unit_new_pc rows n col r pi hrl hr hpi (by omega) hpv i
        (by rw [stepRows_length_qpc]; exact hi), if_neg (by omega)]
    · have hj' : j < col := by omega
      rw [step_ent_zero_pc rows n col r pi hrl hr hpi i j hi (by omega) (h.below pi hr hpi j hj'),
        if_neg (by omega)]
      by_cases hip : i = pi
      · rw [if_pos hip]; exact h.below r (le_refl r) hrlen j hj'
      · rw [if_neg hip]; exact h.below i (by omega) hi j hj'

theorem go_gen_pc (n : Nat) (aug : List (List α)) :
    ∀ (fuel col r : Nat) (rows : List (List α)) (pivots : List (Nat × Nat)), col ≤ n →
      n - col < fuel → GInv_pc n aug col r rows pivots →
      ∃ rows' pivots' r', solve.go n fuel col r rows pivots = (rows', pivots') ∧
        GInv_pc n aug n r' rows' pivots'
  | 0, col, r, rows, pivots, _, h, _ => by omega
  | fuel + 1, col, r, rows, pivots, hcn, hfuel, hinv => by
    rw [solve.go]
    by_cases hge : col ≥ n
    · have : col = n := by omega
      subst this
      exact ⟨rows, pivots, r, by simp, hinv⟩
    · simp only [hge, if_false]
      cases hf : (rows.zipIdx.drop r).find? (fun p => p.1.getD col 0 ≠ 0) with
      | none =>
        rw [elimStep_none_qpc rows col r hf]
        simp only [Bool.false_eq_true, if_false]
        exact go_gen_pc n aug fuel (col + 1) r rows pivots (by omega) (by omega)
          (GInv_skip_pc n aug col r rows pivots hinv hf)
      | some p =>
        obtain ⟨prow, pi⟩ := p
        obtain ⟨h1, h2, h3, h4⟩ := find_some_qpc rows col r prow pi hf
        rw [elimStep_some_qpc rows col r prow pi hf]
        simp only [if_true]
        subst h3
        exact go_gen_pc n aug fuel (col + 1) (r + 1) _ _ (by omega) (by omega)
          (GInv_step_pc n aug col r rows pivots hinv (by omega) pi h1 h2 h4)

/-- the vector read off by `solve`: pivot variables from the last column, free variables zero -/
def readoff_pc (rows : List (List α)) (n : Nat) (pivots : List (Nat × Nat)) (c : Nat) : α :=
  match pivots.find? (·.1 == c) with
  | some (_, k) => (rows.getD k []).getD n 0
  | none => 0

theorem readoff_sum_pc (rows : List (List α)) (n c : Nat) : ∀ (l : List (Nat × Nat)),
    (l.map (·.1)).Nodup →
    readoff_pc rows n l c = (l.map fun p => if p.1 = c then ent_qpc rows p.2 n else 0).sum
  | [], _ => by simp [readoff_pc]
  | (a, k) :: l, hnd => by
    have hnd' := List.nodup_cons.mp hnd
    by_cases h : a = c
    · subst h
      have hz : (l.map fun p => if p.1 = a then ent_qpc rows p.2 n else 0).sum = 0 := by
        apply List.sum_eq_zero
        intro x hx
        obtain ⟨p, hp, rfl⟩ := List.mem_map.mp hx
        rw [if_neg]
        intro hpa
        exact hnd'.1 (List.mem_map.mpr ⟨p, hp, hpa⟩)
      rw [List.map_cons, List.sum_cons, hz]
      simp [readoff_pc, ent_qpc]
    · have hb : (a == c) = false := by simpa using h
      have ih := readoff_sum_pc rows n c l hnd'.2
      rw [List.map_cons, List.sum_cons, ← ih]
      simp [readoff_pc, List.find?_cons, hb, h]

theorem sum_list_pick_pc (n : Nat) (a f : Nat → α) : ∀ (l : List (Nat × Nat)), (∀ p ∈ l, p.1 < n) →
    ∑ j ∈ Finset.range n, a j * (l.map fun p => if p.1 = j then f p.2 else 0).sum =
      (l.map fun p => a p.1 * f p.2).sum
  | [], _ => by simp
  | p :: l, hl => by
    have ih := sum_list_pick_pc n a f l (fun q hq => hl q (List.mem_cons_of_mem _ hq))
    have hp : p.1 ∈ Finset.range n := Finset.mem_range.mpr (hl p (List.mem_cons_self))
    simp only [List.map_cons, List.sum_cons, mul_add, Finset.sum_add_distrib, ih, mul_ite, mul_zero,
      Finset.sum_ite_eq, hp, if_true]

theorem sum_map_range_pc (g : Nat → α) : ∀ (m : Nat),
    ((List.range m).map g).sum = ∑ j ∈ Finset.range m, g j
  | 0 => by simp
  | m + 1 => by
    rw [List.sum_range_succ, Finset.sum_range_succ, sum_map_range_pc g m]

/-- with the final invariant, every row is satisfied by the read-off vector up to the rows below the rank -/
theorem readoff_row_pc (n : Nat) (aug : List (List α)) (r : Nat) (rows : List (List α))
    (pivots : List (Nat × Nat)) (h : GInv_pc n aug n r rows pivots) (i : Nat) (hi : i < n) :
    ∑ j ∈ Finset.range n, ent_qpc rows i j * readoff_pc rows n pivots j =
      if i < r then ent_qpc rows i n else 0 := by
  have e1 : ∑ j ∈ Finset.range n, ent_qpc rows i j * readoff_pc rows n pivots j =
      ∑ j ∈ Finset.range n, ent_qpc rows i j *
        (pivots.map fun p => if p.1 = j then ent_qpc rows p.2 n else 0).sum := by
    apply Finset.sum_congr rfl
    intro j _
    rw [readoff_sum_pc rows n j pivots h.nodup]
  rw [e1, sum_list_pick_pc n (fun j => ent_qpc rows i j) (fun k => ent_qpc rows k n) pivots
    (fun p hp => (h.pcol p hp).1)]
  have e2 : (pivots.map fun p => ent_qpc rows i p.1 * ent_qpc rows p.2 n) =
      (pivots.map (·.2)).map fun k => (if i = k then 1 else 0) * ent_qpc rows k n := by
    rw [List.map_map]
    apply List.map_congr_left
    intro p hp
    simp only [Function.comp]
    rw [(h.pcol p hp).2 i (by rw [h.len]; exact hi)]
  rw [e2, h.prow, List.map_reverse, List.sum_reverse, sum_map_range_pc]
  simp only [ite_mul, one_mul, zero_mul]
  rw [Finset.sum_ite_eq]
  simp

/-- Gauss–Jordan succeeds on EVERY consistent square system and returns a solution -/
theorem solve_consistent_pc (A : Mat α) (b : Vec α) (n : Nat) (hA : A.length = n)
    (hrow : ∀ row ∈ A, row.length = n) (hb : b.length = n) (x₀ : Nat → α)
    (hx₀ : ∀ i, i < n → ∑ j ∈ Finset.range n, ent_qpc A i j * x₀ j = b.getD i 0) :
    ∃ x, solve A b n = some x ∧ x.length = n ∧
      ∀ i, i < n → ∑ j ∈ Finset.range n, ent_qpc A i j * x.getD j 0 = b.getD i 0 := by
  have haugl := aug_length_qpc A b n hA hb
  have hauge := aug_ent_qpc A b n hA hrow hb
  -- kernel vectors of the augmented matrix
  have hsum : ∀ (z : Nat → α) i, i < n →
      ∑ j ∈ Finset.range (n + 1), ent_qpc (List.zipWith (fun row bi => row ++ [bi]) A b) i j * z j =
        ∑ j ∈ Finset.range n, ent_qpc A i j * z j + b.getD i 0 * z n := by
    intro z i hi
    rw [Finset.sum_range_succ]
    congr 1
    · apply Finset.sum_congr rfl
      intro j hj
      rw [hauge i hi j, if_pos (Finset.mem_range.mp hj)]
    · rw [hauge i hi n, if_neg (lt_irrefl n), if_pos rfl]
  have hinv0 : GInv_pc n (List.zipWith (fun row bi => row ++ [bi]) A b) 0 0
      (List.zipWith (fun row bi => row ++ [bi]) A b) [] := by
    refine ⟨haugl, ?_, fun z hz => hz, fun z hz => hz, by simp, by simp, by simp,
      fun i _ _ j hj => by omega⟩
    intro row hr
    obtain ⟨i, hi, rfl⟩ := List.mem_iff_getElem.mp hr
    have hi1 : i < A.length := by simp at hi; omega
    rw [List.getElem_zipWith]
    simp [hrow _ (List.getElem_mem hi1)]
  obtain ⟨rows', pivots', r', hgo, hinv⟩ :=
    go_gen_pc n _ (n + 1) 0 0 _ [] (by omega) (by omega) hinv0
  have hplen : pivots'.length = r' := by
    have := congrArg List.length hinv.prow
    simpa using this
  -- the given solution is preserved: the rows below the rank have zero right-hand side
  have hz0 : KerRows_qpc n (List.zipWith (fun row bi => row ++ [bi]) A b)
      (fun j => if j < n then x₀ j else -1) := by
    intro i hi
    rw [haugl] at hi
    rw [hsum _ i hi]
    have e : ∑ j ∈ Finset.range n, ent_qpc A i j * (if j < n then x₀ j else -1) =
        ∑ j ∈ Finset.range n, ent_qpc A i j * x₀ j := by
      apply Finset.sum_congr rfl
      intro j hj
      rw [if_pos (Finset.mem_range.mp hj)]
    rw [e, hx₀ i hi]
    simp
  have hrhs : ∀ i, r' ≤ i → i < n → ent_qpc rows' i n = 0 := by
    intro i hri hi
    have := hinv.kerFrom _ hz0 i (by rw [hinv.len]; exact hi)
    rw [Finset.sum_range_succ, Finset.sum_eq_zero] at this
    · simpa using this
    · intro j hj
      rw [hinv.below i hri (by rw [hinv.len]; exact hi) j (Finset.mem_range.mp hj), zero_mul]
  have hx : solve A b n = some ((List.range n).map fun c => readoff_pc rows' n pivots' c) := by
    unfold solve
    simp only [hgo, hplen]
    rw [if_neg]
    · rfl
    · rw [Bool.not_eq_true, List.any_eq_false]
      intro row hrow
      obtain ⟨k, hk, rfl⟩ := List.mem_iff_getElem.mp hrow
      rw [List.length_drop, hinv.len] at hk
      rw [List.getElem_drop]
      have := hrhs (r' + k) (by omega) (by omega)
      rw [ent_qpc, getD_eq_getElem_qpc rows' [] (r' + k) (by rw [hinv.len]; omega)] at this
      rw [List.getD_eq_getElem?_getD] at this
      simp [this]
  refine ⟨_, hx, by simp, fun i hi => ?_⟩
  -- the read-off vector is in the kernel of the final rows
  have hker : KerRows_qpc n rows' (fun j => if j < n then readoff_pc rows' n pivots' j else -1) := by
    intro k hk
    rw [hinv.len] at hk
    rw [Finset.sum_range_succ]
    have e : ∑ j ∈ Finset.range n, ent_qpc rows' k j *
          (if j < n then readoff_pc rows' n pivots' j else -1) =
        ∑ j ∈ Finset.range n, ent_qpc rows' k j * readoff_pc rows' n pivots' j := by
      apply Finset.sum_congr rfl
      intro j hj
      rw [if_pos (Finset.mem_range.mp hj)]
    rw [e, readoff_row_pc n _ r' rows' pivots' hinv k hk]
    by_cases hkr : k < r'
    · simp [hkr]
    · rw [if_neg hkr, hrhs k (by omega) hk]
      simp
  have hz := hinv.kerTo _ hker i (by rw [haugl]; exact hi)
  rw [hsum _ i hi] at hz
  simp only [lt_irrefl, if_false] at hz
  have e : ∑ j ∈ Finset.range n, ent_qpc A i j *
        ((List.range n).map fun c => readoff_pc rows' n pivots' c).getD j 0 =
      ∑ j ∈ Finset.range n, ent_qpc A i j *
        (if j < n then readoff_pc rows' n pivots' j else -1) := by
    apply Finset.sum_congr rfl
    intro j hj
    have hj' := Finset.mem_range.mp hj
    simp [List.getD_eq_getElem?_getD, List.getElem?_range hj', hj']
  rw [e, eq_neg_of_add_eq_zero_left hz]
  simp

end gauss_pc

/-! ### Part 2: `G³ u = G d` is consistent for a symmetric `G` over an ordered field -/
section range_pc
open Matrix
variable {α : Type} [Field α] [LinearOrder α] [IsStrictOrderedRing α] {m : Nat}

/-- `ker A³ = ker A` for a symmetric `A` (sums of squares) -/
theorem cube_ker_pc (A : Matrix (Fin m) (Fin m) α) (hA : Aᵀ = A) (v : Fin m → α)
    (h : (A * A * A) *ᵥ v = 0) : A *ᵥ v = 0 := by
  rw [← mulVec_mulVec, ← mulVec_mulVec] at h
  exact AA_zero_pinv A hA _ (AA_zero_pinv A hA _ h)

/-- `range A³ = range A` for a symmetric `A`: every `A d` is `A³ u` for some `u` (rank–nullity) -/
theorem cube_range_pc (A : Matrix (Fin m) (Fin m) α) (hA : Aᵀ = A) (d : Fin m → α) :
    ∃ u, (A * A * A) *ᵥ u = A *ᵥ d := by
  have hle : LinearMap.range (A * A * A).mulVecLin ≤ LinearMap.range A.mulVecLin := by
    rintro _ ⟨u, rfl⟩
    refine ⟨(A * A) *ᵥ u, ?_⟩
    simp only [Matrix.mulVecLin_apply, mulVec_mulVec, Matrix.mul_assoc]
  have hker : LinearMap.ker (A * A * A).mulVecLin = LinearMap.ker A.mulVecLin := by
    ext v
    simp only [LinearMap.mem_ker, Matrix.mulVecLin_apply]
    constructor
    · exact cube_ker_pc A hA v
    · intro h
      rw [← mulVec_mulVec, h, mulVec_zero]
  have h1 := LinearMap.finrank_range_add_finrank_ker (A * A * A).mulVecLin
  have h2 := LinearMap.finrank_range_add_finrank_ker A.mulVecLin
  rw [hker] at h1
  have hfr : Module.finrank α (LinearMap.range (A * A * A).mulVecLin) =
      Module.finrank α (LinearMap.range A.mulVecLin) := by omega
  have heq := Submodule.eq_of_le_of_finrank_eq hle hfr
  have hmem : A *ᵥ d ∈ LinearMap.range A.mulVecLin := ⟨d, rfl⟩
  rw [← heq] at hmem
  obtain ⟨u, hu⟩ := hmem
  exact ⟨u, hu⟩

end range_pc

/-! ### Part 3: the list bridge for `mulT` and completeness of `pinvApply` / `imtlgWeightsP` -/
section complete_pc
open Matrix
variable {α : Type} [Field α] [LinearOrder α] [IsStrictOrderedRing α]

theorem mulT_length_pc (A B : Mat α) : (mulT A B).length = A.length := by
  simp [mulT]

theorem mulT_rowlen_pc (A B : Mat α) : ∀ row ∈ mulT A B, row.length = B.length := by
  intro row hrow
  simp only [mulT, List.mem_map] at hrow
  obtain ⟨r, _, rfl⟩ := hrow
  simp

theorem mulT_getD_pc (A B : Mat α) (i j : Nat) (hi : i < A.length) (hj : j < B.length) :
    ((mulT A B).getD i []).getD j 0 = dot (A.getD i []) (B.getD j []) := by
  simp [mulT, List.getD_eq_getElem?_getD, List.getElem?_map, List.getElem?_eq_getElem hi,
    List.getElem?_eq_getElem hj]

/-- `mulT A B` is `A Bᵀ` -/
theorem toMat_mulT_pc (m k : Nat) (A B : Mat α) (hA : A.length = m) (hB : B.length = m)
    (hAr : ∀ row ∈ A, row.length ≤ k) :
    toMat m m (mulT A B) = toMat m k A * (toMat m k B)ᵀ := by
  ext i j
  rw [toMat_apply, mulT_getD_pc A B i j (by rw [hA]; exact i.2) (by rw [hB]; exact j.2),
    dot_eq_left k _ _ (hAr _ (getD_mem_qpc A [] i (by rw [hA]; exact i.2)))]
  rfl

/-- COMPLETENESS of the certified pseudo-inverse search: it returns on every symmetric matrix, at any rank -/
theorem pinvApply_complete (G : Mat α) (m : Nat) (hG : SymmSquare G m) (d : Vec α) (hd : d.length = m) :
    ∃ x, pinvApply G d = some x := by
  subst hd
  have hA := toMat_symm d.length G hG
  obtain ⟨hGl, hGr, _⟩ := hG
  have hGGl : (mulT G G).length = d.length := by rw [mulT_length_pc, hGl]
  have hGGr : ∀ row ∈ mulT G G, row.length ≤ d.length := fun row hrow => by
    rw [mulT_rowlen_pc G G row hrow, hGl]
  have hM : toMat d.length d.length (mulT (mulT G G) G) =
      toMat d.length d.length G * toMat d.length d.length G * toMat d.length d.length G := by
    rw [toMat_mulT_pc d.length d.length (mulT G G) G hGGl hGl hGGr,
      toMat_mulT_pc d.length d.length G G hGl hGl (fun row hrow => (hGr row hrow).le), hA]
  have hMl : (mulT (mulT G G) G).length = d.length := by rw [mulT_length_pc, hGGl]
  have hMr : ∀ row ∈ mulT (mulT G G) G, row.length = d.length := fun row hrow => by
    rw [mulT_rowlen_pc _ G row hrow, hGl]
  have hbl : (matVec G d).length = d.length := by rw [matVec_length, hGl]
  -- the system is consistent
  obtain ⟨u₀, hu₀⟩ := cube_range_pc (toMat d.length d.length G) hA (toFn d.length d)
  obtain ⟨u, hsol, hul, hus⟩ := solve_consistent_pc (mulT (mulT G G) G) (matVec G d) d.length hMl hMr hbl
    (fun j => if h : j < d.length then u₀ ⟨j, h⟩ else 0) (by
      intro i hi
      rw [Finset.sum_range]
      have e : ∑ j : Fin d.length, ent_qpc (mulT (mulT G G) G) i j *
            (if h : (j : Nat) < d.length then u₀ ⟨j, h⟩ else 0) =
          (toMat d.length d.length (mulT (mulT G G) G) *ᵥ u₀) ⟨i, hi⟩ := by
        apply Finset.sum_congr rfl
        intro j _
        rw [dif_pos j.2]
        rfl
      rw [e, hM, hu₀, ← toFn_matVec d.length d.length G d (le_refl _)]
      rfl)
  -- the solution found satisfies `G³ u = G d`
  have hkey : (toMat d.length d.length G * toMat d.length d.length G * toMat d.length d.length G) *ᵥ
      toFn d.length u = toMat d.length d.length G *ᵥ toFn d.length d := by
    rw [← hM, ← toFn_matVec d.length d.length G d (le_refl _)]
    funext i
    have := hus i i.2
    rw [Finset.sum_range] at this
    exact this
  have hml : ∀ v : Vec α, (matVec G v).length = d.length := fun v => by rw [matVec_length, hGl]
  have hcert : pinvCert G d u (matVec G u) = true := by
    simp only [pinvCert, Bool.and_eq_true, decide_eq_true_eq]
    refine ⟨trivial, ?_⟩
    apply toFn_injective d.length _ _ (hml _) (zeros_length _)
    rw [toFn_zeros, toFn_matVec d.length d.length G _ (by rw [vsub_length _ _ (hml _), hml]),
      toFn_vsub d.length _ _ (hml _), toFn_matVec d.length d.length G _ (hml u).le,
      toFn_matVec d.length d.length G u hul.le, mulVec_sub, sub_eq_zero, mulVec_mulVec, mulVec_mulVec]
    exact hkey
  refine ⟨matVec G u, ?_⟩
  unfold pinvApply
  simp only
  rw [hsol]
  simp only
  rw [if_pos hcert]

/-- hence the any-rank IMTL-G model returns weights on every matrix -/
theorem imtlgWeightsP_complete (J : Mat α) (m n : Nat) (hJ : MatWF J m n) (d : Vec α) (hd : d.length = m)
    (guard : α) : ∃ w, imtlgWeightsP J d guard = some w := by
  obtain ⟨v, hv⟩ := pinvApply_complete (gram J) m (gram_symmSquare J m n hJ) d hd
  unfold imtlgWeightsP
  rw [hv]
  simp only
  split_ifs <;> exact ⟨_, rfl⟩

end complete_pc

end Tjd.Agg
