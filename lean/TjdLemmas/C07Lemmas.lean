/- helper lemmas for TjdProps/C07.lean -/
import TjdModel.Autojac.Pipeline
namespace Tjd.Autojac

/-! ### arithmetic of `ceil(m / k)` -/

theorem ceil_bounds (m k : Nat) (hm : 0 < m) (hk : 0 < k) :
    1 ≤ (m + k - 1) / k ∧ ((m + k - 1) / k - 1) * k < m ∧ m ≤ (m + k - 1) / k * k := by
  have h1 : (m + k - 1) / k * k ≤ m + k - 1 := Nat.div_mul_le_self _ _
  have h2 : m + k - 1 < ((m + k - 1) / k + 1) * k := by
    have := Nat.lt_mul_div_succ (m + k - 1) hk
    rwa [Nat.mul_comm] at this
  have h3 : 1 ≤ (m + k - 1) / k := by
    rw [Nat.le_div_iff_mul_le hk]; omega
  generalize (m + k - 1) / k = n at *
  obtain ⟨n', rfl⟩ : ∃ n', n = n' + 1 := ⟨n - 1, by omega⟩
  have e1 : (n' + 1) * k = n' * k + k := by rw [Nat.add_mul, Nat.one_mul]
  have e2 : (n' + 1 + 1) * k = n' * k + k + k := by rw [Nat.add_mul, Nat.one_mul, e1]
  rw [e2] at h2
  rw [e1] at h1
  refine ⟨h3, ?_, ?_⟩
  · rw [Nat.add_sub_cancel]; omega
  · rw [e1]; omega

/-- the rows of a block -/
theorem rows_eq_range' (s e : Nat) :
    (List.range (e - s)).map (· + s) = List.range' s (e - s) := by
  rw [List.range_eq_range']
  have : (fun x => x + s) = (fun x => s + x) := by funext x; omega
  rw [this, List.map_add_range', Nat.add_zero]

theorem full_blocks_flatten (k j : Nat) :
    ((List.range j).map (fun i => (i * k, (i + 1) * k))).flatMap
      (fun se : Nat × Nat => (List.range (se.2 - se.1)).map (· + se.1)) = List.range (j * k) := by
  induction j with
  | zero => simp
  | succ j ih =>
    rw [List.range_succ, List.map_append, List.flatMap_append, ih]
    simp only [List.map_singleton, List.flatMap_cons, List.flatMap_nil, List.append_nil]
    have h : (j + 1) * k - j * k = k := by rw [Nat.add_mul]; omega
    rw [h, Nat.add_mul, Nat.one_mul, List.range_add]
    congr 1
    apply List.map_congr_left
    intro a _; omega

theorem chunkRanges_flatten (m : Nat) (c : Option Nat) (hm : 0 < m) (hc : ∀ k, c = some k → 0 < k) :
    (chunkRanges m c).flatMap
      (fun se : Nat × Nat => (List.range (se.2 - se.1)).map (· + se.1)) = List.range m := by
  unfold chunkRanges
  have hk : 0 < c.getD m := by
    cases c with
    | none => simpa using hm
    | some k => simpa using hc k rfl
  generalize c.getD m = k at hk
  obtain ⟨h1, h2, h3⟩ := ceil_bounds m k hm hk
  simp only []
  generalize (m + k - 1) / k = n at *
  rw [List.flatMap_append, full_blocks_flatten]
  simp only [List.flatMap_cons, List.flatMap_nil, List.append_nil]
  have : m = (n - 1) * k + (m - (n - 1) * k) := by omega
  conv => rhs; rw [this, List.range_add]
  congr 1
  apply List.map_congr_left
  intro a _; omega

theorem chunkRanges_none (m : Nat) : chunkRanges m none = chunkRanges m (some m) := rfl

theorem chunkRanges_length (m k : Nat) (hm : 0 < m) (hk : 0 < k) :
    (chunkRanges m (some k)).length = (m + k - 1) / k := by
  have := (ceil_bounds m k hm hk).1
  simp only [chunkRanges, Option.getD_some, List.length_append, List.length_map, List.length_range,
    List.length_singleton]
  omega

theorem chunkRanges_single (m k : Nat) (hm : 0 < m) (h : m ≤ k) :
    chunkRanges m (some k) = [(0, m)] := by
  have hk : 0 < k := by omega
  obtain ⟨h1, h2, _⟩ := ceil_bounds m k hm hk
  simp only [chunkRanges, Option.getD_some]
  generalize (m + k - 1) / k = n at *
  have : n - 1 = 0 := by
    apply Classical.byContradiction
    intro hn
    have : k ≤ (n - 1) * k := Nat.le_mul_of_pos_left k (by omega)
    omega
  rw [this]; simp

theorem chunkRanges_size (m k : Nat) (hm : 0 < m) (hk : 0 < k) :
    ∀ r ∈ chunkRanges m (some k), r.1 < r.2 ∧ r.2 ≤ m ∧ r.2 - r.1 ≤ k := by
  obtain ⟨h1, h2, h3⟩ := ceil_bounds m k hm hk
  simp only [chunkRanges, Option.getD_some]
  generalize (m + k - 1) / k = n at *
  intro r hr
  rw [List.mem_append] at hr
  rcases hr with hr | hr
  · rw [List.mem_map] at hr
    obtain ⟨i, hi, rfl⟩ := hr
    rw [List.mem_range] at hi
    have e1 : (i + 1) * k = i * k + k := by rw [Nat.add_mul, Nat.one_mul]
    have : (i + 1) * k ≤ (n - 1) * k := Nat.mul_le_mul_right k (by omega)
    simp only
    omega
  · rw [List.mem_singleton] at hr
    subst hr
    obtain ⟨n', rfl⟩ : ∃ n', n = n' + 1 := ⟨n - 1, by omega⟩
    have e1 : (n' + 1) * k = n' * k + k := by rw [Nat.add_mul, Nat.one_mul]
    simp only [Nat.add_sub_cancel] at *
    omega

/-! ### `mapM` over `flatMap` in `Except` -/

theorem mapM_flatMap_except {ε α β γ : Type} (f : α → List β) (g : β → Except ε γ) (xs : List α) :
    (xs.flatMap f).mapM g = (xs.mapM (fun x => (f x).mapM g)).map List.flatten := by
  induction xs with
  | nil => rfl
  | cons x xs ih =>
    rw [List.flatMap_cons, List.mapM_append, List.mapM_cons, ih]
    cases (f x).mapM g with
    | error e => rfl
    | ok ys =>
      cases xs.mapM (fun x => (f x).mapM g) with
      | error e => rfl
      | ok yss => rfl

/-! ### `jacT` -/

/-- the sweeps recorded by `jacT` -/
def sweepsOf (ranges : List (Nat × Nat)) (retain : Bool) : List Sweep :=
  ranges.zipIdx.map fun x =>
    ({ rows := x.1.2 - x.1.1, vmap := (x.1.2 - x.1.1) ≠ 1,
       retain := if x.2 + 1 < ranges.length then true else retain } : Sweep)

section
variable {α : Type} [Zero α] [Add α] [Mul α]

theorem jacT_eq (E : Engine α) (outs ins : List Key)
    (c : Option Nat) (retain : Bool) (j : JDict α) :
    jacT E outs ins c retain j =
      if ins.isEmpty then .ok ([], [])
      else if outs.isEmpty then .ok (ins.map fun i => (i, []), [])
      else if (lookupD j (outs.headD 0) []).length = 0 then .error Err.other
      else if c = some 0 then .error Err.other
      else
        match (chunkRanges (lookupD j (outs.headD 0) []).length c).mapM
            (fun se => jacChunk E outs ins j se.1 se.2) with
        | .error e => .error e
        | .ok blocks =>
          .ok (List.zip ins (subMatrices (ins.map E.numel) blocks.flatten),
               sweepsOf (chunkRanges (lookupD j (outs.headD 0) []).length c) retain) := by
  unfold jacT
  split
  · rfl
  split
  · rfl
  simp only []
  split
  · rfl
  split
  · rfl
  have : (fun x : Nat × Nat => match x with | (s, e) => jacChunk E outs ins j s e)
      = (fun se => jacChunk E outs ins j se.1 se.2) := by
    funext ⟨s, e⟩; rfl
  rw [this]
  cases (chunkRanges (lookupD j (outs.headD 0) []).length c).mapM
            (fun se => jacChunk E outs ins j se.1 se.2) with
  | error e => rfl
  | ok blocks => rfl

/-- all blocks together compute the rows `0 … m-1` in order -/
theorem blocks_flatten (E : Engine α) (outs ins : List Key) (c : Option Nat) (j : JDict α) (m : Nat)
    (hm : 0 < m) (hc : ∀ k, c = some k → 0 < k) :
    ((chunkRanges m c).mapM (fun se => jacChunk E outs ins j se.1 se.2)).map List.flatten =
      (List.range m).mapM (fun r => vjpRow E outs ins (cotRow outs j r)) := by
  unfold jacChunk
  rw [← mapM_flatMap_except (fun se : Nat × Nat => (List.range (se.2 - se.1)).map (· + se.1)),
    chunkRanges_flatten m c hm hc]

/-- the Jacobians computed by `jacT` in chunk-free form -/
theorem jacT_fst (E : Engine α) (outs ins : List Key)
    (c : Option Nat) (retain : Bool) (j : JDict α) (hc : ∀ k, c = some k → 0 < k) :
    (jacT E outs ins c retain j).map (·.1) =
      if ins.isEmpty then .ok []
      else if outs.isEmpty then .ok (ins.map fun i => (i, []))
      else if (lookupD j (outs.headD 0) []).length = 0 then .error Err.other
      else
        ((List.range (lookupD j (outs.headD 0) []).length).mapM
            (fun r => vjpRow E outs ins (cotRow outs j r))).map
          (fun M => List.zip ins (subMatrices (ins.map E.numel) M)) := by
  rw [jacT_eq]
  split
  · rfl
  split
  · rfl
  split
  · rfl
  next hm =>
  have hc0 : c ≠ some 0 := fun h => by have := hc 0 h; omega
  rw [if_neg hc0, ← blocks_flatten E outs ins c j _ (Nat.pos_of_ne_zero hm) hc]
  cases (chunkRanges (lookupD j (outs.headD 0) []).length c).mapM
            (fun se => jacChunk E outs ins j se.1 se.2) with
  | error e => rfl
  | ok blocks => rfl

/-- the sweeps of a successful `jacT` -/
theorem jacT_ok_sweeps (E : Engine α) (outs ins : List Key)
    (c : Option Nat) (retain : Bool) (j j' : JDict α) (sw : List Sweep)
    (h : jacT E outs ins c retain j = .ok (j', sw)) :
    ((ins = [] ∨ outs = []) ∧ sw = []) ∨
    (ins ≠ [] ∧ outs ≠ [] ∧ (lookupD j (outs.headD 0) []).length ≠ 0 ∧ c ≠ some 0 ∧
      sw = sweepsOf (chunkRanges (lookupD j (outs.headD 0) []).length c) retain) := by
  rw [jacT_eq] at h
  split at h
  next hi =>
    cases h
    exact .inl ⟨.inl (by simpa using hi), rfl⟩
  next hi =>
  split at h
  next ho =>
    cases h
    exact .inl ⟨.inr (by simpa using ho), rfl⟩
  next ho =>
  split at h
  · cases h
  next hm =>
  split at h
  · cases h
  next hc =>
  split at h
  · cases h
  · cases h
    exact .inr ⟨by simpa using hi, by simpa using ho, hm, hc, rfl⟩

end

/-! ### `sweepsOf` -/

theorem sweepsOf_length (rs : List (Nat × Nat)) (r : Bool) : (sweepsOf rs r).length = rs.length := by
  simp [sweepsOf]

theorem sweepsOf_getElem (rs : List (Nat × Nat)) (r : Bool) (i : Nat) (h : i < (sweepsOf rs r).length) :
    (sweepsOf rs r)[i] =
      { rows := (rs[i]'(by simpa [sweepsOf] using h)).2 - (rs[i]'(by simpa [sweepsOf] using h)).1,
        vmap := decide ((rs[i]'(by simpa [sweepsOf] using h)).2 - (rs[i]'(by simpa [sweepsOf] using h)).1 ≠ 1),
        retain := if i + 1 < rs.length then true else r } := by
  simp [sweepsOf]

theorem sweepsOf_rows (rs : List (Nat × Nat)) (r : Bool) :
    (sweepsOf rs r).map (·.rows) = rs.map (fun x => x.2 - x.1) := by
  apply List.ext_getElem
  · simp [sweepsOf_length]
  · intro i h1 h2
    simp [sweepsOf_getElem]

theorem sweepsOf_vmap (rs : List (Nat × Nat)) (r : Bool) :
    ∀ s ∈ sweepsOf rs r, s.vmap = true ↔ s.rows ≠ 1 := by
  intro s hs
  obtain ⟨i, hi, rfl⟩ := List.mem_iff_getElem.1 hs
  simp [sweepsOf_getElem]

theorem sweepsOf_dropLast (rs : List (Nat × Nat)) (r : Bool) :
    ∀ s ∈ (sweepsOf rs r).dropLast, s.retain = true := by
  intro s hs
  obtain ⟨i, hi, rfl⟩ := List.mem_iff_getElem.1 hs
  rw [List.getElem_dropLast, sweepsOf_getElem]
  rw [List.length_dropLast, sweepsOf_length] at hi
  simp only
  rw [if_pos (by omega)]

theorem sweepsOf_getLast (rs : List (Nat × Nat)) (r : Bool) :
    ∀ s, (sweepsOf rs r).getLast? = some s → s.retain = r := by
  intro s hs
  rw [List.getLast?_eq_getElem?, List.getElem?_eq_some_iff] at hs
  obtain ⟨hi, rfl⟩ := hs
  rw [sweepsOf_getElem]
  have hl := sweepsOf_length rs r
  simp only
  rw [if_neg (by omega)]

theorem sweepsOf_no_vmap (rs : List (Nat × Nat)) (r : Bool) (h : ∀ x ∈ rs, x.2 - x.1 = 1) :
    ∀ s ∈ sweepsOf rs r, s.vmap = false := by
  intro s hs
  obtain ⟨i, hi, rfl⟩ := List.mem_iff_getElem.1 hs
  rw [sweepsOf_getElem]
  simp [h _ (List.getElem_mem _)]

/-! ### `backward`, `mtl_backward` -/

section
variable {α : Type} [Zero α] [One α] [Add α] [Mul α]

omit [Zero α] [One α] [Mul α] in
/-- what `backward`/`mtl_backward` do after `Jac`, as a function of the `Jac` result -/
theorem tail_congr (E : Engine α) (A : Mat α → Except Err (Vec α)) (keys : List Key) (h : Grads α)
    (r₁ r₂ : Except Err (JDict α × List Sweep)) (hr : r₁.map (·.1) = r₂.map (·.1)) :
    let out := fun (r : Except Err (JDict α × List Sweep)) =>
      (match r with
      | .error e => (⟨h, some e, []⟩ : Outcome α)
      | .ok (j1, sweeps) =>
        match aggregateT E A keys j1 with
        | .error e => ⟨h, some e, sweeps⟩
        | .ok g1 =>
          let (h', err) := accumulateT E g1 h
          ⟨h', err, sweeps⟩)
    (out r₁).grads = (out r₂).grads ∧ (out r₁).err = (out r₂).err := by
  intro out
  cases r₁ with
  | error e₁ =>
    cases r₂ with
    | error e₂ =>
      have : e₁ = e₂ := by simpa [Except.map] using hr
      subst this; exact ⟨rfl, rfl⟩
    | ok p₂ => simp [Except.map] at hr
  | ok p₁ =>
    cases r₂ with
    | error e₂ => simp [Except.map] at hr
    | ok p₂ =>
      obtain ⟨j1, s1⟩ := p₁
      obtain ⟨j2, s2⟩ := p₂
      have : j1 = j2 := by simpa [Except.map] using hr
      subst this
      simp only [out]
      cases aggregateT E A keys j1 with
      | error e => exact ⟨rfl, rfl⟩
      | ok g1 => exact ⟨rfl, rfl⟩

theorem backward_go_congr (E : Engine α) (tensors inputs : List Key) (A : Mat α → Except Err (Vec α))
    (c₁ c₂ : Option Nat) (retain : Bool) (h : Grads α)
    (h₁ : ∀ k, c₁ = some k → 0 < k) (h₂ : ∀ k, c₂ = some k → 0 < k) :
    (backward.go E tensors inputs A retain h c₁).grads = (backward.go E tensors inputs A retain h c₂).grads ∧
    (backward.go E tensors inputs A retain h c₁).err = (backward.go E tensors inputs A retain h c₂).err := by
  unfold backward.go
  split
  · exact ⟨rfl, rfl⟩
  split
  · exact ⟨rfl, rfl⟩
  exact tail_congr E A inputs h _ _
    (by rw [jacT_fst _ _ _ _ _ _ h₁, jacT_fst _ _ _ _ _ _ h₂])

theorem mtl_vs_none (E : Engine α)
    (ndim : Key → Nat) (losses features : List Key) (tps : List (List Key)) (shared : List Key)
    (A : Mat α → Except Err (Vec α)) (c : Option Int) (retain : Bool) (h : Grads α)
    (hc : ∀ k, c = some k → 0 < k) :
    (mtlBackward E ndim losses features tps shared A c retain h).grads =
      (mtlBackward E ndim losses features tps shared A none retain h).grads ∧
    (mtlBackward E ndim losses features tps shared A c retain h).err =
      (mtlBackward E ndim losses features tps shared A none retain h).err := by
  cases c with
  | none => exact ⟨rfl, rfl⟩
  | some z =>
    have hz : 0 < z := hc z rfl
    have b : decide (z ≤ 0) = false := by simp; omega
    have v : ∀ k, (some z).map Int.toNat = some k → 0 < k := by
      intro k hk; simp at hk; omega
    have v0 : ∀ k, (none : Option Int).map Int.toNat = some k → 0 < k := by
      intro k hk; simp at hk
    unfold mtlBackward
    simp only [b, Bool.false_eq_true, if_false]
    generalize runTasks E features (tps.zip losses) h = rt
    obtain ⟨h1, r⟩ := rt
    cases r with
    | error e => exact ⟨rfl, rfl⟩
    | ok ds =>
      simp only []
      repeat (split; · exact ⟨rfl, rfl⟩)
      exact tail_congr E A shared h1 _ _
        (by rw [jacT_fst _ _ _ _ _ _ v, jacT_fst _ _ _ _ _ _ v0])

theorem backward_congr (E : Engine α) (tensors inputs : List Key) (A : Mat α → Except Err (Vec α))
    (c₁ c₂ : Option Int) (retain : Bool) (h : Grads α)
    (h₁ : ∀ k, c₁ = some k → 0 < k) (h₂ : ∀ k, c₂ = some k → 0 < k) :
    (backward E tensors inputs A c₁ retain h).grads = (backward E tensors inputs A c₂ retain h).grads ∧
    (backward E tensors inputs A c₁ retain h).err = (backward E tensors inputs A c₂ retain h).err := by
  have key : ∀ c : Option Int, (∀ k, c = some k → 0 < k) →
      ∃ cN : Option Nat, (∀ k, cN = some k → 0 < k) ∧
        backward E tensors inputs A c retain h = backward.go E tensors inputs A retain h cN := by
    intro c hc
    cases c with
    | none => exact ⟨none, by simp, rfl⟩
    | some z =>
      have hz : 0 < z := hc z rfl
      refine ⟨some z.toNat, ?_, ?_⟩
      · intro k hk; simp at hk; omega
      · unfold backward
        simp only []
        rw [if_neg (by omega)]
  obtain ⟨n₁, v₁, e₁⟩ := key c₁ h₁
  obtain ⟨n₂, v₂, e₂⟩ := key c₂ h₂
  rw [e₁, e₂]
  exact backward_go_congr E tensors inputs A n₁ n₂ retain h v₁ v₂

theorem backward_rejects (E : Engine α) (tensors inputs : List Key) (A : Mat α → Except Err (Vec α))
    (k : Int) (hk : k ≤ 0) (retain : Bool) (h : Grads α) :
    backward E tensors inputs A (some k) retain h = ⟨h, some Err.value, []⟩ := by
  unfold backward
  simp only []
  rw [if_pos hk]

end

end Tjd.Autojac
