/- helper lemmas for TjdProps/C07.lean -/
import TjdModel.Autojac.Pipeline
namespace Tjd.Autojac

end Tjd.Autojac
