/- extra helper lemmas for TjdProps/C16.lean (trimmed mean with nothing trimmed) and TjdProps/C06.lean
   (two `.grad` fields sharing one storage) -/
import Mathlib.Algebra.Order.Field.Basic
import TjdModel.Agg.Spec2
import TjdModel.Autojac.Heap
import TjdLemmas.RobustLemmas

namespace Tjd.Agg
open Tjd

theorem trimmedMean_zero_mean {α : Type} [Field α] [LinearOrder α] [IsStrictOrderedRing α]
    [Inhabited α] (n : Nat) (J : Mat α) :
    trimmedMean 0 n J = (List.range n).map fun c => (col J c).sum / ((J.length : Nat) : α) := by
  unfold trimmedMean
  apply List.map_congr_left
  intro c _
  rw [trimmedMeanCol_zero']
  simp [col]

end Tjd.Agg

namespace Tjd.Autojac
open Tjd

theorem aliased_accumulate_both {α : Type} [Add α] (H : Heap α) (a b : Key) (hab : a ≠ b)
    (s sa sb : Sid) (old ga gb : Vec α)
    (ha : H.grad a = some (s, old)) (hb : H.grad b = some (s, old)) :
    (accumulateH true [(a, sa, ga), (b, sb, gb)] H).grad a = some (s, vadd (vadd old ga) gb) ∧
    (accumulateH true [(a, sa, ga), (b, sb, gb)] H).grad b = some (s, vadd (vadd old ga) gb) := by
  have hba : b ≠ a := fun h => hab h.symm
  simp only [accumulateH, List.foldl_cons, List.foldl_nil]
  simp [ha, hb, hab, hba]

end Tjd.Autojac
