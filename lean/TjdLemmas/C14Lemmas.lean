/- helper lemmas for TjdProps/C14.lean -/
import TjdModel.Autojac.Typing
namespace Tjd.Typing

end Tjd.Typing
