/- helper lemmas for TjdProps/C14.lean -/
import TjdModel.Autojac.Typing
namespace Tjd.Typing

/-! ### key lists as sets -/

theorem subset_iff (a b : List Key) : subset a b = true ↔ ∀ k, k ∈ a → k ∈ b := by
  simp [subset, List.all_eq_true]

theorem seteq_iff' (a b : List Key) : seteq a b = true ↔ ∀ k, k ∈ a ↔ k ∈ b := by
  simp only [seteq, Bool.and_eq_true, subset_iff]
  constructor
  · rintro ⟨h1, h2⟩ k
    exact ⟨h1 k, h2 k⟩
  · intro h
    exact ⟨fun k => (h k).1, fun k => (h k).2⟩

theorem mem_dedup (k : Key) (l : List Key) : k ∈ dedup l ↔ k ∈ l := by
  induction l with
  | nil => simp [dedup]
  | cons a l ih =>
    simp only [dedup]
    split
    · rename_i h
      have : a ∈ l := by simpa using h
      rw [ih, List.mem_cons]
      constructor
      · exact Or.inr
      · rintro (rfl | h)
        · exact this
        · exact h
    · simp [ih]

theorem dedup_nodup (l : List Key) : (dedup l).Nodup := by
  induction l with
  | nil => simp [dedup]
  | cons a l ih =>
    simp only [dedup]
    split
    · exact ih
    · rename_i h
      have : a ∉ l := by simpa using h
      rw [List.nodup_cons]
      exact ⟨by rwa [mem_dedup], ih⟩

theorem hasDup_eq_false_iff (l : List Key) : hasDup l = false ↔ l.Nodup := by
  induction l with
  | nil => simp [hasDup]
  | cons a l ih =>
    simp [hasDup, List.nodup_cons, ih]

theorem hasDup_eq_true_iff (l : List Key) : hasDup l = true ↔ ¬ l.Nodup := by
  rw [← hasDup_eq_false_iff]; simp

/-! ### induction principle for terms -/

theorem Term.induct' {P : Term → Prop} {Q : List Term → Prop}
    (init : ∀ ks, P (.init ks)) (select : ∀ ks req, P (.select ks req))
    (diag : ∀ ks, P (.diag ks)) (acc : ∀ ks, P (.acc ks))
    (stack : ∀ ts, Q ts → P (.stack ts)) (conj : ∀ ts, Q ts → P (.conj ts))
    (comp : ∀ o i, P o → P i → P (.comp o i))
    (nil : Q []) (cons : ∀ t ts, P t → Q ts → Q (t :: ts)) : (∀ t, P t) ∧ (∀ ts, Q ts) :=
  ⟨fun t => Term.rec (motive_1 := P) (motive_2 := Q) init select diag acc stack conj comp nil cons t,
   fun ts => Term.rec_1 (motive_1 := P) (motive_2 := Q) init select diag acc stack conj comp nil
      cons ts⟩

/-! ### Except plumbing and build errors -/

theorem bind_ok_iff {α β : Type} (x : Except Err α) (f : α → Except Err β) (b : β) :
    (x >>= f) = .ok b ↔ ∃ a, x = .ok a ∧ f a = .ok b := by
  cases x <;> simp [bind, Except.bind]

theorem bind_error_iff {α β : Type} (x : Except Err α) (f : α → Except Err β) (e : Err) :
    (x >>= f) = .error e ↔ x = .error e ∨ ∃ a, x = .ok a ∧ f a = .error e := by
  cases x <;> simp [bind, Except.bind]

@[simp] theorem pure_eq_ok {α : Type} (a : α) : (pure a : Except Err α) = .ok a := rfl
@[simp] theorem throw_eq_error {α : Type} (e : Err) : (throw e : Except Err α) = .error e := rfl

theorem ite_ok_iff {α : Type} (c : Prop) [Decidable c] (a b : α) (e : Err) :
    (if c then (Except.ok a : Except Err α) else .error e) = .ok b ↔ c ∧ a = b := by
  split <;> simp [*]

theorem ite_error_iff {α : Type} (c : Prop) [Decidable c] (a : α) (e e' : Err) :
    (if c then (Except.ok a : Except Err α) else .error e) = .error e' ↔ ¬ c ∧ e = e' := by
  split <;> simp [*]

theorem build_error_aux :
    (∀ t, ∀ e, build t = .error e → e = .value) ∧
    (∀ ts, ∀ e, buildList ts = .error e → e = .value) := by
  apply Term.induct'
  · intro ks e h; simp [build] at h
  · intro ks req e h
    simp only [build, pure_eq_ok, throw_eq_error, ite_error_iff] at h
    exact h.2.symm
  · intro ks e h
    simp only [build, pure_eq_ok, throw_eq_error] at h
    split at h <;> simp at h
    exact h.symm
  · intro ks e h; simp [build] at h
  · intro ts ih e h
    simp only [build, bind_error_iff, pure_eq_ok, throw_eq_error, ite_error_iff] at h
    rcases h with h | ⟨a, _, _, h⟩
    · exact ih e h
    · exact h.symm
  · intro ts ih e h
    simp only [build, bind_error_iff, pure_eq_ok, throw_eq_error] at h
    rcases h with h | ⟨a, _, h⟩
    · exact ih e h
    · split at h
      · split at h <;> simp at h
        exact h.symm
      · simp at h; exact h.symm
  · intro o i iho ihi e h
    simp only [build, bind_error_iff, pure_eq_ok, throw_eq_error, ite_error_iff] at h
    rcases h with h | ⟨a, _, h | ⟨b, _, _, h⟩⟩
    · exact iho e h
    · exact ihi e h
    · exact h.symm
  · intro e h; simp [buildList] at h
  · intro t ts iht ihts e h
    simp only [buildList, bind_error_iff, pure_eq_ok] at h
    rcases h with h | ⟨a, _, h | ⟨b, _, h⟩⟩
    · exact iht e h
    · exact ihts e h
    · simp at h
/-! ### characterisation of successful builds -/

theorem build_comp_ok_iff (o i : Term) (σ : Sig) :
    build (.comp o i) = .ok σ ↔
      ∃ σo σi, build o = .ok σo ∧ build i = .ok σi ∧ (∀ k, k ∈ σo.required ↔ k ∈ σi.output) ∧
        σ = ⟨σi.required, σo.output⟩ := by
  simp only [build, bind_ok_iff, pure_eq_ok, throw_eq_error, ite_ok_iff, seteq_iff']
  constructor
  · rintro ⟨a, ha, b, hb, h, rfl⟩
    exact ⟨a, b, ha, hb, h, rfl⟩
  · rintro ⟨a, b, ha, hb, h, rfl⟩
    exact ⟨a, ha, b, hb, h, rfl⟩

/-- all members require (as sets) the union of the requirements iff they pairwise agree -/
theorem all_seteq_union_iff (sigs : List Sig) :
    (sigs.all fun s => seteq s.required (dedup (sigs.flatMap (·.required)))) = true ↔
      ∀ s ∈ sigs, ∀ s' ∈ sigs, ∀ k, k ∈ s.required ↔ k ∈ s'.required := by
  simp only [List.all_eq_true, seteq_iff', mem_dedup, List.mem_flatMap]
  constructor
  · intro h s hs s' hs' k
    rw [h s hs k, h s' hs' k]
  · intro h s hs k
    constructor
    · intro hk; exact ⟨s, hs, hk⟩
    · rintro ⟨s', hs', hk⟩; exact (h s' hs' s hs k).1 hk

theorem build_conj_ok_iff (ts : List Term) (σ : Sig) :
    build (.conj ts) = .ok σ ↔
      ∃ sigs, buildList ts = .ok sigs ∧
        (∀ s ∈ sigs, ∀ s' ∈ sigs, ∀ k, k ∈ s.required ↔ k ∈ s'.required) ∧
        (sigs.flatMap (·.output)).Nodup ∧
        σ = ⟨dedup (sigs.flatMap (·.required)), sigs.flatMap (·.output)⟩ := by
  simp only [build, bind_ok_iff, pure_eq_ok, throw_eq_error]
  constructor
  · rintro ⟨sigs, hs, h⟩
    refine ⟨sigs, hs, ?_⟩
    split at h
    · rename_i hall
      split at h
      · simp at h
      · rename_i hd
        rw [Bool.not_eq_true, hasDup_eq_false_iff] at hd
        simp only [Except.ok.injEq] at h
        exact ⟨(all_seteq_union_iff sigs).1 hall, hd, h.symm⟩
    · simp at h
  · rintro ⟨sigs, hs, hreq, hnd, rfl⟩
    refine ⟨sigs, hs, ?_⟩
    rw [if_pos ((all_seteq_union_iff sigs).2 hreq)]
    have : hasDup (sigs.flatMap (·.output)) = false := (hasDup_eq_false_iff _).2 hnd
    simp [this]

theorem build_stack_ok_iff (ts : List Term) (σ : Sig) :
    build (.stack ts) = .ok σ ↔
      ∃ sigs, buildList ts = .ok sigs ∧
        (∀ s ∈ sigs, ∀ s' ∈ sigs, ∀ k, k ∈ s.required ↔ k ∈ s'.required) ∧
        σ = ⟨dedup (sigs.flatMap (·.required)), dedup (sigs.flatMap (·.output))⟩ := by
  simp only [build, bind_ok_iff, pure_eq_ok, throw_eq_error, ite_ok_iff, all_seteq_union_iff]
  constructor
  · rintro ⟨sigs, hs, h, rfl⟩
    exact ⟨sigs, hs, h, rfl⟩
  · rintro ⟨sigs, hs, h, rfl⟩
    exact ⟨sigs, hs, h, rfl⟩

theorem buildList_cons_ok_iff (t : Term) (ts : List Term) (sigs : List Sig) :
    buildList (t :: ts) = .ok sigs ↔
      ∃ s ss, build t = .ok s ∧ buildList ts = .ok ss ∧ sigs = s :: ss := by
  simp only [buildList, bind_ok_iff, pure_eq_ok, Except.ok.injEq]
  constructor
  · rintro ⟨s, hs, ss, hss, rfl⟩; exact ⟨s, ss, hs, hss, rfl⟩
  · rintro ⟨s, ss, hs, hss, rfl⟩; exact ⟨s, hs, ss, hss, rfl⟩

@[simp] theorem buildList_nil : buildList [] = .ok [] := by simp [buildList]

theorem build_output_nodup' : ∀ (t : Term) (σ : Sig), build t = .ok σ → σ.output.Nodup := by
  refine (Term.induct' (P := fun t => ∀ σ, build t = .ok σ → σ.output.Nodup)
    (Q := fun _ => True) ?_ ?_ ?_ ?_ ?_ ?_ ?_ trivial (fun _ _ _ _ => trivial)).1
  · intro ks σ h
    simp only [build, pure_eq_ok, Except.ok.injEq] at h
    subst h; exact dedup_nodup _
  · intro ks req σ h
    simp only [build, pure_eq_ok, throw_eq_error, ite_ok_iff] at h
    rw [← h.2]; exact dedup_nodup _
  · intro ks σ h
    simp only [build, pure_eq_ok, throw_eq_error] at h
    split at h
    · simp at h
    · rename_i hd
      rw [Bool.not_eq_true, hasDup_eq_false_iff] at hd
      simp only [Except.ok.injEq] at h
      subst h; exact hd
  · intro ks σ h
    simp only [build, pure_eq_ok, Except.ok.injEq] at h
    subst h; simp
  · intro ts _ σ h
    obtain ⟨sigs, _, _, rfl⟩ := (build_stack_ok_iff ts σ).1 h
    exact dedup_nodup _
  · intro ts _ σ h
    obtain ⟨sigs, _, _, hnd, rfl⟩ := (build_conj_ok_iff ts σ).1 h
    exact hnd
  · intro o i iho _ σ h
    obtain ⟨σo, σi, ho, _, _, rfl⟩ := (build_comp_ok_iff o i σ).1 h
    exact iho σo ho

/-! ### dictionary constructors -/

theorem mkDict_td (ks : Key → Shape) (es : List (Key × Shape)) :
    mkDict ks .td es = .ok ⟨.td, es⟩ := by
  simp only [mkDict]; rfl

theorem mkDict_grads_eq (ks : Key → Shape) (es : List (Key × Shape)) :
    mkDict ks .grads es =
      if es.all (fun e => e.2 == ks e.1) then .ok ⟨.grads, es⟩ else .error .value := by
  simp only [mkDict]; rfl

theorem mkDict_empty_eq (ks : Key → Shape) (es : List (Key × Shape)) :
    mkDict ks .empty es = if es.isEmpty then .ok ⟨.empty, es⟩ else .error .value := by
  simp only [mkDict]; rfl

theorem mkDict_gvecs_eq (ks : Key → Shape) (es : List (Key × Shape)) :
    mkDict ks .gvecs es =
      if es.all (fun e => e.2.length == 1 && e.2.headD 0 == numel (ks e.1)) then .ok ⟨.gvecs, es⟩
      else .error .value := by
  simp only [mkDict]; rfl

theorem mkDict_jacs_eq (ks : Key → Shape) (es : List (Key × Shape)) :
    mkDict ks .jacs es = (checkUniqueFirstDim es >>= fun _ =>
      if es.all (fun e => e.2.drop 1 == ks e.1) then .ok ⟨.jacs, es⟩ else .error .value) := by
  simp only [mkDict]; rfl

theorem mkDict_jmats_eq (ks : Key → Shape) (es : List (Key × Shape)) :
    mkDict ks .jmats es = (checkUniqueFirstDim es >>= fun _ =>
      if es.all (fun e => e.2.length == 2 && e.2.getD 1 0 == numel (ks e.1)) then .ok ⟨.jmats, es⟩
      else .error .value) := by
  simp only [mkDict]; rfl

theorem mkDict_preserves (ks : Key → Shape) (ty : DType) (es : List (Key × Shape)) (d : Dict)
    (h : mkDict ks ty es = .ok d) : d = ⟨ty, es⟩ := by
  cases ty
  · rw [mkDict_td] at h; simpa using h.symm
  · rw [mkDict_grads_eq, ite_ok_iff] at h; exact h.2.symm
  · simp only [mkDict_jacs_eq, bind_ok_iff, ite_ok_iff] at h
    obtain ⟨_, _, _, h⟩ := h; exact h.symm
  · rw [mkDict_gvecs_eq, ite_ok_iff] at h; exact h.2.symm
  · simp only [mkDict_jmats_eq, bind_ok_iff, ite_ok_iff] at h
    obtain ⟨_, _, _, h⟩ := h; exact h.symm
  · rw [mkDict_empty_eq, ite_ok_iff] at h; exact h.2.symm

theorem mkDict_ok_iff (ks : Key → Shape) (ty : DType) (es : List (Key × Shape)) (d : Dict) :
    mkDict ks ty es = .ok d ↔ (∃ d', mkDict ks ty es = .ok d') ∧ d = ⟨ty, es⟩ := by
  constructor
  · intro h; exact ⟨⟨d, h⟩, mkDict_preserves ks ty es d h⟩
  · rintro ⟨⟨d', h⟩, rfl⟩
    rw [h, mkDict_preserves ks ty es d' h]

theorem mkDict_grads_iff (ks : Key → Shape) (es : List (Key × Shape)) :
    (∃ d, mkDict ks .grads es = .ok d) ↔ ∀ e ∈ es, e.2 = ks e.1 := by
  simp only [mkDict_grads_eq, ite_ok_iff, List.all_eq_true, beq_iff_eq]
  constructor
  · rintro ⟨d, h, _⟩; exact h
  · intro h; exact ⟨_, h, rfl⟩

theorem mkDict_empty_iff (ks : Key → Shape) (es : List (Key × Shape)) :
    (∃ d, mkDict ks .empty es = .ok d) ↔ es = [] := by
  simp only [mkDict_empty_eq, ite_ok_iff, List.isEmpty_iff]
  constructor
  · rintro ⟨d, h, _⟩; exact h
  · intro h; exact ⟨_, h, rfl⟩

theorem shape_len1_iff (s : Shape) (n : Nat) :
    (s.length == 1 && s.headD 0 == n) = true ↔ s = [n] := by
  match s with
  | [] => simp
  | [a] => simp
  | a :: b :: r => simp

theorem shape_len2_iff (s : Shape) (n : Nat) :
    (s.length == 2 && s.getD 1 0 == n) = true ↔ ∃ m, s = [m, n] := by
  match s with
  | [] => simp
  | [a] => simp
  | [a, b] => simp
  | a :: b :: c :: r => simp

theorem mkDict_gvecs_iff (ks : Key → Shape) (es : List (Key × Shape)) :
    (∃ d, mkDict ks .gvecs es = .ok d) ↔ ∀ e ∈ es, e.2 = [numel (ks e.1)] := by
  simp only [mkDict_gvecs_eq, ite_ok_iff, List.all_eq_true, shape_len1_iff]
  constructor
  · rintro ⟨d, h, _⟩; exact h
  · intro h; exact ⟨_, h, rfl⟩

def firstDim (x : Key × Shape) : Except Err Nat :=
  match x.2 with
  | [] => .error .other
  | d :: _ => .ok d

theorem mapM_firsts_ok_iff (es : List (Key × Shape)) (firsts : List Nat) :
    es.mapM firstDim = .ok firsts ↔
      (∀ e ∈ es, e.2 ≠ []) ∧ firsts = es.map (fun e => e.2.headD 0) := by
  induction es generalizing firsts with
  | nil => simp [eq_comm]
  | cons e es ih =>
    obtain ⟨k, s⟩ := e
    simp only [List.mapM_cons, bind_ok_iff, pure_eq_ok, ih]
    cases s with
    | nil => simp [firstDim]
    | cons a s =>
      simp only [firstDim, Except.ok.injEq, List.mem_cons, forall_eq_or_imp, ne_eq, reduceCtorEq,
        not_false_eq_true, true_and, List.map_cons, List.headD_cons]
      constructor
      · rintro ⟨_, rfl, bs, ⟨h, rfl⟩, rfl⟩; exact ⟨h, rfl⟩
      · rintro ⟨h, rfl⟩; exact ⟨a, rfl, _, ⟨h, rfl⟩, rfl⟩

theorem checkUniqueFirstDim_eq (es : List (Key × Shape)) :
    checkUniqueFirstDim es = (es.mapM firstDim >>= fun firsts =>
      match firsts with
      | [] => .ok ()
      | d :: rest => if rest.all (· == d) then .ok () else .error .value) := rfl

theorem checkUniqueFirstDim_ok_iff (es : List (Key × Shape)) :
    checkUniqueFirstDim es = .ok () ↔ ∃ m : Nat, ∀ e ∈ es, ∃ tl, e.2 = m :: tl := by
  simp only [checkUniqueFirstDim_eq, bind_ok_iff, mapM_firsts_ok_iff]
  constructor
  · rintro ⟨firsts, ⟨hne, rfl⟩, h⟩
    cases es with
    | nil => exact ⟨0, by simp⟩
    | cons e es =>
      simp only [List.map_cons, ite_ok_iff, List.all_eq_true,
        List.mem_map, beq_iff_eq, forall_exists_index, and_imp, forall_apply_eq_imp_iff₂,
        and_true] at h
      refine ⟨e.2.headD 0, ?_⟩
      intro e' he'
      have hne' := hne e' he'
      rcases List.mem_cons.1 he' with rfl | hmem
      · cases h2 : e'.2 with
        | nil => exact absurd h2 hne'
        | cons a tl => exact ⟨tl, by simp⟩
      · have := h e' hmem
        cases h2 : e'.2 with
        | nil => exact absurd h2 hne'
        | cons a tl =>
          rw [h2] at this
          simp only [List.headD_cons] at this
          exact ⟨tl, by rw [this]⟩
  · rintro ⟨m, hm⟩
    refine ⟨es.map (fun e => e.2.headD 0), ⟨?_, rfl⟩, ?_⟩
    · intro e he
      obtain ⟨tl, h⟩ := hm e he
      simp [h]
    · cases es with
      | nil => simp
      | cons e es =>
        simp only [List.map_cons, ite_ok_iff, List.all_eq_true,
          List.mem_map, beq_iff_eq, forall_exists_index, and_imp, forall_apply_eq_imp_iff₂,
          and_true]
        intro e' he'
        obtain ⟨tl, h⟩ := hm e (List.mem_cons_self)
        obtain ⟨tl', h'⟩ := hm e' (List.mem_cons_of_mem _ he')
        simp [h, h']

theorem mkDict_jacs_iff (ks : Key → Shape) (es : List (Key × Shape)) :
    (∃ d, mkDict ks .jacs es = .ok d) ↔ ∃ m : Nat, ∀ e ∈ es, e.2 = m :: ks e.1 := by
  simp only [mkDict_jacs_eq, bind_ok_iff, ite_ok_iff, List.all_eq_true, beq_iff_eq]
  constructor
  · rintro ⟨d, _, hc, h, _⟩
    obtain ⟨m, hm⟩ := (checkUniqueFirstDim_ok_iff es).1 hc
    refine ⟨m, fun e he => ?_⟩
    obtain ⟨tl, htl⟩ := hm e he
    have := h e he
    simp only [htl, List.drop_succ_cons, List.drop_zero] at this
    rw [htl, this]
  · rintro ⟨m, hm⟩
    refine ⟨_, (), (checkUniqueFirstDim_ok_iff es).2 ⟨m, fun e he => ⟨_, hm e he⟩⟩,
      fun e he => ?_, rfl⟩
    simp [hm e he]

theorem mkDict_jmats_iff (ks : Key → Shape) (es : List (Key × Shape)) :
    (∃ d, mkDict ks .jmats es = .ok d) ↔ ∃ m : Nat, ∀ e ∈ es, e.2 = [m, numel (ks e.1)] := by
  simp only [mkDict_jmats_eq, bind_ok_iff, ite_ok_iff, List.all_eq_true, shape_len2_iff]
  constructor
  · rintro ⟨d, _, hc, h, _⟩
    obtain ⟨m, hm⟩ := (checkUniqueFirstDim_ok_iff es).1 hc
    refine ⟨m, fun e he => ?_⟩
    obtain ⟨tl, htl⟩ := hm e he
    obtain ⟨m', hm'⟩ := h e he
    rw [hm'] at htl ⊢
    simp only [List.cons.injEq] at htl
    rw [htl.1]
  · rintro ⟨m, hm⟩
    exact ⟨_, (), (checkUniqueFirstDim_ok_iff es).2 ⟨m, fun e he => ⟨_, hm e he⟩⟩,
      fun e he => ⟨m, hm e he⟩, rfl⟩

/-- success of `mkDict` only depends on the *set* of entries -/
theorem mkDict_ok_congr (ks : Key → Shape) (ty : DType) (es es' : List (Key × Shape))
    (hmem : ∀ e, e ∈ es ↔ e ∈ es') (h : ∃ d, mkDict ks ty es = .ok d) :
    ∃ d, mkDict ks ty es' = .ok d := by
  cases ty with
  | td => exact ⟨_, mkDict_td ks es'⟩
  | grads =>
    rw [mkDict_grads_iff] at h ⊢
    exact fun e he => h e ((hmem e).2 he)
  | jacs =>
    rw [mkDict_jacs_iff] at h ⊢
    obtain ⟨m, h⟩ := h
    exact ⟨m, fun e he => h e ((hmem e).2 he)⟩
  | gvecs =>
    rw [mkDict_gvecs_iff] at h ⊢
    exact fun e he => h e ((hmem e).2 he)
  | jmats =>
    rw [mkDict_jmats_iff] at h ⊢
    obtain ⟨m, h⟩ := h
    exact ⟨m, fun e he => h e ((hmem e).2 he)⟩
  | empty =>
    rw [mkDict_empty_iff] at h ⊢
    subst h
    cases es' with
    | nil => rfl
    | cons e es' => exact absurd ((hmem e).2 List.mem_cons_self) (by simp)

/-! ### guardKeys and apply: rejection -/

theorem guardKeys_error (e : Err) (d : Dict) (body : Unit → Except Err Dict) :
    guardKeys (.error e) d body = .error e := rfl

theorem guardKeys_ok (σ : Sig) (d : Dict) (body : Unit → Except Err Dict) :
    guardKeys (.ok σ) d body = if seteq σ.required d.keys then body () else .error .value := rfl

theorem guardKeys_ok_iff (sig : Except Err Sig) (d r : Dict) (body : Unit → Except Err Dict) :
    guardKeys sig d body = .ok r ↔
      ∃ σ, sig = .ok σ ∧ (∀ k, k ∈ σ.required ↔ k ∈ d.keys) ∧ body () = .ok r := by
  cases sig with
  | error e => simp [guardKeys_error]
  | ok σ =>
    rw [guardKeys_ok]
    split
    · rename_i h
      rw [seteq_iff'] at h
      simp [h]
    · rename_i h
      rw [seteq_iff'] at h
      simp [h]

theorem apply_eq_guard (ks : Key → Shape) (t : Term) (d : Dict) :
    ∃ body, apply ks t d = guardKeys (build t) d body := by
  cases t <;> exact ⟨_, by rw [apply]⟩

theorem apply_unbuildable' (ks : Key → Shape) (t : Term) (e : Err) (d : Dict)
    (hb : build t = .error e) : apply ks t d = .error e := by
  obtain ⟨body, h⟩ := apply_eq_guard ks t d
  rw [h, hb]; rfl

theorem apply_wrong_keys' (ks : Key → Shape) (t : Term) (σ : Sig) (d : Dict)
    (hb : build t = .ok σ) (hk : ¬ ∀ k, k ∈ σ.required ↔ k ∈ d.keys) :
    apply ks t d = .error .value := by
  obtain ⟨body, h⟩ := apply_eq_guard ks t d
  rw [h, hb, guardKeys_ok]
  rw [← seteq_iff'] at hk
  simp [hk]

theorem apply_ok_required (ks : Key → Shape) (t : Term) (σ : Sig) (d d' : Dict)
    (hb : build t = .ok σ) (ha : apply ks t d = .ok d') : ∀ k, k ∈ σ.required ↔ k ∈ d.keys := by
  obtain ⟨body, h⟩ := apply_eq_guard ks t d
  rw [h, guardKeys_ok_iff, hb] at ha
  obtain ⟨σ', h1, h2, _⟩ := ha
  cases h1
  exact h2

/-! ### keys of computed dictionaries -/

@[simp] theorem error_bind {α β : Type} (e : Err) (f : α → Except Err β) :
    ((Except.error e : Except Err α) >>= f) = .error e := rfl
@[simp] theorem ok_bind {α β : Type} (a : α) (f : α → Except Err β) :
    ((Except.ok a : Except Err α) >>= f) = f a := rfl

theorem diagEntries_keys (ks : Key → Shape) (L : Nat) (l : List Key) (b : Nat)
    (es : List (Key × Shape)) (h : diagEntries ks L l b = .ok es) : es.map (·.1) = l := by
  induction l generalizing b es with
  | nil => simp [diagEntries] at h; subst h; rfl
  | cons k l ih =>
    simp only [diagEntries, throw_eq_error, error_bind, pure_eq_ok] at h
    split at h
    · simp at h
    · split at h
      · simp at h
      · rw [bind_ok_iff] at h
        obtain ⟨tl, htl, h⟩ := h
        simp only [Except.ok.injEq] at h
        subst h
        simp [ih _ _ htl]

theorem computeDiag_keys (ks : Key → Shape) (l : List Key) (d d' : Dict)
    (h : computeDiag ks l d = .ok d') : d'.ty = .jacs ∧ d'.keys = l := by
  simp only [computeDiag, throw_eq_error, error_bind] at h
  split at h
  · simp at h
  · rw [bind_ok_iff] at h
    obtain ⟨es, hes, h⟩ := h
    have := mkDict_preserves _ _ _ _ h
    subst this
    exact ⟨rfl, diagEntries_keys _ _ _ _ _ hes⟩

theorem mapM_keys {f : Key → Except Err (Key × Shape)} (hf : ∀ k r, f k = .ok r → r.1 = k)
    (l : List Key) (es : List (Key × Shape)) (h : l.mapM f = .ok es) : es.map (·.1) = l := by
  induction l generalizing es with
  | nil => simp at h; subst h; rfl
  | cons k l ih =>
    simp only [List.mapM_cons, bind_ok_iff, pure_eq_ok, Except.ok.injEq] at h
    obtain ⟨r, hr, rs, hrs, rfl⟩ := h
    simp [hf k r hr, ih rs hrs]

theorem stackDicts_keys (ks : Key → Shape) (ds : List Dict) (d' : Dict)
    (h : stackDicts ks ds = .ok d') : d'.ty = .jacs ∧ d'.keys = unionKeys ds := by
  simp only [stackDicts, bind_ok_iff] at h
  obtain ⟨es, hes, h⟩ := h
  have := mkDict_preserves _ _ _ _ h
  subst this
  refine ⟨rfl, mapM_keys ?_ _ _ hes⟩
  intro k r hr
  split at hr
  · simp at hr
  · split at hr
    · simp only [pure_eq_ok, Except.ok.injEq] at hr
      subst hr; rfl
    · simp at hr

theorem mem_unionKeys (ds : List Dict) (k : Key) : k ∈ unionKeys ds ↔ ∃ d ∈ ds, k ∈ d.keys := by
  simp [unionKeys, mem_dedup]

theorem unionDicts_ok (ks : Key → Shape) (ds : List Dict) (d' : Dict)
    (h : unionDicts ks ds = .ok d') :
    d' = ⟨ds.foldl (fun t d => lca t d.ty) DType.empty, ds.flatMap (·.entries)⟩ :=
  mkDict_preserves _ _ _ _ h

theorem flatMap_entries_keys (ds : List Dict) :
    (ds.flatMap (·.entries)).map (·.1) = ds.flatMap (·.keys) := by
  induction ds with
  | nil => rfl
  | cons d ds ih => simp [List.flatMap_cons, Dict.keys, ih]

theorem applyList_cons_ok_iff (ks : Key → Shape) (t : Term) (ts : List Term) (d : Dict)
    (rs : List Dict) :
    applyList ks (t :: ts) d = .ok rs ↔
      ∃ r rs', apply ks t d = .ok r ∧ applyList ks ts d = .ok rs' ∧ rs = r :: rs' := by
  simp only [applyList, bind_ok_iff, pure_eq_ok, Except.ok.injEq]
  constructor
  · rintro ⟨s, hs, ss, hss, rfl⟩; exact ⟨s, ss, hs, hss, rfl⟩
  · rintro ⟨s, ss, hs, hss, rfl⟩; exact ⟨s, hs, ss, hss, rfl⟩

@[simp] theorem applyList_nil (ks : Key → Shape) (d : Dict) : applyList ks [] d = .ok [] := by
  simp [applyList]

/-! ### type soundness: keys -/

theorem apply_ok_output_aux (ks : Key → Shape) :
    (∀ t, ∀ σ d d', build t = .ok σ → apply ks t d = .ok d' → ∀ k, k ∈ d'.keys ↔ k ∈ σ.output) ∧
    (∀ ts, ∀ sigs d rs, buildList ts = .ok sigs → applyList ks ts d = .ok rs →
      ∀ k, (∃ r ∈ rs, k ∈ r.keys) ↔ (∃ s ∈ sigs, k ∈ s.output)) := by
  apply Term.induct'
  · -- init
    intro l σ d d' hb ha k
    rw [apply, guardKeys_ok_iff] at ha
    obtain ⟨σ', h1, _, h3⟩ := ha
    rw [hb] at h1; cases h1
    have := mkDict_preserves _ _ _ _ h3
    subst this
    simp only [build, pure_eq_ok, Except.ok.injEq] at hb
    subst hb
    simp [Dict.keys]
  · -- select
    intro l req σ d d' hb ha k
    rw [apply, guardKeys_ok_iff] at ha
    obtain ⟨σ', h1, h2, h3⟩ := ha
    rw [hb] at h1; cases h1
    have := mkDict_preserves _ _ _ _ h3
    subst this
    simp only [build, pure_eq_ok, throw_eq_error, ite_ok_iff, subset_iff] at hb
    obtain ⟨hsub, rfl⟩ := hb
    simp only [Dict.keys, List.mem_map, List.mem_filterMap, mem_dedup] at h2 ⊢
    constructor
    · rintro ⟨e, ⟨k', hk', hf⟩, rfl⟩
      have := List.find?_some hf
      simp only [beq_iff_eq] at this
      rw [this]; exact hk'
    · intro hk
      have hreq := hsub k hk
      obtain ⟨e, he, rfl⟩ := (h2 k).1 hreq
      cases hf : d.entries.find? (fun x => x.1 == e.1) with
      | none =>
        rw [List.find?_eq_none] at hf
        exact absurd (hf e he) (by simp)
      | some e' =>
        have := List.find?_some hf
        simp only [beq_iff_eq] at this
        exact ⟨e', ⟨e.1, hk, hf⟩, this⟩
  · -- diag
    intro l σ d d' hb ha k
    rw [apply, guardKeys_ok_iff] at ha
    obtain ⟨σ', h1, _, h3⟩ := ha
    rw [hb] at h1; cases h1
    rw [(computeDiag_keys _ _ _ _ h3).2]
    simp only [build, pure_eq_ok, throw_eq_error] at hb
    split at hb
    · simp at hb
    · simp only [Except.ok.injEq] at hb; subst hb; rfl
  · -- acc
    intro l σ d d' hb ha k
    rw [apply, guardKeys_ok_iff] at ha
    obtain ⟨σ', h1, _, h3⟩ := ha
    rw [hb] at h1; cases h1
    simp only [build, pure_eq_ok, Except.ok.injEq] at hb
    subst hb
    split at h3
    · have := mkDict_preserves _ _ _ _ h3
      subst this; simp [Dict.keys]
    · simp at h3
  · -- stack
    intro ts ih σ d d' hb ha k
    rw [apply, guardKeys_ok_iff] at ha
    obtain ⟨σ', h1, _, h3⟩ := ha
    rw [hb] at h1; cases h1
    obtain ⟨sigs, hs, _, rfl⟩ := (build_stack_ok_iff ts σ).1 hb
    rw [bind_ok_iff] at h3
    obtain ⟨rs, hrs, h3⟩ := h3
    rw [(stackDicts_keys _ _ _ h3).2, mem_unionKeys, ih sigs d rs hs hrs k]
    simp [mem_dedup]
  · -- conj
    intro ts ih σ d d' hb ha k
    rw [apply, guardKeys_ok_iff] at ha
    obtain ⟨σ', h1, _, h3⟩ := ha
    rw [hb] at h1; cases h1
    obtain ⟨sigs, hs, _, _, rfl⟩ := (build_conj_ok_iff ts σ).1 hb
    rw [bind_ok_iff] at h3
    obtain ⟨rs, hrs, h3⟩ := h3
    have := unionDicts_ok _ _ _ h3
    subst this
    have := ih sigs d rs hs hrs k
    simp only [Dict.keys, flatMap_entries_keys, List.mem_flatMap] at this ⊢
    exact this
  · -- comp
    intro o i iho ihi σ d d' hb ha k
    rw [apply, guardKeys_ok_iff] at ha
    obtain ⟨σ', h1, _, h3⟩ := ha
    rw [hb] at h1; cases h1
    obtain ⟨σo, σi, ho, hi, _, rfl⟩ := (build_comp_ok_iff o i σ).1 hb
    rw [bind_ok_iff] at h3
    obtain ⟨mid, hmid, h3⟩ := h3
    exact iho σo mid d' ho h3 k
  · intro sigs d rs hb ha k
    simp at hb ha
    subst hb; subst ha; simp
  · intro t ts iht ihts sigs d rs hb ha k
    obtain ⟨s, ss, hs, hss, rfl⟩ := (buildList_cons_ok_iff t ts sigs).1 hb
    obtain ⟨r, rs', hr, hrs', rfl⟩ := (applyList_cons_ok_iff ks t ts d rs).1 ha
    simp only [List.mem_cons, exists_eq_or_imp]
    rw [iht s d r hs hr k, ihts ss d rs' hss hrs' k]

theorem apply_ok_output (ks : Key → Shape) (t : Term) (σ : Sig) (d d' : Dict)
    (hb : build t = .ok σ) (ha : apply ks t d = .ok d') : ∀ k, k ∈ d'.keys ↔ k ∈ σ.output :=
  (apply_ok_output_aux ks).1 t σ d d' hb ha

/-! ### type soundness: dictionary class -/

/-- type soundness for the dictionary class, stated for any function satisfying the defining
    equations of `tyOf` (which is defined downstream in `TjdProps/C14.lean`) -/
theorem apply_ok_type_gen (ks : Key → Shape)
    (T : Term → DType → DType) (TL : List Term → DType → DType → DType)
    (h_init : ∀ l τ, T (.init l) τ = .grads)
    (h_select : ∀ l r τ, T (.select l r) τ = τ)
    (h_diag : ∀ l τ, T (.diag l) τ = .jacs)
    (h_acc : ∀ l τ, T (.acc l) τ = .empty)
    (h_stack : ∀ ts τ, T (.stack ts) τ = .jacs)
    (h_conj : ∀ ts τ, T (.conj ts) τ = TL ts τ .empty)
    (h_comp : ∀ o i τ, T (.comp o i) τ = T o (T i τ))
    (h_nil : ∀ τ acc, TL [] τ acc = acc)
    (h_cons : ∀ t ts τ acc, TL (t :: ts) τ acc = TL ts τ (lca acc (T t τ))) :
    ∀ t d d', apply ks t d = .ok d' → d'.ty = T t d.ty := by
  refine (Term.induct' (P := fun t => ∀ d d', apply ks t d = .ok d' → d'.ty = T t d.ty)
    (Q := fun ts => ∀ d rs acc, applyList ks ts d = .ok rs →
      rs.foldl (fun t d => lca t d.ty) acc = TL ts d.ty acc) ?_ ?_ ?_ ?_ ?_ ?_ ?_ ?_ ?_).1
  · intro l d d' ha
    rw [apply, guardKeys_ok_iff] at ha
    obtain ⟨σ', _, _, h3⟩ := ha
    rw [mkDict_preserves _ _ _ _ h3, h_init]
  · intro l r d d' ha
    rw [apply, guardKeys_ok_iff] at ha
    obtain ⟨σ', _, _, h3⟩ := ha
    rw [mkDict_preserves _ _ _ _ h3, h_select]
  · intro l d d' ha
    rw [apply, guardKeys_ok_iff] at ha
    obtain ⟨σ', _, _, h3⟩ := ha
    rw [(computeDiag_keys _ _ _ _ h3).1, h_diag]
  · intro l d d' ha
    rw [apply, guardKeys_ok_iff] at ha
    obtain ⟨σ', _, _, h3⟩ := ha
    split at h3
    · rw [mkDict_preserves _ _ _ _ h3, h_acc]
    · simp at h3
  · intro ts _ d d' ha
    rw [apply, guardKeys_ok_iff] at ha
    obtain ⟨σ', _, _, h3⟩ := ha
    rw [bind_ok_iff] at h3
    obtain ⟨rs, _, h3⟩ := h3
    rw [(stackDicts_keys _ _ _ h3).1, h_stack]
  · intro ts ih d d' ha
    rw [apply, guardKeys_ok_iff] at ha
    obtain ⟨σ', _, _, h3⟩ := ha
    rw [bind_ok_iff] at h3
    obtain ⟨rs, hrs, h3⟩ := h3
    rw [unionDicts_ok _ _ _ h3, h_conj]
    exact ih d rs .empty hrs
  · intro o i iho ihi d d' ha
    rw [apply, guardKeys_ok_iff] at ha
    obtain ⟨σ', _, _, h3⟩ := ha
    rw [bind_ok_iff] at h3
    obtain ⟨mid, hmid, h3⟩ := h3
    rw [h_comp, iho mid d' h3, ihi d mid hmid]
  · intro d rs acc ha
    simp at ha; subst ha
    rw [h_nil]; rfl
  · intro t ts iht ihts d rs acc ha
    obtain ⟨r, rs', hr, hrs', rfl⟩ := (applyList_cons_ok_iff ks t ts d rs).1 ha
    rw [h_cons, List.foldl_cons, iht d r hr]
    exact ihts d rs' _ hrs'

/-! ### associativity of composition -/

theorem build_error_value (t : Term) (e : Err) (h : build t = .error e) : e = .value :=
  build_error_aux.1 t e h

/-- a build result is either `ok` or the `ValueError` -/
theorem build_cases (t : Term) : (∃ σ, build t = .ok σ) ∨ build t = .error .value := by
  cases h : build t with
  | ok σ => exact Or.inl ⟨σ, rfl⟩
  | error e => rw [build_error_value t e h]; exact Or.inr rfl

theorem build_comp_eq (o i : Term) :
    build (.comp o i) = (build o >>= fun so => build i >>= fun si =>
      if seteq so.required si.output then .ok ⟨si.required, so.output⟩ else .error .value) := by
  rw [build]; rfl

theorem comp_assoc_build' (a b c : Term) :
    build (.comp (.comp a b) c) = build (.comp a (.comp b c)) := by
  rw [build_comp_eq, build_comp_eq a b, build_comp_eq a, build_comp_eq b c]
  rcases build_cases a with ⟨sa, ha⟩ | ha <;> rw [ha] <;> simp only [ok_bind, error_bind]
  rcases build_cases b with ⟨sb, hb⟩ | hb <;> rw [hb] <;> simp only [ok_bind, error_bind]
  rcases build_cases c with ⟨sc, hc⟩ | hc <;> rw [hc] <;> simp only [ok_bind, error_bind]
  · by_cases h1 : seteq sa.required sb.output = true <;>
      by_cases h2 : seteq sb.required sc.output = true <;> simp [h1, h2]
  · split <;> rfl

/-! ### associativity of composition (application) -/

theorem guardKeys_pos (σ : Sig) (d : Dict) (body : Unit → Except Err Dict)
    (h : ∀ k, k ∈ σ.required ↔ k ∈ d.keys) : guardKeys (.ok σ) d body = body () := by
  rw [guardKeys_ok, if_pos ((seteq_iff' _ _).2 h)]

theorem apply_comp_eq (ks : Key → Shape) (o i : Term) (d : Dict) :
    apply ks (.comp o i) d = guardKeys (build (.comp o i)) d fun _ =>
      apply ks i d >>= fun mid => apply ks o mid := by
  rw [apply]

theorem comp_assoc_apply' (ks : Key → Shape) (a b c : Term) (d : Dict) :
    apply ks (.comp (.comp a b) c) d = apply ks (.comp a (.comp b c)) d := by
  rw [apply, apply, ← comp_assoc_build']
  cases hB : build (.comp (.comp a b) c) with
  | error e => rfl
  | ok σ =>
    obtain ⟨σab, σc, hab, hc, h2, rfl⟩ := (build_comp_ok_iff _ _ _).1 hB
    obtain ⟨σa, σb, ha, hb, h1, rfl⟩ := (build_comp_ok_iff _ _ _).1 hab
    dsimp only at h2 hB ⊢
    by_cases hk : ∀ k, k ∈ σc.required ↔ k ∈ d.keys
    · rw [guardKeys_pos ⟨σc.required, σa.output⟩ _ _ hk, guardKeys_pos ⟨σc.required, σa.output⟩ _ _ hk]
      have hbc : build (.comp b c) = .ok ⟨σc.required, σb.output⟩ :=
        (build_comp_ok_iff _ _ _).2 ⟨σb, σc, hb, hc, h2, rfl⟩
      rw [apply_comp_eq ks b c d, hbc, guardKeys_pos ⟨σc.required, σb.output⟩ _ _ hk]
      cases hm : apply ks c d with
      | error e => rfl
      | ok mid =>
        simp only [ok_bind]
        rw [apply, hab, guardKeys_pos]
        intro k
        rw [apply_ok_output ks c σc d mid hc hm k]
        exact h2 k
    · rw [guardKeys_ok, guardKeys_ok, if_neg (by rwa [seteq_iff']), if_neg (by rwa [seteq_iff'])]

/-! ### conjunction: commutativity and associativity of construction -/

theorem buildList_pair_ok_iff (x y : Term) (sigs : List Sig) :
    buildList [x, y] = .ok sigs ↔ ∃ sx sy, build x = .ok sx ∧ build y = .ok sy ∧ sigs = [sx, sy] := by
  simp only [buildList_cons_ok_iff, buildList_nil, Except.ok.injEq]
  constructor
  · rintro ⟨sx, _, hx, ⟨sy, _, hy, rfl, rfl⟩, rfl⟩
    exact ⟨sx, sy, hx, hy, rfl⟩
  · rintro ⟨sx, sy, hx, hy, rfl⟩
    exact ⟨sx, _, hx, ⟨sy, _, hy, rfl, rfl⟩, rfl⟩

theorem conj2_ok_iff (x y : Term) (σ : Sig) :
    build (.conj [x, y]) = .ok σ ↔
      ∃ sx sy, build x = .ok sx ∧ build y = .ok sy ∧ (∀ k, k ∈ sx.required ↔ k ∈ sy.required) ∧
        (sx.output ++ sy.output).Nodup ∧
        σ = ⟨dedup (sx.required ++ sy.required), sx.output ++ sy.output⟩ := by
  rw [build_conj_ok_iff]
  constructor
  · rintro ⟨sigs, hs, hreq, hnd, rfl⟩
    obtain ⟨sx, sy, hx, hy, rfl⟩ := (buildList_pair_ok_iff x y sigs).1 hs
    refine ⟨sx, sy, hx, hy, hreq sx (by simp) sy (by simp), by simpa using hnd, by simp⟩
  · rintro ⟨sx, sy, hx, hy, hreq, hnd, rfl⟩
    refine ⟨[sx, sy], (buildList_pair_ok_iff x y _).2 ⟨sx, sy, hx, hy, rfl⟩, ?_, by simpa using hnd,
      by simp⟩
    intro s hs s' hs' k
    simp only [List.mem_cons, List.not_mem_nil, or_false] at hs hs'
    rcases hs with rfl | rfl <;> rcases hs' with rfl | rfl
    · rfl
    · exact hreq k
    · exact (hreq k).symm
    · rfl

theorem conj_comm_ok (a b : Term) (σ : Sig) (h : build (.conj [a, b]) = .ok σ) :
    ∃ σ', build (.conj [b, a]) = .ok σ' ∧
      (∀ k, k ∈ σ.required ↔ k ∈ σ'.required) ∧ (∀ k, k ∈ σ.output ↔ k ∈ σ'.output) := by
  obtain ⟨sa, sb, ha, hb, hreq, hnd, rfl⟩ := (conj2_ok_iff a b σ).1 h
  refine ⟨_, (conj2_ok_iff b a _).2 ⟨sb, sa, hb, ha, fun k => (hreq k).symm, ?_, rfl⟩, ?_, ?_⟩
  · exact (List.perm_append_comm.nodup_iff).1 hnd
  · intro k; simp only [mem_dedup, List.mem_append]; exact or_comm
  · intro k; simp only [List.mem_append]; exact or_comm

theorem conj_comm_error (a b : Term) (e : Err) (h : build (.conj [a, b]) = .error e) :
    build (.conj [b, a]) = .error e := by
  have he := build_error_value _ _ h
  subst he
  rcases build_cases (.conj [b, a]) with ⟨σ', h'⟩ | h'
  · obtain ⟨σ, hσ, _⟩ := conj_comm_ok b a σ' h'
    rw [hσ] at h; cases h
  · exact h'

theorem conj_assoc_ok_left (a b c : Term) (σ : Sig) (h : build (.conj [.conj [a, b], c]) = .ok σ) :
    ∃ σ', build (.conj [a, .conj [b, c]]) = .ok σ' ∧
      (∀ k, k ∈ σ.required ↔ k ∈ σ'.required) ∧ (∀ k, k ∈ σ.output ↔ k ∈ σ'.output) := by
  obtain ⟨sab, sc, hab, hc, hreq2, hnd2, rfl⟩ := (conj2_ok_iff _ _ σ).1 h
  obtain ⟨sa, sb, ha, hb, hreq1, hnd1, rfl⟩ := (conj2_ok_iff _ _ sab).1 hab
  simp only [mem_dedup, List.mem_append] at hreq2
  rw [List.append_assoc] at hnd2
  have hbc : build (.conj [b, c]) = .ok ⟨dedup (sb.required ++ sc.required), sb.output ++ sc.output⟩ := by
    refine (conj2_ok_iff _ _ _).2 ⟨sb, sc, hb, hc, ?_, (List.nodup_append.1 hnd2).2.1, rfl⟩
    intro k; have := hreq1 k; have := hreq2 k; grind
  refine ⟨_, (conj2_ok_iff _ _ _).2 ⟨sa, _, ha, hbc, ?_, hnd2, rfl⟩, ?_, ?_⟩
  · intro k; have := hreq1 k; have := hreq2 k
    simp only [mem_dedup, List.mem_append]; grind
  · intro k; simp only [mem_dedup, List.mem_append]; grind
  · intro k; simp only [List.mem_append]; grind

theorem conj_assoc_ok_right (a b c : Term) (σ' : Sig)
    (h : build (.conj [a, .conj [b, c]]) = .ok σ') : ∃ σ, build (.conj [.conj [a, b], c]) = .ok σ := by
  obtain ⟨sa, sbc, ha, hbc, hreq2, hnd2, rfl⟩ := (conj2_ok_iff _ _ σ').1 h
  obtain ⟨sb, sc, hb, hc, hreq1, hnd1, rfl⟩ := (conj2_ok_iff _ _ sbc).1 hbc
  simp only [mem_dedup, List.mem_append] at hreq2
  rw [← List.append_assoc] at hnd2
  have hab : build (.conj [a, b]) = .ok ⟨dedup (sa.required ++ sb.required), sa.output ++ sb.output⟩ := by
    refine (conj2_ok_iff _ _ _).2 ⟨sa, sb, ha, hb, ?_, (List.nodup_append.1 hnd2).1, rfl⟩
    intro k; have := hreq1 k; have := hreq2 k; grind
  refine ⟨_, (conj2_ok_iff _ _ _).2 ⟨_, sc, hab, hc, ?_, hnd2, rfl⟩⟩
  intro k; have := hreq1 k; have := hreq2 k
  simp only [mem_dedup, List.mem_append]; grind

/-! ### conjunction: commutativity of application -/

theorem applyList_pair_ok_iff (ks : Key → Shape) (x y : Term) (d : Dict) (rs : List Dict) :
    applyList ks [x, y] d = .ok rs ↔
      ∃ rx ry, apply ks x d = .ok rx ∧ apply ks y d = .ok ry ∧ rs = [rx, ry] := by
  simp only [applyList_cons_ok_iff, applyList_nil, Except.ok.injEq]
  constructor
  · rintro ⟨sx, _, hx, ⟨sy, _, hy, rfl, rfl⟩, rfl⟩
    exact ⟨sx, sy, hx, hy, rfl⟩
  · rintro ⟨sx, sy, hx, hy, rfl⟩
    exact ⟨sx, _, hx, ⟨sy, _, hy, rfl, rfl⟩, rfl⟩

theorem lca_comm' (a b : DType) : lca a b = lca b a := by
  cases a <;> cases b <;> rfl

theorem apply_conj_eq (ks : Key → Shape) (ts : List Term) (d : Dict) :
    apply ks (.conj ts) d = guardKeys (build (.conj ts)) d fun _ =>
      applyList ks ts d >>= fun rs => unionDicts ks rs := by
  rw [apply]

theorem conj_comm_apply' (ks : Key → Shape) (a b : Term) (d r : Dict)
    (h : apply ks (.conj [a, b]) d = .ok r) :
    ∃ r', apply ks (.conj [b, a]) d = .ok r' ∧ r'.ty = r.ty ∧ r'.entries.Perm r.entries := by
  rw [apply_conj_eq, guardKeys_ok_iff] at h
  obtain ⟨σ, hσ, hk, h⟩ := h
  rw [bind_ok_iff] at h
  obtain ⟨rs, hrs, hu⟩ := h
  obtain ⟨ra, rb, ha, hb, rfl⟩ := (applyList_pair_ok_iff ks a b d rs).1 hrs
  obtain ⟨σ', hσ', hreq, _⟩ := conj_comm_ok a b σ hσ
  have hr := unionDicts_ok _ _ _ hu
  obtain ⟨r', hr'⟩ : ∃ r', unionDicts ks [rb, ra] = .ok r' := by
    have h1 : ∃ r, mkDict ks (lca (lca .empty ra.ty) rb.ty) (ra.entries ++ (rb.entries ++ [])) = .ok r :=
      ⟨r, hu⟩
    have h2 := mkDict_ok_congr ks _ _ (rb.entries ++ (ra.entries ++ [])) (by
      intro e; simp only [List.append_nil, List.mem_append]; exact or_comm) h1
    have hty : lca (lca .empty ra.ty) rb.ty = lca (lca .empty rb.ty) ra.ty := by
      cases ra.ty <;> cases rb.ty <;> rfl
    rw [hty] at h2
    exact h2
  have hr2 := unionDicts_ok _ _ _ hr'
  refine ⟨r', ?_, ?_, ?_⟩
  · rw [apply_conj_eq, guardKeys_ok_iff]
    refine ⟨σ', hσ', fun k => (hreq k).symm.trans (hk k), ?_⟩
    rw [bind_ok_iff]
    exact ⟨[rb, ra], (applyList_pair_ok_iff ks b a d _).2 ⟨rb, ra, hb, ha, rfl⟩, hr'⟩
  · rw [hr, hr2]
    simp only [List.foldl_cons, List.foldl_nil]
    cases ra.ty <;> cases rb.ty <;> rfl
  · rw [hr, hr2]
    simp only [List.flatMap_cons, List.flatMap_nil, List.append_nil]
    exact List.perm_append_comm

end Tjd.Typing
