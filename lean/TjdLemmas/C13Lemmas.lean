/- helper lemmas for TjdProps/C13.lean -/
import TjdModel.Autojac.Liveness
namespace Tjd.Liveness

end Tjd.Liveness
