/- helper lemmas for TjdProps/C13.lean -/
import TjdModel.Autojac.Liveness
namespace Tjd.Liveness
open Tjd.Autojac (chunkRanges)

/-- the failure test of `engineCall`, on an opaque executed set -/
def fails (G : LGraph) (ex dead : List Nat) : Bool :=
  ex.any (fun n => (G.getD n ⟨false, []⟩).hasSaved && dead.contains n)

theorem fails_iff (G : LGraph) (ex dead : List Nat) :
    fails G ex dead = true ↔ ∃ n ∈ ex, (G.getD n ⟨false, []⟩).hasSaved = true ∧ n ∈ dead := by
  simp [fails, List.any_eq_true]

theorem fails_congr (G : LGraph) (ex d d' : List Nat)
    (h : ∀ n ∈ ex, (G.getD n ⟨false, []⟩).hasSaved = true → (n ∈ d ↔ n ∈ d')) :
    fails G ex d = fails G ex d' := by
  rw [Bool.eq_iff_iff, fails_iff, fails_iff]
  constructor
  · rintro ⟨n, hn, hs, hd⟩; exact ⟨n, hn, hs, (h n hn hs).1 hd⟩
  · rintro ⟨n, hn, hs, hd⟩; exact ⟨n, hn, hs, (h n hn hs).2 hd⟩

theorem engineCall_eq (G : LGraph) (dead : List Nat) (c : Call) :
    engineCall G dead c =
      if fails G (executed G c.outs c.targets) dead then none
      else if c.retain then some dead
      else some (dead ++ (executed G c.outs c.targets).filter (fun n => !dead.contains n)) := rfl

theorem mem_release (dead ex : List Nat) (n : Nat) :
    n ∈ dead ++ ex.filter (fun n => !dead.contains n) ↔ n ∈ dead ∨ n ∈ ex := by
  simp only [List.mem_append, List.mem_filter, List.contains_eq_mem, Bool.not_eq_eq_eq_not,
    Bool.not_true, decide_eq_false_iff_not]
  by_cases h : n ∈ dead <;> simp [h]

theorem engineCall_none_iff (G : LGraph) (dead : List Nat) (c : Call) :
    engineCall G dead c = none ↔ fails G (executed G c.outs c.targets) dead = true := by
  rw [engineCall_eq]
  by_cases h : fails G (executed G c.outs c.targets) dead = true
  · simp [h]
  · simp only [h, Bool.false_eq_true, if_false, iff_false]
    split <;> simp

/-- membership in the liveness state after a successful call -/
theorem engineCall_some_mem (G : LGraph) (dead d : List Nat) (c : Call)
    (h : engineCall G dead c = some d) (n : Nat) :
    n ∈ d ↔ n ∈ dead ∨ (c.retain = false ∧ n ∈ executed G c.outs c.targets) := by
  rw [engineCall_eq] at h
  by_cases hf : fails G (executed G c.outs c.targets) dead = true
  · simp [hf] at h
  · simp only [hf, Bool.false_eq_true, if_false] at h
    cases hr : c.retain with
    | true =>
      simp only [hr, if_true, Option.some.injEq] at h
      subst h; simp
    | false =>
      simp only [hr, Bool.false_eq_true, if_false, Option.some.injEq] at h
      subst h; rw [mem_release]; simp

theorem engineCall_retain_some (G : LGraph) (dead d : List Nat) (c : Call) (hr : c.retain = true)
    (h : engineCall G dead c = some d) : d = dead := by
  rw [engineCall_eq] at h
  by_cases hf : fails G (executed G c.outs c.targets) dead = true
  · simp [hf] at h
  · simp only [hf, Bool.false_eq_true, if_false, hr, if_true, Option.some.injEq] at h
    exact h.symm

theorem runCalls_append (G : LGraph) (xs ys : List Call) (d : List Nat) :
    runCalls G (xs ++ ys) d = (runCalls G xs d).bind (runCalls G ys) := by
  induction xs generalizing d with
  | nil => simp [runCalls]
  | cons c cs ih =>
    simp only [List.cons_append, runCalls]
    cases engineCall G d c with
    | none => simp
    | some d' => simpa using ih d'

theorem runCalls_single (G : LGraph) (c : Call) (d : List Nat) :
    runCalls G [c] d = engineCall G d c := by
  simp only [runCalls]
  cases engineCall G d c <;> rfl

/-- `k` retaining calls followed by one call on the same outputs/targets = that one call -/
theorem runCalls_replicate_append (G : LGraph) (o : List Nat) (t : List (Nat × Nat)) (r : Bool)
    (k : Nat) (dead : List Nat) :
    runCalls G (List.replicate k ⟨o, t, true⟩ ++ [⟨o, t, r⟩]) dead = engineCall G dead ⟨o, t, r⟩ := by
  induction k with
  | zero => simpa using runCalls_single G _ dead
  | succ k ih =>
    simp only [List.replicate_succ, List.cons_append, runCalls]
    cases h : engineCall G dead ⟨o, t, true⟩ with
    | none =>
      have h1 := (engineCall_none_iff G dead ⟨o, t, true⟩).1 h
      exact ((engineCall_none_iff G dead ⟨o, t, r⟩).2 h1).symm
    | some d =>
      have := engineCall_retain_some G dead d ⟨o, t, true⟩ rfl h
      subst this
      exact ih

theorem range_map_flag (o : List Nat) (t : List (Nat × Nat)) (r : Bool) (k : Nat) :
    (List.range (k + 1)).map (fun i => (⟨o, t, if i + 1 < k + 1 then true else r⟩ : Call)) =
      List.replicate k ⟨o, t, true⟩ ++ [⟨o, t, r⟩] := by
  apply List.ext_getElem
  · simp
  · intro i h1 h2
    simp at h1
    by_cases h : i < k
    · rw [List.getElem_append_left (by simpa using h)]
      simp [h]
    · have : i = k := by omega
      subst this
      simp

theorem chunkRanges_length_pos (m : Nat) (chunk : Option Nat) :
    ∃ k, (chunkRanges m chunk).length = k + 1 := by
  simp [chunkRanges]

theorem jacCalls_eq (o : List Nat) (t : List (Nat × Nat)) (m : Nat) (chunk : Option Nat) (r : Bool) :
    ∃ k, jacCalls o t m chunk r = List.replicate k ⟨o, t, true⟩ ++ [⟨o, t, r⟩] := by
  obtain ⟨k, hk⟩ := chunkRanges_length_pos m chunk
  refine ⟨k, ?_⟩
  simp only [jacCalls, hk]
  exact range_map_flag o t r k

/-- the chunked sweeps of `Jac` are, for liveness, one engine call -/
theorem runCalls_jacCalls (G : LGraph) (o : List Nat) (t : List (Nat × Nat)) (m : Nat)
    (chunk : Option Nat) (r : Bool) (dead : List Nat) :
    runCalls G (jacCalls o t m chunk r) dead = engineCall G dead ⟨o, t, r⟩ := by
  obtain ⟨k, hk⟩ := jacCalls_eq o t m chunk r
  rw [hk, runCalls_replicate_append]

theorem runCalls_append_jacCalls (G : LGraph) (xs : List Call) (o : List Nat) (t : List (Nat × Nat))
    (m : Nat) (chunk : Option Nat) (r : Bool) (dead : List Nat) :
    runCalls G (xs ++ jacCalls o t m chunk r) dead = runCalls G (xs ++ [⟨o, t, r⟩]) dead := by
  rw [runCalls_append, runCalls_append]
  congr 1
  funext d
  rw [runCalls_jacCalls, runCalls_single]

/-- a sequence of calls with a common flag whose executed sets pairwise share no saved node:
    it fails iff one of the calls would fail on the INITIAL state, and releases the union -/
theorem runCalls_spec (G : LGraph) (r : Bool) (calls : List Call) (dead : List Nat)
    (hr : ∀ c ∈ calls, c.retain = r)
    (hp : calls.Pairwise (fun a b => ∀ n, n ∈ executed G a.outs a.targets →
        n ∈ executed G b.outs b.targets → (G.getD n ⟨false, []⟩).hasSaved = false)) :
    (runCalls G calls dead = none ↔
        ∃ c ∈ calls, fails G (executed G c.outs c.targets) dead = true) ∧
    ∀ d, runCalls G calls dead = some d → ∀ n,
      n ∈ d ↔ n ∈ dead ∨ (r = false ∧ ∃ c ∈ calls, n ∈ executed G c.outs c.targets) := by
  induction calls generalizing dead with
  | nil =>
    simp [runCalls]
  | cons c cs ih =>
    rw [List.pairwise_cons] at hp
    have hrc : c.retain = r := hr c (List.mem_cons_self ..)
    have hrcs : ∀ c' ∈ cs, c'.retain = r := fun c' h => hr c' (List.mem_cons_of_mem _ h)
    simp only [runCalls]
    cases h : engineCall G dead c with
    | none =>
      refine ⟨⟨fun _ => ⟨c, List.mem_cons_self .., (engineCall_none_iff G dead c).1 h⟩, fun _ => rfl⟩, ?_⟩
      intro d hd; cases hd
    | some d1 =>
      have hm := engineCall_some_mem G dead d1 c h
      have hnf : ¬ fails G (executed G c.outs c.targets) dead = true := by
        intro hf
        rw [(engineCall_none_iff G dead c).2 hf] at h
        cases h
      obtain ⟨ih1, ih2⟩ := ih d1 hrcs hp.2
      have hcongr : ∀ c' ∈ cs, fails G (executed G c'.outs c'.targets) d1 =
          fails G (executed G c'.outs c'.targets) dead := by
        intro c' hc'
        apply fails_congr
        intro n hn hs
        rw [hm n]
        constructor
        · rintro (h1 | ⟨_, h2⟩)
          · exact h1
          · have := hp.1 c' hc' n h2 hn
            rw [hs] at this; cases this
        · exact Or.inl
      refine ⟨?_, ?_⟩
      · show runCalls G cs d1 = none ↔ _
        rw [ih1]
        constructor
        · rintro ⟨c', hc', hf⟩
          exact ⟨c', List.mem_cons_of_mem _ hc', by rw [← hcongr c' hc']; exact hf⟩
        · rintro ⟨c', hc', hf⟩
          rcases List.mem_cons.1 hc' with rfl | hc'
          · exact absurd hf hnf
          · exact ⟨c', hc', by rw [hcongr c' hc']; exact hf⟩
      · intro d hd n
        rw [ih2 d hd n, hm n, hrc]
        constructor
        · rintro ((h1 | ⟨h2, h3⟩) | ⟨h2, c', hc', h3⟩)
          · exact Or.inl h1
          · exact Or.inr ⟨h2, c, List.mem_cons_self .., h3⟩
          · exact Or.inr ⟨h2, c', List.mem_cons_of_mem _ hc', h3⟩
        · rintro (h1 | ⟨h2, c', hc', h3⟩)
          · exact Or.inl (Or.inl h1)
          · rcases List.mem_cons.1 hc' with rfl | hc'
            · exact Or.inl (Or.inr ⟨h2, h3⟩)
            · exact Or.inr ⟨h2, c', hc', h3⟩

/-- the calls of `mtl_backward` with each `Jac` collapsed to one engine call -/
def mtlCalls' (tasks : List (Nat × List (Nat × Nat))) (features shared : List (Nat × Nat))
    (retain : Bool) : List Call :=
  (tasks.map fun t => (⟨[t.1], t.2 ++ features, retain⟩ : Call)) ++
    (if shared.isEmpty then [] else [⟨features.map (·.1), shared, retain⟩])

theorem runCalls_mtlCalls (G : LGraph) (tasks : List (Nat × List (Nat × Nat)))
    (features shared : List (Nat × Nat)) (chunk : Option Nat) (retain : Bool) (dead : List Nat) :
    runCalls G (mtlCalls tasks features shared chunk retain) dead =
      runCalls G (mtlCalls' tasks features shared retain) dead := by
  unfold mtlCalls mtlCalls'
  split
  · rfl
  · exact runCalls_append_jacCalls ..

theorem mtlCalls'_retain (tasks : List (Nat × List (Nat × Nat))) (features shared : List (Nat × Nat))
    (retain : Bool) : ∀ c ∈ mtlCalls' tasks features shared retain, c.retain = retain := by
  intro c hc
  unfold mtlCalls' at hc
  rw [List.mem_append] at hc
  rcases hc with hc | hc
  · obtain ⟨t, _, rfl⟩ := List.mem_map.1 hc; rfl
  · split at hc
    · cases hc
    · rw [List.mem_singleton] at hc; subst hc; rfl

theorem mtlCalls'_mem_ex (G : LGraph) (tasks : List (Nat × List (Nat × Nat)))
    (features shared : List (Nat × Nat)) (retain : Bool) (P : List Nat → Prop) :
    (∃ c ∈ mtlCalls' tasks features shared retain, P (executed G c.outs c.targets)) ↔
      (∃ t ∈ tasks, P (executed G [t.1] (t.2 ++ features))) ∨
      (shared ≠ [] ∧ P (executed G (features.map (·.1)) shared)) := by
  unfold mtlCalls'
  constructor
  · rintro ⟨c, hc, hn⟩
    rw [List.mem_append] at hc
    rcases hc with hc | hc
    · obtain ⟨t, ht, rfl⟩ := List.mem_map.1 hc
      exact Or.inl ⟨t, ht, hn⟩
    · split at hc
      · cases hc
      · next hs =>
        rw [List.mem_singleton] at hc; subst hc
        exact Or.inr ⟨by simpa using hs, hn⟩
  · rintro (⟨t, ht, hn⟩ | ⟨hs, hn⟩)
    · exact ⟨_, List.mem_append_left _ (List.mem_map.2 ⟨t, ht, rfl⟩), hn⟩
    · refine ⟨⟨features.map (·.1), shared, retain⟩, List.mem_append_right _ ?_, hn⟩
      have : shared.isEmpty = false := by simpa using hs
      simp [this]

theorem mtlCalls'_pairwise (G : LGraph) (tasks : List (Nat × List (Nat × Nat)))
    (features shared : List (Nat × Nat)) (retain : Bool)
    (hdisj : ∀ i j, i < j → j < tasks.length → ∀ n,
        n ∈ executed G [(tasks.getD i (0, [])).1] ((tasks.getD i (0, [])).2 ++ features) →
        n ∈ executed G [(tasks.getD j (0, [])).1] ((tasks.getD j (0, [])).2 ++ features) →
        (G.getD n ⟨false, []⟩).hasSaved = false)
    (hdisj' : ∀ t ∈ tasks, ∀ n, n ∈ executed G [t.1] (t.2 ++ features) →
        n ∈ executed G (features.map (·.1)) shared → (G.getD n ⟨false, []⟩).hasSaved = false) :
    (mtlCalls' tasks features shared retain).Pairwise (fun a b => ∀ n,
      n ∈ executed G a.outs a.targets → n ∈ executed G b.outs b.targets →
        (G.getD n ⟨false, []⟩).hasSaved = false) := by
  unfold mtlCalls'
  rw [List.pairwise_append]
  refine ⟨?_, ?_, ?_⟩
  · rw [List.pairwise_map, List.pairwise_iff_getElem]
    intro i j hi hj hij n h1 h2
    have := hdisj i j hij hj n
    have hi' : i < tasks.length := hi
    simp only [List.getD_eq_getElem?_getD, List.getElem?_eq_getElem hi', List.getElem?_eq_getElem hj,
      Option.getD_some] at this
    exact this h1 h2
  · split
    · exact List.Pairwise.nil
    · exact List.pairwise_singleton _ _
  · intro a ha b hb n h1 h2
    obtain ⟨t, ht, rfl⟩ := List.mem_map.1 ha
    split at hb
    · cases hb
    · rw [List.mem_singleton] at hb; subst hb
      exact hdisj' t ht n h1 h2

theorem mtl_main (G : LGraph) (dead : List Nat)
    (tasks : List (Nat × List (Nat × Nat))) (features shared : List (Nat × Nat))
    (chunk : Option Nat) (retain : Bool)
    (hdisj : ∀ i j, i < j → j < tasks.length → ∀ n,
        n ∈ executed G [(tasks.getD i (0, [])).1] ((tasks.getD i (0, [])).2 ++ features) →
        n ∈ executed G [(tasks.getD j (0, [])).1] ((tasks.getD j (0, [])).2 ++ features) →
        (G.getD n ⟨false, []⟩).hasSaved = false)
    (hdisj' : ∀ t ∈ tasks, ∀ n, n ∈ executed G [t.1] (t.2 ++ features) →
        n ∈ executed G (features.map (·.1)) shared → (G.getD n ⟨false, []⟩).hasSaved = false)
    (hcut : ∀ n, n ∈ executed G (tasks.map (·.1)) (shared ++ tasks.flatMap (·.2)) ↔
        (∃ t ∈ tasks, n ∈ executed G [t.1] (t.2 ++ features)) ∨
        (shared ≠ [] ∧ n ∈ executed G (features.map (·.1)) shared)) :
    ((engineCall G dead ⟨tasks.map (·.1), shared ++ tasks.flatMap (·.2), retain⟩).isSome =
      (runCalls G (mtlCalls tasks features shared chunk retain) dead).isSome) ∧
    ∀ dj ds, engineCall G dead ⟨tasks.map (·.1), shared ++ tasks.flatMap (·.2), retain⟩ = some dj →
      runCalls G (mtlCalls tasks features shared chunk retain) dead = some ds →
      ∀ n, n ∈ dj ↔ n ∈ ds := by
  rw [runCalls_mtlCalls]
  obtain ⟨s1, s2⟩ := runCalls_spec G retain (mtlCalls' tasks features shared retain) dead
    (mtlCalls'_retain tasks features shared retain)
    (mtlCalls'_pairwise G tasks features shared retain hdisj hdisj')
  have hex : ∀ n, (∃ c ∈ mtlCalls' tasks features shared retain, n ∈ executed G c.outs c.targets) ↔
      n ∈ executed G (tasks.map (·.1)) (shared ++ tasks.flatMap (·.2)) := by
    intro n
    rw [hcut n]
    exact mtlCalls'_mem_ex G tasks features shared retain (fun l => n ∈ l)
  have hnone : engineCall G dead ⟨tasks.map (·.1), shared ++ tasks.flatMap (·.2), retain⟩ = none ↔
      runCalls G (mtlCalls' tasks features shared retain) dead = none := by
    rw [s1, engineCall_none_iff, fails_iff]
    constructor
    · rintro ⟨n, hn, hs, hd⟩
      obtain ⟨c, hc, hnc⟩ := (hex n).2 hn
      exact ⟨c, hc, (fails_iff ..).2 ⟨n, hnc, hs, hd⟩⟩
    · rintro ⟨c, hc, hf⟩
      obtain ⟨n, hnc, hs, hd⟩ := (fails_iff ..).1 hf
      exact ⟨n, (hex n).1 ⟨c, hc, hnc⟩, hs, hd⟩
  refine ⟨?_, ?_⟩
  · cases hj : engineCall G dead ⟨tasks.map (·.1), shared ++ tasks.flatMap (·.2), retain⟩ with
    | none => rw [hnone.1 hj]
    | some dj =>
      cases hs : runCalls G (mtlCalls' tasks features shared retain) dead with
      | none => rw [hnone.2 hs] at hj; cases hj
      | some ds => rfl
  · intro dj ds hj hs n
    rw [engineCall_some_mem G dead dj _ hj n, s2 ds hs n, hex n]

end Tjd.Liveness
