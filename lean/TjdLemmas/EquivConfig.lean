/- helper lemmas about ConFIG (C08 row span, C09 linear under scaling) -/
import TjdLemmas.EquivC08
namespace Tjd.Agg.Eqv
open Tjd Matrix
set_option linter.unusedSectionVars false
set_option linter.unusedSimpArgs false
set_option linter.unusedVariables false

variable {α : Type} [Field α] [LinearOrder α] [IsStrictOrderedRing α]

theorem solve_length (A : Mat α) (b : Vec α) (n : Nat) (x : Vec α) (h : solve A b n = some x) :
    x.length = n := by
  unfold solve at h
  simp only at h
  split at h
  · simp at h
  · simp only [Option.some.injEq] at h
    subst h
    simp

/-- the matrix of unit rows used by ConFIG -/
def unitRows (J : Mat α) (d : Vec α) : Mat α := List.zipWith (fun row di => row.map (· / di)) J d

theorem unitRows_matWF (J : Mat α) (m n : Nat) (hJ : MatWF J m n) (d : Vec α) (hd : d.length = m) :
    MatWF (unitRows J d) m n := by
  refine ⟨by simp [unitRows, hJ.1, hd], ?_⟩
  intro row hrow
  obtain ⟨i, hi, rfl⟩ := List.mem_iff_getElem.mp hrow
  simp only [unitRows, List.getElem_zipWith, List.length_map]
  exact hJ.2 _ (List.getElem_mem _)

theorem unitRows_getD (J : Mat α) (m n : Nat) (hJ : MatWF J m n) (d : Vec α) (hd : d.length = m)
    (i j : Nat) (hi : i < m) (hj : j < n) :
    ((unitRows J d).getD i []).getD j 0 = (J.getD i []).getD j 0 / d.getD i 0 := by
  have hiJ : i < J.length := by rw [hJ.1]; exact hi
  have hid : i < d.length := by rw [hd]; exact hi
  have hr := getD_row_length J m n hJ i hi
  rw [getD_eq_getElem' J [] i hiJ] at hr ⊢
  rw [getD_eq_getElem' _ [] i (by simp [unitRows, hiJ, hid])]
  simp only [unitRows, List.getElem_zipWith]
  rw [getD_eq_getElem' d 0 i hid, getD_eq_getElem' _ 0 j (by simp [hr, hj]),
    getD_eq_getElem' _ 0 j (by rw [hr]; exact hj), List.getElem_map]

theorem configVec_cases (J : Mat α) (d w : Vec α) (n : Nat) (x : Vec α)
    (h : configVec J d w n = some x) :
    ∃ y : Vec α, solve (gram (unitRows J d)) w w.length = some y ∧
      matVec (gram (unitRows J d)) y = w ∧
      ((dot (combine n (unitRows J d) y) (combine n (unitRows J d) y) = 0 ∧ x = zeros n) ∨
       (dot (combine n (unitRows J d) y) (combine n (unitRows J d) y) ≠ 0 ∧
        x = smul ((J.map fun row => dot row (combine n (unitRows J d) y)).sum /
              dot (combine n (unitRows J d) y) (combine n (unitRows J d) y))
            (combine n (unitRows J d) y))) := by
  unfold configVec at h
  simp only at h
  split at h
  · simp at h
  · rename_i y hy
    refine ⟨y, hy, ?_⟩
    split_ifs at h with h1 h2
    · exact ⟨h1, Or.inl ⟨h2, (Option.some.inj h).symm⟩⟩
    · exact ⟨h1, Or.inr ⟨h2, (Option.some.inj h).symm⟩⟩

theorem combine_zeros (J : Mat α) (m n : Nat) (hJ : MatWF J m n) :
    combine n J (zeros m) = zeros n := by
  apply vec_ext n _ _ (combine_length n J hJ.2 _) (zeros_length n)
  intro k hk
  rw [combine_getD J m n hJ _ (zeros_length m) k hk, zeros_getD]
  apply Finset.sum_eq_zero
  intro i _
  rw [zeros_getD, zero_mul]

theorem config_rowspan (J : Mat α) (m n : Nat) (hJ : MatWF J m n) (d w : Vec α)
    (hd : d.length = m) (x : Vec α) (h : configVec J d w n = some x) :
    ∃ c : Vec α, c.length = m ∧ x = combine n J c := by
  obtain ⟨y, hy, hcheck, hx⟩ := configVec_cases J d w n x h
  have hU := unitRows_matWF J m n hJ d hd
  rcases hx with ⟨_, rfl⟩ | ⟨_, rfl⟩
  · exact ⟨zeros m, zeros_length m, (combine_zeros J m n hJ).symm⟩
  · have hwl : w.length = m := by
      rw [← hcheck, matVec_length, gram_length, hU.1]
    have hyl : y.length = m := by rw [solve_length _ _ _ _ hy, hwl]
    generalize (J.map fun row => dot row (combine n (unitRows J d) y)).sum /
      dot (combine n (unitRows J d) y) (combine n (unitRows J d) y) = k
    refine ⟨(List.range m).map fun i => k * y.getD i 0 / d.getD i 0, by simp, ?_⟩
    apply vec_ext n _ _ (by rw [smul_length]; exact combine_length n _ hU.2 y)
      (combine_length n J hJ.2 _)
    intro j hj
    rw [smul_getD, combine_getD _ m n hU y hyl j hj, combine_getD J m n hJ _ (by simp) j hj,
      Finset.mul_sum]
    apply Finset.sum_congr rfl
    intro i _
    rw [unitRows_getD J m n hJ d hd i j i.2 hj, map_range_getD _ m i i.2]
    ring

end Tjd.Agg.Eqv
