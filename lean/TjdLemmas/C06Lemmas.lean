/- helper lemmas for TjdProps/C06.lean -/
import Mathlib.Algebra.Ring.Defs
import Mathlib.Logic.Function.Iterate
import TjdModel.Autojac.Heap
import TjdModel.Autojac.MtlSpec
namespace Tjd.Autojac

section heap
variable {α : Type} [Add α]

theorem accumulateH_nil (c : Bool) (H : Heap α) : accumulateH c [] H = H := rfl

theorem accumulateH_cons (c : Bool) (e : Key × Sid × Vec α) (g : List (Key × Sid × Vec α))
    (H : Heap α) : accumulateH c (e :: g) H = accumulateH c g (accumulateH c [e] H) := rfl

omit [Add α] in
/-- a heap whose live `.grad`s are (storage-wise) among those of an unaliased heap is unaliased -/
theorem Heap.Unaliased.of_sub {H H' : Heap α} (hU : H.Unaliased)
    (hsub : ∀ j s v, H'.grad j = some (s, v) → ∃ v', H.grad j = some (s, v'))
    (hn : H.next ≤ H'.next) : H'.Unaliased := by
  refine ⟨?_, ?_⟩
  · intro j k s v s' v' hj hk hs
    obtain ⟨w, hw⟩ := hsub j s v hj
    obtain ⟨w', hw'⟩ := hsub k s' v' hk
    exact hU.1 j k s w s' w' hw hw' hs
  · intro j s v hj
    obtain ⟨w, hw⟩ := hsub j s v hj
    exact Nat.lt_of_lt_of_le (hU.2 j s w hw) hn

/-- one accumulation step when the key already has a `.grad` -/
theorem step_some (H : Heap α) (hU : H.Unaliased) (e : Key × Sid × Vec α) (s : Sid) (old : Vec α)
    (he : H.grad e.1 = some (s, old)) :
    (accumulateH true [e] H).next = H.next ∧
    ∀ j, (accumulateH true [e] H).grad j =
      if j = e.1 then some (s, vadd old e.2.2) else H.grad j := by
  unfold accumulateH
  simp only [List.foldl_cons, List.foldl_nil, he]
  refine ⟨trivial, ?_⟩
  intro j
  by_cases hj : j = e.1
  · simp [hj]
  · simp only [hj, if_false]
    cases hjg : H.grad j with
    | none => rfl
    | some q =>
      obtain ⟨s', v⟩ := q
      have : s' ≠ s := fun h => hj (hU.1 j e.1 s' v s old hjg he h)
      simp [this]

/-- one accumulation step when the key has no `.grad` -/
theorem step_none (H : Heap α) (e : Key × Sid × Vec α) (he : H.grad e.1 = none) :
    (accumulateH true [e] H).next = H.next + 1 ∧
    ∀ j, (accumulateH true [e] H).grad j =
      if j = e.1 then some (H.next, e.2.2) else H.grad j := by
  unfold accumulateH
  simp only [List.foldl_cons, List.foldl_nil, he]
  exact ⟨rfl, fun _ => rfl⟩

theorem step_unaliased (H : Heap α) (hU : H.Unaliased) (e : Key × Sid × Vec α) :
    (accumulateH true [e] H).Unaliased := by
  cases he : H.grad e.1 with
  | some p =>
    obtain ⟨s, old⟩ := p
    obtain ⟨hn, hg⟩ := step_some H hU e s old he
    refine hU.of_sub ?_ (by rw [hn]; exact Nat.le_refl _)
    intro j s' v hj
    rw [hg] at hj
    by_cases hje : j = e.1
    · simp only [hje, if_true, Option.some.injEq, Prod.mk.injEq] at hj
      exact ⟨old, by rw [hje, he, hj.1]⟩
    · simp only [hje, if_false] at hj
      exact ⟨v, hj⟩
  | none =>
    obtain ⟨hn, hg⟩ := step_none H e he
    refine ⟨?_, ?_⟩
    · intro j k s v s' v' hj hk hs
      rw [hg] at hj hk
      by_cases hje : j = e.1 <;> by_cases hke : k = e.1
      · rw [hje, hke]
      · simp only [hje, hke, if_true, if_false, Option.some.injEq, Prod.mk.injEq] at hj hk
        have := hU.2 k s' v' hk
        obtain ⟨h1, -⟩ := hj
        subst hs; subst h1
        exact absurd this (Nat.lt_irrefl _)
      · simp only [hje, hke, if_true, if_false, Option.some.injEq, Prod.mk.injEq] at hj hk
        have := hU.2 j s v hj
        obtain ⟨h1, -⟩ := hk
        subst hs; subst h1
        exact absurd this (Nat.lt_irrefl _)
      · simp only [hje, hke, if_false] at hj hk
        exact hU.1 j k s v s' v' hj hk hs
    · intro j s v hj
      rw [hg] at hj
      rw [hn]
      by_cases hje : j = e.1
      · simp only [hje, if_true, Option.some.injEq, Prod.mk.injEq] at hj
        rw [← hj.1]; exact Nat.lt_succ_self _
      · simp only [hje, if_false] at hj
        exact Nat.lt_succ_of_lt (hU.2 j s v hj)

theorem step_next_le (H : Heap α) (hU : H.Unaliased) (e : Key × Sid × Vec α) :
    H.next ≤ (accumulateH true [e] H).next := by
  cases he : H.grad e.1 with
  | some p =>
    obtain ⟨s, old⟩ := p
    rw [(step_some H hU e s old he).1]; exact Nat.le_refl _
  | none => rw [(step_none H e he).1]; exact Nat.le_succ _

theorem step_frame (H : Heap α) (hU : H.Unaliased) (e : Key × Sid × Vec α) (k : Key)
    (hk : k ≠ e.1) : (accumulateH true [e] H).grad k = H.grad k := by
  cases he : H.grad e.1 with
  | some p =>
    obtain ⟨s, old⟩ := p
    rw [(step_some H hU e s old he).2]; simp [hk]
  | none => rw [(step_none H e he).2]; simp [hk]

/-- abstract view of one step -/
theorem step_abs (H : Heap α) (hU : H.Unaliased) (e : Key × Sid × Vec α) (k : Key) :
    (accumulateH true [e] H).abs k = if k = e.1 then accum (H.abs k) e.2.2 else H.abs k := by
  unfold Heap.abs
  cases he : H.grad e.1 with
  | some p =>
    obtain ⟨s, old⟩ := p
    rw [(step_some H hU e s old he).2]
    by_cases hk : k = e.1
    · simp [hk, he, accum]
    · simp [hk]
  | none =>
    rw [(step_none H e he).2]
    by_cases hk : k = e.1
    · simp [hk, he, accum]
    · simp [hk]

theorem accumulateH_unaliased (g : List (Key × Sid × Vec α)) (H : Heap α) (hU : H.Unaliased) :
    (accumulateH true g H).Unaliased := by
  induction g generalizing H with
  | nil => exact hU
  | cons e g ih => rw [accumulateH_cons]; exact ih _ (step_unaliased H hU e)

theorem accumulateH_next_le (g : List (Key × Sid × Vec α)) (H : Heap α) (hU : H.Unaliased) :
    H.next ≤ (accumulateH true g H).next := by
  induction g generalizing H with
  | nil => exact Nat.le_refl _
  | cons e g ih =>
    rw [accumulateH_cons]
    exact Nat.le_trans (step_next_le H hU e) (ih _ (step_unaliased H hU e))

theorem accumulateH_frame (g : List (Key × Sid × Vec α)) (H : Heap α) (hU : H.Unaliased) (k : Key)
    (hk : k ∉ g.map (·.1)) : (accumulateH true g H).grad k = H.grad k := by
  induction g generalizing H with
  | nil => rfl
  | cons e g ih =>
    simp only [List.map_cons, List.mem_cons, not_or] at hk
    rw [accumulateH_cons, ih _ (step_unaliased H hU e) hk.2]
    exact step_frame H hU e k hk.1

theorem accumulateH_keeps_storage (g : List (Key × Sid × Vec α)) (H : Heap α) (hU : H.Unaliased)
    (k : Key) (s : Sid) (v : Vec α) (hk : H.grad k = some (s, v)) :
    ∃ v', (accumulateH true g H).grad k = some (s, v') := by
  induction g generalizing H v with
  | nil => exact ⟨v, hk⟩
  | cons e g ih =>
    rw [accumulateH_cons]
    by_cases hke : k = e.1
    · have he : H.grad e.1 = some (s, v) := hke ▸ hk
      have h1 : (accumulateH true [e] H).grad k = some (s, vadd v e.2.2) := by
        rw [(step_some H hU e s v he).2]; simp [hke]
      exact ih _ (step_unaliased H hU e) _ h1
    · have h1 : (accumulateH true [e] H).grad k = some (s, v) := by
        rw [step_frame H hU e k hke]; exact hk
      exact ih _ (step_unaliased H hU e) _ h1

theorem accumulateH_created_fresh (g : List (Key × Sid × Vec α)) (H : Heap α) (hU : H.Unaliased)
    (e : Key × Sid × Vec α) (he : e ∈ g) (hnone : H.grad e.1 = none) :
    ∃ s v, (accumulateH true g H).grad e.1 = some (s, v) ∧ H.next ≤ s := by
  induction g generalizing H with
  | nil => cases he
  | cons e0 g ih =>
    rw [accumulateH_cons]
    have hU1 := step_unaliased H hU e0
    by_cases hk : e.1 = e0.1
    · have h0 : H.grad e0.1 = none := hk ▸ hnone
      have h1 : (accumulateH true [e0] H).grad e.1 = some (H.next, e0.2.2) := by
        rw [(step_none H e0 h0).2]; simp [hk]
      obtain ⟨v', hv'⟩ := accumulateH_keeps_storage g _ hU1 e.1 _ _ h1
      exact ⟨H.next, v', hv', Nat.le_refl _⟩
    · have heg : e ∈ g := by
        rcases List.mem_cons.1 he with h | h
        · exact absurd (by rw [h]) hk
        · exact h
      have h1 : (accumulateH true [e0] H).grad e.1 = none := by
        rw [step_frame H hU e0 e.1 hk]; exact hnone
      obtain ⟨s, v, hsv, hle⟩ := ih _ hU1 heg h1
      exact ⟨s, v, hsv, Nat.le_trans (step_next_le H hU e0) hle⟩

theorem accumulateH_abs (g : List (Key × Sid × Vec α)) (H : Heap α) (hU : H.Unaliased)
    (hnd : (g.map (·.1)).Nodup) (k : Key) :
    (accumulateH true g H).abs k =
      match g.find? (·.1 == k) with
      | some e => accum (H.abs k) e.2.2
      | none => H.abs k := by
  induction g generalizing H with
  | nil => rfl
  | cons e g ih =>
    simp only [List.map_cons, List.nodup_cons] at hnd
    rw [accumulateH_cons, ih _ (step_unaliased H hU e) hnd.2, step_abs H hU e k]
    by_cases hk : k = e.1
    · subst hk
      have hnf : g.find? (·.1 == e.1) = none := by
        rw [List.find?_eq_none]
        intro x hx hxe
        exact hnd.1 (List.mem_map.2 ⟨x, hx, by simpa using hxe⟩)
      simp [hnf]
    · have hne : (e.1 == k) = false := by simpa using fun h => hk h.symm
      simp [hne, hk]

omit [Add α] in
/-- an in-place write through the storage of `j` on an unaliased heap -/
theorem write_through_frame (H : Heap α) (hU : H.Unaliased) (j k : Key) (hjk : j ≠ k) (s : Sid)
    (v : Vec α) (hj : H.grad j = some (s, v)) (f : Vec α → Vec α) :
    ({ H with grad := fun i => match H.grad i with
                        | some (s', w) => if s' = s then some (s', f w) else some (s', w)
                        | none => none } : Heap α).grad k = H.grad k ∧
    ({ H with grad := fun i => match H.grad i with
                        | some (s', w) => if s' = s then some (s', f w) else some (s', w)
                        | none => none } : Heap α).Unaliased := by
  refine ⟨?_, hU.of_sub ?_ (Nat.le_refl _)⟩
  · simp only
    cases hkg : H.grad k with
    | none => rfl
    | some q =>
      obtain ⟨s', w⟩ := q
      have : s' ≠ s := fun h => hjk (hU.1 j k s v s' w hj hkg h.symm)
      simp [this]
  · intro i s1 v1 hi
    simp only at hi
    cases hig : H.grad i with
    | none => rw [hig] at hi; cases hi
    | some q =>
      obtain ⟨s', w⟩ := q
      rw [hig] at hi
      simp only at hi
      split at hi <;>
        (simp only [Option.some.injEq, Prod.mk.injEq] at hi; exact ⟨w, by rw [← hi.1]⟩)

theorem user_frame [Zero α] (H : Heap α) (hU : H.Unaliased) (op : UserOp α) (k : Key)
    (hk : match op with | .zero j => j ≠ k | .setNone j => j ≠ k | .addConst j _ => j ≠ k) :
    (H.user op).grad k = H.grad k ∧ (H.user op).Unaliased := by
  cases op with
  | zero j =>
    simp only at hk
    simp only [Heap.user]
    cases hj : H.grad j with
    | none => exact ⟨rfl, hU⟩
    | some p =>
      obtain ⟨s, v⟩ := p
      exact write_through_frame H hU j k hk s v hj _
  | setNone j =>
    simp only at hk
    simp only [Heap.user]
    refine ⟨?_, hU.of_sub ?_ (Nat.le_refl _)⟩
    · have : ¬ k = j := fun h => hk h.symm
      simp [this]
    · intro i s v hi
      simp only at hi
      split at hi
      · cases hi
      · exact ⟨v, hi⟩
  | addConst j c =>
    simp only at hk
    simp only [Heap.user]
    cases hj : H.grad j with
    | none => exact ⟨rfl, hU⟩
    | some p =>
      obtain ⟨s, v⟩ := p
      exact write_through_frame H hU j k hk s v hj _

end heap

section abstract
variable {α : Type}

theorem accFold_frame [Add α] (g : GDict α) (h : Grads α) (k : Key) (hk : k ∉ g.map (·.1)) :
    (g.foldl (fun (h : Grads α) (kv : Key × Vec α) =>
        match h kv.1 with
        | some old => h.set kv.1 (some (vadd old kv.2))
        | none => h.set kv.1 (some kv.2)) h) k = h k := by
  induction g generalizing h with
  | nil => rfl
  | cons kv g ih =>
    simp only [List.map_cons, List.mem_cons, not_or] at hk
    rw [List.foldl_cons, ih _ hk.2]
    cases hh : h kv.1 <;> simp [Grads.set, hk.1]

theorem accumulateT_frame [Add α] (E : Engine α) (g : GDict α) (h : Grads α) (k : Key)
    (hk : k ∉ g.map (·.1)) : (accumulateT E g h).1 k = h k := by
  unfold accumulateT
  split
  · exact accFold_frame g h k hk
  · rfl

theorem aggregateT_keys (E : Engine α) (A : Mat α → Except Err (Vec α)) (ko : List Key)
    (j : JDict α) (g : GDict α) (h : aggregateT E A ko j = .ok g) :
    ∀ k ∈ g.map (·.1), k ∈ ko := by
  unfold aggregateT at h
  split at h
  · injection h with h; subst h; simp
  · dsimp only at h
    generalize A _ = r at h
    cases r with
    | error e => simp [bind, Except.bind] at h
    | ok v =>
      simp only [bind, Except.bind] at h
      split at h
      · simp [throw, throwThe, MonadExceptOf.throw] at h
      · simp only [pure, Except.pure, Except.ok.injEq] at h
        subst h
        intro k hk
        obtain ⟨kv, hkv, rfl⟩ := List.mem_map.1 hk
        exact (List.of_mem_zip hkv).1

theorem selectT_keys {β : Type} (keys : List Key) (d : List (Key × β)) :
    ∀ k ∈ (selectT keys d).map (·.1), k ∈ keys := by
  intro k hk
  obtain ⟨kv, hkv, rfl⟩ := List.mem_map.1 hk
  unfold selectT at hkv
  obtain ⟨k', hk', hf⟩ := List.mem_filterMap.1 hkv
  have := List.find?_some hf
  simp only [beq_iff_eq] at this
  rw [this]; exact hk'

theorem iterate_accum [Add α] (f : Grads α → Grads α) (inputs : List Key) (sl : Key → Vec α)
    (hf : ∀ g k, f g k = if k ∈ inputs then accum (g k) (sl k) else g k) (n : Nat) (h : Grads α)
    (k : Key) :
    (Nat.iterate f n h) k =
      if k ∈ inputs then Nat.iterate (fun g => accum g (sl k)) n (h k) else h k := by
  induction n generalizing h with
  | zero => simp
  | succ n ih =>
    rw [Function.iterate_succ_apply, ih (f h), Function.iterate_succ_apply, hf h k]
    by_cases hk : k ∈ inputs <;> simp [hk]

variable [Zero α] [Add α] [Mul α] [One α]

theorem taskT_frame (E : Engine α) (features tp : List Key) (loss : Key) (h : Grads α) (k : Key)
    (hk : k ∉ tp) : (taskT E features tp loss h).1 k = h k := by
  unfold taskT
  dsimp only
  split
  · rfl
  · next g hg =>
    have := accumulateT_frame E (selectT tp g) h k (fun hm => hk (selectT_keys tp g k hm))
    rcases hacc : accumulateT E (selectT tp g) h with ⟨h', err⟩
    rw [hacc] at this
    cases err <;> simpa using this

theorem runTasks_frame (E : Engine α) (features : List Key) (tasks : List (List Key × Key))
    (h : Grads α) (k : Key) (hk : ∀ tl ∈ tasks, k ∉ tl.1) :
    (runTasks E features tasks h).1 k = h k := by
  induction tasks generalizing h with
  | nil => rfl
  | cons tl rest ih =>
    obtain ⟨tp, loss⟩ := tl
    have h1 := taskT_frame E features tp loss h k (hk (tp, loss) List.mem_cons_self)
    have h2 := fun h' => ih h' (fun tl htl => hk tl (List.mem_cons_of_mem _ htl))
    unfold runTasks
    rcases ht : taskT E features tp loss h with ⟨h1', r⟩
    rw [ht] at h1
    cases r with
    | error e => simpa using h1
    | ok d =>
      simp only at h1 ⊢
      specialize h2 h1'
      rcases hr : runTasks E features rest h1' with ⟨h2', r2⟩
      rw [hr] at h2
      cases r2 <;> simp only at h2 ⊢ <;> rw [h2, h1]

theorem backward_go_frame (E : Engine α) (tensors inputs : List Key)
    (A : Mat α → Except Err (Vec α)) (retain : Bool) (h : Grads α) (chunk : Option Nat) (k : Key)
    (hk : k ∉ inputs) : (backward.go E tensors inputs A retain h chunk).grads k = h k := by
  unfold backward.go
  split
  · rfl
  split
  · rfl
  dsimp only
  split
  · rfl
  · split
    · rfl
    · next g1 hg1 =>
      exact accumulateT_frame E g1 h k (fun hm => hk (aggregateT_keys E A inputs _ g1 hg1 k hm))

theorem backward_frame' (E : Engine α) (tensors inputs : List Key) (A : Mat α → Except Err (Vec α))
    (chunk : Option Int) (retain : Bool) (h : Grads α) (k : Key) (hk : k ∉ inputs) :
    (backward E tensors inputs A chunk retain h).grads k = h k := by
  unfold backward
  split
  · split
    · rfl
    · exact backward_go_frame E tensors inputs A retain h _ k hk
  · exact backward_go_frame E tensors inputs A retain h _ k hk

theorem mtl_frame' (E : Engine α) (ndim : Key → Nat) (losses features : List Key)
    (tps : List (List Key)) (shared : List Key) (A : Mat α → Except Err (Vec α))
    (chunk : Option Int) (retain : Bool) (h : Grads α) (k : Key)
    (hk : k ∉ shared) (hk' : k ∉ tps.flatten) :
    (mtlBackward E ndim losses features tps shared A chunk retain h).grads k = h k := by
  have hrt : (runTasks E features (List.zip tps losses) h).1 k = h k :=
    runTasks_frame E features _ h k (by
      intro tl htl hmem
      obtain ⟨tp, l⟩ := tl
      exact hk' (List.mem_flatten.2 ⟨tp, (List.of_mem_zip htl).1, hmem⟩))
  have key : ∀ chunkN : Option Nat,
      (match runTasks E features (List.zip tps losses) h with
        | (h1, .error e) => (⟨h1, some e, []⟩ : Outcome α)
        | (h1, .ok ds) =>
          match jacT E features shared chunkN retain (stackT E ds) with
          | .error e => ⟨h1, some e, []⟩
          | .ok (j1, sweeps) =>
            match aggregateT E A shared j1 with
            | .error e => ⟨h1, some e, sweeps⟩
            | .ok g1 => ⟨(accumulateT E g1 h1).1, (accumulateT E g1 h1).2, sweeps⟩).grads k = h k := by
    intro chunkN
    rcases hr : runTasks E features (List.zip tps losses) h with ⟨h1, r⟩
    rw [hr] at hrt
    simp only at hrt
    cases r with
    | error e => exact hrt
    | ok ds =>
      simp only
      split
      · exact hrt
      · split
        · exact hrt
        · next g1 hg1 =>
          rw [← hrt]
          exact accumulateT_frame E g1 h1 k
            (fun hm => hk (aggregateT_keys E A shared _ g1 hg1 k hm))
  unfold mtlBackward
  dsimp only
  repeat (first | rfl | exact key _ | split)

end abstract

end Tjd.Autojac
