/- helper lemmas for TjdProps/C06.lean -/
import Mathlib.Algebra.Ring.Defs
import TjdModel.Autojac.Heap
import TjdModel.Autojac.MtlSpec
namespace Tjd.Autojac

end Tjd.Autojac
