/- helper lemmas for TjdProps/C09.lean: positive row scaling -/
import TjdLemmas.EquivConfig
namespace Tjd.Agg.Eqv
open Tjd Matrix
set_option linter.unusedSectionVars false
set_option linter.unusedSimpArgs false
set_option linter.unusedVariables false

variable {α : Type} [Field α] [LinearOrder α] [IsStrictOrderedRing α]

theorem zipWith_smul_scaleRows : ∀ (c w : Vec α) (J : Mat α),
    List.zipWith smul w (List.zipWith smul c J) = List.zipWith smul (List.zipWith (· * ·) c w) J
  | [], w, J => by simp
  | _ :: _, [], J => by simp
  | _ :: _, _ :: _, [] => by simp
  | a :: c, b :: w, r :: J => by
    simp only [List.zipWith_cons_cons, zipWith_smul_scaleRows c w J, smul_smul', mul_comm]

theorem combine_scaleRows' (J : Mat α) (n : Nat) (c w : Vec α) :
    combine n (scaleRows c J) w = combine n J (List.zipWith (· * ·) c w) := by
  rw [combine, combine, scaleRows, zipWith_smul_scaleRows]

theorem zipWith_mul_getD : ∀ (x y : Vec α) (k : Nat),
    (List.zipWith (· * ·) x y).getD k 0 = x.getD k 0 * y.getD k 0
  | [], y, k => by simp
  | _ :: _, [], k => by simp
  | a :: x, b :: y, 0 => by simp
  | a :: x, b :: y, k + 1 => by
    have := zipWith_mul_getD x y k
    simpa using this

theorem scaleRows_matWF (J : Mat α) (m n : Nat) (hJ : MatWF J m n) (c : Vec α) (hc : c.length = m) :
    MatWF (scaleRows c J) m n := by
  refine ⟨by simp [scaleRows, hJ.1, hc], ?_⟩
  exact zipWith_smul_length n J hJ.2 c

theorem scaleRows_getD (J : Mat α) (m : Nat) (hJ : J.length = m) (c : Vec α) (hc : c.length = m)
    (j : Nat) (hj : j < m) : (scaleRows c J).getD j [] = smul (c.getD j 0) (J.getD j []) := by
  rw [getD_eq_getElem' _ [] j (by simp [scaleRows, hJ, hc, hj]), getD_eq_getElem' c 0 j (by omega),
    getD_eq_getElem' J [] j (by omega)]
  simp [scaleRows]

theorem lincomb_getD (a b : α) (c₁ c₂ : Vec α) (h : c₁.length = c₂.length) (k : Nat) :
    (vadd (smul a c₁) (smul b c₂)).getD k 0 = a * c₁.getD k 0 + b * c₂.getD k 0 := by
  rw [vadd_getD _ _ (by rw [smul_length, smul_length, h]), smul_getD, smul_getD]

theorem lincomb_length (a b : α) (c₁ c₂ : Vec α) (h : c₁.length = c₂.length) :
    (vadd (smul a c₁) (smul b c₂)).length = c₁.length := by
  rw [vadd_length _ _ (by rw [smul_length, smul_length, h]), smul_length]

theorem fixed_weights_linear' (J : Mat α) (m n : Nat) (hJ : MatWF J m n) (w c₁ c₂ : Vec α) (a b : α)
    (hw : w.length = m) (h₁ : c₁.length = m) (h₂ : c₂.length = m) :
    combine n (scaleRows (vadd (smul a c₁) (smul b c₂)) J) w =
      vadd (smul a (combine n (scaleRows c₁ J) w)) (smul b (combine n (scaleRows c₂ J) w)) := by
  have hl : ∀ v : Vec α, (combine n J v).length = n := combine_length n J hJ.2
  have h12 : c₁.length = c₂.length := by omega
  simp only [combine_scaleRows']
  apply vec_ext n _ _ (hl _) (by rw [lincomb_length _ _ _ _ (by rw [hl, hl]), hl])
  intro k hk
  rw [lincomb_getD _ _ _ _ (by rw [hl, hl]),
    combine_getD J m n hJ _ (by simp [lincomb_length a b c₁ c₂ h12, h₁, hw]) k hk,
    combine_getD J m n hJ _ (by simp [h₁, hw]) k hk,
    combine_getD J m n hJ _ (by simp [h₂, hw]) k hk, Finset.mul_sum, Finset.mul_sum,
    ← Finset.sum_add_distrib]
  apply Finset.sum_congr rfl
  intro i _
  rw [zipWith_mul_getD, zipWith_mul_getD, zipWith_mul_getD, lincomb_getD _ _ _ _ h12]
  ring

/-! ### PCGrad in vector space -/

theorem pcRow_fold_scale (J : Mat α) (m : Nat) (hJ : J.length = m) (c : Vec α) (hc : c.length = m)
    (hpos : ∀ x ∈ c, 0 < x) (i : Nat) (hi : i < m) : ∀ (perm : List Nat) (hp : ∀ j ∈ perm, j < m)
    (g : Vec α),
    perm.foldl (fun (g : Vec α) j =>
      if j = i then g else
        let gj := (scaleRows c J).getD j []
        let ip := dot gj g
        if ip < 0 then vsub g (smul (ip / dot gj gj) gj) else g) (smul (c.getD i 0) g) =
    smul (c.getD i 0) (perm.foldl (fun (g : Vec α) j =>
      if j = i then g else
        let gj := J.getD j []
        let ip := dot gj g
        if ip < 0 then vsub g (smul (ip / dot gj gj) gj) else g) g)
  | [], _, g => rfl
  | j :: perm, hp, g => by
    have hj : j < m := hp j (by simp)
    have hp' : ∀ j ∈ perm, j < m := fun k hk => hp k (by simp [hk])
    have hci : 0 < c.getD i 0 := hpos _ (getD_mem c 0 i (by omega))
    have hcj : 0 < c.getD j 0 := hpos _ (getD_mem c 0 j (by omega))
    rw [List.foldl_cons, List.foldl_cons]
    by_cases hji : j = i
    · simp only [hji, if_true]
      exact pcRow_fold_scale J m hJ c hc hpos i hi perm hp' g
    · simp only [hji, if_false]
      rw [scaleRows_getD J m hJ c hc j hj, dot_smul_left, dot_smul_right, dot_smul_left,
        dot_smul_right]
      have hsign : c.getD j 0 * (c.getD i 0 * dot (J.getD j []) g) < 0 ↔ dot (J.getD j []) g < 0 := by
        rw [← mul_assoc]
        constructor
        · intro h
          by_contra h'
          exact absurd h (not_lt.mpr (mul_nonneg (mul_pos hcj hci).le (not_lt.mp h')))
        · intro h
          exact mul_neg_of_pos_of_neg (mul_pos hcj hci) h
      by_cases hip : dot (J.getD j []) g < 0
      · rw [if_pos (hsign.mpr hip), if_pos hip, ← pcRow_fold_scale J m hJ c hc hpos i hi perm hp']
        congr 1
        rw [smul_vsub, smul_smul', smul_smul']
        congr 2
        by_cases hgg : dot (J.getD j []) (J.getD j []) = 0
        · rw [hgg, mul_zero, mul_zero, div_zero, div_zero, zero_mul, mul_zero]
        · have := hcj.ne'
          field_simp
      · rw [if_neg (fun h => hip (hsign.mp h)), if_neg hip]
        exact pcRow_fold_scale J m hJ c hc hpos i hi perm hp' g

theorem pcRow_scale' (J : Mat α) (m : Nat) (hJ : J.length = m) (c : Vec α) (hc : c.length = m)
    (hpos : ∀ x ∈ c, 0 < x) (i : Nat) (hi : i < m) (perm : List Nat) (hp : ∀ j ∈ perm, j < m) :
    pcRow (scaleRows c J) i perm = smul (c.getD i 0) (pcRow J i perm) := by
  rw [pcRow, pcRow, scaleRows_getD J m hJ c hc i hi]
  exact pcRow_fold_scale J m hJ c hc hpos i hi perm hp _

theorem getD_perms_lt (perms : List (List Nat)) (m : Nat) (hp : ∀ p ∈ perms, ∀ j ∈ p, j < m) (i : Nat) :
    ∀ j ∈ perms.getD i [], j < m := by
  by_cases hi : i < perms.length
  · exact hp _ (getD_mem perms [] i hi)
  · rw [getD_of_le perms [] i (not_lt.mp hi)]
    intro j hj
    simp at hj

/-! ### ConFIG -/

theorem unitRows_scaleRows : ∀ (c : Vec α) (J : Mat α) (d : Vec α), c.length = J.length →
    (∀ x ∈ c, 0 < x) → unitRows (scaleRows c J) (List.zipWith (· * ·) c d) = unitRows J d
  | [], [], d, _, _ => by simp [unitRows, scaleRows]
  | [], _ :: _, d, h, _ => by simp at h
  | _ :: _, [], d, h, _ => by simp at h
  | a :: c, r :: J, [], _, _ => by simp [unitRows, scaleRows]
  | a :: c, r :: J, di :: d, h, hpos => by
    have ha : a ≠ 0 := (hpos a (by simp)).ne'
    have ih := unitRows_scaleRows c J d (by simpa using h) (fun x hx => hpos x (by simp [hx]))
    simp only [unitRows, scaleRows] at ih ⊢
    simp only [List.zipWith_cons_cons, ih, List.cons.injEq, and_true, smul, List.map_map]
    apply List.map_congr_left
    intro x _
    simp only [Function.comp]
    exact mul_div_mul_left x di ha

theorem scaleRows_len_sum (c : Vec α) (J : Mat α) (best : Vec α) :
    ((scaleRows c J).map fun row => dot row best).sum = dot c (matVec J best) := by
  rw [dot, matVec, scaleRows, List.map_zipWith, List.zipWith_map_right]
  simp only [dot_smul_left]

theorem dot_lincomb_left (a b : α) (c₁ c₂ z : Vec α) (h : c₁.length = c₂.length) :
    dot (vadd (smul a c₁) (smul b c₂)) z = a * dot c₁ z + b * dot c₂ z := by
  have hl := lincomb_length a b c₁ c₂ h
  rw [dot_eq_left c₁.length _ z hl.le, dot_eq_left c₁.length c₁ z le_rfl,
    dot_eq_left c₁.length c₂ z h.ge, toFn_vadd _ _ _ (by rw [smul_length, smul_length, h]),
    toFn_smul, toFn_smul, add_dotProduct, smul_dotProduct, smul_dotProduct]
  rfl

theorem lincomb_pos (a b : α) (ha : 0 < a) (hb : 0 < b) (c₁ c₂ : Vec α)
    (hp₁ : ∀ x ∈ c₁, 0 < x) (hp₂ : ∀ x ∈ c₂, 0 < x) :
    ∀ x ∈ vadd (smul a c₁) (smul b c₂), 0 < x := by
  intro x hx
  obtain ⟨i, hi, rfl⟩ := List.mem_iff_getElem.mp hx
  simp only [vadd, smul, List.getElem_zipWith, List.getElem_map]
  simp only [vadd, smul, List.length_zipWith, List.length_map] at hi
  exact add_pos (mul_pos ha (hp₁ _ (List.getElem_mem _))) (mul_pos hb (hp₂ _ (List.getElem_mem _)))

theorem config_linear' (J : Mat α) (m n : Nat) (hJ : MatWF J m n) (d w c₁ c₂ : Vec α)
    (a b : α) (hd : d.length = m) (h₁ : c₁.length = m) (h₂ : c₂.length = m)
    (hp₁ : ∀ x ∈ c₁, 0 < x) (hp₂ : ∀ x ∈ c₂, 0 < x) (ha : 0 < a) (hb : 0 < b)
    (x₁ x₂ x₃ : Vec α)
    (e₁ : configVec (scaleRows c₁ J) (List.zipWith (· * ·) c₁ d) w n = some x₁)
    (e₂ : configVec (scaleRows c₂ J) (List.zipWith (· * ·) c₂ d) w n = some x₂)
    (e₃ : configVec (scaleRows (vadd (smul a c₁) (smul b c₂)) J)
            (List.zipWith (· * ·) (vadd (smul a c₁) (smul b c₂)) d) w n = some x₃) :
    x₃ = vadd (smul a x₁) (smul b x₂) := by
  have h12 : c₁.length = c₂.length := by omega
  have hl3 := lincomb_length a b c₁ c₂ h12
  obtain ⟨y₁, hy₁, -, hx₁⟩ := configVec_cases _ _ w n x₁ e₁
  obtain ⟨y₂, hy₂, -, hx₂⟩ := configVec_cases _ _ w n x₂ e₂
  obtain ⟨y₃, hy₃, -, hx₃⟩ := configVec_cases _ _ w n x₃ e₃
  rw [unitRows_scaleRows c₁ J d (by rw [h₁, hJ.1]) hp₁] at hy₁ hx₁
  rw [unitRows_scaleRows c₂ J d (by rw [h₂, hJ.1]) hp₂] at hy₂ hx₂
  rw [unitRows_scaleRows _ J d (by rw [hl3, h₁, hJ.1]) (lincomb_pos a b ha hb c₁ c₂ hp₁ hp₂)]
    at hy₃ hx₃
  have e21 : y₂ = y₁ := Option.some.inj (hy₂.symm.trans hy₁)
  have e31 : y₃ = y₁ := Option.some.inj (hy₃.symm.trans hy₁)
  subst e21 e31
  have hU := unitRows_matWF J m n hJ d hd
  have hbl : (combine n (unitRows J d) y₃).length = n := combine_length n _ hU.2 _
  generalize combine n (unitRows J d) y₃ = best at hx₁ hx₂ hx₃ hbl
  rw [scaleRows_len_sum] at hx₁ hx₂ hx₃
  rw [dot_lincomb_left a b c₁ c₂ _ h12] at hx₃
  rcases hx₃ with ⟨hbb, rfl⟩ | ⟨hbb, rfl⟩
  · rcases hx₁ with ⟨_, rfl⟩ | ⟨hbb', _⟩
    · rcases hx₂ with ⟨_, rfl⟩ | ⟨hbb', _⟩
      · apply vec_ext n _ _ (zeros_length n)
          (by rw [lincomb_length _ _ _ _ (by rw [zeros_length]), zeros_length])
        intro k _
        rw [lincomb_getD _ _ _ _ rfl, zeros_getD]
        ring
      · exact absurd hbb hbb'
    · exact absurd hbb hbb'
  · rcases hx₁ with ⟨hbb', _⟩ | ⟨_, rfl⟩
    · exact absurd hbb' hbb
    · rcases hx₂ with ⟨hbb', _⟩ | ⟨_, rfl⟩
      · exact absurd hbb' hbb
      · apply vec_ext n _ _ (by rw [smul_length, hbl])
          (by rw [lincomb_length _ _ _ _ (by rw [smul_length, smul_length]), smul_length, hbl])
        intro k _
        rw [lincomb_getD _ _ _ _ (by rw [smul_length, smul_length]), smul_getD, smul_getD, smul_getD]
        ring

end Tjd.Agg.Eqv
