/- shared helper lemmas for C04 / C18: `oneHot`, linearity of `combine`, the Gramian as `B Bᵀ` -/
import Mathlib.Algebra.Order.Field.Basic
import Mathlib.Tactic.Ring
import Mathlib.Tactic.Linarith
import TjdModel.Agg.Spec2
import TjdLemmas.QPLemmas
namespace Tjd.Agg
open Tjd Matrix
set_option linter.unusedSectionVars false
set_option linter.unusedSimpArgs false
set_option linter.unusedVariables false

variable {α : Type} [Field α] [LinearOrder α] [IsStrictOrderedRing α]

/-! ### `oneHot` -/

theorem oneHot_length (m t : Nat) : (oneHot m t : Vec α).length = m := by simp [oneHot]

theorem toFn_oneHot (m t : Nat) :
    toFn m (oneHot m t : Vec α) = fun i : Fin m => if (i : Nat) = t then 1 else 0 := by
  funext i
  simp [toFn, oneHot, List.getD_eq_getElem?_getD, List.getElem?_range i.2]

theorem toFn_oneHot_single (m t : Nat) (ht : t < m) :
    toFn m (oneHot m t : Vec α) = Pi.single (⟨t, ht⟩ : Fin m) 1 := by
  rw [toFn_oneHot]
  funext i
  by_cases h : (i : Nat) = t
  · have : i = ⟨t, ht⟩ := Fin.ext h
    subst this; simp
  · have : i ≠ ⟨t, ht⟩ := fun e => h (congrArg Fin.val e)
    simp [h, this]

/-! ### `combine` is linear -/

theorem combine_length (J : Mat α) (m n : Nat) (hJ : MatWF J m n) (w : Vec α) :
    (combine n J w).length = n := by
  apply vsum_length
  intro x hx
  obtain ⟨i, hi, rfl⟩ := List.mem_iff_getElem.mp hx
  rw [List.getElem_zipWith, smul_length]
  exact hJ.2 _ (List.getElem_mem _)

theorem combine_zeros (J : Mat α) (m n : Nat) (hJ : MatWF J m n) :
    combine n J (zeros m) = zeros n := by
  apply toFn_injective n _ _ (combine_length J m n hJ _) (zeros_length n)
  rw [toFn_combine J m n hJ _ (zeros_length m), toFn_zeros, toFn_zeros, zero_vecMul]

theorem combine_vadd (J : Mat α) (m n : Nat) (hJ : MatWF J m n) (x y : Vec α) (hx : x.length = m)
    (hy : y.length = m) : combine n J (vadd x y) = vadd (combine n J x) (combine n J y) := by
  have hl : (combine n J x).length = (combine n J y).length := by
    rw [combine_length J m n hJ, combine_length J m n hJ]
  apply toFn_injective n _ _ (combine_length J m n hJ _)
    (by rw [vadd_length _ _ hl, combine_length J m n hJ])
  rw [toFn_combine J m n hJ _ (by rw [vadd_length _ _ (by omega), hx]), toFn_vadd n _ _ hl,
    toFn_vadd m x y (by omega), add_vecMul, toFn_combine J m n hJ x hx, toFn_combine J m n hJ y hy]

theorem row_length (J : Mat α) (m n : Nat) (hJ : MatWF J m n) (i : Nat) (hi : i < m) :
    (J.getD i []).length = n := hJ.2 _ (getD_mem J [] i (by rw [hJ.1]; exact hi))

theorem toFn_row (J : Mat α) (m n : Nat) (i : Fin m) :
    toFn n (J.getD i []) = (toMat m n J).row i := rfl

theorem combine_oneHot (J : Mat α) (m n : Nat) (hJ : MatWF J m n) (i : Nat) (hi : i < m) :
    combine n J (oneHot m i) = J.getD i [] := by
  apply toFn_injective n _ _ (combine_length J m n hJ _) (row_length J m n hJ i hi)
  rw [toFn_combine J m n hJ _ (oneHot_length m i), toFn_oneHot_single m i hi, single_one_vecMul]
  rfl

theorem combine_foldl_vadd (J : Mat α) (m n : Nat) (hJ : MatWF J m n) :
    ∀ (ws : List (Vec α)) (acc : Vec α), acc.length = m → (∀ w ∈ ws, w.length = m) →
      combine n J (ws.foldl vadd acc) = (ws.map (combine n J)).foldl vadd (combine n J acc)
  | [], acc, _, _ => rfl
  | w :: ws, acc, hacc, hall => by
    have hw : w.length = m := hall w (by simp)
    rw [List.foldl_cons, List.map_cons, List.foldl_cons,
      combine_foldl_vadd J m n hJ ws (vadd acc w) (by rw [vadd_length _ _ (by omega), hacc])
        (fun x hx => hall x (by simp [hx])), combine_vadd J m n hJ acc w hacc hw]

theorem combine_vsum (J : Mat α) (m n : Nat) (hJ : MatWF J m n) (ws : List (Vec α))
    (hall : ∀ w ∈ ws, w.length = m) :
    combine n J (vsum m ws) = vsum n (ws.map (combine n J)) := by
  rw [vsum, combine_foldl_vadd J m n hJ ws _ (zeros_length m) hall, combine_zeros J m n hJ]
  rfl

/-! ### the Gramian -/

theorem gram_length (J : Mat α) : (gram J).length = J.length := by simp [gram]

theorem gram_row (J : Mat α) (i : Nat) (hi : i < J.length) :
    (gram J).getD i [] = J.map (dot (J.getD i [])) := by
  simp [gram, List.getD_eq_getElem?_getD, List.getElem?_map, List.getElem?_eq_getElem hi]

theorem gram_getD (J : Mat α) (i j : Nat) (hi : i < J.length) (hj : j < J.length) :
    ((gram J).getD i []).getD j 0 = dot (J.getD i []) (J.getD j []) := by
  rw [gram_row J i hi]
  simp [List.getD_eq_getElem?_getD, List.getElem?_map, List.getElem?_eq_getElem hj]

theorem gram_symmSquare (J : Mat α) (m n : Nat) (hJ : MatWF J m n) : SymmSquare (gram J) m := by
  have hm := hJ.1
  refine ⟨by rw [gram_length, hm], ?_, ?_⟩
  · intro row hrow
    obtain ⟨i, hi, rfl⟩ := List.mem_iff_getElem.mp hrow
    simp [gram, hm]
  · intro i j hi hj
    rw [gram_getD J i j (by omega) (by omega), gram_getD J j i (by omega) (by omega), dot_comm']

theorem toMat_gram (J : Mat α) (m n : Nat) (hJ : MatWF J m n) :
    toMat m m (gram J) = toMat m n J * (toMat m n J)ᵀ := by
  ext i j
  rw [toMat_apply, gram_getD J i j (by rw [hJ.1]; exact i.2) (by rw [hJ.1]; exact j.2),
    dot_rows J m n hJ]

theorem qfF_gram {m n : Nat} (B : Matrix (Fin m) (Fin n) α) (f g : Fin m → α) :
    f ⬝ᵥ (B * Bᵀ) *ᵥ g = (f ᵥ* B) ⬝ᵥ (g ᵥ* B) := by
  rw [← mulVec_mulVec, dotProduct_mulVec, mulVec_transpose]

theorem qf_gram (J : Mat α) (m n : Nat) (hJ : MatWF J m n) (v : Vec α) (hv : v.length = m) :
    qf (gram J) v = dot (combine n J v) (combine n J v) := by
  rw [qf_eq m _ v hv.le, toMat_gram J m n hJ, qfF_gram,
    dot_eq_left n _ _ (combine_length J m n hJ v).le, toFn_combine J m n hJ v hv]

theorem gram_psd (J : Mat α) (m n : Nat) (hJ : MatWF J m n) : PosSemidef (gram J) m := by
  intro v hv
  rw [qf_eq m _ v hv.le, toMat_gram J m n hJ, qfF_gram]
  exact dotProduct_self_nonneg' _

/-- `(G w)_j = ⟨row_j, Jᵀw⟩` -/
theorem dot_gram_row (J : Mat α) (m n : Nat) (hJ : MatWF J m n) (j : Nat) (hj : j < m) (w : Vec α)
    (hw : w.length = m) :
    dot ((gram J).getD j []) w = dot (J.getD j []) (combine n J w) := by
  rw [dot_eq_right m _ w hw.le, dot_eq_left n _ _ (row_length J m n hJ j hj).le,
    toFn_combine J m n hJ w hw]
  have e : toFn m ((gram J).getD j []) = (toMat m m (gram J)).row ⟨j, hj⟩ := rfl
  rw [e, toMat_gram J m n hJ]
  show ((toMat m n J * (toMat m n J)ᵀ) *ᵥ toFn m w) ⟨j, hj⟩ = _
  rw [← mulVec_mulVec, mulVec_transpose]
  rfl

end Tjd.Agg
