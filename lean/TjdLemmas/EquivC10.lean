/- helper lemmas for TjdProps/C10.lean: row permutations -/
import TjdLemmas.EquivC08
namespace Tjd.Agg.Eqv
open Tjd Matrix
set_option linter.unusedSectionVars false
set_option linter.unusedSimpArgs false
set_option linter.unusedVariables false

variable {α : Type} [Field α] [LinearOrder α] [IsStrictOrderedRing α] [Inhabited α]

theorem permV_matWF (J : Mat α) (m n : Nat) (hJ : MatWF J m n) (p : List Nat)
    (hp : p.Perm (List.range m)) : MatWF (permV p J) m n := by
  refine ⟨by rw [permV_length, perm_length hp], ?_⟩
  intro row hrow
  obtain ⟨i, hi, rfl⟩ := List.mem_map.mp hrow
  exact hJ.2 _ (getD_mem J _ i (by rw [hJ.1]; exact perm_lt hp i hi))

theorem map_perm_eq_range {β : Type} (p : List Nat) (m : Nat) (hp : p.length = m) (K : Nat → β) :
    p.map K = (List.range m).map (fun i => K (p.getD i 0)) := by
  conv_lhs => rw [eq_map_range' p m hp 0]
  rw [List.map_map]
  rfl

theorem combine_row_perm' (J : Mat α) (m n : Nat) (hJ : MatWF J m n) (w : Vec α)
    (hw : w.length = m) (p : List Nat) (hp : p.Perm (List.range m)) :
    combine n (permV p J) (permV p w) = combine n J w := by
  rw [combine_eq_vsum_range J m n hJ w hw, combine, permV, permV, zipWith_map_self]
  have e : p.map (fun i => smul (w.getD i default) (J.getD i default)) =
      p.map (fun i => smul (w.getD i 0) (J.getD i [])) := by
    apply List.map_congr_left
    intro i hi
    rw [getD_congr_default w default 0 i (by rw [hw]; exact perm_lt hp i hi)]
    rfl
  rw [e]
  apply vsum_perm n _ _ (hp.map _)
  intro x hx
  obtain ⟨i, hi, rfl⟩ := List.mem_map.mp hx
  rw [smul_length]
  exact getD_row_length J m n hJ i (perm_lt hp i hi)

theorem gram_row_perm' (J : Mat α) (m n : Nat) (hJ : MatWF J m n) (p : List Nat)
    (hp : ∀ i ∈ p, i < m) :
    gram (permV p J) = permV p ((gram J).map (permV p)) := by
  have hL : gram (permV p J) =
      p.map (fun i => p.map (fun j => dot (J.getD i []) (J.getD j []))) := by
    simp only [gram, permV, List.map_map]
    rfl
  rw [hL]
  show _ = p.map (fun i => List.getD ((gram J).map (permV p)) i default)
  apply List.map_congr_left
  intro i hi
  have hi' : i < J.length := by rw [hJ.1]; exact hp i hi
  rw [getD_map_row (permV p) (gram J) i (by rw [gram_length]; exact hi') [] default]
  have e : (gram J).getD i [] = J.map (dot (J.getD i [])) :=
    getD_map_row (fun r => J.map (dot r)) J i hi' [] []
  rw [e]
  show _ = p.map (fun j => List.getD (J.map (dot (J.getD i []))) j default)
  apply List.map_congr_left
  intro j hj
  have hj' : j < J.length := by rw [hJ.1]; exact hp j hj
  rw [getD_map_row _ J j hj' [] default]

/-! ### the projection QP under a permutation -/

theorem vle_length {u v : Vec α} (h : vle u v) : v.length = u.length := h.1.symm

theorem vle_permV (u w : Vec α) (m : Nat) (hu : u.length = m) (p : List Nat)
    (hp : p.Perm (List.range m)) (h : vle u w) : vle (permV p u) (permV p w) := by
  have hw : w.length = m := by rw [vle_length h, hu]
  refine ⟨by rw [permV_length, permV_length], ?_⟩
  intro i hi
  rw [permV_length] at hi
  have hlt : p[i] < m := perm_lt hp _ (List.getElem_mem _)
  rw [permV_getD p u i hi 0, permV_getD p w i hi 0, getD_congr_default u default 0 _ (by omega),
    getD_congr_default w default 0 _ (by omega)]
  exact h.2 _ (by omega)

theorem vle_of_permV (u v : Vec α) (m : Nat) (hu : u.length = m) (hv : v.length = m) (p : List Nat)
    (hp : p.Perm (List.range m)) (h : vle (permV p u) (permV p v)) : vle u v := by
  refine ⟨by omega, ?_⟩
  intro k hk
  have hkm : k < m := by omega
  have hkp : k ∈ p := hp.mem_iff.mpr (List.mem_range.mpr hkm)
  have ht : p.idxOf k < p.length := List.idxOf_lt_length_iff.mpr hkp
  have hpt : p[p.idxOf k] = k := List.getElem_idxOf ht
  have := h.2 (p.idxOf k) (by rw [permV_length]; exact ht)
  rw [permV_getD p u _ ht 0, permV_getD p v _ ht 0, hpt,
    getD_congr_default u default 0 _ (by omega), getD_congr_default v default 0 _ (by omega)] at this
  exact this

theorem permV_surj (m : Nat) (p : List Nat) (hp : p.Perm (List.range m)) (v' : Vec α)
    (hv' : v'.length = m) : ∃ v : Vec α, v.length = m ∧ permV p v = v' := by
  refine ⟨(List.range m).map (fun k => v'.getD (p.idxOf k) 0), by simp, ?_⟩
  have hpl := perm_length hp
  apply List.ext_getElem (by rw [permV_length, hpl, hv'])
  intro t h1 h2
  have ht : t < p.length := by rw [permV_length] at h1; exact h1
  have hlt : p[t] < m := perm_lt hp _ (List.getElem_mem _)
  rw [permV_getElem, map_range_getD _ m _ hlt, (perm_nodup hp).idxOf_getElem t ht,
    getD_eq_getElem' v' 0 t h2]

theorem matVec_permV (G : Mat α) (m : Nat) (hG1 : G.length = m) (hG2 : ∀ row ∈ G, row.length = m)
    (v : Vec α) (hv : v.length = m) (p : List Nat) (hp : p.Perm (List.range m)) :
    matVec (permV p (G.map (permV p))) (permV p v) = permV p (matVec G v) := by
  simp only [matVec, permV, List.map_map]
  apply List.map_congr_left
  intro i hi
  have hi' : i < G.length := by rw [hG1]; exact perm_lt hp i hi
  simp only [Function.comp]
  rw [getD_map_row _ G i hi' default default, getD_map_row _ G i hi' default default]
  exact dot_permV p m hp _ v (hG2 _ (getD_mem G _ i hi')) hv

theorem qf_permV (G : Mat α) (m : Nat) (hG1 : G.length = m) (hG2 : ∀ row ∈ G, row.length = m)
    (v : Vec α) (hv : v.length = m) (p : List Nat) (hp : p.Perm (List.range m)) :
    qf (permV p (G.map (permV p))) (permV p v) = qf G v := by
  rw [qf, qf, matVec_permV G m hG1 hG2 v hv p hp]
  exact dot_permV p m hp v _ hv (by rw [matVec_length, hG1])

theorem isQPMin_perm' (G : Mat α) (m : Nat) (hG : SymmSquare G m) (u w : Vec α)
    (hu : u.length = m) (p : List Nat) (hp : p.Perm (List.range m)) (h : IsQPMin G u w) :
    IsQPMin (permV p (G.map (permV p))) (permV p u) (permV p w) := by
  have hw : w.length = m := by rw [vle_length h.1, hu]
  refine ⟨vle_permV u w m hu p hp h.1, ?_⟩
  intro v' hv'
  have hv'l : v'.length = m := by rw [vle_length hv', permV_length, perm_length hp]
  obtain ⟨v, hvl, rfl⟩ := permV_surj m p hp v' hv'l
  rw [qf_permV G m hG.1 hG.2.1 w hw p hp, qf_permV G m hG.1 hG.2.1 v hvl p hp]
  exact h.2 v (vle_of_permV u v m hu hvl p hp hv')

/-! ### DualProj / UPGrad -/

theorem permV_getD_getD (G : Mat α) (m : Nat) (hG1 : G.length = m) (hG2 : ∀ row ∈ G, row.length = m)
    (p : List Nat) (hp : p.Perm (List.range m)) (a b : Nat) (ha : a < p.length) (hb : b < p.length) :
    ((permV p (G.map (permV p))).getD a []).getD b 0 = (G.getD p[a] []).getD p[b] 0 := by
  have hpa : p[a] < m := perm_lt hp _ (List.getElem_mem _)
  have hpb : p[b] < m := perm_lt hp _ (List.getElem_mem _)
  rw [permV_getD p _ a ha [], getD_map_row (permV p) G p[a] (by omega) [] default,
    permV_getD p _ b hb 0]
  exact getD_congr_default _ default 0 _ (by rw [hG2 _ (getD_mem G _ _ (by omega))]; exact hpb)

theorem regNormGram_permV (J : Mat α) (m n : Nat) (hJ : MatWF J m n) (s normEps regEps : α)
    (p : List Nat) (hp : p.Perm (List.range m)) :
    regNormGram (permV p J) s normEps regEps =
      permV p ((regNormGram J s normEps regEps).map (permV p)) := by
  have hJ' := permV_matWF J m n hJ p hp
  have hS := regNormGram_symmSquare J m n hJ s normEps regEps
  have hS' := regNormGram_symmSquare _ m n hJ' s normEps regEps
  have hpl := perm_length hp
  apply mat_ext m m _ _ ⟨hS'.1, hS'.2.1⟩
  · refine ⟨by rw [permV_length, hpl], ?_⟩
    intro row hrow
    obtain ⟨i, hi, rfl⟩ := List.mem_map.mp hrow
    have hi' : i < m := perm_lt hp i hi
    rw [getD_map_row (permV p) _ i (by rw [hS.1]; exact hi') [] default, permV_length, hpl]
  · intro a b ha hb
    have hpa : p[a] < m := perm_lt hp _ (List.getElem_mem _)
    have hpb : p[b] < m := perm_lt hp _ (List.getElem_mem _)
    rw [permV_getD_getD _ m hS.1 hS.2.1 p hp a b (by omega) (by omega),
      regNormGram_getD _ s normEps regEps a b (by rw [hJ'.1]; exact ha) (by rw [hJ'.1]; exact hb),
      regNormGram_getD J s normEps regEps _ _ (by rw [hJ.1]; exact hpa) (by rw [hJ.1]; exact hpb),
      permV_getD p J a (by omega) [], permV_getD p J b (by omega) []]
    have : (p[a] = p[b]) ↔ (a = b) := perm_inj hp a b (by omega) (by omega)
    simp only [this]
    rfl

theorem dualproj_row_perm' (J : Mat α) (m n : Nat) (hJ : MatWF J m n)
    (s normEps regEps : α) (hre : 0 < regEps) (u : Vec α) (hu : u.length = m) (p : List Nat)
    (hp : p.Perm (List.range m)) (w w' : Vec α) (mg mg' : α)
    (h : dualprojWeights J s normEps regEps u = some (w, mg))
    (h' : dualprojWeights (permV p J) s normEps regEps (permV p u) = some (w', mg')) :
    combine n (permV p J) w' = combine n J w := by
  have hJ' := permV_matWF J m n hJ p hp
  have hS := regNormGram_symmSquare J m n hJ s normEps regEps
  have hpl := perm_length hp
  obtain ⟨hmin, _⟩ := dualproj_proj J m n hJ s normEps regEps hre u w hu mg h
  obtain ⟨_, huniq⟩ := dualproj_proj _ m n hJ' s normEps regEps hre (permV p u) w'
    (by rw [permV_length, hpl]) mg' h'
  have hw : w.length = m := by rw [vle_length hmin.1, hu]
  have := isQPMin_perm' _ m hS u w hu p hp hmin
  rw [← regNormGram_permV J m n hJ s normEps regEps p hp] at this
  rw [← huniq _ this]
  exact combine_row_perm' J m n hJ w hw p hp

theorem permV_vsum (m : Nat) (ws : List (Vec α)) (hall : ∀ x ∈ ws, x.length = m) (p : List Nat)
    (hp : p.Perm (List.range m)) :
    permV p (vsum m ws) = vsum m (ws.map (permV p)) := by
  have hpl := perm_length hp
  have hall' : ∀ x ∈ ws.map (permV p), x.length = m := by
    intro x hx
    obtain ⟨y, _, rfl⟩ := List.mem_map.mp hx
    rw [permV_length, hpl]
  apply vec_ext m _ _ (by rw [permV_length, hpl]) (vsum_length m _ hall')
  intro t ht
  have hpt : p[t]'(by omega) < m := perm_lt hp _ (List.getElem_mem _)
  rw [permV_getD p _ t (by omega) 0,
    getD_congr_default _ default 0 _ (by rw [vsum_length m ws hall]; exact hpt),
    vsum_getD m _ ws hall, vsum_getD m _ _ hall', List.map_map]
  congr 1
  apply List.map_congr_left
  intro x hx
  simp only [Function.comp]
  rw [permV_getD p x t (by omega) 0]
  exact (getD_congr_default _ default 0 _ (by rw [hall x hx]; exact hpt)).symm

theorem unit_permV (u : Vec α) (m : Nat) (hu : u.length = m) (p : List Nat)
    (hp : p.Perm (List.range m)) (i : Nat) (hi : i < p.length) :
    ((List.range m).map fun j => if j = i then (permV p u).getD i 0 else 0) =
      permV p ((List.range m).map fun j => if j = p[i] then u.getD p[i] 0 else 0) := by
  have hpl := perm_length hp
  have hpi : p[i] < m := perm_lt hp _ (List.getElem_mem _)
  apply List.ext_getElem (by rw [permV_length, hpl]; simp)
  intro t h1 h2
  have ht : t < m := by simpa using h1
  have hpt : p[t]'(by omega) < m := perm_lt hp _ (List.getElem_mem _)
  rw [permV_getElem, map_range_getD _ m _ hpt, List.getElem_map, List.getElem_range,
    permV_getD p u i hi 0, getD_congr_default u default 0 _ (by omega)]
  have : (p[t]'(by omega) = p[i]) ↔ (t = i) := perm_inj hp t i (by omega) hi
  simp only [this]

theorem upgrad_row_perm' (J : Mat α) (m n : Nat) (hJ : MatWF J m n)
    (s normEps regEps : α) (hre : 0 < regEps) (u : Vec α) (hu : u.length = m) (p : List Nat)
    (hp : p.Perm (List.range m)) (w w' : Vec α) (mg mg' : α)
    (h : upgradWeights J s normEps regEps u = some (w, mg))
    (h' : upgradWeights (permV p J) s normEps regEps (permV p u) = some (w', mg')) :
    combine n (permV p J) w' = combine n J w := by
  have hJ' := permV_matWF J m n hJ p hp
  have hS := regNormGram_symmSquare J m n hJ s normEps regEps
  have hS' := regNormGram_symmSquare _ m n hJ' s normEps regEps
  have hP' := regNormGram_pd _ m n hJ' s normEps regEps hre
  have hpl := perm_length hp
  obtain ⟨ws, hwsl, rfl, hmin⟩ := upgrad_sum_proj J m n hJ s normEps regEps hre u w hu mg h
  obtain ⟨ws', hwsl', rfl, hmin'⟩ := upgrad_sum_proj _ m n hJ' s normEps regEps hre (permV p u) w'
    (by rw [permV_length, hpl]) mg' h'
  have hall : ∀ x ∈ ws, x.length = m := by
    intro x hx
    obtain ⟨i, hi, rfl⟩ := List.mem_iff_getElem.mp hx
    have := vle_length (hmin i (by omega)).1
    rw [getD_eq_getElem' ws [] i hi] at this
    rw [this]; simp
  have hkey : ∀ i, i < m → ws'.getD i [] = permV p (ws.getD (p.getD i 0) []) := by
    intro i hi
    have hip : i < p.length := by omega
    have hpi : p[i] < m := perm_lt hp _ (List.getElem_mem _)
    rw [getD_eq_getElem' p 0 i hip]
    have h1 := isQPMin_perm' _ m hS _ _ (by simp) p hp (hmin p[i] hpi)
    rw [← regNormGram_permV J m n hJ s normEps regEps p hp, ← unit_permV u m hu p hp i hip] at h1
    exact isQPMin_unique _ m hS' hP' _ _ _ (by simp) (hmin' i hi) h1
  have hws' : ws' = p.map (fun k => permV p (ws.getD k [])) := by
    rw [map_perm_eq_range p m hpl, eq_map_range' ws' m hwsl' []]
    apply List.map_congr_left
    intro i hi
    exact hkey i (List.mem_range.mp hi)
  have hperm : vsum m ws' = permV p (vsum m ws) := by
    rw [permV_vsum m ws hall p hp, hws']
    have e : ws.map (permV p) = (List.range m).map (fun k => permV p (ws.getD k [])) := by
      conv_lhs => rw [eq_map_range' ws m hwsl []]
      rw [List.map_map]; rfl
    rw [e]
    apply vsum_perm m _ _ (hp.map _)
    intro x hx
    obtain ⟨k, _, rfl⟩ := List.mem_map.mp hx
    rw [permV_length, hpl]
  rw [hperm]
  exact combine_row_perm' J m n hJ _ (vsum_length m ws hall) p hp

/-! ### TrimmedMean / GradDrop -/

theorem col_permV_perm (J : Mat α) (m : Nat) (hJ : J.length = m) (p : List Nat)
    (hp : p.Perm (List.range m)) (c : Nat) : (col (permV p J) c).Perm (col J c) := by
  rw [col, col]
  exact (permV_perm p J (by rw [hJ]; exact hp)).map _

theorem col_permV (J : Mat α) (m : Nat) (hJ : J.length = m) (p : List Nat)
    (hp : p.Perm (List.range m)) (c : Nat) : col (permV p J) c = permV p (col J c) := by
  simp only [col, permV, List.map_map]
  apply List.map_congr_left
  intro i hi
  simp only [Function.comp]
  rw [getD_map_row _ J i (by rw [hJ]; exact perm_lt hp i hi) default default]

/-- one output coordinate of GradDrop as a function of the column, the leak vector and the sample -/
def gdCell (column leak : Vec α) (uc : α) : α :=
  let s := column.sum
  let a := (column.map absV).sum
  let pos : Bool := if a = 0 then false else decide (uc < (1 + s / a) / (1 + 1))
  let neg : Bool := if a = 0 then false else decide ((1 + s / a) / (1 + 1) < uc)
  (column.zipIdx.map fun (x, i) =>
    let mask : α := (if pos && decide (0 < x) then 1 else 0) + (if neg && decide (x < 0) then 1 else 0)
    let l := leak.getD i 0
    (l + (1 - l) * mask) * x).sum

theorem graddrop_eq (J : Mat α) (leak U : Vec α) (n : Nat) :
    graddrop J leak U n = (List.range n).map fun c => gdCell (col J c) leak (U.getD c 0) := rfl

theorem zipIdx_map_permV (column leak : Vec α) (m : Nat) (hc : column.length = m)
    (hl : leak.length = m) (p : List Nat) (hp : p.Perm (List.range m)) (H : α → α → α) :
    ((permV p column).zipIdx.map fun (x, i) => H x ((permV p leak).getD i 0)) =
      p.map (fun k => H (column.getD k 0) (leak.getD k 0)) := by
  apply List.ext_getElem (by simp [permV])
  intro t h1 h2
  have ht : t < p.length := by simpa using h2
  have hpt : p[t] < m := perm_lt hp _ (List.getElem_mem _)
  simp only [List.getElem_map, List.getElem_zipIdx, zero_add]
  rw [permV_getElem, permV_getD p leak t ht 0, getD_congr_default column default 0 _ (by omega),
    getD_congr_default leak default 0 _ (by omega)]

theorem gdCell_perm (column leak : Vec α) (m : Nat) (hc : column.length = m)
    (hl : leak.length = m) (p : List Nat) (hp : p.Perm (List.range m)) (uc : α) :
    gdCell (permV p column) (permV p leak) uc = gdCell column leak uc := by
  have hperm := permV_perm p column (by rw [hc]; exact hp)
  have e1 : (permV p column).sum = column.sum := hperm.sum_eq
  have e2 : ((permV p column).map absV).sum = (column.map absV).sum := (hperm.map _).sum_eq
  simp only [gdCell, e1, e2]
  let H : α → α → α := fun x l =>
    (l + (1 - l) * ((if ((if (column.map absV).sum = 0 then false else
        decide (uc < (1 + column.sum / (column.map absV).sum) / (1 + 1))) && decide (0 < x)) then 1 else 0) +
      (if ((if (column.map absV).sum = 0 then false else
        decide ((1 + column.sum / (column.map absV).sum) / (1 + 1) < uc)) && decide (x < 0)) then 1 else 0))) * x
  have hL := zipIdx_map_permV column leak m hc hl p hp H
  have hR := zipIdx_map_eq_range column (fun x i => H x (leak.getD i 0)) 0
  show ((permV p column).zipIdx.map fun (x, i) => H x ((permV p leak).getD i 0)).sum =
    (column.zipIdx.map fun (x, i) => H x (leak.getD i 0)).sum
  rw [hL, hR, hc]
  exact (hp.map _).sum_eq

theorem graddrop_row_perm' (m n : Nat) (J : Mat α) (hJ : MatWF J m n) (leak U : Vec α)
    (hl : leak.length = m) (p : List Nat) (hp : p.Perm (List.range m)) :
    graddrop (permV p J) (permV p leak) U n = graddrop J leak U n := by
  rw [graddrop_eq, graddrop_eq]
  apply List.map_congr_left
  intro c _
  rw [col_permV J m hJ.1 p hp c]
  exact gdCell_perm (col J c) leak m (by simp [col, hJ.1]) hl p hp _

end Tjd.Agg.Eqv
