/- EXISTENCE of the minimiser of  min vᵀAv  s.t.  u ≤ v  for a symmetric positive definite `A`, over an
   arbitrary linearly ordered field (purely algebraic: no completeness, no topology), and minimiser ⇒ KKT.
   Helper for TjdProps/C03c.lean.

   Idea (finite descent over the faces of the feasible set): for `T : Finset (Fin m)` the face `F_T` is
   `{v | u ≤ v ∧ v = u off T}`.  By strong induction on `T` every face has a minimiser: the unconstrained
   minimiser `c` of `q` on the affine hull of `F_T` exists by linear algebra (an injective endomorphism of a
   finite-dimensional space is surjective); if it is feasible it is the answer, otherwise every point of `F_T`
   can be moved along the segment towards `c` (which does not increase `q`) until it hits a smaller face. -/
import Mathlib.Algebra.Order.Field.Basic
import Mathlib.LinearAlgebra.FiniteDimensional.Basic
import Mathlib.Data.Finset.Max
import Mathlib.Tactic.Linarith
import Mathlib.Tactic.Ring
import TjdModel.Agg.Spec
import TjdLemmas.QPLemmas
namespace Tjd.Agg
open Tjd Matrix
set_option linter.unusedSectionVars false

/-! ### abstract statements on `Fin m → α` -/
section abstract
variable {α : Type} [Field α] [LinearOrder α] [IsStrictOrderedRing α] {m : Nat}

/-- the quadratic form along a line: `q(w + t d) = q(w) + 2 t (d·Aw) + t² q(d)` -/
theorem qfF_line_qpx (A : Matrix (Fin m) (Fin m) α) (hA : Aᵀ = A) (w d : Fin m → α) (t : α) :
    (w + t • d) ⬝ᵥ A *ᵥ (w + t • d) =
      w ⬝ᵥ A *ᵥ w + 2 * t * (d ⬝ᵥ A *ᵥ w) + t * t * (d ⬝ᵥ A *ᵥ d) := by
  have hs := qfF_symm A hA w d
  simp only [mulVec_add, mulVec_smul, add_dotProduct, dotProduct_add, smul_dotProduct,
    dotProduct_smul, smul_eq_mul]
  rw [hs]; ring

/-- a point of the segment between two feasible points is feasible -/
theorem seg_feasible (u w v : Fin m → α) (h1 : u ≤ w) (hv : u ≤ v) (t : α) (ht0 : 0 ≤ t)
    (ht1 : t ≤ 1) : u ≤ w + t • (v - w) := by
  intro i
  have a := mul_nonneg (sub_nonneg.2 ht1) (sub_nonneg.2 (h1 i))
  have b := mul_nonneg ht0 (sub_nonneg.2 (hv i))
  simp only [Pi.add_apply, Pi.smul_apply, Pi.sub_apply, smul_eq_mul]
  linarith

/-- variational inequality at a minimiser: `0 ≤ (v - w)·Aw` for every feasible `v` -/
theorem var_ineq_fn (A : Matrix (Fin m) (Fin m) α) (hA : Aᵀ = A) (u w : Fin m → α) (h1 : u ≤ w)
    (hmin : ∀ v, u ≤ v → w ⬝ᵥ A *ᵥ w ≤ v ⬝ᵥ A *ᵥ v) (v : Fin m → α) (hv : u ≤ v) :
    0 ≤ (v - w) ⬝ᵥ A *ᵥ w := by
  by_contra hneg
  have hg : (v - w) ⬝ᵥ A *ᵥ w < 0 := not_le.mp hneg
  have key : ∀ t : α, 0 ≤ t → t ≤ 1 →
      0 ≤ 2 * t * ((v - w) ⬝ᵥ A *ᵥ w) + t * t * ((v - w) ⬝ᵥ A *ᵥ (v - w)) := by
    intro t ht0 ht1
    have h := hmin _ (seg_feasible u w v h1 hv t ht0 ht1)
    rw [qfF_line_qpx A hA] at h
    linarith
  generalize (v - w) ⬝ᵥ A *ᵥ w = g at hg key
  generalize (v - w) ⬝ᵥ A *ᵥ (v - w) = Q at key
  by_cases hQ : Q ≤ -g
  · have := key 1 zero_le_one le_rfl
    linarith
  · have hQ' : -g < Q := not_le.mp hQ
    have hQpos : 0 < Q := by linarith
    have ht0 : 0 < -g / Q := div_pos (by linarith) hQpos
    have ht1 : -g / Q < 1 := (div_lt_one hQpos).mpr hQ'
    have hk := key (-g / Q) ht0.le ht1.le
    have e : -g / Q * Q = -g := div_mul_cancel₀ _ hQpos.ne'
    have e2 : 2 * (-g / Q) * g + -g / Q * (-g / Q) * Q = -g / Q * g := by
      rw [mul_assoc (-g / Q) (-g / Q) Q, e]; ring
    rw [e2] at hk
    have := mul_neg_of_pos_of_neg ht0 hg
    linarith

/-- a minimiser of the QP is a KKT point (dual feasibility and complementary slackness) -/
theorem kkt_of_min_fn (A : Matrix (Fin m) (Fin m) α) (hA : Aᵀ = A)
    (_hpsd : ∀ f : Fin m → α, 0 ≤ f ⬝ᵥ A *ᵥ f) (u w : Fin m → α) (h1 : u ≤ w)
    (hmin : ∀ v, u ≤ v → w ⬝ᵥ A *ᵥ w ≤ v ⬝ᵥ A *ᵥ v) :
    0 ≤ A *ᵥ w ∧ (w - u) ⬝ᵥ A *ᵥ w = 0 := by
  have hvi := var_ineq_fn A hA u w h1 hmin
  have hdual : 0 ≤ A *ᵥ w := by
    intro i
    have hfe : u ≤ w + Pi.single i 1 := by
      intro j
      have := h1 j
      by_cases hj : j = i
      · subst hj; simp only [Pi.add_apply, Pi.single_eq_same]; linarith
      · simp only [Pi.add_apply, Pi.single_eq_of_ne hj, add_zero]; exact this
    have := hvi _ hfe
    rwa [add_sub_cancel_left, single_one_dotProduct] at this
  refine ⟨hdual, le_antisymm ?_ ?_⟩
  · have := hvi u le_rfl
    rw [← neg_sub w u, neg_dotProduct] at this
    linarith
  · exact dotProduct_nonneg' _ _ (fun i => sub_nonneg.mpr (h1 i)) hdual

/-- the linear map whose zero set describes the `T`-candidates: `A x` on `T`, `x` itself off `T` -/
def faceMap (A : Matrix (Fin m) (Fin m) α) (T : Finset (Fin m)) :
    (Fin m → α) →ₗ[α] (Fin m → α) where
  toFun x := fun i => if i ∈ T then (A *ᵥ x) i else x i
  map_add' x y := by
    funext i
    by_cases h : i ∈ T <;> simp [h, mulVec_add]
  map_smul' c x := by
    funext i
    by_cases h : i ∈ T <;> simp [h, mulVec_smul]

theorem faceMap_apply (A : Matrix (Fin m) (Fin m) α) (T : Finset (Fin m)) (x : Fin m → α)
    (i : Fin m) : faceMap A T x i = if i ∈ T then (A *ᵥ x) i else x i := rfl

theorem faceMap_injective (A : Matrix (Fin m) (Fin m) α)
    (hpd : ∀ f : Fin m → α, f ≠ 0 → 0 < f ⬝ᵥ A *ᵥ f) (T : Finset (Fin m)) :
    Function.Injective (faceMap A T) := by
  refine (injective_iff_map_eq_zero (faceMap A T)).mpr fun x hx => ?_
  by_contra hne
  have hpos := hpd x hne
  have h0 : x ⬝ᵥ A *ᵥ x = 0 := by
    apply Finset.sum_eq_zero
    intro i _
    have hi := congrFun hx i
    rw [faceMap_apply] at hi
    by_cases h : i ∈ T
    · rw [if_pos h] at hi
      rw [hi]; simp
    · rw [if_neg h] at hi
      rw [hi]; simp
  linarith

/-- the unconstrained minimiser on the affine face where only the coordinates in `T` move -/
theorem candidate_exists (A : Matrix (Fin m) (Fin m) α)
    (hpd : ∀ f : Fin m → α, f ≠ 0 → 0 < f ⬝ᵥ A *ᵥ f) (u : Fin m → α) (T : Finset (Fin m)) :
    ∃ c : Fin m → α, (∀ i, i ∉ T → c i = u i) ∧ ∀ i, i ∈ T → (A *ᵥ c) i = 0 := by
  obtain ⟨c, hc⟩ := (LinearMap.injective_iff_surjective.mp (faceMap_injective A hpd T))
    (fun i => if i ∈ T then 0 else u i)
  refine ⟨c, fun i hi => ?_, fun i hi => ?_⟩
  · have := congrFun hc i
    rwa [faceMap_apply, if_neg hi, if_neg hi] at this
  · have := congrFun hc i
    rwa [faceMap_apply, if_pos hi, if_pos hi] at this

/-- the cross term vanishes on the face -/
theorem cross_zero_qpx (A : Matrix (Fin m) (Fin m) α) (T : Finset (Fin m)) (c v : Fin m → α)
    (hoff : ∀ i, i ∉ T → c i = v i) (hon : ∀ i, i ∈ T → (A *ᵥ c) i = 0) :
    (c - v) ⬝ᵥ A *ᵥ c = 0 := by
  apply Finset.sum_eq_zero
  intro i _
  by_cases h : i ∈ T
  · rw [hon i h, mul_zero]
  · rw [Pi.sub_apply, hoff i h, sub_self, zero_mul]

/-- moving towards the face minimiser does not increase the quadratic form -/
theorem qfF_seg_le (A : Matrix (Fin m) (Fin m) α) (hA : Aᵀ = A)
    (hpsd : ∀ f : Fin m → α, 0 ≤ f ⬝ᵥ A *ᵥ f) (v c : Fin m → α)
    (hcross : (c - v) ⬝ᵥ A *ᵥ c = 0) (t : α) (ht0 : 0 ≤ t) (ht1 : t ≤ 1) :
    (v + t • (c - v)) ⬝ᵥ A *ᵥ (v + t • (c - v)) ≤ v ⬝ᵥ A *ᵥ v := by
  rw [qfF_line_qpx A hA]
  have hq := hpsd (c - v)
  have e : (c - v) ⬝ᵥ A *ᵥ v = -((c - v) ⬝ᵥ A *ᵥ (c - v)) := by
    have : (c - v) ⬝ᵥ A *ᵥ (c - v) = (c - v) ⬝ᵥ A *ᵥ c - (c - v) ⬝ᵥ A *ᵥ v := by
      rw [mulVec_sub, dotProduct_sub]
    rw [hcross] at this
    linarith
  rw [e]
  have h2 : 0 ≤ 2 - t := by linarith
  nlinarith [mul_nonneg (mul_nonneg ht0 hq) h2]

/-- if the face minimiser `c` is infeasible, every point of the face `F_T` can be moved, without increasing the
    quadratic form, to a point of a strictly smaller face `F_{T \ {j}}` -/
theorem boundary_step (A : Matrix (Fin m) (Fin m) α) (hA : Aᵀ = A)
    (hpsd : ∀ f : Fin m → α, 0 ≤ f ⬝ᵥ A *ᵥ f) (u : Fin m → α) (T : Finset (Fin m))
    (c : Fin m → α) (hcoff : ∀ i, i ∉ T → c i = u i) (hcon : ∀ i, i ∈ T → (A *ᵥ c) i = 0)
    (hinf : ¬ u ≤ c) (v : Fin m → α) (hv : u ≤ v) (hvoff : ∀ i, i ∉ T → v i = u i) :
    ∃ j, j ∈ T ∧ ∃ v' : Fin m → α, u ≤ v' ∧ (∀ i, i ∉ T.erase j → v' i = u i) ∧
      v' ⬝ᵥ A *ᵥ v' ≤ v ⬝ᵥ A *ᵥ v := by
  have hB : (T.filter fun i => c i < u i).Nonempty := by
    simp only [Pi.le_def, not_forall, not_le] at hinf
    obtain ⟨i, hi⟩ := hinf
    refine ⟨i, Finset.mem_filter.mpr ⟨?_, hi⟩⟩
    by_contra hT
    exact absurd (hcoff i hT) hi.ne
  obtain ⟨j, hjB, hjmin⟩ := Finset.exists_min_image _
    (fun i => (v i - u i) / (v i - c i)) hB
  obtain ⟨hjT, hjc⟩ := Finset.mem_filter.mp hjB
  have hden : ∀ i, c i < u i → 0 < v i - c i := fun i hi => by have := hv i; linarith
  have hmul : ∀ i, c i < u i → (v i - u i) / (v i - c i) * (v i - c i) = v i - u i :=
    fun i hi => div_mul_cancel₀ _ (hden i hi).ne'
  have ht0 : 0 ≤ (v j - u j) / (v j - c j) :=
    div_nonneg (sub_nonneg.mpr (hv j)) (hden j hjc).le
  have ht1 : (v j - u j) / (v j - c j) ≤ 1 :=
    ((div_lt_one (hden j hjc)).mpr (by linarith)).le
  have hmulj := hmul j hjc
  have hjmin' : ∀ i, i ∈ T → c i < u i →
      (v j - u j) / (v j - c j) ≤ (v i - u i) / (v i - c i) :=
    fun i hiT hci => hjmin i (Finset.mem_filter.mpr ⟨hiT, hci⟩)
  generalize (v j - u j) / (v j - c j) = t at hjmin' hmulj ht0 ht1
  refine ⟨j, hjT, v + t • (c - v), ?_, ?_, ?_⟩
  · intro i
    simp only [Pi.add_apply, Pi.smul_apply, Pi.sub_apply, smul_eq_mul]
    by_cases hiT : i ∈ T
    · by_cases hci : c i < u i
      · have h2 := mul_le_mul_of_nonneg_right (hjmin' i hiT hci) (hden i hci).le
        rw [hmul i hci] at h2
        linarith
      · have a := mul_nonneg (sub_nonneg.2 ht1) (sub_nonneg.2 (hv i))
        have b := mul_nonneg ht0 (sub_nonneg.2 (not_lt.mp hci))
        linarith
    · rw [hcoff i hiT, hvoff i hiT]; simp
  · intro i hi
    simp only [Pi.add_apply, Pi.smul_apply, Pi.sub_apply, smul_eq_mul]
    by_cases hij : i = j
    · subst hij
      linarith
    · have hiT : i ∉ T := fun h => hi (Finset.mem_erase.mpr ⟨hij, h⟩)
      rw [hcoff i hiT, hvoff i hiT]; simp
  · exact qfF_seg_le A hA hpsd v c (cross_zero_qpx A T c v (fun i hi => by rw [hcoff i hi, hvoff i hi]) hcon)
      t ht0 ht1

/-- every face `F_T = {v | u ≤ v, v = u off T}` of the feasible set has a minimiser -/
theorem face_min_exists (A : Matrix (Fin m) (Fin m) α) (hA : Aᵀ = A)
    (hpd : ∀ f : Fin m → α, f ≠ 0 → 0 < f ⬝ᵥ A *ᵥ f) (u : Fin m → α) (T : Finset (Fin m)) :
    ∃ w : Fin m → α, u ≤ w ∧ (∀ i, i ∉ T → w i = u i) ∧
      ∀ v : Fin m → α, u ≤ v → (∀ i, i ∉ T → v i = u i) → w ⬝ᵥ A *ᵥ w ≤ v ⬝ᵥ A *ᵥ v := by
  have hpsd : ∀ f : Fin m → α, 0 ≤ f ⬝ᵥ A *ᵥ f := by
    intro f
    by_cases hf : f = 0
    · rw [hf]; simp
    · exact (hpd f hf).le
  induction T using Finset.strongInduction with
  | H T ih =>
    obtain ⟨c, hcoff, hcon⟩ := candidate_exists A hpd u T
    by_cases hfeas : u ≤ c
    · refine ⟨c, hfeas, hcoff, fun v _ hvoff => ?_⟩
      have h := qfF_seg_le A hA hpsd v c
        (cross_zero_qpx A T c v (fun i hi => by rw [hcoff i hi, hvoff i hi]) hcon) 1 zero_le_one le_rfl
      rwa [one_smul, add_sub_cancel] at h
    · have ih' : ∀ i, i ∈ T → ∃ w : Fin m → α, u ≤ w ∧ (∀ k, k ∉ T.erase i → w k = u k) ∧
          ∀ v : Fin m → α, u ≤ v → (∀ k, k ∉ T.erase i → v k = u k) →
            w ⬝ᵥ A *ᵥ w ≤ v ⬝ᵥ A *ᵥ v :=
        fun i hi => ih (T.erase i) (Finset.erase_ssubset hi)
      choose! W hW using ih'
      obtain ⟨j0, hj0, _, _, _, _⟩ := boundary_step A hA hpsd u T c hcoff hcon hfeas u le_rfl
        (fun _ _ => rfl)
      obtain ⟨i0, hi0T, hi0min⟩ := Finset.exists_min_image T (fun i => W i ⬝ᵥ A *ᵥ W i) ⟨j0, hj0⟩
      refine ⟨W i0, (hW i0 hi0T).1, fun k hk => (hW i0 hi0T).2.1 k
        (fun h => hk (Finset.mem_of_mem_erase h)), fun v hv hvoff => ?_⟩
      obtain ⟨j, hjT, v', hv', hv'off, hq⟩ :=
        boundary_step A hA hpsd u T c hcoff hcon hfeas v hv hvoff
      exact ((hi0min j hjT).trans ((hW j hjT).2.2 v' hv' hv'off)).trans hq

/-- EXISTENCE of a KKT point of  min wᵀAw  s.t.  u ≤ w  for symmetric positive definite `A`,
    over any linearly ordered field -/
theorem qp_exists_fn (A : Matrix (Fin m) (Fin m) α) (hA : Aᵀ = A)
    (hpd : ∀ f : Fin m → α, f ≠ 0 → 0 < f ⬝ᵥ A *ᵥ f) (u : Fin m → α) :
    ∃ w, u ≤ w ∧ 0 ≤ A *ᵥ w ∧ (w - u) ⬝ᵥ A *ᵥ w = 0 := by
  obtain ⟨w, hw, _, hmin⟩ := face_min_exists A hA hpd u Finset.univ
  have hpsd : ∀ f : Fin m → α, 0 ≤ f ⬝ᵥ A *ᵥ f := by
    intro f
    by_cases hf : f = 0
    · rw [hf]; simp
    · exact (hpd f hf).le
  obtain ⟨h2, h3⟩ := kkt_of_min_fn A hA hpsd u w hw
    (fun v hv => hmin v hv (fun i hi => absurd (Finset.mem_univ i) hi))
  exact ⟨w, hw, h2, h3⟩

end abstract

/-! ### list level -/
section listlevel
variable {α : Type} [Field α] [LinearOrder α] [IsStrictOrderedRing α]

/-- converse of `zipWith_le_all` -/
theorem zipWith_all_of_le : ∀ (u w : Vec α), w.length = u.length →
    (∀ i, i < u.length → u.getD i 0 ≤ w.getD i 0) →
    (List.zipWith (fun ui wi => decide (ui ≤ wi)) u w).all id = true
  | [], _, _, _ => by simp
  | a :: u, [], h, _ => by simp at h
  | a :: u, b :: w, h, hle => by
    simp only [List.zipWith_cons_cons, List.all_cons, Bool.and_eq_true, id, decide_eq_true_eq]
    refine ⟨by simpa using hle 0 (by simp), ?_⟩
    apply zipWith_all_of_le u w (by simpa using h)
    intro i hi
    simpa using hle (i + 1) (by simpa using hi)

/-- a minimiser of the QP passes the Boolean KKT check (converse of `isQPMin_of_kktCheck`) -/
theorem kktCheck_of_isQPMin (G : Mat α) (m : Nat) (hG : SymmSquare G m) (hpd : PosDef G m)
    (u w : Vec α) (hu : u.length = m) (h : IsQPMin G u w) : kktCheck G u w = true := by
  have hvle := h.1
  rw [isQPMin_iff m G u w hu] at h
  obtain ⟨hw, hle, hmin⟩ := h
  obtain ⟨h2, h3⟩ := kkt_of_min_fn (toMat m m G) (toMat_symm m G hG)
    (psd_fn m G (psd_of_pd G m hpd)) (toFn m u) (toFn m w) hle hmin
  rw [← toFn_matVec m m G w hw.le] at h2 h3
  simp only [kktCheck, Bool.and_eq_true, decide_eq_true_eq, List.all_eq_true, beq_iff_eq]
  refine ⟨⟨⟨⟨by omega, by rw [matVec_length, hG.1, hu]⟩, ?_⟩, ?_⟩, ?_⟩
  · rw [← List.all_eq_true]
    exact zipWith_all_of_le u w (by omega) hvle.2
  · intro x hx
    obtain ⟨i, hi, rfl⟩ := List.mem_iff_getElem.mp hx
    have hi' : i < m := by rw [matVec_length, hG.1] at hi; exact hi
    have := h2 ⟨i, hi'⟩
    simpa [toFn, List.getD_eq_getElem?_getD, List.getElem?_eq_getElem hi] using this
  · rw [dot_eq_left m _ _ (by rw [vsub_length _ _ (by omega)]; omega), toFn_vsub m w u (by omega)]
    exact h3

/-- existence of the minimiser / KKT point, list level -/
theorem qp_exists_list (G : Mat α) (m : Nat) (hG : SymmSquare G m) (hpd : PosDef G m) (u : Vec α)
    (hu : u.length = m) : ∃ w, kktCheck G u w = true ∧ IsQPMin G u w := by
  obtain ⟨f, h1, h2, h3⟩ := qp_exists_fn (toMat m m G) (toMat_symm m G hG) (pd_fn m G hpd) (toFn m u)
  have hmin : IsQPMin G u (List.ofFn f) := by
    rw [isQPMin_iff m G u _ hu, toFn_ofFn]
    exact ⟨List.length_ofFn, h1, fun v hv => kkt_min_fn (toMat m m G) (toMat_symm m G hG)
      (psd_fn m G (psd_of_pd G m hpd)) (toFn m u) f v h2 h3 hv⟩
  exact ⟨List.ofFn f, kktCheck_of_isQPMin G m hG hpd u _ hu hmin, hmin⟩

/-- existence and uniqueness of the minimiser, list level -/
theorem qp_exists_unique_list (G : Mat α) (m : Nat) (hG : SymmSquare G m) (hpd : PosDef G m)
    (u : Vec α) (hu : u.length = m) : ∃ w, IsQPMin G u w ∧ ∀ w', IsQPMin G u w' → w' = w := by
  obtain ⟨w, _, hw⟩ := qp_exists_list G m hG hpd u hu
  exact ⟨w, hw, fun w' hw' => isQPMin_unique G m hG hpd u w' w hu hw' hw⟩

/-- DualProj: the projection of the preference vector exists and is unique -/
theorem dualproj_exists_unique (J : Mat α) (m n : Nat) (hJ : MatWF J m n) (s normEps regEps : α)
    (hre : 0 < regEps) (u : Vec α) (hu : u.length = m) :
    ∃ w, IsQPMin (regNormGram J s normEps regEps) u w ∧
      ∀ w', IsQPMin (regNormGram J s normEps regEps) u w' → w' = w :=
  qp_exists_unique_list _ m (regNormGram_symmSquare J m n hJ s normEps regEps)
    (regNormGram_pd J m n hJ s normEps regEps hre) u hu

theorem prefRow_length_qpx (m i : Nat) (x : α) : (prefRow m i x).length = m := by simp [prefRow]

/-- UPGrad: each of the projections it sums exists and is unique -/
theorem upgrad_exists_unique (J : Mat α) (m n : Nat) (hJ : MatWF J m n) (s normEps regEps : α)
    (hre : 0 < regEps) (u : Vec α) (_hu : u.length = m) (i : Nat) :
    ∃ w, IsQPMin (regNormGram J s normEps regEps) (prefRow m i (u.getD i 0)) w ∧
      ∀ w', IsQPMin (regNormGram J s normEps regEps) (prefRow m i (u.getD i 0)) w' → w' = w :=
  dualproj_exists_unique J m n hJ s normEps regEps hre _ (prefRow_length_qpx m i _)

end listlevel

end Tjd.Agg
