/- helper lemmas for TjdProps/C09b.lean -/
import Mathlib.Algebra.Order.Field.Basic
import TjdModel.Agg.Spec2
import TjdLemmas.QPLemmas
import TjdLemmas.GramLemmas
import TjdLemmas.QPGram
import TjdLemmas.EquivC09
namespace Tjd.Agg.C09b
open Tjd Tjd.Agg
set_option linter.unusedSectionVars false
set_option linter.unusedSimpArgs false
set_option linter.unusedVariables false

variable {α : Type} [Field α] [LinearOrder α] [IsStrictOrderedRing α]

end Tjd.Agg.C09b
